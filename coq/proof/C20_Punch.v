(* C20 proofs: codec algebra (for an arbitrary hash H), demultiplexer LTS, ServerPuncher routing. *)
From Hy Require Import model.C20_Punch.
From Coq Require Import ZArith Lia ZifyBool ZifyNat ZifyN.
Ltac Zify.zify_post_hook ::= Z.div_mod_to_equations.
Local Open Scope N_scope.

(* the header layout the model of EncodePunchPacket relies on *)
Example params_layout :
  (length punchMagic + 1 + PunchNonceSize = punchHeaderLen)%nat /\
  (punchSaltLen + punchHeaderLen = punchMinWireLen)%nat /\
  (punchMinWireLen + MaxPunchPadding = punchMaxWireLen)%nat.
Proof. repeat split; reflexivity. Qed.

(* ---------- bytes ---------- *)
Lemma byte_eqb_eq a b : Byte.eqb a b = true <-> a = b.
Proof. split; [apply Byte.byte_dec_bl | apply Byte.byte_dec_lb]. Qed.

Lemma bytes_eq_iff a b : bytes_eq a b = true <-> a = b.
Proof.
  revert b; induction a as [|x a IH]; intros [|y b]; cbn [bytes_eq]; try (split; intros; congruence).
  rewrite andb_true_iff, byte_eqb_eq, IH. split; [intros [-> ->]; reflexivity | intros E; inversion E; auto].
Qed.

Lemma bytes_eq_refl a : bytes_eq a a = true.
Proof. now apply bytes_eq_iff. Qed.

Lemma bytes_eq_false a b : bytes_eq a b = false <-> a <> b.
Proof.
  destruct (bytes_eq a b) eqn:E.
  - apply bytes_eq_iff in E. split; congruence.
  - split; auto. intros _ ->. rewrite bytes_eq_refl in E. discriminate.
Qed.

Lemma bxor_comm a b : bxor a b = bxor b a.
Proof. unfold bxor. now rewrite N.lxor_comm. Qed.

Lemma bxor_assoc a b c : bxor (bxor a b) c = bxor a (bxor b c).
Proof.
  unfold bxor. rewrite !b2n_n2b_small by (apply lxor_lt_256; apply b2n_lt).
  now rewrite N.lxor_assoc.
Qed.

Lemma bxor_x00_r a : bxor a x00 = a.
Proof. unfold bxor. change (b2n x00) with 0. rewrite N.lxor_0_r. apply n2b_b2n. Qed.

Lemma bxor_nilpotent a : bxor a a = x00.
Proof. unfold bxor. rewrite N.lxor_nilpotent. reflexivity. Qed.

Lemma bxor_cancel_r a b k : bxor a k = bxor b k -> a = b.
Proof. intros E. rewrite <- (bxor_involutive a k), E. apply bxor_involutive. Qed.

Lemma bxor_fixed a e : bxor a e = a -> e = x00.
Proof.
  intros E. assert (bxor (bxor a e) a = x00) by (rewrite E; apply bxor_nilpotent).
  rewrite (bxor_comm a e), bxor_assoc, bxor_nilpotent, bxor_x00_r in H. exact H.
Qed.

(* flipping bit b of a byte *)
Definition flipb (x : byte) (b : N) : byte := bxor x (n2b (2 ^ b)).

Lemma flipb_neq x b : b < 8 -> flipb x b <> x.
Proof.
  intros Hb E. apply bxor_fixed in E.
  assert (b = 0 \/ b = 1 \/ b = 2 \/ b = 3 \/ b = 4 \/ b = 5 \/ b = 6 \/ b = 7) as D by lia.
  destruct D as [->|[->|[->|[->|[->|[->|[->| ->]]]]]]]; discriminate E.
Qed.

Lemma flipb_bxor x b m : bxor (flipb x b) m = flipb (bxor x m) b.
Proof. unfold flipb. rewrite !bxor_assoc. f_equal. apply bxor_comm. Qed.

(* a single-bit flip never turns one valid type into a valid type *)
Lemma flip_type_invalid ty b : b < 8 -> valid_type ty = true ->
  valid_type (b2n (flipb (n2b ty) b)) = false.
Proof.
  intros Hb V. unfold valid_type in V.
  assert (ty = 1 \/ ty = 2) as [-> | ->].
  { apply orb_true_iff in V. destruct V as [V|V]; apply N.eqb_eq in V; [left|right]; exact V. }
  all: assert (b = 0 \/ b = 1 \/ b = 2 \/ b = 3 \/ b = 4 \/ b = 5 \/ b = 6 \/ b = 7) as D by lia;
       destruct D as [->|[->|[->|[->|[->|[->|[->| ->]]]]]]]; reflexivity.
Qed.

(* ---------- metadata ---------- *)
Lemma decode_hex_size_ok v size b : decode_hex_size v size = Ok b -> length b = size.
Proof.
  unfold decode_hex_size. destruct (hex_decode v); [|discriminate].
  destruct (Nat.eqb (length l) size) eqn:E; [|discriminate]. intros X; inversion X; subst.
  now apply Nat.eqb_eq.
Qed.

Lemma decode_hex_size_no_panic v size n : decode_hex_size v size <> Panic n.
Proof. unfold decode_hex_size. destruct (hex_decode v); [destruct (Nat.eqb _ _)|]; discriminate. Qed.

Lemma decode_meta_ok m n k : decode_meta m = Ok (n, k) ->
  length n = PunchNonceSize /\ length k = PunchObfsKeySize.
Proof.
  unfold decode_meta. destruct (decode_hex_size (m_nonce m) PunchNonceSize) eqn:E1; cbn [bind]; try discriminate.
  destruct (decode_hex_size (m_obfs m) PunchObfsKeySize) eqn:E2; cbn [bind]; try discriminate.
  intros X; inversion X; subst. split; eapply decode_hex_size_ok; eauto.
Qed.

Lemma decode_meta_no_panic m s : decode_meta m <> Panic s.
Proof.
  unfold decode_meta. destruct (decode_hex_size (m_nonce m) PunchNonceSize) eqn:E1; cbn [bind]; try discriminate.
  - destruct (decode_hex_size (m_obfs m) PunchObfsKeySize) eqn:E2; cbn [bind]; try discriminate.
    intros X; inversion X; subst. eapply decode_hex_size_no_panic; eauto.
  - intros X; inversion X; subst. eapply decode_hex_size_no_panic; eauto.
Qed.

Lemma valid_type_cases ty : valid_type ty = true <-> ty = 1 \/ ty = 2.
Proof.
  unfold valid_type. rewrite orb_true_iff, !N.eqb_eq. reflexivity.
Qed.

(* ---------- the mask ---------- *)
Lemma xor_cyc_length mask i p : length (xor_cyc mask i p) = length p.
Proof. revert i; induction p as [|b t IH]; intros i; cbn [xor_cyc length]; auto. Qed.

Lemma xor_cyc_involutive mask i p : xor_cyc mask i (xor_cyc mask i p) = p.
Proof.
  revert i; induction p as [|b t IH]; intros i; cbn [xor_cyc]; auto.
  now rewrite bxor_involutive, IH.
Qed.

Lemma xor_cyc_inj mask i p q : xor_cyc mask i p = xor_cyc mask i q -> p = q.
Proof. intros E. rewrite <- (xor_cyc_involutive mask i p), E. apply xor_cyc_involutive. Qed.

Lemma xor_cyc_app mask i a b :
  xor_cyc mask i (a ++ b) = xor_cyc mask i a ++ xor_cyc mask (i + length a) b.
Proof.
  revert i; induction a as [|x a IH]; intros i; cbn [xor_cyc app length].
  - now rewrite Nat.add_0_r.
  - rewrite IH. do 2 f_equal. f_equal. lia.
Qed.

Lemma xor_cyc_firstn mask i n p : firstn n (xor_cyc mask i p) = xor_cyc mask i (firstn n p).
Proof.
  revert i n; induction p as [|b t IH]; intros i [|n]; cbn [xor_cyc firstn]; auto.
  now rewrite IH.
Qed.

(* the first n bytes of the cycled mask *)
Definition mstream (mask : list byte) (n : nat) : list byte := xor_cyc mask 0 (repeat x00 n).

(* two lists xor-ed position-wise (shorter length) *)
Fixpoint zipxor (a b : list byte) : list byte :=
  match a, b with x :: a', y :: b' => bxor x y :: zipxor a' b' | _, _ => [] end.

Lemma bxor_x00_l a : bxor x00 a = a.
Proof. rewrite bxor_comm. apply bxor_x00_r. Qed.

Lemma xor_cyc_zip mask i p : xor_cyc mask i p = zipxor p (xor_cyc mask i (repeat x00 (length p))).
Proof.
  revert i; induction p as [|b t IH]; intros i; cbn [xor_cyc zipxor length repeat]; auto.
  now rewrite bxor_x00_l, <- IH.
Qed.

Lemma zipxor_cancel a b m : length a = length m -> length b = length m ->
  zipxor a m = zipxor b m -> a = b.
Proof.
  revert b m; induction a as [|x a IH]; intros [|y b] [|z m]; cbn [length zipxor]; try discriminate; auto.
  intros La Lb E. inversion E. f_equal; [eapply bxor_cancel_r; eauto | eapply (IH b m); eauto; lia].
Qed.

(* ---------- the codec, for an arbitrary hash ---------- *)
Definition hdr (ty : N) (nonce : list byte) : list byte := punchMagic ++ n2b ty :: nonce.

Lemma hdr_length ty nonce : length nonce = PunchNonceSize -> length (hdr ty nonce) = punchHeaderLen.
Proof. intros L. unfold hdr. rewrite app_length. cbn [length]. rewrite L. reflexivity. Qed.

Lemma plain_split (l : list byte) : (punchHeaderLen <= length l)%nat ->
  l = firstn (length punchMagic) l ++ nth (length punchMagic) l x00 ::
      firstn (punchHeaderLen - S (length punchMagic)) (skipn (S (length punchMagic)) l) ++ skipn punchHeaderLen l.
Proof.
  intros L. change punchHeaderLen with 25%nat in *. change (length punchMagic) with 8%nat.
  do 25 (destruct l as [|? l]; [cbn [length] in L; lia|]). reflexivity.
Qed.

Lemma hdr_parts ty nonce rest : length nonce = PunchNonceSize ->
  let l := hdr ty nonce ++ rest in
  firstn (length punchMagic) l = punchMagic /\
  nth (length punchMagic) l x00 = n2b ty /\
  firstn (punchHeaderLen - S (length punchMagic)) (skipn (S (length punchMagic)) l) = nonce /\
  skipn punchHeaderLen l = rest.
Proof.
  intros L. change PunchNonceSize with 16%nat in L.
  do 16 (destruct nonce as [|? nonce]; [cbn [length] in L; lia|]).
  destruct nonce; [|cbn [length] in L; lia].
  repeat split; reflexivity.
Qed.

Section Gen.
  Variable H : list byte -> list byte.

  Lemma length_window : forall p m,
    (length p < punchMinWireLen \/ punchMaxWireLen < length p)%nat ->
    exists e, decode_punch H p m = Err e.
  Proof.
    intros p m Hl. unfold decode_punch.
    destruct (Nat.ltb (length p) punchMinWireLen) eqn:E1; [eexists; reflexivity|].
    destruct (Nat.ltb punchMaxWireLen (length p)) eqn:E2; [eexists; reflexivity|].
    apply Nat.ltb_ge in E1, E2. lia.
  Qed.

  Lemma xor_punch_ok p key salt : H (key ++ salt) <> [] ->
    xor_punch H p key salt = Ok (xor_cyc (H (key ++ salt)) 0 p).
  Proof. intros Hn. unfold xor_punch. destruct p; [reflexivity|]. destruct (H (key ++ salt)); [congruence|reflexivity]. Qed.

  (* DecodePunchPacket accepts exactly the images of EncodePunchPacket under the same metadata *)
  Lemma decode_body_ok_iff packet nonce key ty pad :
    length nonce = PunchNonceSize -> (punchMinWireLen <= length packet)%nat ->
    (decode_body H packet nonce key = Ok (ty, pad) <->
     exists salt rest, length salt = punchSaltLen /\ length rest = pad /\ valid_type ty = true /\
                       H (key ++ salt) <> [] /\
                       packet = salt ++ xor_cyc (H (key ++ salt)) 0 (hdr ty nonce ++ rest)).
  Proof.
    intros Ln Lp. split.
    - unfold decode_body. set (salt := firstn punchSaltLen packet). set (tail := skipn punchSaltLen packet).
      assert (Lt : (punchHeaderLen <= length tail)%nat).
      { unfold tail. rewrite skipn_length. change punchMinWireLen with 33%nat in Lp.
        change punchSaltLen with 8%nat. change punchHeaderLen with 25%nat. lia. }
      unfold xor_punch. destruct tail as [|t0 tail'] eqn:Et; [cbn [length] in Lt; change punchHeaderLen with 25%nat in Lt; lia|].
      rewrite <- Et in *. destruct (H (key ++ salt)) as [|m0 mask'] eqn:Em; [cbn [bind]; destruct tail; discriminate|].
      rewrite <- Em in *. replace (match tail with [] => Ok (xor_cyc (H (key ++ salt)) 0 tail) | _ :: _ => Ok (xor_cyc (H (key ++ salt)) 0 tail) end)
        with (Ok (A:=list byte) (xor_cyc (H (key ++ salt)) 0 tail)) by (destruct tail; reflexivity).
      cbn [bind]. set (plain := xor_cyc (H (key ++ salt)) 0 tail).
      assert (Lpl : length plain = length tail) by apply xor_cyc_length.
      destruct (Nat.ltb (length plain) (length punchMagic)); [discriminate|].
      destruct (bytes_eq (firstn (length punchMagic) plain) punchMagic) eqn:Emag; cbn [negb]; [|discriminate].
      destruct (Nat.leb (length plain) (length punchMagic)); [discriminate|].
      destruct (valid_type (b2n (nth (length punchMagic) plain x00))) eqn:Ety; cbn [negb]; [|discriminate].
      destruct (Nat.ltb (length plain) punchHeaderLen || Nat.ltb punchHeaderLen (S (length punchMagic))); [discriminate|].
      destruct (bytes_eq _ nonce) eqn:Eno; cbn [negb]; [|discriminate].
      intros X; inversion X; subst ty pad; clear X.
      apply bytes_eq_iff in Emag, Eno.
      exists salt, (skipn punchHeaderLen plain). repeat split.
      + unfold salt. rewrite firstn_length. change punchMinWireLen with 33%nat in Lp. change punchSaltLen with 8%nat. lia.
      + rewrite skipn_length. reflexivity.
      + exact Ety.
      + rewrite Em. discriminate.
      + rewrite <- (firstn_skipn punchSaltLen packet) at 1. fold salt tail. f_equal.
        rewrite <- (xor_cyc_involutive (H (key ++ salt)) 0 tail). fold plain. f_equal.
        unfold hdr. rewrite n2b_b2n. rewrite <- Emag at 1. rewrite <- Eno at 1.
        rewrite <- app_assoc. cbn [app]. apply plain_split. lia.
    - intros (salt & rest & Ls & Lr & Vt & Hn & ->).
      unfold decode_body.
      rewrite firstn_app, Ls, Nat.sub_diag, firstn_O, app_nil_r.
      rewrite firstn_all2 by lia.
      rewrite skipn_app, Ls, Nat.sub_diag, skipn_O. rewrite skipn_all2 by lia. cbn [app].
      rewrite xor_punch_ok by exact Hn. cbn [bind]. rewrite xor_cyc_involutive.
      pose proof (hdr_parts ty nonce rest Ln) as (P1 & P2 & P3 & P4). cbv zeta in *.
      assert (Lh : length (hdr ty nonce ++ rest) = (punchHeaderLen + length rest)%nat)
        by (rewrite app_length, hdr_length; auto).
      rewrite Lh. rewrite P1, P2, P3, bytes_eq_refl, bytes_eq_refl.
      change (length punchMagic) with 8%nat. change punchHeaderLen with 25%nat.
      replace (Nat.ltb (25 + length rest) 8) with false by (symmetry; apply Nat.ltb_ge; lia).
      replace (Nat.leb (25 + length rest) 8) with false by (symmetry; apply Nat.leb_gt; lia).
      replace (Nat.ltb (25 + length rest) 25) with false by (symmetry; apply Nat.ltb_ge; lia).
      cbn [negb orb Nat.ltb Nat.leb].
      apply valid_type_cases in Vt. destruct Vt as [-> | ->]; cbn; repeat f_equal; lia.
  Qed.
End Gen.

(* flipping bit b of byte i (no change when i is out of range) *)
Fixpoint flip_at (p : list byte) (i : nat) (b : N) : list byte :=
  match p, i with
  | [], _ => []
  | x :: t, O => flipb x b :: t
  | x :: t, S j => x :: flip_at t j b
  end.

Lemma flip_at_length p i b : length (flip_at p i b) = length p.
Proof. revert i; induction p as [|x t IH]; intros [|i]; cbn [flip_at length]; auto. Qed.

Lemma flip_at_firstn_ge k p i b : (k <= i)%nat -> firstn k (flip_at p i b) = firstn k p.
Proof.
  revert p i; induction k as [|k IH]; intros p i Hk; [reflexivity|].
  destruct p as [|x t]; [reflexivity|]. destruct i as [|i]; [lia|].
  cbn [flip_at firstn]. f_equal. apply IH. lia.
Qed.

Lemma flip_at_skipn k p i b : (k <= i)%nat -> skipn k (flip_at p i b) = flip_at (skipn k p) (i - k) b.
Proof.
  revert p i; induction k as [|k IH]; intros p i Hk.
  - cbn [skipn]. now rewrite Nat.sub_0_r.
  - destruct p as [|x t]; [reflexivity|]. destruct i as [|i]; [lia|].
    cbn [flip_at skipn]. rewrite IH by lia. reflexivity.
Qed.

Lemma flip_at_firstn_lt k p i b : (i < k)%nat -> firstn k (flip_at p i b) = flip_at (firstn k p) i b.
Proof.
  revert p i; induction k as [|k IH]; intros p i Hk; [lia|].
  destruct p as [|x t]; [reflexivity|]. destruct i as [|i]; cbn [flip_at firstn]; [reflexivity|].
  f_equal. apply IH. lia.
Qed.

Lemma flip_at_xor mask s p i b : flip_at (xor_cyc mask s p) i b = xor_cyc mask s (flip_at p i b).
Proof.
  revert s i; induction p as [|x t IH]; intros s [|i]; cbn [flip_at xor_cyc]; auto.
  - now rewrite flipb_bxor.
  - now rewrite IH.
Qed.

Lemma flip_at_nth p i b : (i < length p)%nat -> nth i (flip_at p i b) x00 = flipb (nth i p x00) b.
Proof.
  revert i; induction p as [|x t IH]; intros [|i] L; cbn [length] in L; try lia; cbn [flip_at nth]; auto.
  apply IH. lia.
Qed.

Lemma hdr_nth_other ty ty' n j : j <> length punchMagic -> nth j (hdr ty n) x00 = nth j (hdr ty' n) x00.
Proof.
  intros Hj. unfold hdr. destruct (lt_dec j (length punchMagic)) as [L|L].
  - now rewrite !app_nth1 by exact L.
  - rewrite !app_nth2 by lia. destruct (j - length punchMagic)%nat eqn:E; [lia|reflexivity].
Qed.

Lemma hdr_nth_type ty n : nth (length punchMagic) (hdr ty n) x00 = n2b ty.
Proof. unfold hdr. rewrite app_nth2 by lia. now rewrite Nat.sub_diag. Qed.

Lemma bxor_swap a m a' m' : bxor a m = bxor a' m' -> bxor m m' = bxor a a'.
Proof.
  intros E. assert (m = bxor a (bxor a' m')).
  { rewrite <- E. rewrite <- bxor_assoc, bxor_nilpotent, bxor_x00_l. reflexivity. }
  subst m. rewrite (bxor_comm a' m'), <- !bxor_assoc.
  rewrite (bxor_assoc (bxor a m') a' m'), (bxor_comm a' m'), <- (bxor_assoc (bxor a m') m' a').
  now rewrite bxor_involutive.
Qed.

Lemma zipxor_swap a m a' m' : length a = length m -> length a' = length m' -> length a = length a' ->
  zipxor a m = zipxor a' m' -> zipxor m m' = zipxor a a'.
Proof.
  revert m a' m'; induction a as [|x a IH]; intros [|y m] [|x' a'] [|y' m']; cbn [length zipxor]; try discriminate; auto.
  intros L1 L2 L3 E. inversion E. f_equal; [now apply bxor_swap | apply IH; auto; lia].
Qed.

Lemma zipxor_cancel_l c a b : length a = length c -> length b = length c ->
  zipxor c a = zipxor c b -> a = b.
Proof.
  revert a b; induction c as [|z c IH]; intros [|x a] [|y b]; cbn [length zipxor]; try discriminate; auto.
  intros L1 L2 X. injection X as X1 X2. f_equal.
  - rewrite (bxor_comm z x), (bxor_comm z y) in X1. eapply bxor_cancel_r; eauto.
  - apply IH; auto; lia.
Qed.

Lemma mstream_length mask n : length (mstream mask n) = n.
Proof. unfold mstream. now rewrite xor_cyc_length, repeat_length. Qed.

Lemma mstream_firstn mask k n : (k <= n)%nat -> firstn k (mstream mask n) = mstream mask k.
Proof.
  intros L. unfold mstream. rewrite xor_cyc_firstn. f_equal.
  replace n with (k + (n - k))%nat by lia. rewrite repeat_app, firstn_app, repeat_length, Nat.sub_diag, firstn_O, app_nil_r.
  apply firstn_all2. rewrite repeat_length. lia.
Qed.

Section Gen2.
  Variable H : list byte -> list byte.

  Lemma decode_punch_no_panic p m : (forall x, H x <> []) -> forall s, decode_punch H p m <> Panic s.
  Proof.
    intros Hn s. unfold decode_punch.
    destruct (Nat.ltb (length p) punchMinWireLen) eqn:E1; [discriminate|].
    destruct (Nat.ltb punchMaxWireLen (length p)) eqn:E2; [discriminate|].
    apply Nat.ltb_ge in E1. change punchMinWireLen with 33%nat in E1.
    destruct (decode_meta m) as [[n k]| |s'] eqn:Em; cbn [bind fst snd]; [|discriminate|exfalso; eapply decode_meta_no_panic; eauto].
    unfold decode_body. rewrite xor_punch_ok by apply Hn. cbn [bind].
    rewrite xor_cyc_length, skipn_length. change punchSaltLen with 8%nat. change (length punchMagic) with 8%nat.
    change punchHeaderLen with 25%nat.
    replace (Nat.ltb (length p - 8) 8) with false by (symmetry; apply Nat.ltb_ge; lia).
    replace (Nat.leb (length p - 8) 8) with false by (symmetry; apply Nat.leb_gt; lia).
    replace (Nat.ltb (length p - 8) 25) with false by (symmetry; apply Nat.ltb_ge; lia).
    cbn [orb Nat.ltb Nat.leb].
    repeat match goal with |- context [if ?c then _ else _] => destruct c end; discriminate.
  Qed.

  (* DecodePunchPacket accepts exactly the packets EncodePunchPacket can produce under the same metadata *)
  Lemma decode_ok_iff p m ty pad :
    decode_punch H p m = Ok (ty, pad) <->
    exists salt rest, length salt = punchSaltLen /\ length rest = pad /\ (pad <= MaxPunchPadding)%nat /\
                      (forall n k, decode_meta m = Ok (n, k) -> H (k ++ salt) <> []) /\
                      encode_punch H ty m rest salt = Ok p.
  Proof.
    split.
    - unfold decode_punch.
      destruct (Nat.ltb (length p) punchMinWireLen) eqn:E1; [discriminate|].
      destruct (Nat.ltb punchMaxWireLen (length p)) eqn:E2; [discriminate|].
      apply Nat.ltb_ge in E1, E2.
      destruct (decode_meta m) as [[n k]| |s'] eqn:Em; cbn [bind fst snd]; try discriminate.
      destruct (decode_meta_ok _ _ _ Em) as [Ln Lk].
      intros D. apply decode_body_ok_iff in D; auto.
      destruct D as (salt & rest & Ls & Lr & Vt & Hn & ->).
      exists salt, rest. repeat split; auto.
      + rewrite app_length, xor_cyc_length, app_length, hdr_length in E2 by auto.
        change punchMaxWireLen with 1057%nat in E2. change punchHeaderLen with 25%nat in E2.
        change punchSaltLen with 8%nat in Ls. change MaxPunchPadding with 1024%nat. lia.
      + intros n' k' X. inversion X; subst. exact Hn.
      + unfold encode_punch. rewrite Vt, Em. cbn [negb bind fst snd]. unfold encode_body.
        change (punchMagic ++ n2b ty :: n ++ rest) with (punchMagic ++ (n2b ty :: n) ++ rest).
        rewrite app_assoc. fold (hdr ty n). rewrite xor_punch_ok by exact Hn. reflexivity.
    - intros (salt & rest & Ls & Lr & Lp & Hn & E).
      unfold encode_punch in E. destruct (valid_type ty) eqn:Vt; cbn [negb] in E; [|discriminate].
      destruct (decode_meta m) as [[n k]| |s'] eqn:Em; cbn [bind fst snd] in E; try discriminate.
      destruct (decode_meta_ok _ _ _ Em) as [Ln Lk].
      specialize (Hn n k eq_refl). unfold encode_body in E.
      change (punchMagic ++ n2b ty :: n ++ rest) with (punchMagic ++ (n2b ty :: n) ++ rest) in E.
      rewrite app_assoc in E. fold (hdr ty n) in E. rewrite xor_punch_ok in E by exact Hn.
      cbn [bind] in E.
      assert (Ep : p = salt ++ xor_cyc (H (k ++ salt)) 0 (hdr ty n ++ rest)) by congruence. subst p. clear E.
      unfold decode_punch.
      rewrite app_length, xor_cyc_length, app_length, hdr_length by auto.
      change punchSaltLen with 8%nat in Ls. rewrite Ls, Lr.
      change punchHeaderLen with 25%nat. change punchMinWireLen with 33%nat. change punchMaxWireLen with 1057%nat.
      change MaxPunchPadding with 1024%nat in Lp.
      replace (Nat.ltb (8 + (25 + pad)) 33) with false by (symmetry; apply Nat.ltb_ge; lia).
      replace (Nat.ltb 1057 (8 + (25 + pad))) with false by (symmetry; apply Nat.ltb_ge; lia).
      rewrite Em. cbn [bind fst snd].
      apply decode_body_ok_iff; auto.
      + rewrite app_length, xor_cyc_length, app_length, hdr_length by auto.
        change punchHeaderLen with 25%nat. change punchMinWireLen with 33%nat. lia.
      + exists salt, rest. repeat split; auto.
  Qed.

  Lemma roundtrip ty m padding salt :
    valid_type ty = true -> length salt = punchSaltLen -> (length padding <= MaxPunchPadding)%nat ->
    (exists n k, decode_meta m = Ok (n, k) /\ H (k ++ salt) <> []) ->
    exists pkt, encode_punch H ty m padding salt = Ok pkt /\
                length pkt = (punchMinWireLen + length padding)%nat /\
                decode_punch H pkt m = Ok (ty, length padding).
  Proof.
    intros Vt Ls Lp (n & k & Em & Hn).
    destruct (decode_meta_ok _ _ _ Em) as [Ln Lk].
    assert (E : encode_punch H ty m padding salt = Ok (salt ++ xor_cyc (H (k ++ salt)) 0 (hdr ty n ++ padding))).
    { unfold encode_punch. rewrite Vt, Em. cbn [negb bind fst snd]. unfold encode_body.
      change (punchMagic ++ n2b ty :: n ++ padding) with (punchMagic ++ (n2b ty :: n) ++ padding).
      rewrite app_assoc. fold (hdr ty n). rewrite xor_punch_ok by exact Hn. reflexivity. }
    eexists. split; [exact E|]. split.
    - rewrite app_length, xor_cyc_length, app_length, hdr_length by auto. rewrite Ls. reflexivity.
    - apply decode_ok_iff. exists salt, padding. repeat split; auto.
      intros n' k' X. rewrite Em in X. inversion X; subst. exact Hn.
  Qed.

  (* A packet encoded under (n, k) that decodes under (n', k'): same padding length, and the two
     masked headers coincide.  With the same key this forces the same nonce and type. *)
  Lemma cross_meta ty n k padding salt ty' n' k' pad' :
    length n = PunchNonceSize -> length n' = PunchNonceSize -> length salt = punchSaltLen ->
    (punchMinWireLen <= length (salt ++ xor_cyc (H (k ++ salt)) 0 (hdr ty n ++ padding)))%nat ->
    valid_type ty = true ->
    decode_body H (salt ++ xor_cyc (H (k ++ salt)) 0 (hdr ty n ++ padding)) n' k' = Ok (ty', pad') ->
    pad' = length padding /\
    xor_cyc (H (k ++ salt)) 0 (hdr ty n) = xor_cyc (H (k' ++ salt)) 0 (hdr ty' n') /\
    zipxor (mstream (H (k ++ salt)) punchHeaderLen) (mstream (H (k' ++ salt)) punchHeaderLen) = zipxor (hdr ty n) (hdr ty' n') /\
    mstream (H (k ++ salt)) (length punchMagic) = mstream (H (k' ++ salt)) (length punchMagic) /\
    (H (k ++ salt) = H (k' ++ salt) -> n' = n /\ ty' = ty).
  Proof.
    intros Ln Ln' Ls Lw Vt D.
    apply decode_body_ok_iff in D; auto.
    destruct D as (salt' & rest' & Ls' & Lr' & Vt' & Hn' & E).
    assert (salt' = salt /\ xor_cyc (H (k ++ salt)) 0 (hdr ty n ++ padding) = xor_cyc (H (k' ++ salt')) 0 (hdr ty' n' ++ rest')) as [-> Et].
    { apply (f_equal (firstn punchSaltLen)) in E as E1. apply (f_equal (skipn punchSaltLen)) in E as E2.
      rewrite !firstn_app, Ls, Ls', Nat.sub_diag, !firstn_O, !app_nil_r in E1.
      rewrite !firstn_all2 in E1 by lia.
      rewrite !skipn_app, Ls, Ls', Nat.sub_diag, !skipn_O in E2. rewrite !skipn_all2 in E2 by lia.
      cbn [app] in E2. split; auto. }
    assert (Lpad : length rest' = length padding).
    { apply (f_equal (@length byte)) in Et. rewrite !xor_cyc_length, !app_length, !hdr_length in Et by auto. lia. }
    assert (Eh : xor_cyc (H (k ++ salt)) 0 (hdr ty n) = xor_cyc (H (k' ++ salt)) 0 (hdr ty' n')).
    { apply (f_equal (firstn punchHeaderLen)) in Et. rewrite !xor_cyc_firstn in Et.
      rewrite !firstn_app, !hdr_length, Nat.sub_diag, !firstn_O, !app_nil_r in Et by auto.
      rewrite !firstn_all2 in Et by (rewrite hdr_length; auto). exact Et. }
    split; [lia|]. split; [exact Eh|]. split; [|split].
    - rewrite (xor_cyc_zip _ _ (hdr ty n)), (xor_cyc_zip _ _ (hdr ty' n')) in Eh. rewrite !hdr_length in Eh by auto.
      fold (mstream (H (k ++ salt)) punchHeaderLen) in Eh. fold (mstream (H (k' ++ salt)) punchHeaderLen) in Eh.
      apply zipxor_swap; rewrite ?mstream_length, ?hdr_length; auto.
    - apply (f_equal (firstn (length punchMagic))) in Eh. rewrite !xor_cyc_firstn in Eh.
      unfold hdr in Eh. rewrite !firstn_app, Nat.sub_diag, !firstn_O, !app_nil_r, !firstn_all in Eh.
      rewrite (xor_cyc_zip _ _ punchMagic), (xor_cyc_zip (H (k' ++ salt)) _ punchMagic) in Eh.
      fold (mstream (H (k ++ salt)) (length punchMagic)) in Eh. fold (mstream (H (k' ++ salt)) (length punchMagic)) in Eh.
      eapply zipxor_cancel_l; [| |exact Eh]; now rewrite mstream_length.
    - intros Hm. rewrite Hm in Eh. apply xor_cyc_inj in Eh. unfold hdr in Eh.
      apply app_inv_head in Eh. inversion Eh as [[Ety En]]. split; auto.
      apply valid_type_cases in Vt, Vt'. destruct Vt as [-> | ->], Vt' as [-> | ->]; auto; discriminate Ety.
  Qed.

  (* any single-bit flip inside magic, type or nonce makes a decodable packet undecodable under
     the same metadata (the salt, hence the mask, is untouched) *)
  Lemma header_flip p m ty pad i b :
    decode_punch H p m = Ok (ty, pad) ->
    (punchSaltLen <= i < punchMinWireLen)%nat -> b < 8 ->
    forall r, decode_punch H (flip_at p i b) m <> Ok r.
  Proof.
    intros D Hi Hb [ty2 pad2] D2.
    unfold decode_punch in D, D2. rewrite flip_at_length in D2.
    destruct (Nat.ltb (length p) punchMinWireLen) eqn:E1; [discriminate|].
    destruct (Nat.ltb punchMaxWireLen (length p)) eqn:E2; [discriminate|].
    apply Nat.ltb_ge in E1.
    destruct (decode_meta m) as [[n k]| |s'] eqn:Em; cbn [bind fst snd] in D, D2; try discriminate.
    destruct (decode_meta_ok _ _ _ Em) as [Ln Lk].
    apply decode_body_ok_iff in D; auto.
    apply decode_body_ok_iff in D2; auto; [|now rewrite flip_at_length].
    destruct D as (salt & rest & Ls & Lr & Vt & Hn & Ep).
    destruct D2 as (salt2 & rest2 & Ls2 & Lr2 & Vt2 & Hn2 & Ep2).
    assert (salt2 = salt).
    { apply (f_equal (firstn punchSaltLen)) in Ep2. rewrite flip_at_firstn_ge in Ep2 by lia.
      rewrite Ep in Ep2. rewrite !firstn_app, Ls, Ls2, Nat.sub_diag, !firstn_O, !app_nil_r in Ep2.
      rewrite !firstn_all2 in Ep2 by lia. congruence. }
    subst salt2.
    apply (f_equal (skipn punchSaltLen)) in Ep2. rewrite flip_at_skipn in Ep2 by lia. rewrite Ep in Ep2.
    rewrite !skipn_app, Ls, Nat.sub_diag, !skipn_O in Ep2. rewrite !skipn_all2 in Ep2 by lia. cbn [app] in Ep2.
    rewrite flip_at_xor in Ep2. apply xor_cyc_inj in Ep2.
    set (j := (i - punchSaltLen)%nat) in *.
    assert (Hj : (j < punchHeaderLen)%nat).
    { unfold j. change punchMinWireLen with 33%nat in Hi. change punchSaltLen with 8%nat in *. change punchHeaderLen with 25%nat. lia. }
    apply (f_equal (firstn punchHeaderLen)) in Ep2. rewrite flip_at_firstn_lt in Ep2 by exact Hj.
    rewrite !firstn_app, !hdr_length, Nat.sub_diag, !firstn_O, !app_nil_r in Ep2 by auto.
    rewrite !firstn_all2 in Ep2 by (rewrite hdr_length; auto).
    assert (Nj : nth j (flip_at (hdr ty n) j b) x00 = flipb (nth j (hdr ty n) x00) b)
      by (apply flip_at_nth; rewrite hdr_length; auto).
    rewrite Ep2 in Nj.
    destruct (Nat.eq_dec j (length punchMagic)) as [Ej|Ej].
    - rewrite Ej, !hdr_nth_type in Nj.
      pose proof (flip_type_invalid ty b Hb Vt) as F. rewrite <- Nj in F.
      apply valid_type_cases in Vt2. destruct Vt2 as [-> | ->]; discriminate F.
    - rewrite (hdr_nth_other ty2 ty n j Ej) in Nj. symmetry in Nj. now apply flipb_neq in Nj.
  Qed.
End Gen2.

(* ---------- the demultiplexer ---------- *)
Definition diverted (o : out) : bool := match o with OStun | OPunch _ => true | _ => false end.

Definition reg_find (id : list byte) (r : registry) : option rmeta :=
  match find (fun e => bytes_eq (fst e) id) r with Some e => Some (snd e) | None => None end.

Definition keys_nodup (r : registry) : Prop := NoDup (map fst r).

Section Demux.
  Variable H : list byte -> list byte.
  Variable is_stun : list byte -> bool.

  (* some currently registered attempt decodes the datagram *)
  Definition decodes_some (r : registry) (p : list byte) : Prop :=
    exists id m ty pad, In (id, m) r /\ decode_punch H p m = Ok (ty, pad).

  Lemma cands_spec r p ap ev :
    In ev (cands H r p ap) <->
    exists m, In (e_id ev, m) r /\ decode_punch H p m = Ok (e_ty ev, e_pad ev) /\ e_from ev = ap.
  Proof.
    unfold cands. rewrite in_flat_map. split.
    - intros ([id m] & Hin & Hev). cbn [fst snd] in Hev.
      destruct (decode_punch H p m) as [[ty pad]| |] eqn:D; cbn in Hev; try contradiction.
      destruct Hev as [<- | []]. cbn. exists m. auto.
    - intros (m & Hin & D & F). exists (e_id ev, m). split; auto. cbn [fst snd]. rewrite D.
      left. destruct ev; cbn in *. now subst.
  Qed.

  Lemma cands_nil_iff r p ap : cands H r p ap = [] <-> ~ decodes_some r p.
  Proof.
    split.
    - intros E (id & m & ty & pad & Hin & D).
      assert (In (mkEv id ap ty pad) (cands H r p ap)) by (apply cands_spec; exists m; auto).
      rewrite E in H0. contradiction.
    - intros N. destruct (cands H r p ap) as [|ev t] eqn:E; auto. exfalso. apply N.
      assert (In ev (cands H r p ap)) by (rewrite E; now left).
      apply cands_spec in H0. destruct H0 as (m & Hin & D & _). now exists (e_id ev), m, (e_ty ev), (e_pad ev).
  Qed.

  Hypothesis H_nonempty : forall x, H x <> [].

  Lemma any_panic_false r p : any_panic H r p = false.
  Proof.
    unfold any_panic. destruct (existsb _ r) eqn:E; auto.
    apply existsb_exists in E. destruct E as ([id m] & _ & P). cbn [snd] in P.
    destruct (decode_punch H p m) eqn:D; try discriminate. exfalso. eapply decode_punch_no_panic; eauto.
  Qed.

  (* one datagram through the body of the ReadFrom loop, in any state *)
  Lemma recv_spec s p from pick :
    exists s' o, step H is_stun s (ARecv p from pick) = Ok (s', o) /\
      d_reg s' = d_reg s /\ d_cap s' = d_cap s /\
      ((is_stun p = true /\ o = OStun /\ d_ev s' = d_ev s /\ d_stun s' = offer (d_cap s) (d_stun s) p) \/
       (is_stun p = false /\ exists ap ev m,
           addr_to_addrport from = Some ap /\ o = OPunch ev /\ In (e_id ev, m) (d_reg s) /\
           decode_punch H p m = Ok (e_ty ev, e_pad ev) /\ e_from ev = ap /\
           d_ev s' = offer (d_cap s) (d_ev s) ev /\ d_stun s' = d_stun s) \/
       (is_stun p = false /\ (addr_to_addrport from = None \/ ~ decodes_some (d_reg s) p) /\
        o = OPass p from /\ s' = s)).
  Proof.
    cbn [step]. unfold classify.
    destruct (is_stun p) eqn:Es.
    { cbn [bind]. do 2 eexists. split; [reflexivity|]. cbn. repeat split. left. auto. }
    destruct (addr_to_addrport from) as [ap|] eqn:Ea.
    2:{ cbn [bind]. do 2 eexists. split; [reflexivity|]. repeat split. right; right. auto. }
    rewrite any_panic_false.
    destruct (cands H (d_reg s) p ap) as [|c cs] eqn:Ec.
    { cbn [bind]. do 2 eexists. split; [reflexivity|]. repeat split. right; right.
      repeat split; auto. right. now apply cands_nil_iff in Ec. }
    cbn [bind]. do 2 eexists. split; [reflexivity|]. cbn [d_reg d_cap d_ev d_stun]. repeat split. right; left. split; auto.
    set (ev := nth _ (c :: cs) _).
    assert (Hin : In ev (cands H (d_reg s) p ap)).
    { rewrite Ec. apply nth_In. apply Nat.mod_upper_bound. cbn [length]. lia. }
    apply cands_spec in Hin. destruct Hin as (m & Hin & D & F).
    exists ap, ev, m. repeat split; auto.
  Qed.

  (* the property's first sentence, as an iff *)
  Lemma divert_iff s p from pick :
    exists s' o, step H is_stun s (ARecv p from pick) = Ok (s', o) /\
      (diverted o = true <->
         is_stun p = true \/ (addr_to_addrport from <> None /\ decodes_some (d_reg s) p)) /\
      (diverted o = false -> o = OPass p from /\ s' = s) /\
      (forall ev, o = OPunch ev ->
         is_stun p = false /\ Some (e_from ev) = addr_to_addrport from /\
         exists m, In (e_id ev, m) (d_reg s) /\ decode_punch H p m = Ok (e_ty ev, e_pad ev)) /\
      d_reg s' = d_reg s.
  Proof.
    destruct (recv_spec s p from pick) as (s' & o & E & Hr & Hc & Cases).
    exists s', o. split; [exact E|].
    destruct Cases as [(Es & -> & _) | [(Es & ap & ev & m & Ea & -> & Hin & D & F & _) | (Es & Hno & -> & ->)]].
    - split; [|split; [|split; [|exact Hr]]].
      + cbn [diverted]. tauto.
      + cbn [diverted]. discriminate.
      + intros ev X. discriminate X.
    - split; [|split; [|split; [|exact Hr]]].
      + cbn [diverted]. split; auto. intros _. right. split; [congruence|].
        now exists (e_id ev), m, (e_ty ev), (e_pad ev).
      + cbn [diverted]. discriminate.
      + intros ev' X. injection X as <-. split; [exact Es|]. split; [congruence|]. now exists m.
    - split; [|split; [|split; [|reflexivity]]].
      + cbn [diverted]. split; [discriminate|]. intros [X | [X1 X2]]; [congruence|]. destruct Hno; contradiction.
      + auto.
      + intros ev X. discriminate X.
  Qed.

  (* ---------- registry histories ---------- *)
  Lemma find_remove_same id (r : registry) : reg_find id (reg_remove id r) = None.
  Proof.
    unfold reg_find, reg_remove. induction r as [|[i m] r IH]; cbn [filter find fst]; auto.
    destruct (bytes_eq i id) eqn:E; cbn [negb]; auto. cbn [find fst]. now rewrite E.
  Qed.

  Lemma find_remove_other id id' (r : registry) : id' <> id -> reg_find id' (reg_remove id r) = reg_find id' r.
  Proof.
    intros N. unfold reg_find, reg_remove. induction r as [|[i m] r IH]; cbn [filter find fst]; auto.
    destruct (bytes_eq i id) eqn:E; cbn [negb].
    - apply bytes_eq_iff in E. subst i. replace (bytes_eq id id') with false; auto.
      symmetry. apply bytes_eq_false. congruence.
    - cbn [find fst]. destruct (bytes_eq i id'); auto.
  Qed.

  Lemma remove_subset id (r : registry) e : In e (reg_remove id r) -> In e r /\ fst e <> id.
  Proof.
    unfold reg_remove. rewrite filter_In. intros [Hin N]. split; auto.
    apply negb_true_iff, bytes_eq_false in N. exact N.
  Qed.

  Lemma remove_keeps id (r : registry) e : In e r -> fst e <> id -> In e (reg_remove id r).
  Proof.
    intros Hin N. unfold reg_remove. apply filter_In. split; auto.
    apply negb_true_iff, bytes_eq_false. exact N.
  Qed.

  Lemma remove_nodup id r : keys_nodup r -> keys_nodup (reg_remove id r).
  Proof.
    unfold keys_nodup, reg_remove. induction r as [|[i m] r IH]; cbn [filter map fst]; auto.
    intros N. inversion N; subst. destruct (negb (bytes_eq i id)); cbn [map fst]; auto.
    constructor; auto. intros Hin. apply H2. apply in_map_iff in Hin. destruct Hin as (e & <- & He).
    apply filter_In in He. apply in_map. tauto.
  Qed.

  Lemma add_nodup id m r : keys_nodup r -> keys_nodup (reg_add id m r).
  Proof.
    intros N. unfold keys_nodup, reg_add. cbn [map fst]. constructor; [|now apply remove_nodup].
    intros Hin. apply in_map_iff in Hin. destruct Hin as (e & E & He). apply remove_subset in He. tauto.
  Qed.

  (* with distinct keys, membership is lookup *)
  Lemma in_find id m (r : registry) : keys_nodup r -> (In (id, m) r <-> reg_find id r = Some m).
  Proof.
    unfold keys_nodup, reg_find. induction r as [|[i m'] r IH]; cbn [map fst find In].
    - intros _. split; [tauto|discriminate].
    - intros N. inversion N; subst. destruct (bytes_eq i id) eqn:E; cbn [snd].
      + apply bytes_eq_iff in E. subst i. split.
        * intros [X | X]; [congruence|]. exfalso. apply H2. now apply (in_map fst) in X.
        * intros X. left. congruence.
      + apply bytes_eq_false in E. rewrite <- IH by auto. split; [intros [X|X]; [congruence|auto] | auto].
  Qed.

  (* what the history says is registered under id: the metadata of the last accepted Add not
     followed by a Remove *)
  Fixpoint binding (l : list action) (id : list byte) (init : option rmeta) : option rmeta :=
    match l with
    | [] => init
    | AAdd id' m :: t =>
        if bytes_eq id' id && negb (bytes_eq id []) && is_ok (decode_meta m)
        then binding t id (Some m) else binding t id init
    | ARemove id' :: t => if bytes_eq id' id then binding t id None else binding t id init
    | _ :: t => binding t id init
    end.

  Lemma step_total s a : exists s' o, step H is_stun s a = Ok (s', o).
  Proof.
    destruct a as [id m|id|p from pick| |].
    - cbn [step]. destruct id; [eauto|]. destruct (decode_meta m) eqn:E; eauto.
      exfalso. eapply decode_meta_no_panic; eauto.
    - cbn [step]. eauto.
    - destruct (recv_spec s p from pick) as (s' & o & E & _). eauto.
    - cbn [step]. destruct (d_ev s); eauto.
    - cbn [step]. destruct (d_stun s); eauto.
  Qed.

  Lemma step_registry s a s' o id : step H is_stun s a = Ok (s', o) -> keys_nodup (d_reg s) ->
    keys_nodup (d_reg s') /\ reg_find id (d_reg s') = binding [a] id (reg_find id (d_reg s)).
  Proof.
    intros E N. destruct a as [id' m|id'|p from pick| |].
    - cbn [step] in E. cbn [binding]. destruct id' as [|c id'].
      { injection E as <- <-. split; auto. destruct id; reflexivity. }
      destruct (decode_meta m) eqn:Em; try discriminate.
      + injection E as <- <-. cbn [d_reg is_ok]. split; [now apply add_nodup|].
        unfold reg_add. destruct (bytes_eq (c :: id') id) eqn:Ei.
        * apply bytes_eq_iff in Ei. subst id. cbn [bytes_eq negb andb].
          unfold reg_find. cbn [find fst]. now rewrite bytes_eq_refl.
        * cbn [andb]. unfold reg_find at 1. cbn [find fst]. rewrite Ei. fold (reg_find id (reg_remove (c :: id') (d_reg s))).
          apply find_remove_other. apply bytes_eq_false in Ei. congruence.
      + injection E as <- <-. cbn [is_ok]. rewrite !andb_false_r. auto.
    - cbn [step] in E. injection E as <- <-. cbn [d_reg binding]. split; [now apply remove_nodup|].
      destruct (bytes_eq id' id) eqn:Ei.
      + apply bytes_eq_iff in Ei. subst. apply find_remove_same.
      + apply find_remove_other. apply bytes_eq_false in Ei. congruence.
    - destruct (recv_spec s p from pick) as (s2 & o2 & E2 & Hr & _). rewrite E in E2. injection E2 as -> ->.
      rewrite Hr. auto.
    - cbn [step] in E. destruct (d_ev s); injection E as <- <-; auto.
    - cbn [step] in E. destruct (d_stun s); injection E as <- <-; auto.
  Qed.

  Lemma binding_app l1 l2 id init : binding (l1 ++ l2) id init = binding l2 id (binding l1 id init).
  Proof.
    revert init; induction l1 as [|a l1 IH]; intros init; cbn [app binding]; auto.
    destruct a; auto; repeat match goal with |- context [if ?c then _ else _] => destruct c end; auto.
  Qed.

  (* every history of Add / Remove / datagrams / event consumption: the run never fails and the
     registry is what the history says *)
  Lemma run_registry l : forall s id, keys_nodup (d_reg s) ->
    exists s' outs, run H is_stun s l = Ok (s', outs) /\ keys_nodup (d_reg s') /\ length outs = length l /\
                    reg_find id (d_reg s') = binding l id (reg_find id (d_reg s)).
  Proof.
    induction l as [|a l IH]; intros s id N.
    - cbn [run]. do 2 eexists. repeat split; auto.
    - destruct (step_total s a) as (s1 & o & E).
      destruct (step_registry _ _ _ _ id E N) as (N1 & F1).
      destruct (IH s1 id N1) as (s2 & outs & E2 & N2 & L2 & F2).
      cbn [run]. rewrite E. cbn [bind fst snd]. rewrite E2. cbn [bind fst snd].
      do 2 eexists. repeat split; auto. { cbn [length]. lia. }
      rewrite F2, F1. change (a :: l) with ([a] ++ l). now rewrite binding_app.
  Qed.

  (* once its attempt is removed (and not added again), a packet that decodes under no other
     registered attempt goes to the reader *)
  Lemma removed_not_diverted l1 l2 id p from pick s0 :
    keys_nodup (d_reg s0) ->
    (forall id' m, In (AAdd id' m) l2 -> id' <> id) ->
    is_stun p = false ->
    exists s outs, run H is_stun s0 (l1 ++ ARemove id :: l2) = Ok (s, outs) /\
      reg_find id (d_reg s) = None /\
      ((forall id' m ty pad, In (id', m) (d_reg s) -> decode_punch H p m = Ok (ty, pad) -> id' = id) ->
       step H is_stun s (ARecv p from pick) = Ok (s, OPass p from)).
  Proof.
    intros N NoAdd Es.
    destruct (run_registry (l1 ++ ARemove id :: l2) s0 id N) as (s & outs & E & Ns & _ & F).
    exists s, outs. split; [exact E|].
    assert (Fn : reg_find id (d_reg s) = None).
    { rewrite F, binding_app. cbn [binding]. rewrite bytes_eq_refl.
      clear -NoAdd. induction l2 as [|a l2 IH]; cbn [binding]; auto.
      destruct a as [id' m| id'| | |]; try (apply IH; intros; eapply NoAdd; right; eauto).
      - replace (bytes_eq id' id) with false.
        + cbn [andb]. apply IH. intros; eapply NoAdd; right; eauto.
        + symmetry. apply bytes_eq_false. eapply NoAdd. left. reflexivity.
      - destruct (bytes_eq id' id); apply IH; intros; eapply NoAdd; right; eauto. }
    split; [exact Fn|]. intros Only.
    destruct (recv_spec s p from pick) as (s' & o & E' & _ & _ & Cases). rewrite E'.
    destruct Cases as [(X & _) | [(_ & ap & ev & m & _ & _ & Hin & D & _) | (_ & _ & -> & ->)]]; [congruence| |reflexivity].
    exfalso. pose proof (Only _ _ _ _ Hin D) as Eid. rewrite Eid in Hin.
    apply in_find in Hin; auto. congruence.
  Qed.

  (* ReadFrom: what it returns is an undiverted datagram of the wrapped conn, unchanged and with
     its own address; everything skipped before it was diverted; the registry is untouched *)
  Lemma read_from_spec q : forall s s' q' p from,
    read_from H is_stun s q = Ok (s', q', RPkt p from) ->
    exists pre pick,
      q = pre ++ UPkt p from pick :: q' /\ d_reg s' = d_reg s /\
      is_stun p = false /\ (addr_to_addrport from = None \/ ~ decodes_some (d_reg s) p) /\
      Forall (fun u => exists p0 f0 k0, u = UPkt p0 f0 k0 /\
                        (is_stun p0 = true \/ (addr_to_addrport f0 <> None /\ decodes_some (d_reg s) p0))) pre.
  Proof.
    induction q as [|u q IH]; intros s s' q' p from E; cbn [read_from] in E; [discriminate|].
    destruct u as [p0 f0 k0|]; [|discriminate].
    destruct (recv_spec s p0 f0 k0) as (s1 & o & E1 & Hr & _ & Cases). rewrite E1 in E. cbn [bind fst snd] in E.
    destruct Cases as [(Es & -> & _) | [(Es & ap & ev & m & Ea & -> & Hin & D & _) | (Es & Hno & -> & ->)]].
    - apply IH in E. destruct E as (pre & pick & -> & Hr2 & A & B & C).
      exists (UPkt p0 f0 k0 :: pre), pick. rewrite Hr in *. repeat split; auto.
      constructor; auto. exists p0, f0, k0. auto.
    - apply IH in E. destruct E as (pre & pick & -> & Hr2 & A & B & C).
      exists (UPkt p0 f0 k0 :: pre), pick. rewrite Hr in *. repeat split; auto.
      constructor; auto. exists p0, f0, k0. split; auto. right. split; [congruence|].
      now exists (e_id ev), m, (e_ty ev), (e_pad ev).
    - injection E as <- <- <- <-. exists [], k0. repeat split; auto.
  Qed.
End Demux.

(* ---------- ServerPuncher routing ---------- *)
Lemma att_find_set_same id ch l c0 : att_find id l = Some c0 -> att_find id (att_set id ch l) = Some ch.
Proof.
  unfold att_find, att_set. induction l as [|[i c] l IH]; cbn [find map fst]; [discriminate|].
  destruct (bytes_eq i id) eqn:E; cbn [fst find].
  - rewrite E. reflexivity.
  - rewrite E. exact IH.
Qed.

Lemma att_find_set_other id id' ch l : id' <> id -> att_find id' (att_set id ch l) = att_find id' l.
Proof.
  intros N. unfold att_find, att_set. induction l as [|[i c] l IH]; cbn [find map fst]; auto.
  destruct (bytes_eq i id) eqn:E; cbn [fst find].
  - apply bytes_eq_iff in E. subst i. replace (bytes_eq id id') with false; auto.
    symmetry. apply bytes_eq_false. congruence.
  - destruct (bytes_eq i id'); auto.
Qed.

Lemma att_find_remove id l : att_find id (att_remove id l) = None.
Proof.
  unfold att_find, att_remove. induction l as [|[i c] l IH]; cbn [filter find fst]; auto.
  destruct (bytes_eq i id) eqn:E; cbn [negb]; auto. cbn [find fst]. now rewrite E.
Qed.

Lemma att_find_remove_other id id' l : id' <> id -> att_find id' (att_remove id l) = att_find id' l.
Proof.
  intros N. unfold att_find, att_remove. induction l as [|[i c] l IH]; cbn [filter find fst]; auto.
  destruct (bytes_eq i id) eqn:E; cbn [negb].
  - apply bytes_eq_iff in E. subst i. replace (bytes_eq id id') with false; auto.
    symmetry. apply bytes_eq_false. congruence.
  - cbn [find fst]. destruct (bytes_eq i id'); auto.
Qed.

Section Server.
  Variable H : list byte -> list byte.
  Variable is_stun : list byte -> bool.

  (* an event taken from the conn is delivered to the channel of its own attempt id and to no other *)
  Lemma dispatch_routes s s' o : sstep H is_stun s SDispatch = Ok (s', o) ->
    d_reg (s_conn s') = d_reg (s_conn s) /\
    match o with
    | SORouted (Some id) =>
        exists ev q ch, d_ev (s_conn s) = ev :: q /\ d_ev (s_conn s') = q /\ id = e_id ev /\
                        att_find id (s_att s) = Some ch /\ att_find id (s_att s') = Some (ch ++ [ev]) /\
                        forall id', id' <> id -> att_find id' (s_att s') = att_find id' (s_att s)
    | SORouted None => s_att s' = s_att s
    | _ => False
    end.
  Proof.
    cbn [sstep]. destruct (s_live s); cbn [negb]; [|intros X; injection X as <- <-; auto].
    destruct (d_ev (s_conn s)) as [|ev q] eqn:Eq.
    - intros X. injection X as <- <-. auto.
    - destruct (att_find (e_id ev) (s_att s)) as [ch|] eqn:Ef.
      + destruct (Nat.ltb (length ch) defaultServerPunchEventBuffer).
        * intros X. injection X as <- <-. cbn [s_conn s_att d_reg d_ev]. split; auto.
          exists ev, q, ch. repeat split; auto.
          -- eapply att_find_set_same; eauto.
          -- intros id' N. now apply att_find_set_other.
        * intros X. injection X as <- <-. auto.
      + intros X. injection X as <- <-. auto.
  Qed.

  (* removeAttempt id: the entry stored under exactly this string is gone from both registries;
     every other id (in particular one that differs from it only in letter case) and both event
     queues are untouched *)
  Lemma server_remove s s' o id : sstep H is_stun s (SRemove id) = Ok (s', o) ->
    att_find id (s_att s') = None /\ reg_find id (d_reg (s_conn s')) = None /\
    (forall id', id' <> id -> att_find id' (s_att s') = att_find id' (s_att s) /\
                              reg_find id' (d_reg (s_conn s')) = reg_find id' (d_reg (s_conn s))) /\
    d_ev (s_conn s') = d_ev (s_conn s) /\ d_stun (s_conn s') = d_stun (s_conn s).
  Proof.
    cbn [sstep step bind fst snd]. intros X. injection X as <- <-. cbn [s_att s_conn d_reg d_ev d_stun].
    split; [apply att_find_remove|]. split; [apply find_remove_same|]. split; [|auto].
    intros id' N. split; [now apply att_find_remove_other | now apply find_remove_other].
  Qed.

  (* addAttempt id m is accepted iff id is non-empty, m is well formed and no attempt is registered
     under exactly this string; then both registries hold it under exactly this string; a rejected
     call changes nothing *)
  Lemma server_add_exact s id m s' ok : sstep H is_stun s (SAdd id m) = Ok (s', SOAdd ok) ->
    (ok = true <-> att_find id (s_att s) = None /\ id <> [] /\ is_ok (decode_meta m) = true) /\
    (ok = true -> att_find id (s_att s') = Some [] /\ reg_find id (d_reg (s_conn s')) = Some m) /\
    (ok = false -> s' = s).
  Proof.
    cbn [sstep]. destruct (att_find id (s_att s)) as [ch|] eqn:F.
    - intros X. injection X as <- <-. split; [|split; [discriminate|auto]].
      split; [discriminate|]. intros (X & _). discriminate X.
    - cbn [step]. destruct id as [|c id].
      + cbn [bind fst snd]. intros X. injection X as <- <-. split; [|split; [discriminate|]].
        * split; [discriminate|]. intros (_ & X & _). congruence.
        * intros _. now destruct s.
      + destruct (decode_meta m) as [nk|e|n] eqn:E; cbn [bind fst snd]; [| |discriminate].
        * intros X. injection X as <- <-. cbn [s_att s_conn d_reg is_ok]. split; [|split; [|discriminate]].
          -- split; auto. intros _. repeat split; auto. discriminate.
          -- intros _. split.
             ++ unfold att_find. cbn [find fst]. now rewrite bytes_eq_refl.
             ++ unfold reg_find, reg_add. cbn [find fst]. now rewrite bytes_eq_refl.
        * intros X. injection X as <- <-. cbn [is_ok]. split; [|split; [discriminate|]].
          -- split; [discriminate|]. intros (_ & _ & X). discriminate X.
          -- intros _. now destruct s.
  Qed.

  Lemma server_add_fresh s id m : att_find id (s_att s) = None -> id <> [] -> is_ok (decode_meta m) = true ->
    exists s', sstep H is_stun s (SAdd id m) = Ok (s', SOAdd true).
  Proof.
    intros F N Hm. cbn [sstep]. rewrite F. cbn [step]. destruct id as [|c id]; [congruence|].
    destruct (decode_meta m) as [nk|e|n] eqn:E; try discriminate. cbn [bind fst snd]. eauto.
  Qed.

  Lemma srun_app l1 : forall s l2 s' outs, srun H is_stun s (l1 ++ l2) = Ok (s', outs) ->
    exists s1 o1 o2, srun H is_stun s l1 = Ok (s1, o1) /\ srun H is_stun s1 l2 = Ok (s', o2) /\ outs = o1 ++ o2.
  Proof.
    induction l1 as [|a l1 IH]; intros s l2 s' outs E.
    - exists s, [], outs. cbn [srun app] in *. auto.
    - cbn [app srun] in E. destruct (sstep H is_stun s a) as [[s1 o]|e|n] eqn:Ea; cbn [bind fst snd] in E; try discriminate.
      destruct (srun H is_stun s1 (l1 ++ l2)) as [[s2 o2]|e|n] eqn:Er; cbn [bind fst snd] in E; try discriminate.
      assert (s' = s2 /\ outs = o :: o2) as [-> ->] by (split; congruence).
      destruct (IH _ _ _ _ Er) as (sa & oa & ob & E1 & E2 & ->).
      exists sa, (o :: oa), ob. cbn [srun]. rewrite Ea. cbn [bind fst snd]. rewrite E1. cbn [bind fst snd]. auto.
  Qed.

  Hypothesis H_nonempty : forall x, H x <> [].

  Lemma sstep_total s a : exists s' o, sstep H is_stun s a = Ok (s', o).
  Proof.
    destruct a as [id m|id| | |a|id]; cbn [sstep].
    - destruct (att_find id (s_att s)); [eauto|].
      destruct (step_total H is_stun H_nonempty (s_conn s) (AAdd id m)) as (c & o & ->). cbn [bind fst snd].
      destruct o as [[|]| | | | | |]; eauto.
    - destruct (step_total H is_stun H_nonempty (s_conn s) (ARemove id)) as (c & o & ->). cbn [bind fst snd]. eauto.
    - destruct (negb (s_live s)); [eauto|].
      destruct (d_ev (s_conn s)); [eauto|]. destruct (att_find _ _); [|eauto].
      destruct (Nat.ltb _ _); eauto.
    - eauto.
    - destruct (step_total H is_stun H_nonempty (s_conn s) a) as (c & o & ->). cbn [bind fst snd]. eauto.
    - destruct (att_find id (s_att s)) as [[|e q]|]; eauto.
  Qed.

  Lemma sstep_nodup s a s' o : sstep H is_stun s a = Ok (s', o) ->
    keys_nodup (d_reg (s_conn s)) -> keys_nodup (d_reg (s_conn s')).
  Proof.
    intros E N. destruct a as [id m|id| | |a|id]; cbn [sstep] in E.
    - destruct (att_find id (s_att s)); [injection E as <- <-; auto|].
      destruct (step H is_stun (s_conn s) (AAdd id m)) as [[c o1]|e|n] eqn:Ec; cbn [bind fst snd] in E; try discriminate.
      destruct (step_registry H is_stun H_nonempty _ _ _ _ [] Ec N) as (N1 & _).
      destruct o1 as [[|]| | | | | |]; injection E as <- <-; exact N1.
    - destruct (step H is_stun (s_conn s) (ARemove id)) as [[c o1]|e|n] eqn:Ec; cbn [bind fst snd] in E; try discriminate.
      destruct (step_registry H is_stun H_nonempty _ _ _ _ [] Ec N) as (N1 & _). injection E as <- <-. exact N1.
    - destruct (negb (s_live s)); [injection E as <- <-; auto|].
      destruct (d_ev (s_conn s)); [injection E as <- <-; auto|]. destruct (att_find _ _).
      + destruct (Nat.ltb _ _); injection E as <- <-; exact N.
      + injection E as <- <-. exact N.
    - injection E as <- <-. exact N.
    - destruct (step H is_stun (s_conn s) a) as [[c o1]|e|n] eqn:Ec; cbn [bind fst snd] in E; try discriminate.
      destruct (step_registry H is_stun H_nonempty _ _ _ _ [] Ec N) as (N1 & _). injection E as <- <-. exact N1.
    - destruct (att_find id (s_att s)) as [[|e q]|]; injection E as <- <-; exact N.
  Qed.

  Lemma srun_total l : forall s, keys_nodup (d_reg (s_conn s)) ->
    exists s' outs, srun H is_stun s l = Ok (s', outs) /\ keys_nodup (d_reg (s_conn s')) /\ length outs = length l.
  Proof.
    induction l as [|a l IH]; intros s N.
    - cbn [srun]. eauto.
    - destruct (sstep_total s a) as (s1 & o & E). pose proof (sstep_nodup _ _ _ _ E N) as N1.
      destruct (IH s1 N1) as (s2 & outs & E2 & N2 & L2).
      cbn [srun]. rewrite E. cbn [bind fst snd]. rewrite E2. cbn [bind fst snd].
      do 2 eexists. repeat split; auto. cbn [length]. lia.
  Qed.

  (* the dispatcher's exit on the lifetime context touches neither registry nor any queue *)
  Lemma server_stop s s' o : sstep H is_stun s SStop = Ok (s', o) ->
    s_conn s' = s_conn s /\ s_att s' = s_att s /\ s_live s' = false.
  Proof. cbn [sstep]. intros X. injection X as <- <-. auto. Qed.

  Lemma reg_remove_absent id (r : registry) : reg_find id r = None -> reg_remove id r = r.
  Proof.
    unfold reg_find, reg_remove. induction r as [|[i m] r IH]; cbn [filter find fst]; auto.
    destruct (bytes_eq i id) eqn:E; cbn [negb]; [discriminate|]. intros F. now rewrite IH.
  Qed.

  (* what "id is in neither registry" gives: the conn's table is the table without id, a datagram
     that decodes under no other registered attempt goes to the reader unchanged and changes
     nothing, and the id can be registered *)
  Lemma unregistered_spec s id :
    keys_nodup (d_reg (s_conn s)) ->
    att_find id (s_att s) = None -> reg_find id (d_reg (s_conn s)) = None ->
    reg_remove id (d_reg (s_conn s)) = d_reg (s_conn s) /\
    (forall p from pick, is_stun p = false ->
       (forall id' m' ty pad, In (id', m') (d_reg (s_conn s)) -> decode_punch H p m' = Ok (ty, pad) -> id' = id) ->
       sstep H is_stun s (SConn (ARecv p from pick)) = Ok (s, SOConn (OPass p from))) /\
    (forall m', id <> [] -> is_ok (decode_meta m') = true ->
       exists s', sstep H is_stun s (SAdd id m') = Ok (s', SOAdd true)).
  Proof.
    intros Ns Fa Fr. split; [now apply reg_remove_absent|]. split.
    - intros p from pick Es Only. cbn [sstep].
      destruct (recv_spec H is_stun H_nonempty (s_conn s) p from pick) as (c & o' & E' & _ & _ & Cases). rewrite E'.
      destruct Cases as [(X & _) | [(_ & ap & ev & m0 & _ & _ & Hin & D & _) | (_ & _ & -> & ->)]]; [congruence| |].
      + exfalso. pose proof (Only _ _ _ _ Hin D) as Eid. rewrite Eid in Hin.
        apply in_find in Hin; auto. congruence.
      + cbn [bind fst snd]. now destruct s.
    - intros m' Ne Hm. now apply server_add_fresh.
  Qed.

  (* any history that ends with removeAttempt id (Respond that got as far as registering: from any
     state, whatever its arguments, whatever happens while it waits - including the puncher's
     lifetime context being cancelled - and through whichever case of the select it leaves) *)
  Lemma respond_removes s0 a w mid :
    keys_nodup (d_reg (s_conn s0)) ->
    exists s outs, srun H is_stun s0 (respond_trace a (RoWait w) mid) = Ok (s, outs) /\
      att_find (ra_id a) (s_att s) = None /\ reg_find (ra_id a) (d_reg (s_conn s)) = None /\
      reg_remove (ra_id a) (d_reg (s_conn s)) = d_reg (s_conn s) /\
      (forall p from pick, is_stun p = false ->
         (forall id' m' ty pad, In (id', m') (d_reg (s_conn s)) -> decode_punch H p m' = Ok (ty, pad) -> id' = ra_id a) ->
         sstep H is_stun s (SConn (ARecv p from pick)) = Ok (s, SOConn (OPass p from))) /\
      (forall m', ra_id a <> [] -> is_ok (decode_meta m') = true ->
         exists s', sstep H is_stun s (SAdd (ra_id a) m') = Ok (s', SOAdd true)).
  Proof.
    intros N. destruct (srun_total (respond_trace a (RoWait w) mid) s0 N) as (s & outs & E & Ns & _).
    exists s, outs. split; [exact E|].
    cbn [respond_trace] in E.
    set (tk := match w with WEvent => [STake (ra_id a)] | _ => [] end) in E.
    replace (SAdd (ra_id a) (ra_meta a) :: mid ++ tk ++ [SRemove (ra_id a)])
      with ((SAdd (ra_id a) (ra_meta a) :: mid ++ tk) ++ [SRemove (ra_id a)]) in E
      by (cbn [app]; now rewrite <- app_assoc).
    apply srun_app in E. destruct E as (s1 & o1 & o2 & _ & E2 & _).
    cbn [srun] in E2. destruct (sstep H is_stun s1 (SRemove (ra_id a))) as [[s2 o]|e|n] eqn:Er; cbn [bind fst snd] in E2; try discriminate.
    assert (s2 = s) by congruence. subst s2.
    destruct (server_remove _ _ _ _ Er) as (Fa & Fr & _).
    split; [exact Fa|]. split; [exact Fr|]. now apply unregistered_spec.
  Qed.

  (* the outcome type covers every way the call can go *)
  Lemma respond_outcome_total s a w :
    exists o, respond_can s a o /\ (forall w', o = RoWait w' -> w' = w).
  Proof.
    destruct (respond_precheck a) as [[e|]|e|n] eqn:P.
    - exists (RoErr e). split; [exact P|discriminate].
    - destruct (att_find (ra_id a) (s_att s)) eqn:F.
      + exists RoDup. split; [|discriminate]. cbn [respond_can]. split; auto. congruence.
      + exists (RoWait w). split; [cbn [respond_can]; auto|]. intros w' X. congruence.
    - exfalso. unfold respond_precheck in P. destruct (ra_id a); [discriminate|].
      destruct (decode_meta (ra_meta a)); try discriminate.
      repeat match type of P with context [if ?c then _ else _] => destruct c end; discriminate.
    - exfalso. unfold respond_precheck in P. destruct (ra_id a); [discriminate|].
      destruct (decode_meta (ra_meta a)) eqn:D; try discriminate.
      + repeat match type of P with context [if ?c then _ else _] => destruct c end; discriminate.
      + eapply decode_meta_no_panic; eauto.
  Qed.

  (* Respond, every outcome, in any history: the run never fails.  The exits before the
     registration (each validation error) and the duplicate-id exit leave the state exactly as it
     was - nothing is added and nothing is removed, so the attempt of another Respond in flight
     under the same id stays registered.  In every other case, and whenever the id was not in use
     before the call, once Respond has returned the id is in neither registry, the conn's table is
     the table without it, a datagram that decodes under no other registered attempt - a late or
     retransmitted punch packet of the finished attempt - is handed to the reader unchanged and
     changes nothing, and the same id can be registered again *)
  Lemma respond_done s0 a o mid :
    keys_nodup (d_reg (s_conn s0)) -> respond_can s0 a o ->
    exists s outs, srun H is_stun s0 (respond_trace a o mid) = Ok (s, outs) /\
      (match o with RoWait _ => True | _ => s = s0 end) /\
      ((match o with
        | RoWait _ => True
        | _ => att_find (ra_id a) (s_att s0) = None /\ reg_find (ra_id a) (d_reg (s_conn s0)) = None
        end) ->
       att_find (ra_id a) (s_att s) = None /\ reg_find (ra_id a) (d_reg (s_conn s)) = None /\
       reg_remove (ra_id a) (d_reg (s_conn s)) = d_reg (s_conn s) /\
       (forall p from pick, is_stun p = false ->
          (forall id' m' ty pad, In (id', m') (d_reg (s_conn s)) -> decode_punch H p m' = Ok (ty, pad) -> id' = ra_id a) ->
          sstep H is_stun s (SConn (ARecv p from pick)) = Ok (s, SOConn (OPass p from))) /\
       (forall m', ra_id a <> [] -> is_ok (decode_meta m') = true ->
          exists s', sstep H is_stun s (SAdd (ra_id a) m') = Ok (s', SOAdd true))).
  Proof.
    intros N Can. destruct o as [e| |w].
    - exists s0, []. cbn [respond_trace srun]. split; [reflexivity|]. split; [reflexivity|].
      intros (Fa & Fr). split; [exact Fa|]. split; [exact Fr|]. now apply unregistered_spec.
    - destruct Can as (_ & Dup). destruct (att_find (ra_id a) (s_att s0)) as [ch|] eqn:F; [|congruence].
      exists s0, [SOAdd false]. cbn [respond_trace srun sstep]. rewrite F. cbn [bind fst snd].
      split; [reflexivity|]. split; [reflexivity|]. intros (Fa & _). discriminate Fa.
    - destruct (respond_removes s0 a w mid N) as (s & outs & E & R).
      exists s, outs. split; [exact E|]. split; [exact I|]. intros _. exact R.
  Qed.
End Server.

(* ---------- the instance the code runs: SHA-256 ---------- *)
Lemma decode_punch256_no_panic p m s : decode_punch256 p m <> Panic s.
Proof. apply decode_punch_no_panic. apply sha256_nonempty. Qed.

Lemma roundtrip256 ty m padding salt :
  valid_type ty = true -> length salt = punchSaltLen -> (length padding <= MaxPunchPadding)%nat ->
  is_ok (decode_meta m) = true ->
  exists pkt, encode_punch256 ty m padding salt = Ok pkt /\
              length pkt = (punchMinWireLen + length padding)%nat /\
              decode_punch256 pkt m = Ok (ty, length padding).
Proof.
  intros Vt Ls Lp Hm. apply roundtrip; auto.
  destruct (decode_meta m) as [[n k]| |] eqn:E; try discriminate.
  exists n, k. split; auto. apply sha256_nonempty.
Qed.

(* ---------- non-vacuity: a concrete run on the SHA-256 instance ---------- *)
Definition ex_hex (b : list byte) : list byte :=
  flat_map (fun c => let n := b2n c in
                     let d := fun v => n2b (if v <? 10 then 48 + v else 87 + v) in
                     [d (n / 16); d (n mod 16)]) b.
Fixpoint ex_bytes (a : N) (n : nat) : list byte :=
  match n with O => [] | S k => n2b (a * 37 + N.of_nat k * 11) :: ex_bytes a k end.
Definition ex_meta (a : N) : rmeta := mkMeta (ex_hex (ex_bytes a 16)) (ex_hex (ex_bytes (a + 100) 32)).
Definition ex_pkt (a ty : N) (pad : nat) : list byte :=
  match encode_punch256 ty (ex_meta a) (ex_bytes 9 pad) (ex_bytes (a + 7) 8) with Ok p => p | _ => [] end.
Definition ex_from : addr := mkAddr true [x0a;x00;x00;x01] 4433%Z.
Definition ex_quic : list byte := x40 :: ex_bytes 3 40.
(* binding success, XOR-MAPPED-ADDRESS; the oracle of the example is the header condition *)
Definition ex_stun : list byte :=
  [x01;x01;x00;x0c;x21;x12;xa4;x42] ++ ex_bytes 5 12 ++ [x00;x20;x00;x08;x00;x01;x30;x43;x2b;x12;xa4;x43].
Definition ex_a1 : list byte := [x61;x31].
Definition ex_a2 : list byte := [x61;x32].
Definition pick0 : list pev -> nat := fun _ => 0%nat.

Example ex_history :
  match run256 stun_hdr_ok (d_new 4)
          [AAdd ex_a1 (ex_meta 1); AAdd ex_a2 (ex_meta 2); AAdd [] (ex_meta 4);
           ARecv ex_quic ex_from pick0;            (* QUIC-like: reaches the reader *)
           ARecv (ex_pkt 3 1 5) ex_from pick0;     (* punch packet of an unregistered attempt: reaches the reader *)
           ARecv (ex_pkt 1 2 7) ex_from pick0;     (* punch packet of a1: withheld *)
           ARecv ex_stun ex_from pick0;            (* STUN response: withheld *)
           ARemove ex_a1;
           ARecv (ex_pkt 1 2 7) ex_from pick0;     (* same packet after removal: reaches the reader *)
           ARecv (ex_pkt 2 1 0) ex_from pick0;     (* a2 still registered *)
           ATakeEv; ATakeEv; ATakeEv; ATakeStun] with
  | Ok (_, outs) =>
      outs = [OAdd true; OAdd true; OAdd false;
              OPass ex_quic ex_from; OPass (ex_pkt 3 1 5) ex_from;
              OPunch (mkEv ex_a1 ([x0a;x00;x00;x01], 4433%Z) 2 7); OStun; ONone;
              OPass (ex_pkt 1 2 7) ex_from;
              OPunch (mkEv ex_a2 ([x0a;x00;x00;x01], 4433%Z) 1 0);
              OEv (Some (mkEv ex_a1 ([x0a;x00;x00;x01], 4433%Z) 2 7));
              OEv (Some (mkEv ex_a2 ([x0a;x00;x00;x01], 4433%Z) 1 0)); OEv None;
              OStunEv (Some ex_stun)]
  | _ => False
  end.
Proof. vm_compute. reflexivity. Qed.

(* ServerPuncher.Respond under an attempt id spelled with upper-case hex digits (the rendezvous
   nonce text as received): its hello is withheld and ends the attempt; afterwards a retransmitted
   hello of the finished attempt and a marker reach the reader, the same spelling can be registered
   again (and its packets are withheld again), and the lower-case spelling is a different attempt
   that is neither created nor removed by any of this *)
Definition ex_ID : list byte := [x41;x31;x42;x32].   (* "A1B2" *)
Definition ex_id : list byte := [x61;x31;x62;x32].   (* "a1b2" *)
Definition ex_marker : list byte := [x6d;x61;x72;x6b;x65;x72].

Example ex_respond :
  match srun256 stun_hdr_ok (mkS (d_new 4) [] true)
          (SAdd ex_id (ex_meta 2) ::
           respond_trace (mkRA ex_ID (ex_meta 1) 1 0 0) (RoWait WEvent)
             [SAdd ex_ID (ex_meta 3);                          (* duplicate while in flight *)
              SConn (ARecv (ex_pkt 1 1 5) ex_from pick0); SDispatch] ++
           [SConn (ARecv (ex_pkt 1 1 9) ex_from pick0);        (* late hello: reaches the reader *)
            SConn (ARecv ex_marker ex_from pick0);
            SConn (ARecv (ex_pkt 2 1 0) ex_from pick0); SDispatch; STake ex_id;   (* "a1b2" still registered *)
            SAdd ex_ID (ex_meta 1);                            (* same spelling again: accepted *)
            SConn (ARecv (ex_pkt 1 1 9) ex_from pick0)]) with
  | Ok (s, outs) =>
      outs = [SOAdd true; SOAdd true; SOAdd false;
              SOConn (OPunch (mkEv ex_ID ([x0a;x00;x00;x01], 4433%Z) 1 5)); SORouted (Some ex_ID);
              SOTake (Some (mkEv ex_ID ([x0a;x00;x00;x01], 4433%Z) 1 5)); SONone;
              SOConn (OPass (ex_pkt 1 1 9) ex_from); SOConn (OPass ex_marker ex_from);
              SOConn (OPunch (mkEv ex_id ([x0a;x00;x00;x01], 4433%Z) 1 0)); SORouted (Some ex_id);
              SOTake (Some (mkEv ex_id ([x0a;x00;x00;x01], 4433%Z) 1 0));
              SOAdd true;
              SOConn (OPunch (mkEv ex_ID ([x0a;x00;x00;x01], 4433%Z) 1 9))] /\
      map fst (d_reg (s_conn s)) = [ex_ID; ex_id]
  | _ => False
  end.
Proof. vm_compute. split; reflexivity. Qed.

(* Respond, the other outcomes.  (1) The puncher's lifetime context is cancelled while Respond is in
   flight (SStop): the hello that arrives afterwards is still withheld (the attempt is registered)
   but no longer forwarded; Respond leaves by its timeout, the deferred removeAttempt runs: the
   retransmitted hello and a marker reach the reader and the id is accepted again.  (2) While a
   Respond is in flight a second call with the same id takes the duplicate exit and changes
   nothing: the first attempt's packets are still withheld.  (3) Each validation exit is taken
   by concrete arguments and contributes nothing to the history. *)
Definition ex_args : rargs := mkRA ex_ID (ex_meta 1) 2 0 0.

Example ex_respond_stop :
  match srun256 stun_hdr_ok (mkS (d_new 4) [] true)
          (respond_trace ex_args (RoWait WTimeout)
             [SStop; SConn (ARecv (ex_pkt 1 1 5) ex_from pick0); SDispatch; STake ex_ID] ++
           [SConn (ARecv (ex_pkt 1 1 9) ex_from pick0);
            SConn (ARecv ex_marker ex_from pick0);
            SAdd ex_ID (ex_meta 1)]) with
  | Ok (s, outs) =>
      outs = [SOAdd true; SONone;
              SOConn (OPunch (mkEv ex_ID ([x0a;x00;x00;x01], 4433%Z) 1 5)); SORouted None; SOTake None;
              SONone;
              SOConn (OPass (ex_pkt 1 1 9) ex_from); SOConn (OPass ex_marker ex_from);
              SOAdd true] /\
      s_live s = false
  | _ => False
  end.
Proof. vm_compute. split; reflexivity. Qed.

Example ex_respond_dup :
  match srun256 stun_hdr_ok (mkS (d_new 4) [] true) [SAdd ex_ID (ex_meta 1)] with
  | Ok (s1, _) =>
      respond_can s1 ex_args RoDup /\
      match srun256 stun_hdr_ok s1
              (respond_trace ex_args RoDup [] ++ [SConn (ARecv (ex_pkt 1 1 5) ex_from pick0)]) with
      | Ok (s2, outs) =>
          outs = [SOAdd false; SOConn (OPunch (mkEv ex_ID ([x0a;x00;x00;x01], 4433%Z) 1 5))] /\
          map fst (d_reg (s_conn s2)) = [ex_ID] /\ map fst (s_att s2) = [ex_ID]
      | _ => False
      end
  | _ => False
  end.
Proof. vm_compute. repeat split; discriminate. Qed.

Example ex_respond_exits :
  respond_precheck (mkRA [] (ex_meta 1) 2 0 0) = Ok (Some REId) /\
  respond_precheck (mkRA ex_ID (mkMeta [x7a; x7a] (m_obfs (ex_meta 1))) 2 0 0) = Ok (Some REMeta) /\
  respond_precheck (mkRA ex_ID (ex_meta 1) 0 0 0) = Ok (Some RECand) /\
  respond_precheck (mkRA ex_ID (ex_meta 1) 2 (-1) 0) = Ok (Some RETimeout) /\
  respond_precheck (mkRA ex_ID (ex_meta 1) 2 0 (-5)) = Ok (Some REInterval) /\
  respond_precheck ex_args = Ok None /\
  respond_can (mkS (d_new 4) [] true) ex_args (RoWait WCancel) /\
  respond_trace (mkRA ex_ID (ex_meta 1) 0 0 0) (RoErr RECand) [SStop] = [].
Proof. vm_compute. repeat split; reflexivity. Qed.

(* codec: both types, padding 0 and 1024; cross-attempt and damaged packets are rejected *)
Example ex_codec :
  decode_punch256 (ex_pkt 1 1 0) (ex_meta 1) = Ok (1, 0%nat) /\
  decode_punch256 (ex_pkt 1 2 1024) (ex_meta 1) = Ok (2, 1024%nat) /\
  length (ex_pkt 1 2 1024) = 1057%nat /\
  decode_punch256 (ex_pkt 1 2 1024 ++ [x00]) (ex_meta 1) = Err ELimit /\
  decode_punch256 (ex_pkt 1 1 3) (ex_meta 2) = Err EInvalid /\
  decode_punch256 (flip_at (ex_pkt 1 1 3) 20 4) (ex_meta 1) = Err EInvalid /\
  decode_punch256 (flip_at (ex_pkt 1 1 3) 34 0) (ex_meta 1) = Ok (1, 3%nat) /\
  decode_punch256 (firstn 32 (ex_pkt 1 1 3)) (ex_meta 1) = Err EShort.
Proof. vm_compute. repeat split. Qed.

(* ---------- cross-metadata and salt damage, at the level of DecodePunchPacket ---------- *)
Definition mask_collision_free (H : list byte -> list byte) (x y : list byte) : Prop :=
  x <> y -> mstream (H x) (length punchMagic) <> mstream (H y) (length punchMagic).

Lemma tails_magic M M' ty n r ty' n' r' :
  xor_cyc M 0 (hdr ty n ++ r) = xor_cyc M' 0 (hdr ty' n' ++ r') ->
  mstream M (length punchMagic) = mstream M' (length punchMagic).
Proof.
  intros E. apply (f_equal (firstn (length punchMagic))) in E. rewrite !xor_cyc_firstn in E.
  unfold hdr in E. rewrite <- !app_assoc in E.
  rewrite !firstn_app, Nat.sub_diag, !firstn_O, !app_nil_r, !firstn_all in E.
  rewrite (xor_cyc_zip M _ punchMagic), (xor_cyc_zip M' _ punchMagic) in E.
  fold (mstream M (length punchMagic)) in E. fold (mstream M' (length punchMagic)) in E.
  eapply zipxor_cancel_l; [| |exact E]; now rewrite mstream_length.
Qed.

Lemma flip_at_app_l a t i b : (i < length a)%nat -> flip_at (a ++ t) i b = flip_at a i b ++ t.
Proof.
  revert i; induction a as [|x a IH]; intros [|i] L; cbn [length] in L; try lia; cbn [app flip_at]; auto.
  f_equal. apply IH. lia.
Qed.

Lemma flip_at_neq p i b : (i < length p)%nat -> b < 8 -> flip_at p i b <> p.
Proof.
  intros L Hb E. apply (f_equal (fun l => nth i l x00)) in E. rewrite flip_at_nth in E by exact L.
  now apply flipb_neq in E.
Qed.

Section Cross.
  Variable H : list byte -> list byte.

  Lemma decode_punch_meta_ext p m m' : decode_meta m = decode_meta m' -> decode_punch H p m = decode_punch H p m'.
  Proof. intros E. unfold decode_punch. now rewrite E. Qed.

  Lemma encode_shape ty m padding salt pkt n k :
    encode_punch H ty m padding salt = Ok pkt -> decode_meta m = Ok (n, k) ->
    valid_type ty = true /\ H (k ++ salt) <> [] /\ pkt = salt ++ xor_cyc (H (k ++ salt)) 0 (hdr ty n ++ padding).
  Proof.
    intros E Em. unfold encode_punch in E. destruct (valid_type ty); cbn [negb] in E; [|discriminate].
    rewrite Em in E. cbn [bind fst snd] in E. unfold encode_body in E.
    change (punchMagic ++ n2b ty :: n ++ padding) with (punchMagic ++ (n2b ty :: n) ++ padding) in E.
    rewrite app_assoc in E. fold (hdr ty n) in E.
    destruct (H (k ++ salt)) as [|m0 mt] eqn:EH.
    - exfalso. unfold xor_punch in E. rewrite EH in E.
      destruct (hdr ty n ++ padding) eqn:Eh; [|discriminate E].
      apply (f_equal (@length byte)) in Eh. rewrite app_length in Eh. unfold hdr in Eh. rewrite app_length in Eh.
      cbn [length] in Eh. change (length punchMagic) with 8%nat in Eh. lia.
    - assert (X : H (k ++ salt) <> []) by (rewrite EH; discriminate).
      rewrite <- EH in *. rewrite xor_punch_ok in E by exact X. cbn [bind] in E.
      split; auto. split; auto. congruence.
  Qed.

  (* a packet encoded under m that decodes under m' *)
  Lemma cross_meta_punch ty m padding salt pkt m' ty' pad' :
    encode_punch H ty m padding salt = Ok pkt -> length salt = punchSaltLen ->
    decode_punch H pkt m' = Ok (ty', pad') ->
    exists n k n' k', decode_meta m = Ok (n, k) /\ decode_meta m' = Ok (n', k') /\
      pad' = length padding /\
      xor_cyc (H (k ++ salt)) 0 (hdr ty n) = xor_cyc (H (k' ++ salt)) 0 (hdr ty' n') /\
      zipxor (mstream (H (k ++ salt)) punchHeaderLen) (mstream (H (k' ++ salt)) punchHeaderLen) = zipxor (hdr ty n) (hdr ty' n') /\
      mstream (H (k ++ salt)) (length punchMagic) = mstream (H (k' ++ salt)) (length punchMagic) /\
      (H (k ++ salt) = H (k' ++ salt) -> n' = n /\ ty' = ty).
  Proof.
    intros E Ls D.
    destruct (decode_meta m) as [[n k]| |] eqn:Em.
    2,3: unfold encode_punch in E; destruct (valid_type ty); cbn [negb] in E; try discriminate; rewrite Em in E; discriminate.
    destruct (encode_shape _ _ _ _ _ _ _ E Em) as (Vt & Hn & ->).
    unfold decode_punch in D.
    destruct (Nat.ltb _ punchMinWireLen) eqn:E1; [discriminate|].
    destruct (Nat.ltb punchMaxWireLen _) eqn:E2; [discriminate|]. apply Nat.ltb_ge in E1.
    destruct (decode_meta m') as [[n' k']| |] eqn:Em'; cbn [bind fst snd] in D; try discriminate.
    destruct (decode_meta_ok _ _ _ Em) as [Ln _]. destruct (decode_meta_ok _ _ _ Em') as [Ln' _].
    exists n, k, n', k'. split; auto. split; auto.
    eapply cross_meta; eauto.
  Qed.

  Lemma decode_iff_same_meta ty m padding salt pkt m' n k n' k' :
    encode_punch H ty m padding salt = Ok pkt -> length salt = punchSaltLen ->
    (length padding <= MaxPunchPadding)%nat ->
    decode_meta m = Ok (n, k) -> decode_meta m' = Ok (n', k') ->
    mask_collision_free H (k ++ salt) (k' ++ salt) ->
    ((exists r, decode_punch H pkt m' = Ok r) <-> (n', k') = (n, k)).
  Proof.
    intros E Ls Lp Em Em' Free. split.
    - intros ([ty' pad'] & D).
      destruct (cross_meta_punch _ _ _ _ _ _ _ _ E Ls D) as (n0 & k0 & n0' & k0' & X & X' & _ & _ & _ & Ms & Same).
      rewrite Em in X. rewrite Em' in X'. injection X as <- <-. injection X' as <- <-.
      assert (Ek : k ++ salt = k' ++ salt).
      { destruct (list_eq_dec Byte.byte_eq_dec (k ++ salt) (k' ++ salt)) as [e|ne]; auto.
        exfalso. exact (Free ne Ms). }
      apply app_inv_tail in Ek. subst k'. destruct (Same eq_refl) as [-> _]. reflexivity.
    - intros X. injection X as -> ->.
      destruct (encode_shape _ _ _ _ _ _ _ E Em) as (Vt & Hn & Ep).
      destruct (roundtrip H ty m padding salt Vt Ls Lp) as (pkt' & E' & _ & D).
      { exists n, k. auto. }
      rewrite E in E'. injection E' as <-.
      exists (ty, length padding). rewrite <- D. apply decode_punch_meta_ext. congruence.
  Qed.

  (* a single-bit flip inside the salt: the packet can only still decode if the masks of the two
     salts agree on the magic bytes *)
  Lemma salt_flip p m ty pad i b r :
    decode_punch H p m = Ok (ty, pad) -> (i < punchSaltLen)%nat -> b < 8 ->
    decode_punch H (flip_at p i b) m = Ok r ->
    exists n k, decode_meta m = Ok (n, k) /\
      flip_at (firstn punchSaltLen p) i b <> firstn punchSaltLen p /\
      mstream (H (k ++ firstn punchSaltLen p)) (length punchMagic) =
      mstream (H (k ++ flip_at (firstn punchSaltLen p) i b)) (length punchMagic).
  Proof.
    intros D Hi Hb D2. destruct r as [ty2 pad2].
    unfold decode_punch in D, D2. rewrite flip_at_length in D2.
    destruct (Nat.ltb (length p) punchMinWireLen) eqn:E1; [discriminate|].
    destruct (Nat.ltb punchMaxWireLen (length p)) eqn:E2; [discriminate|].
    apply Nat.ltb_ge in E1.
    destruct (decode_meta m) as [[n k]| |s'] eqn:Em; cbn [bind fst snd] in D, D2; try discriminate.
    destruct (decode_meta_ok _ _ _ Em) as [Ln Lk].
    apply decode_body_ok_iff in D; auto.
    apply decode_body_ok_iff in D2; auto; [|now rewrite flip_at_length].
    destruct D as (salt & rest & Ls & Lr & Vt & Hn & Ep).
    destruct D2 as (salt2 & rest2 & Ls2 & Lr2 & Vt2 & Hn2 & Ep2).
    exists n, k. split; auto.
    assert (Fs : firstn punchSaltLen p = salt).
    { rewrite Ep. rewrite firstn_app, Ls, Nat.sub_diag, firstn_O, app_nil_r. apply firstn_all2. lia. }
    rewrite Fs. split; [apply flip_at_neq; auto; lia|].
    rewrite Ep in Ep2. rewrite flip_at_app_l in Ep2 by lia.
    assert (salt2 = flip_at salt i b /\ xor_cyc (H (k ++ salt)) 0 (hdr ty n ++ rest) = xor_cyc (H (k ++ salt2)) 0 (hdr ty2 n ++ rest2)) as [-> Et].
    { apply (f_equal (firstn punchSaltLen)) in Ep2 as X1. apply (f_equal (skipn punchSaltLen)) in Ep2 as X2.
      rewrite !firstn_app, flip_at_length, Ls, Ls2, Nat.sub_diag, !firstn_O, !app_nil_r in X1.
      rewrite !firstn_all2 in X1 by (rewrite ?flip_at_length; lia).
      rewrite !skipn_app, flip_at_length, Ls, Ls2, Nat.sub_diag, !skipn_O in X2.
      rewrite !skipn_all2 in X2 by (rewrite ?flip_at_length; lia). cbn [app] in X2. split; auto. }
    eapply tails_magic; eauto.
  Qed.
End Cross.
