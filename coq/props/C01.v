(* C01 - No proxying before authentication on the same connection.
   Property theorems only; every proof is `exact <lemma>` from proof/C01_ServerAuth.v.
   The model (model/C01_ServerAuth.v) is a labelled transition system over the atomic sections of
   ServeHTTP / ProxyStreamHijacker / handleClient; `run cfg masq init acts = Some (s, tr)` says the action
   sequence acts (any interleaving of any number of connections' actions, any length) is a behaviour of
   the server, ending in state s with trace tr (each action followed by what it made observable).
   cfg (UDP on/off, bandwidth settings) and masq (the masquerade handler, any function) are arbitrary. *)
From Hy Require Import model.C01_ServerAuth proof.C01_ServerAuth proof.C01_AnyId.
Local Open Scope N_scope.

(* Every Outbound.TCP / Outbound.UDP call and every relayed payload for a connection c is preceded, in the
   trace, by an accepting verdict of the authenticator on that same connection c.  (Also as the executable
   monitor c01_mon, which the check evaluates on logs recorded from the real server.) *)
Theorem C01_no_outbound_before_auth : forall cfg masq acts s tr,
  run cfg masq init acts = Some (s, tr) ->
  c01_mon [] tr = true /\
  forall pre e post c, tr = pre ++ e :: post -> outbound_conn e = Some c ->
    exists id pad, In (EAct (AuthVerdict c true id pad)) pre.
Proof. exact no_outbound_before_auth. Qed.
Print Assumptions C01_no_outbound_before_auth.

(* Acceptance on one connection never authorises another: a step taken for connection c (a verdict
   included) leaves the whole handler state of every other connection unchanged, and everything it makes
   observable is attributed to c. *)
Theorem C01_auth_is_per_connection : forall cfg masq s a s' o,
  step cfg masq s a = Some (s', o) ->
  (forall c', c' <> act_conn a -> s' c' = s c') /\ Forall (fun x => obs_conn x = act_conn a) o.
Proof. exact auth_is_per_connection. Qed.
Print Assumptions C01_auth_is_per_connection.

(* Once a connection is authenticated (in any reachable state s1), no later action sequence - rejected
   credentials, repeated auth requests, anything on any connection - clears the flag or changes the id, the
   authenticator is not called for that connection again, and no verdict for it is ever taken again. *)
Theorem C01_auth_is_sticky_and_not_reevaluated : forall cfg masq acts1 acts2 s1 tr1 s2 tr2 c,
  run cfg masq init acts1 = Some (s1, tr1) -> authed (s1 c) = true ->
  run cfg masq s1 acts2 = Some (s2, tr2) ->
  authed (s2 c) = true /\ auth_id (s2 c) = auth_id (s1 c) /\
  (forall auth tx, ~ In (EObs (ObsAuthCall c auth tx)) tr2) /\
  (forall ok id pad, ~ In (EAct (AuthVerdict c ok id pad)) tr2).
Proof. exact auth_is_sticky_and_not_reevaluated. Qed.
Print Assumptions C01_auth_is_sticky_and_not_reevaluated.

(* Online census: per connection there is at most one accepting verdict; LogOnlineState(id,true) and
   Connect are emitted exactly once per accepting verdict; LogOnlineState(id,false) and Disconnect exactly
   once, at close, iff the connection was authenticated; all of them carry the id the authenticator gave;
   offline never comes before online. *)
Theorem C01_online_paired : forall cfg masq acts s tr c,
  run cfg masq init acts = Some (s, tr) ->
  count (is_accept c) tr = nb (authed (s c)) /\
  count (is_online c true) tr = nb (authed (s c)) /\
  count (is_connect c) tr = nb (authed (s c)) /\
  count (is_online c false) tr = nb (authed (s c) && closed (s c)) /\
  count (is_disconnect c) tr = nb (authed (s c) && closed (s c)) /\
  (forall id b, In (EObs (ObsOnline c id b)) tr -> id = auth_id (s c)) /\
  (forall pre id post, tr = pre ++ EObs (ObsOnline c id false) :: post -> In (EObs (ObsOnline c id true)) pre).
Proof. exact online_paired. Qed.
Print Assumptions C01_online_paired.

(* The client id of the accepting verdict plays no part: Authenticate may answer (true, id) with ANY id - the
   empty string included (h.authenticated and h.authID are separate fields).  After an accepting verdict with an
   arbitrary id on c in a reachable state, whatever follows on any connection: c stays authenticated under that
   very id, the authenticator is not called for c again, no verdict is taken for c again, and as long as c is
   open every auth request on it is answered in one step by the 233 response alone - no authenticator call, no
   masquerade call, no second online / connect event, state unchanged.  (proof/C01_AnyId.v has the instance
   id = [] and runs the history accept-with-empty-id / wrong credentials / repeat / proxy / close in the model.) *)
Theorem C01_accept_with_any_id_is_final : forall cfg masq acts1 s0 tr0 c id pad s1 o acts2 s2 tr2,
  run cfg masq init acts1 = Some (s0, tr0) ->
  step cfg masq s0 (AuthVerdict c true id pad) = Some (s1, o) ->
  run cfg masq s1 acts2 = Some (s2, tr2) ->
  authed (s2 c) = true /\ auth_id (s2 c) = id /\
  (forall auth tx, ~ In (EObs (ObsAuthCall c auth tx)) tr2) /\
  (forall ok id' pad', ~ In (EAct (AuthVerdict c ok id' pad')) tr2) /\
  (closed (s2 c) = false -> forall r pad2, is_auth_req r = true ->
     step cfg masq s2 (HttpReq c r pad2) = Some (s2, [ObsResp c r (resp_auth_ok cfg pad2)])).
Proof. exact accept_with_any_id_is_final. Qed.
Print Assumptions C01_accept_with_any_id_is_final.
