(* C01 - No proxying before authentication on the same connection.
   Property theorems only; every proof is `exact <lemma>` from proof/C01_ServerAuth.v.
   The model (model/C01_ServerAuth.v) is a labelled transition system over the atomic sections of
   ServeHTTP / ProxyStreamHijacker / handleClient; `run cfg masq init acts = Some (s, tr)` says the action
   sequence acts (any interleaving of any number of connections' actions, any length) is a behaviour of
   the server, ending in state s with trace tr (each action followed by what it made observable).
   cfg (UDP on/off, bandwidth settings) and masq (the masquerade handler, any function) are arbitrary. *)
From Hy Require Import model.C01_ServerAuth proof.C01_ServerAuth proof.C01_AnyId.
From Hy Require Import model.C01_Compose proof.C01_Compose.
Local Open Scope N_scope.

(* Every Outbound.TCP / Outbound.UDP call and every relayed payload for a connection c is preceded, in the
   trace, by an accepting verdict of the authenticator on that same connection c.  (Also as the executable
   monitor c01_mon, which the check evaluates on logs recorded from the real server.) *)
Theorem C01_no_outbound_before_auth : forall cfg masq acts s tr,
  run cfg masq init acts = Some (s, tr) ->
  c01_mon [] tr = true /\
  forall pre e post c, tr = pre ++ e :: post -> outbound_conn e = Some c ->
    exists id pad, In (EAct (AuthVerdict c true id pad)) pre.
Proof. exact no_outbound_before_auth. Qed.
Print Assumptions C01_no_outbound_before_auth.

(* Acceptance on one connection never authorises another: a step taken for connection c (a verdict
   included) leaves the whole handler state of every other connection unchanged, and everything it makes
   observable is attributed to c. *)
Theorem C01_auth_is_per_connection : forall cfg masq s a s' o,
  step cfg masq s a = Some (s', o) ->
  (forall c', c' <> act_conn a -> s' c' = s c') /\ Forall (fun x => obs_conn x = act_conn a) o.
Proof. exact auth_is_per_connection. Qed.
Print Assumptions C01_auth_is_per_connection.

(* Once a connection is authenticated (in any reachable state s1), no later action sequence - rejected
   credentials, repeated auth requests, anything on any connection - clears the flag or changes the id, the
   authenticator is not called for that connection again, and no verdict for it is ever taken again. *)
Theorem C01_auth_is_sticky_and_not_reevaluated : forall cfg masq acts1 acts2 s1 tr1 s2 tr2 c,
  run cfg masq init acts1 = Some (s1, tr1) -> authed (s1 c) = true ->
  run cfg masq s1 acts2 = Some (s2, tr2) ->
  authed (s2 c) = true /\ auth_id (s2 c) = auth_id (s1 c) /\
  (forall auth tx, ~ In (EObs (ObsAuthCall c auth tx)) tr2) /\
  (forall ok id pad, ~ In (EAct (AuthVerdict c ok id pad)) tr2).
Proof. exact auth_is_sticky_and_not_reevaluated. Qed.
Print Assumptions C01_auth_is_sticky_and_not_reevaluated.

(* Online census: per connection there is at most one accepting verdict; LogOnlineState(id,true) and
   Connect are emitted exactly once per accepting verdict; LogOnlineState(id,false) and Disconnect exactly
   once, at close, iff the connection was authenticated; all of them carry the id the authenticator gave;
   offline never comes before online. *)
Theorem C01_online_paired : forall cfg masq acts s tr c,
  run cfg masq init acts = Some (s, tr) ->
  count (is_accept c) tr = nb (authed (s c)) /\
  count (is_online c true) tr = nb (authed (s c)) /\
  count (is_connect c) tr = nb (authed (s c)) /\
  count (is_online c false) tr = nb (authed (s c) && closed (s c)) /\
  count (is_disconnect c) tr = nb (authed (s c) && closed (s c)) /\
  (forall id b, In (EObs (ObsOnline c id b)) tr -> id = auth_id (s c)) /\
  (forall pre id post, tr = pre ++ EObs (ObsOnline c id false) :: post -> In (EObs (ObsOnline c id true)) pre).
Proof. exact online_paired. Qed.
Print Assumptions C01_online_paired.

(* The client id of the accepting verdict plays no part: Authenticate may answer (true, id) with ANY id - the
   empty string included (h.authenticated and h.authID are separate fields).  After an accepting verdict with an
   arbitrary id on c in a reachable state, whatever follows on any connection: c stays authenticated under that
   very id, the authenticator is not called for c again, no verdict is taken for c again, and as long as c is
   open every auth request on it is answered in one step by the 233 response alone - no authenticator call, no
   masquerade call, no second online / connect event, state unchanged.  (proof/C01_AnyId.v has the instance
   id = [] and runs the history accept-with-empty-id / wrong credentials / repeat / proxy / close in the model.) *)
Theorem C01_accept_with_any_id_is_final : forall cfg masq acts1 s0 tr0 c id pad s1 o acts2 s2 tr2,
  run cfg masq init acts1 = Some (s0, tr0) ->
  step cfg masq s0 (AuthVerdict c true id pad) = Some (s1, o) ->
  run cfg masq s1 acts2 = Some (s2, tr2) ->
  authed (s2 c) = true /\ auth_id (s2 c) = id /\
  (forall auth tx, ~ In (EObs (ObsAuthCall c auth tx)) tr2) /\
  (forall ok id' pad', ~ In (EAct (AuthVerdict c ok id' pad')) tr2) /\
  (closed (s2 c) = false -> forall r pad2, is_auth_req r = true ->
     step cfg masq s2 (HttpReq c r pad2) = Some (s2, [ObsResp c r (resp_auth_ok cfg pad2)])).
Proof. exact accept_with_any_id_is_final. Qed.
Print Assumptions C01_accept_with_any_id_is_final.

(* ---- Composition.  The theorems above are about the abstract LTS, in which the inside of handleTCPRequest and
   of the UDP session manager is "may reach the outbound / relay once it exists".  model/C01_Compose.v is the
   per-connection PRODUCT: the C01 control LTS (used as it is) x one run of the handleTCPRequest LTS of property
   C06 (model/C06_Hook.v hstep, which embeds the copy loops and teardown of model/C06_Relay.v) for every stream
   ProxyStreamHijacker accepts x the session-manager LTS of property C07 (model/C07_UDPSessions.v step) once
   ServeHTTP has started it.  No component step looks at the authenticated flag; `krun cfg masq md timeout kinit
   acts = Some (k, tr)`: acts (any interleaving of control actions of any number of connections with the actions
   of all their handlers and managers) is a behaviour of the product, tr its trace in C01's vocabulary. *)

(* (a) The gate, for the composed system.  Every action of a handler (reading the request, the hook, Outbound.TCP,
   the response, the putback, every Read / LogTraffic / Write of both copy loops, the teardown) or of the session
   manager (ReceiveMessage, table lookup / insert, Outbound.UDP, WriteTo, ReadFrom, SendMessage, every close) of
   connection c is taken in a product state whose C01 component has c authenticated, and comes after an accepting
   verdict of the authenticator on THAT connection c in the run. *)
Theorem C01_composed_no_component_action_before_auth : forall cfg masq md timeout pre a post k tr c,
  krun cfg masq md timeout kinit (pre ++ a :: post) = Some (k, tr) -> kcomp_conn a = Some c ->
  (exists id pad, In (KCtl (AuthVerdict c true id pad)) pre) /\
  (forall k1 tr1 k2 o, krun cfg masq md timeout kinit pre = Some (k1, tr1) ->
     kstep cfg masq md timeout k1 a = Some (k2, o) -> authed (k_base k1 c) = true).
Proof. exact composed_no_component_action_before_auth. Qed.
Print Assumptions C01_composed_no_component_action_before_auth.

(* (b) Refinement.  The projection of a product run (control actions as they are; a handler's dial -> TcpDial, its
   putback and every chunk a copy loop writes -> TcpRelay; the manager's dial -> UdpRecv, its WriteTo / SendMessage
   -> UdpRelay; every other component action -> nothing) is a run of the abstract C01 LTS with the SAME trace, ending
   in a state that agrees with the product on every flag of every connection. *)
Theorem C01_composed_refines_abstract : forall cfg masq md timeout acts k tr,
  krun cfg masq md timeout kinit acts = Some (k, tr) ->
  exists s, run cfg masq init (flat_map kabs acts) = Some (s, tr) /\
    forall c, authed (s c) = authed (k_base k c) /\ auth_id (s c) = auth_id (k_base k c) /\
              in_auth (s c) = in_auth (k_base k c) /\ udp_sm (s c) = udp_sm (k_base k c) /\
              closed (s c) = closed (k_base k c).
Proof. exact composed_refines_abstract. Qed.
Print Assumptions C01_composed_refines_abstract.

(* ... so the C01 theorems hold of the product; the headline one, restated: in the trace of every product run,
   every Outbound.TCP / Outbound.UDP call and every relayed payload for c is preceded by an accepting verdict on c
   (and the executable monitor accepts the trace). *)
Theorem C01_composed_no_outbound_before_auth : forall cfg masq md timeout acts k tr,
  krun cfg masq md timeout kinit acts = Some (k, tr) ->
  c01_mon [] tr = true /\
  forall pre e post c, tr = pre ++ e :: post -> outbound_conn e = Some c ->
    exists id pad, In (EAct (AuthVerdict c true id pad)) pre.
Proof. exact compose_no_outbound_before_auth. Qed.
Print Assumptions C01_composed_no_outbound_before_auth.

(* The address / size labels the product carries for the projection restrict no component: whatever step a
   handler can take by its own LTS it can take in the product, and so can the session manager - except that
   ReceiveMessage delivers a datagram only if one is queued on the connection. *)
Theorem C01_composed_labels_never_block : forall cfg masq md timeout acts k tr,
  krun cfg masq md timeout kinit acts = Some (k, tr) ->
  (forall c i h x p', nth_error (k_tcp k c) i = Some h -> H.hstep false md (h_pc h) x = Some p' ->
     kstep cfg masq md timeout k (KTcp c i (h_addr h) x) <> None) /\
  (forall c u x u' ev, k_udp k c = Some u -> U.step timeout u x = Some (u', ev) ->
     match x with
     | U.ARecv _ _ => forall addr n, mem addr (dq (k_base k c)) = true -> kstep cfg masq md timeout k (KUdp c addr n x) <> None
     | _ => exists addr, forall n, kstep cfg masq md timeout k (KUdp c addr n x) <> None
     end).
Proof. exact composed_labels_never_block. Qed.
Print Assumptions C01_composed_labels_never_block.
