(* C01 - No proxying before authentication on the same connection.
   Property theorems only; every proof is `exact <lemma>` from proof/C01_ServerAuth.v.
   The model (model/C01_ServerAuth.v) is a labelled transition system over the atomic sections of
   ServeHTTP / ProxyStreamHijacker / handleClient; `run cfg masq init acts = Some (s, tr)` says the action
   sequence acts (any interleaving of any number of connections' actions, any length) is a behaviour of
   the server, ending in state s with trace tr (each action followed by what it made observable).
   cfg (UDP on/off, bandwidth settings) and masq (the masquerade handler, any function) are arbitrary. *)
From Hy Require Import model.C01_ServerAuth proof.C01_ServerAuth proof.C01_AnyId.
From Hy Require Import model.C01_Compose proof.C01_Compose.
From Hy Require Import gen.ParamsC01 model.C01_Lifecycle proof.C01_Lifecycle.
Local Open Scope N_scope.

(* Every Outbound.TCP / Outbound.UDP call and every relayed payload for a connection c is preceded, in the
   trace, by an accepting verdict of the authenticator on that same connection c.  (Also as the executable
   monitor c01_mon, which the check evaluates on logs recorded from the real server.) *)
Theorem C01_no_outbound_before_auth : forall cfg masq acts s tr,
  run cfg masq init acts = Some (s, tr) ->
  c01_mon [] tr = true /\
  forall pre e post c, tr = pre ++ e :: post -> outbound_conn e = Some c ->
    exists id pad, In (EAct (AuthVerdict c true id pad)) pre.
Proof. exact no_outbound_before_auth. Qed.
Print Assumptions C01_no_outbound_before_auth.

(* Acceptance on one connection never authorises another: a step taken for connection c (a verdict
   included) leaves the whole handler state of every other connection unchanged, and everything it makes
   observable is attributed to c. *)
Theorem C01_auth_is_per_connection : forall cfg masq s a s' o,
  step cfg masq s a = Some (s', o) ->
  (forall c', c' <> act_conn a -> s' c' = s c') /\ Forall (fun x => obs_conn x = act_conn a) o.
Proof. exact auth_is_per_connection. Qed.
Print Assumptions C01_auth_is_per_connection.

(* Once a connection is authenticated (in any reachable state s1), no later action sequence - rejected
   credentials, repeated auth requests, anything on any connection - clears the flag or changes the id, the
   authenticator is not called for that connection again, and no verdict for it is ever taken again. *)
Theorem C01_auth_is_sticky_and_not_reevaluated : forall cfg masq acts1 acts2 s1 tr1 s2 tr2 c,
  run cfg masq init acts1 = Some (s1, tr1) -> authed (s1 c) = true ->
  run cfg masq s1 acts2 = Some (s2, tr2) ->
  authed (s2 c) = true /\ auth_id (s2 c) = auth_id (s1 c) /\
  (forall auth tx, ~ In (EObs (ObsAuthCall c auth tx)) tr2) /\
  (forall ok id pad, ~ In (EAct (AuthVerdict c ok id pad)) tr2).
Proof. exact auth_is_sticky_and_not_reevaluated. Qed.
Print Assumptions C01_auth_is_sticky_and_not_reevaluated.

(* Online census: per connection there is at most one accepting verdict; LogOnlineState(id,true) and
   Connect are emitted exactly once per accepting verdict; LogOnlineState(id,false) and Disconnect exactly
   once, at close, iff the connection was authenticated; all of them carry the id the authenticator gave;
   offline never comes before online. *)
Theorem C01_online_paired : forall cfg masq acts s tr c,
  run cfg masq init acts = Some (s, tr) ->
  count (is_accept c) tr = nb (authed (s c)) /\
  count (is_online c true) tr = nb (authed (s c)) /\
  count (is_connect c) tr = nb (authed (s c)) /\
  count (is_online c false) tr = nb (authed (s c) && closed (s c)) /\
  count (is_disconnect c) tr = nb (authed (s c) && closed (s c)) /\
  (forall id b, In (EObs (ObsOnline c id b)) tr -> id = auth_id (s c)) /\
  (forall pre id post, tr = pre ++ EObs (ObsOnline c id false) :: post -> In (EObs (ObsOnline c id true)) pre).
Proof. exact online_paired. Qed.
Print Assumptions C01_online_paired.

(* The client id of the accepting verdict plays no part: Authenticate may answer (true, id) with ANY id - the
   empty string included (h.authenticated and h.authID are separate fields).  After an accepting verdict with an
   arbitrary id on c in a reachable state, whatever follows on any connection: c stays authenticated under that
   very id, the authenticator is not called for c again, no verdict is taken for c again, and as long as c is
   open every auth request on it is answered in one step by the 233 response alone - no authenticator call, no
   masquerade call, no second online / connect event, state unchanged.  (proof/C01_AnyId.v has the instance
   id = [] and runs the history accept-with-empty-id / wrong credentials / repeat / proxy / close in the model.) *)
Theorem C01_accept_with_any_id_is_final : forall cfg masq acts1 s0 tr0 c id pad s1 o acts2 s2 tr2,
  run cfg masq init acts1 = Some (s0, tr0) ->
  step cfg masq s0 (AuthVerdict c true id pad) = Some (s1, o) ->
  run cfg masq s1 acts2 = Some (s2, tr2) ->
  authed (s2 c) = true /\ auth_id (s2 c) = id /\
  (forall auth tx, ~ In (EObs (ObsAuthCall c auth tx)) tr2) /\
  (forall ok id' pad', ~ In (EAct (AuthVerdict c ok id' pad')) tr2) /\
  (closed (s2 c) = false -> forall r pad2, is_auth_req r = true ->
     step cfg masq s2 (HttpReq c r pad2) = Some (s2, [ObsResp c r (resp_auth_ok cfg pad2)])).
Proof. exact accept_with_any_id_is_final. Qed.
Print Assumptions C01_accept_with_any_id_is_final.

(* ---- Composition.  The theorems above are about the abstract LTS, in which the inside of handleTCPRequest and
   of the UDP session manager is "may reach the outbound / relay once it exists".  model/C01_Compose.v is the
   per-connection PRODUCT: the C01 control LTS (used as it is) x one run of the handleTCPRequest LTS of property
   C06 (model/C06_Hook.v hstep, which embeds the copy loops and teardown of model/C06_Relay.v) for every stream
   ProxyStreamHijacker accepts x the session-manager LTS of property C07 (model/C07_UDPSessions.v step) once
   ServeHTTP has started it.  No component step looks at the authenticated flag; `krun cfg masq md timeout kinit
   acts = Some (k, tr)`: acts (any interleaving of control actions of any number of connections with the actions
   of all their handlers and managers) is a behaviour of the product, tr its trace in C01's vocabulary. *)

(* (a) The gate, for the composed system.  Every action of a handler (reading the request, the hook, Outbound.TCP,
   the response, the putback, every Read / LogTraffic / Write of both copy loops, the teardown) or of the session
   manager (ReceiveMessage, table lookup / insert, Outbound.UDP, WriteTo, ReadFrom, SendMessage, every close) of
   connection c is taken in a product state whose C01 component has c authenticated, and comes after an accepting
   verdict of the authenticator on THAT connection c in the run. *)
Theorem C01_composed_no_component_action_before_auth : forall cfg masq md timeout pre a post k tr c,
  krun cfg masq md timeout kinit (pre ++ a :: post) = Some (k, tr) -> kcomp_conn a = Some c ->
  (exists id pad, In (KCtl (AuthVerdict c true id pad)) pre) /\
  (forall k1 tr1 k2 o, krun cfg masq md timeout kinit pre = Some (k1, tr1) ->
     kstep cfg masq md timeout k1 a = Some (k2, o) -> authed (k_base k1 c) = true).
Proof. exact composed_no_component_action_before_auth. Qed.
Print Assumptions C01_composed_no_component_action_before_auth.

(* (b) Refinement.  The projection of a product run (control actions as they are; a handler's dial -> TcpDial, its
   putback and every chunk a copy loop writes -> TcpRelay; the manager's dial -> UdpRecv, its WriteTo / SendMessage
   -> UdpRelay; every other component action -> nothing) is a run of the abstract C01 LTS with the SAME trace, ending
   in a state that agrees with the product on every flag of every connection. *)
Theorem C01_composed_refines_abstract : forall cfg masq md timeout acts k tr,
  krun cfg masq md timeout kinit acts = Some (k, tr) ->
  exists s, run cfg masq init (flat_map kabs acts) = Some (s, tr) /\
    forall c, authed (s c) = authed (k_base k c) /\ auth_id (s c) = auth_id (k_base k c) /\
              in_auth (s c) = in_auth (k_base k c) /\ udp_sm (s c) = udp_sm (k_base k c) /\
              closed (s c) = closed (k_base k c).
Proof. exact composed_refines_abstract. Qed.
Print Assumptions C01_composed_refines_abstract.

(* ... so the C01 theorems hold of the product; the headline one, restated: in the trace of every product run,
   every Outbound.TCP / Outbound.UDP call and every relayed payload for c is preceded by an accepting verdict on c
   (and the executable monitor accepts the trace). *)
Theorem C01_composed_no_outbound_before_auth : forall cfg masq md timeout acts k tr,
  krun cfg masq md timeout kinit acts = Some (k, tr) ->
  c01_mon [] tr = true /\
  forall pre e post c, tr = pre ++ e :: post -> outbound_conn e = Some c ->
    exists id pad, In (EAct (AuthVerdict c true id pad)) pre.
Proof. exact compose_no_outbound_before_auth. Qed.
Print Assumptions C01_composed_no_outbound_before_auth.

(* The address / size labels the product carries for the projection restrict no component: whatever step a
   handler can take by its own LTS it can take in the product, and so can the session manager - except that
   ReceiveMessage delivers a datagram only if one is queued on the connection. *)
Theorem C01_composed_labels_never_block : forall cfg masq md timeout acts k tr,
  krun cfg masq md timeout kinit acts = Some (k, tr) ->
  (forall c i h x p', nth_error (k_tcp k c) i = Some h -> H.hstep false md (h_pc h) x = Some p' ->
     kstep cfg masq md timeout k (KTcp c i (h_addr h) x) <> None) /\
  (forall c u x u' ev, k_udp k c = Some u -> U.step timeout u x = Some (u', ev) ->
     match x with
     | U.ARecv _ _ => forall addr n, mem addr (dq (k_base k c)) = true -> kstep cfg masq md timeout k (KUdp c addr n x) <> None
     | _ => exists addr, forall n, kstep cfg masq md timeout k (KUdp c addr n x) <> None
     end).
Proof. exact composed_labels_never_block. Qed.
Print Assumptions C01_composed_labels_never_block.

(* ---- Connection lifecycle.  model/C01_Lifecycle.v adds the BEGINNING of a connection to the LTS (its end, ConnClosed,
   is in the base LTS): `LAccept c` = listener.Accept returned a new connection and handleClient allocated its handler
   with newH3sHandler; c is any id that has never been used on this server, live or ended; `LAct a` = a base action of a
   connection that has been accepted.  `lrun cfg masq linit xs = Some (l, tr)`: xs - connections coming, authenticating
   or not, proxying, ending, new ones coming, in any number, in any interleaving - is a behaviour of the server. *)

(* A lifecycle run is a run of the base LTS (accepts erased) with the same trace and the same handlers: every theorem
   above holds of histories in which connections end and new ones are accepted afterwards. *)
Theorem C01_lifecycle_refines_abstract : forall cfg masq xs l tr,
  lrun cfg masq linit xs = Some (l, tr) ->
  exists s, run cfg masq init (lacts xs) = Some (s, tr) /\ forall c, s c = l_base l c.
Proof. exact lifecycle_refines_abstract. Qed.
Print Assumptions C01_lifecycle_refines_abstract.

(* A terminated connection's id is never reused: in a run every id is accepted at most once, an id that has been
   accepted - whether its connection has ended or not - can not be accepted again, and only accepted connections act. *)
Theorem C01_connection_id_never_reused : forall cfg masq xs l tr,
  lrun cfg masq linit xs = Some (l, tr) ->
  NoDup (laccepts xs) /\
  (forall c, In c (laccepts xs) -> lstep cfg masq l (LAccept c) = None) /\
  (forall a, In (LAct a) xs -> In (act_conn a) (laccepts xs)).
Proof. exact connection_id_never_reused. Qed.
Print Assumptions C01_connection_id_never_reused.

(* A new connection starts unauthenticated, whatever the server has been through (any number of connections accepted,
   authenticated, ended): nothing in the past belongs to it, its handler is the zero handler (flag clear, no id, nothing
   that could reach the outbound), every other handler is untouched, the accept makes nothing observable, and no
   outbound / relay step is enabled for it. *)
Theorem C01_new_connection_starts_unauthenticated : forall cfg masq xs l tr c l' e,
  lrun cfg masq linit xs = Some (l, tr) -> lstep cfg masq l (LAccept c) = Some (l', e) ->
  e = [] /\ l_base l' c = conn0 /\ authed (l_base l' c) = false /\ gate_closed (l_base l' c) /\
  (forall c', c' <> c -> l_base l' c' = l_base l c') /\
  (forall e0, In e0 tr -> ev_conn e0 <> c) /\
  (forall addr, lstep cfg masq l' (LAct (TcpDial c addr)) = None) /\
  (forall addr, lstep cfg masq l' (LAct (UdpRecv c addr)) = None) /\
  (forall addr n, lstep cfg masq l' (LAct (TcpRelay c addr n)) = None) /\
  (forall addr n, lstep cfg masq l' (LAct (UdpRelay c addr n)) = None).
Proof. exact new_connection_starts_unauthenticated. Qed.
Print Assumptions C01_new_connection_starts_unauthenticated.

(* ... and whatever follows its accept (ys: anything, on any connections): every Outbound.TCP / Outbound.UDP call and every
   relayed payload for the new connection c is preceded by an accepting verdict on c taken AFTER c was accepted (in the
   part of the trace that follows the accept).  Verdicts of the past - on connections that have ended or are still
   there - never count for c. *)
Theorem C01_fresh_connection_needs_its_own_verdict : forall cfg masq xs l tr c ys l2 tr2,
  lrun cfg masq linit xs = Some (l, tr) -> lrun cfg masq l (LAccept c :: ys) = Some (l2, tr2) ->
  forall pre e post, tr2 = pre ++ e :: post -> outbound_conn e = Some c ->
    exists id pad, In (EAct (AuthVerdict c true id pad)) pre.
Proof. exact fresh_connection_needs_its_own_verdict. Qed.
Print Assumptions C01_fresh_connection_needs_its_own_verdict.

(* A connection's authorisation depends on its own history only.  own c xs = what c itself did in xs (its accept and its
   actions, in order); own_tr c tr = what the trace shows of c.  (1) c's own history, alone on a fresh server, is a
   behaviour; it ends with the same handler for c (flag, id, streams, sessions, closed) and shows the same of c, and
   touches no other handler.  (2) Two runs of the server - however different in what OTHER connections did, were
   answered, or whether they ended - in which c did the same: c's handler and everything observable of c are the same. *)
Theorem C01_authorisation_depends_only_on_own_history : forall cfg masq c xs1 l1 tr1,
  lrun cfg masq linit xs1 = Some (l1, tr1) ->
  (exists m, lrun cfg masq linit (own c xs1) = Some (m, own_tr c tr1) /\ l_base m c = l_base l1 c /\
             forall c', c' <> c -> l_base m c' = conn0) /\
  (forall xs2 l2 tr2, lrun cfg masq linit xs2 = Some (l2, tr2) -> own c xs1 = own c xs2 ->
     l_base l1 c = l_base l2 c /\ own_tr c tr1 = own_tr c tr2).
Proof. exact authorisation_depends_only_on_own_history. Qed.
Print Assumptions C01_authorisation_depends_only_on_own_history.

(* The authentication request is exactly POST / authority "hysteria" / path "/auth" (byte-wise).  Any other request on
   an open connection - authenticated or not; e.g. the authority followed by a port or a dot: a longer authority is
   never the right one - is one step: the masquerade handler alone; the authenticator is not consulted and no handler
   changes, whatever credentials the request carries. *)
Theorem C01_only_the_exact_auth_request_consults_the_authenticator : forall cfg masq s c r pad,
  closed (s c) = false ->
  (r_method r <> method_post \/ r_host r <> url_host \/ r_path r <> url_path) ->
  step cfg masq s (HttpReq c r pad) = Some (s, [ObsMasq c r; ObsResp c r (masq r)]) /\
  (forall x rest, url_host ++ x :: rest <> url_host).
Proof. exact only_the_exact_auth_request_consults_the_authenticator. Qed.
Print Assumptions C01_only_the_exact_auth_request_consults_the_authenticator.
