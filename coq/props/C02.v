(* C02 - Unauthenticated peers see only the masquerade web server.
   Property theorems only; every proof is `exact <lemma>` from proof/C01_ServerAuth.v (C01 and C02 share the
   model model/C01_ServerAuth.v).  masq : request -> response is the configured masquerade handler
   (http.NotFound when none is configured): ANY function; a response is status + header list + body. *)
From Hy Require Import gen.ParamsC01 model.C01_ServerAuth proof.C01_ServerAuth proof.C02_Window model.C02_Abort proof.C02_Abort
  model.C02_Front proof.C02_Front.
From Coq Require Import String.
Local Open Scope N_scope.

(* A request that is not an auth request (wrong method, host or path - whatever else it carries) gets
   exactly the masquerade handler's response to that request, and changes nothing in the server. *)
Theorem C02_non_auth_is_masq : forall cfg masq s c r pad s' o,
  step cfg masq s (HttpReq c r pad) = Some (s', o) -> is_auth_req r = false ->
  s' = s /\ o = [ObsMasq c r; ObsResp c r (masq r)].
Proof. exact non_auth_is_masq. Qed.
Print Assumptions C02_non_auth_is_masq.

(* An auth request whose credentials the authenticator rejects (in any reachable state; the connection is
   then necessarily not authenticated) gets exactly the masquerade handler's response to that request; the
   connection stays unauthenticated with nothing that could reach the outbound. *)
Theorem C02_rejected_auth_is_masq : forall cfg masq acts s tr c id pad s' o,
  run cfg masq init acts = Some (s, tr) ->
  step cfg masq s (AuthVerdict c false id pad) = Some (s', o) ->
  exists r, in_auth (s c) = Some r /\ is_auth_req r = true /\ authed (s c) = false /\
            o = [ObsMasq c r; ObsResp c r (masq r)] /\
            authed (s' c) = false /\ gate_closed (s' c) /\ in_auth (s' c) = None.
Proof. exact rejected_auth_is_masq_reachable. Qed.
Print Assumptions C02_rejected_auth_is_masq.

(* In every run, a response that differs in anything (status, a header, the body) from the masquerade
   handler's response to the same request is the 233 response to an auth request, and an accepting verdict
   on that same connection precedes it.  So status 233 and the Hysteria-* headers the server adds appear
   only then (a handler that emits such things itself is the handler's doing: then resp = masq r). *)
Theorem C02_no_hysteria_marker_unless_accepted : forall cfg masq acts s tr,
  run cfg masq init acts = Some (s, tr) ->
  c02_mon masq [] tr = true /\
  forall pre c r resp post, tr = pre ++ EObs (ObsResp c r resp) :: post -> resp <> masq r ->
    is_auth_req r = true /\ (exists pad, resp = resp_auth_ok cfg pad) /\
    exists id pad, In (EAct (AuthVerdict c true id pad)) pre.
Proof. exact no_hysteria_marker_unless_accepted. Qed.
Print Assumptions C02_no_hysteria_marker_unless_accepted.

(* is_auth_req is true for exactly one (method, host, path) triple - the constants regenerated from the
   code (byte-wise equality) - and false on the near-miss corpus. *)
Theorem C02_is_auth_req_exact :
  (forall r, is_auth_req r = true <-> r_method r = method_post /\ r_host r = url_host /\ r_path r = url_path) /\
  is_auth_req (mkReq (bs "POST"%string) (bs "hysteria"%string) (bs "/auth"%string) [] [] 0) = true /\
  forallb (fun t => negb (is_auth_req (mkReq (fst (fst t)) (snd (fst t)) (snd t) [] [] 0))) near_misses = true.
Proof. exact (conj is_auth_req_exact (conj the_auth_request_accepted near_misses_rejected)). Qed.
Print Assumptions C02_is_auth_req_exact.

(* On a connection that is not authenticated (any reachable state): a proxy stream (any frame type, 0x401
   included) and a datagram make nothing observable and leave the gate closed, and no step that dials,
   receives from the datagram queue or relays - the only producers of a Hysteria protocol reply - is enabled. *)
Theorem C02_unauth_stream_no_reply : forall cfg masq acts s tr c,
  run cfg masq init acts = Some (s, tr) -> authed (s c) = false ->
  (forall ft addr s' o, step cfg masq s (Stream c ft addr) = Some (s', o) ->
      o = [] /\ authed (s' c) = false /\ gate_closed (s' c)) /\
  (forall addr s' o, step cfg masq s (Datagram c addr) = Some (s', o) ->
      o = [] /\ authed (s' c) = false /\ gate_closed (s' c)) /\
  (forall addr n, step cfg masq s (TcpDial c addr) = None /\ step cfg masq s (TcpRelay c addr n) = None /\
                  step cfg masq s (UdpRecv c addr) = None /\ step cfg masq s (UdpRelay c addr n) = None).
Proof. exact unauth_stream_no_reply. Qed.
Print Assumptions C02_unauth_stream_no_reply.

(* While an auth request of connection c is inside Authenticator.Authenticate and the authenticator has not
   answered (in_auth (s c) = Some r0, in any reachable state), nothing has been accepted on c and c shows nothing
   but the masquerade: c is unauthenticated with nothing that could reach the outbound; a further auth request on
   c is not handled at all before the verdict (step = None: it waits for authMutex - in particular it is not
   answered 233); and every step taken for c other than an accepting verdict - another request, a proxy stream
   of any frame type, a datagram, a rejecting verdict - leaves c unauthenticated with the gate closed, makes only
   masquerade responses observable, reaches no outbound, and leaves the call pending unless it is the verdict. *)
Theorem C02_undecided_auth_reveals_nothing : forall cfg masq acts s tr c r0,
  run cfg masq init acts = Some (s, tr) -> in_auth (s c) = Some r0 ->
  (authed (s c) = false /\ gate_closed (s c)) /\
  (forall r pad, is_auth_req r = true -> step cfg masq s (HttpReq c r pad) = None) /\
  (forall a s' o, act_conn a = c -> is_accepting_verdict a = false -> step cfg masq s a = Some (s', o) ->
      authed (s' c) = false /\ gate_closed (s' c) /\ Forall (resp_is_masq masq) o /\
      (forall x, In x o -> outbound_conn (EObs x) = None) /\
      (in_auth (s' c) = Some r0 \/ exists id pad, a = AuthVerdict c false id pad)).
Proof. exact undecided_auth_reveals_nothing. Qed.
Print Assumptions C02_undecided_auth_reveals_nothing.

(* ---- callbacks that do not return normally (model/C02_Abort.v): the masquerade handler may abort its response
   (masq : request -> mres, MAbort sent = it panics - http.ErrAbortHandler or anything else - after having flushed
   `sent`), Authenticator.Authenticate may panic (XAuthPanic), a logger may panic after an accepting verdict
   (XLogPanic).  The HTTP/3 server recovers the panic and goes on serving the connection with the same handler. *)

(* authMutex is released on every exit of the auth branch.  In any reachable state, for any step: if the step belongs to
   the auth branch and ends its request - with the 233 response, the masquerade handler's response, the handler's abort,
   a panic of the authenticator or of a logger - the connection's mutex is free afterwards; and the mutex is held
   after a step only if it was held before and the step does not end the pending Authenticate call, or the step is the
   ServeHTTP that has just entered Authenticate (its only observable is that call). *)
Theorem C02_auth_lock_released_on_every_exit : forall cfg masq acts s tr,
  xrun cfg masq init acts = Some (s, tr) ->
  forall a s' o, xstep cfg masq s a = Some (s', o) ->
    (in_auth_branch a = true -> existsb ends_request o = true -> in_auth (s' (xact_conn a)) = None) /\
    (forall r0, in_auth (s' (xact_conn a)) = Some r0 ->
       (in_auth (s (xact_conn a)) = Some r0 /\ ends_call a = false) \/
       (in_auth (s (xact_conn a)) = None /\ is_auth_req r0 = true /\
        exists pad, a = XBase (HttpReq (xact_conn a) r0 pad) /\
                    o = [XO (ObsAuthCall (xact_conn a) (r_auth r0) (parse_u64 (r_ccrx r0)))])).
Proof. exact lock_released_reachable. Qed.
Print Assumptions C02_auth_lock_released_on_every_exit.

(* No request on a live connection waits for ever, whatever happened to earlier requests.  In any reachable state of a
   connection that is not closed: if the mutex is free, every request is taken up at once and ended at once (response or
   abort) unless it is an auth request on an unauthenticated connection, which enters Authenticate; if an Authenticate
   call is pending, every way it can end - accept, reject (the handler then answers or aborts), panic, accept followed
   by a logger panic - is enabled, ends the request and frees the mutex. *)
Theorem C02_no_request_waits_forever : forall cfg masq acts s tr c,
  xrun cfg masq init acts = Some (s, tr) -> closed (s c) = false ->
  (in_auth (s c) = None ->
     forall r pad, exists s' o, xstep cfg masq s (XBase (HttpReq c r pad)) = Some (s', o) /\
       (existsb ends_request o = true \/
        (is_auth_req r = true /\ authed (s c) = false /\ in_auth (s' c) = Some r))) /\
  (forall r0, in_auth (s c) = Some r0 ->
     (forall ok id pad, exists s' o, xstep cfg masq s (XBase (AuthVerdict c ok id pad)) = Some (s', o) /\
                                     in_auth (s' c) = None /\ existsb ends_request o = true) /\
     (exists s' o, xstep cfg masq s (XAuthPanic c) = Some (s', o) /\ in_auth (s' c) = None /\ existsb ends_request o = true) /\
     (forall id pad site, exists s' o, xstep cfg masq s (XLogPanic c id pad site) = Some (s', o) /\
                                       in_auth (s' c) = None /\ existsb ends_request o = true)).
Proof. exact no_request_starves_reachable. Qed.
Print Assumptions C02_no_request_waits_forever.

(* In every run with abnormal exits at any of its requests: a complete response is exactly what the masquerade handler
   returns for that request, or it is the 233 response to an auth request and an accepting verdict on the same connection
   precedes it; an aborted response is exactly the handler's own abort of that request (nothing beyond what the handler
   had flushed), or the abort of an auth request during which the authenticator or a logger panicked, with nothing
   delivered. *)
Theorem C02_aborts_do_not_unmask : forall cfg masq acts s tr,
  xrun cfg masq init acts = Some (s, tr) ->
  forall pre x post, tr = pre ++ XE x :: post ->
    match x with
    | XO (ObsResp c r resp) =>
        masq r = MResp resp \/
        (is_auth_req r = true /\ (exists pad, resp = resp_auth_ok cfg pad) /\
         exists a, In (XA a) pre /\ x_accepts a = Some c)
    | XAbort c r sent =>
        masq r = MAbort sent \/ (is_auth_req r = true /\ sent = None)
    | _ => True
    end.
Proof. exact aborts_do_not_unmask. Qed.
Print Assumptions C02_aborts_do_not_unmask.

(* The extension changes nothing when every callback returns: with a handler that returns for every request the
   extended step on a base action is the step of the model shared with C01 (so the theorems above this block speak
   about the same transition system). *)
Theorem C02_abort_model_conservative : forall cfg masq (m : request -> response) s b,
  (forall r, masq r = MResp (m r)) ->
  xstep cfg masq s (XBase b) = match step cfg m s b with Some (s', o) => Some (s', map XO o) | None => None end.
Proof. exact xstep_conservative. Qed.
Print Assumptions C02_abort_model_conservative.

(* ---- the HTTP/3 front of a connection (model/C02_Front.v): the http3.Server that handleClient builds hands a request to
   ServeHTTP unless its header block is above the limit the library applies - MaxHeaderBytes is not set, so that is
   http.DefaultMaxHeaderBytes = 1 MiB, the limit of every server of the net/http family.  A wire request w is the request
   ServeHTTP sees (w_req w) plus the length of the encoded HEADERS frame and the size of the decoded field section. *)

(* The masquerade clause holds in EVERY state of a connection - authenticated or not, with or without an auth request
   inside Authenticate (s is any state): a request that is not an auth request (only POST + host + path is special:
   C02_is_auth_req_exact) and whose header block is at most 1 MiB - whatever else its size - is handed to the masquerade
   handler and gets exactly the handler's response to it; no authenticator call, no 233, nothing in the server changes.
   And there are reachable authenticated states in which this is what happens to GET hysteria /auth with the credentials
   that were accepted. *)
Theorem C02_masq_in_every_connection_state :
  (forall cfg masq s c w pad,
     closed (s c) = false -> is_auth_req (w_req w) = false -> w_frame w <= 1048576 -> w_fields w <= 1048576 ->
     fstep front_limit cfg masq s (FReq c w pad) =
     Some (s, [FO (ObsMasq c (w_req w)); FO (ObsResp c (w_req w) (masq (w_req w)))])) /\
  (forall cfg masq s c w1 w2 pad,
     too_large front_limit w1 = false -> too_large front_limit w2 = false -> w_req w1 = w_req w2 ->
     fstep front_limit cfg masq s (FReq c w1 pad) = fstep front_limit cfg masq s (FReq c w2 pad)).
Proof. exact masq_in_every_connection_state. Qed.
Print Assumptions C02_masq_in_every_connection_state.

(* The front lets through exactly the header blocks of at most 1 MiB: such a request is served by ServeHTTP's step for
   it (so every theorem above speaks about it); a larger one is answered by the library's bare 431 with no authenticator
   call, no handler call and no change of state. *)
Theorem C02_front_limit_is_the_library_default : forall cfg masq s c w pad,
  closed (s c) = false ->
  front_limit = 1048576 /\
  (too_large front_limit w = false <-> w_frame w <= 1048576 /\ w_fields w <= 1048576) /\
  (too_large front_limit w = false ->
     fstep front_limit cfg masq s (FReq c w pad) =
     match step cfg masq s (HttpReq c (w_req w) pad) with Some (s', o) => Some (s', map FO o) | None => None end) /\
  (too_large front_limit w = true -> fstep front_limit cfg masq s (FReq c w pad) = Some (s, [F431 c w])).
Proof. exact front_limit_is_the_library_default. Qed.
Print Assumptions C02_front_limit_is_the_library_default.

(* In every run through the front, whatever the sizes of the header blocks: a response that reaches the client is the
   masquerade handler's own response to that request, or the 233 response to an auth request and an accepting verdict on
   the same connection precedes it, or the library's 431 - and that only for a header block above 1 MiB. *)
Theorem C02_front_unmasks_nothing : forall cfg masq acts s ftr,
  frun front_limit cfg masq init acts = Some (s, ftr) ->
  forall pre x post, ftr = pre ++ FE x :: post ->
    match x with
    | FO (ObsResp c r resp) =>
        resp = masq r \/
        (is_auth_req r = true /\ (exists pad, resp = resp_auth_ok cfg pad) /\
         exists id pad, In (FA (FAct (AuthVerdict c true id pad))) pre)
    | F431 c w => 1048576 < w_frame w \/ 1048576 < w_fields w
    | _ => True
    end.
Proof. exact (front_unmasks_nothing front_limit). Qed.
Print Assumptions C02_front_unmasks_nothing.
