(* C03 - Peer-controlled bytes never crash the process.
   Property theorems only; every proof is `exact <lemma>`.  C03 is an aggregate: one theorem per
   network-facing decoder / stateful receiver of the property's file list.  The decoders that
   belong to other properties are cited from their proof files (C04 TCP framing, C05
   fragmentation, C13 Salamander + obfs conn, C14 Gecko, C17 sniffer + QUIC initial parsing, C20
   hole punching); the gaps are proved in proof/C03_*.v:
     (a) the server and client datagram receive paths (parse -> session -> reassembler),
     (b) the speed-test server and response readers,
     (c) the STUN handling around pion/stun.
   "Never panics" is `<> Panic _` / `is_panic .. = false` / `exists r, .. = Ok r` over models in
   which every Go operation that can panic (slice expression, index, make with a computed
   length, division, nil dereference, send on / close of a closed channel) is an explicit
   `Panic site`.  Library code (pion/stun, utls, net/http, crypto) is a universally quantified
   oracle in every statement. *)
From Hy Require Import lib.Reader model.C05_Frag proof.C05_Frag proof.C03_Defrag.
From Hy Require Import model.C03_UDPRecv proof.C03_UDPRecv.
From Hy Require Import model.C03_Speedtest proof.C03_Speedtest.
From Hy Require Import model.C03_Stun proof.C03_Stun.
From Hy Require Import model.C04_Framing proof.C04_Framing.
From Hy Require Import model.C13_Salamander proof.C13_Salamander.
From Hy Require model.C14_Gecko proof.C14_Gecko.
From Hy Require model.C17_Sniff proof.C17_Sniff proof.C17_Quic proof.C17_Misc.
From Hy Require model.C20_Punch proof.C20_Punch.
From Hy Require model.C03_Gecko proof.C03_Gecko proof.C03_Alloc gen.ParamsC20.
From Coq Require Import ZArith Permutation.
Local Open Scope N_scope.

(* ================= proxy stream frames (core/internal/protocol/proxy.go), from C04 ========== *)

(* ReadTCPRequest, ReadTCPResponse and the server's frame-type + request read: no panic on any
   reader script (any chunking, zero-length reads, errors anywhere, any declared lengths). *)
Theorem C03_tcp_frame_readers_never_panic : forall st,
  is_panic (fst (read_tcp_request st)) = false /\
  is_panic (fst (read_tcp_response st)) = false /\
  is_panic (fst (server_read_request st)) = false.
Proof. exact C04_Framing.readers_never_panic. Qed.
Print Assumptions C03_tcp_frame_readers_never_panic.

(* varintPut's explicit panic is unreachable for every value the callers pass (a length). *)
Theorem C03_varintPut_never_panics : forall v b, v <= maxVarInt8 -> (8 <= length b)%nat ->
  exists enc, varintPut b v = Ok (enc ++ skipn (length enc) b, length enc) /\ (length enc <= 8)%nat /\
              forall r, varint_read (enc ++ r) = Some (v, r).
Proof. exact varintPut_as_used. Qed.
Print Assumptions C03_varintPut_never_panics.

(* ================= UDP datagrams and fragments ============================================ *)

(* ParseUDPMessage is total on every byte string ... *)
Theorem C03_parse_udp_message_never_panics : forall b, is_panic (parse b) = false.
Proof. exact parse_never_panics. Qed.
Print Assumptions C03_parse_udp_message_never_panics.

(* ... and what it accepts has a 1..MaxMessageLength byte address and a non-empty payload
   (nothing is allocated: address and payload are views of the datagram). *)
Theorem C03_parse_udp_message_bounds : forall b m, parse b = Ok m ->
  (1 <= length (addr m))%nat /\ N.of_nat (length (addr m)) <= MaxMessageLength /\
  (1 <= length (data m))%nat /\ (length (addr m) + length (data m) < length b)%nat.
Proof. exact parse_bounds. Qed.
Print Assumptions C03_parse_udp_message_bounds.

(* FragUDPMessage (the reply path: sizes are chosen by the remote target, the limit by quic-go):
   never panics for any message and any limit.  From C05. *)
Theorem C03_frag_never_panics : forall m maxSize, exists fs, frag m maxSize = Ok fs.
Proof. exact frag_total. Qed.
Print Assumptions C03_frag_never_panics.

(* Defragger.Feed on ANY sequence of messages with one-byte fragment ids/counts (attacker-chosen
   packet ids, ids, counts, payloads; not only splitter output). *)
Theorem C03_defragger_never_panics : forall l d,
  dinv d -> Forall (fun m => fid m < 256 /\ fcount m < 256) l ->
  exists d' outs, feed_all d l = Ok (d', outs) /\ dinv d'.
Proof. exact feed_all_any. Qed.
Print Assumptions C03_defragger_never_panics.

(* Server receive path: for every sequence of datagrams (arbitrary bytes), traffic-logger and dial
   verdicts, session expiries, target replies with any quic-go size verdict, and receive errors:
   no panic, one outcome per action. *)
Theorem C03_server_udp_receive_never_panics : forall l,
  exists s' outs, srv_run ss_init l = Ok (s', outs) /\ length outs = length l.
Proof. exact server_receive_never_panics. Qed.
Print Assumptions C03_server_udp_receive_never_panics.

(* Client receive path: for every interleaving of datagrams (arbitrary bytes), NewUDP, Close,
   Receive and receive errors: no panic - in particular no send on a closed channel and no
   double close. *)
Theorem C03_client_udp_receive_never_panics : forall l,
  exists s' outs, cli_run cs_init l = Ok (s', outs) /\ length outs = length l.
Proof. exact client_receive_never_panics. Qed.
Print Assumptions C03_client_udp_receive_never_panics.

(* ================= obfuscated / chunked transport packets ================================= *)

(* Salamander Obfuscate/Deobfuscate and obfs conn WriteTo / any sequence of ReadFrom calls over
   any incoming datagrams, buffer sizes and key; any hash function.  From C13. *)
Theorem C03_salamander_never_panics : forall (H : list byte -> list byte) psk salt p inp cap plens evs uerr,
  (exists r, obfuscate H psk salt p cap = Ok r) /\
  (exists r, deobfuscate H psk inp cap = Ok r) /\
  (exists r, write_to H psk salt p uerr = Ok r) /\
  (exists r, read_seq H psk plens evs = Ok r).
Proof. exact never_panics. Qed.
Print Assumptions C03_salamander_never_panics.

(* Gecko decodeFrame on every byte string.  From C14. *)
Theorem C03_gecko_decode_never_panics : forall b, is_panic (C14_Gecko.decode_frame b) = false.
Proof. exact proof.C14_Gecko.decode_no_panic. Qed.
Print Assumptions C03_gecko_decode_never_panics.

(* Gecko receiver (ReadFrom / acceptChunk / gc) on every action sequence: the model's step is a
   total function (the only index, e.chunks[h.chunkIdx], sits behind the code's own length guard
   and is modelled as that guard), and the state it can reach is bounded: at most 8 pending
   messages per source and 4096 overall, so the chunk tables cannot grow without limit.  From C14. *)
Theorem C03_gecko_receiver_bounded : forall rbuf acts,
  let st := fst (C14_Gecko.run rbuf C14_Gecko.r_init acts) in
  (forall s, (C14_Gecko.count_src s st <= 8)%nat /\ (C14_Gecko.pget s st <= 8)%Z) /\
  (length (C14_Gecko.tbl st) <= 4096)%nat.
Proof. exact proof.C14_Gecko.bounds_always. Qed.
Print Assumptions C03_gecko_receiver_bounded.

(* The Gecko receive path with EVERY Go operation that can panic written out (model/C03_Gecko.v: buf[0], buf[:n],
   in[0..2], in[3:5], Uint16, in[5+padLen:], the three make()s, e.chunks[idx] read and store, out[off:] of the assembly
   loop).  decodeFrame: the explicit transcription never panics and is the function C14 models. *)
Theorem C03_gecko_decode_sites_unreachable : forall b,
  C03_Gecko.decode_frame_p b = C14_Gecko.decode_frame b /\ is_panic (C03_Gecko.decode_frame_p b) = false.
Proof. intros b. split; [apply proof.C03_Gecko.decode_frame_p_eq|apply proof.C03_Gecko.decode_frame_p_never_panics]. Qed.
Print Assumptions C03_gecko_decode_sites_unreachable.

(* ReadFrom / acceptChunk / gc on EVERY sequence of inner datagrams (any bytes, any lengths, any sources, any clock
   values, any eviction choices) and ticks: no Panic site is reached; the run returns exactly what C14's model returns
   (so C03_gecko_receiver_bounded and C14's reassembly theorems are about this code); and every make() it executed is
   within its cap: at most geckoMaxFragmentChunks slots, geckoBufferSize - geckoHeaderSize bytes per chunk copy, and
   their product for a reassembled packet. *)
Theorem C03_gecko_receiver_never_panics : forall rbuf acts,
  exists allocs, C03_Gecko.run_p rbuf C14_Gecko.r_init acts = Ok (C14_Gecko.run rbuf C14_Gecko.r_init acts, allocs) /\
                 Forall C03_Gecko.alloc_ok allocs.
Proof. exact proof.C03_Gecko.gecko_receiver_never_panics. Qed.
Print Assumptions C03_gecko_receiver_never_panics.

(* ================= first bytes of a sniffed flow (extras/sniff), from C17 ================= *)

Theorem C03_sniff_tcp_never_panics : forall fuel consumer sni dl_fail s addr,
  exists o, C17_Sniff.sniff_tcp fuel consumer sni dl_fail s addr = Ok o.
Proof. exact proof.C17_Sniff.tcp_never_panics. Qed.
Print Assumptions C03_sniff_tcp_never_panics.

Theorem C03_quic_header_never_panics : forall data,
  is_panic (C17_Sniff.parse_long_header data) = false /\
  is_panic (C17_Sniff.parse_initial_header data) = false.
Proof. exact proof.C17_Misc.parse_header_never_panics. Qed.
Print Assumptions C03_quic_header_never_panics.

(* PacketProtector.UnProtect (current code: every packet is length-checked before the sample). *)
Theorem C03_unprotect_never_panics : forall hp aead,
  (forall v d s, (5 <= length (hp v d s))%nat) ->
  (forall v d pn ct ad, (length (snd (aead v d pn ct ad)) <= length ct)%nat) ->
  forall ver dcid h b n off pnMax,
  is_panic (C17_Sniff.unprotect hp aead false ver dcid h b n off pnMax) = false.
Proof. exact proof.C17_Misc.unprotect_never_panics. Qed.
Print Assumptions C03_unprotect_never_panics.

Theorem C03_crypto_frames_never_panic : forall r,
  match C17_Sniff.extract_frames (length r) r [] with
  | Ok frs => Forall (fun f => (0 <= fst f)%Z) frs
  | Err e => e <> EOther
  | Panic _ => False
  end.
Proof. exact proof.C17_Misc.extract_frames_never_panics. Qed.
Print Assumptions C03_crypto_frames_never_panic.

Theorem C03_assemble_never_panics : forall sortf, (forall l, Permutation (sortf l) l) ->
  forall frames, Forall (fun f => (0 <= fst f)%Z) frames ->
  is_panic (C17_Sniff.assemble sortf frames) = false.
Proof. exact proof.C17_Misc.assemble_never_panics. Qed.
Print Assumptions C03_assemble_never_panics.

(* ReadCryptoPayload and Sniffer.UDP as a whole, for every datagram and every crypto oracle. *)
Theorem C03_sniff_udp_never_panics : forall hp aead sni sortf,
  (forall v d s, (5 <= length (hp v d s))%nat) ->
  (forall v d pn ct ad, (length (snd (aead v d pn ct ad)) <= length ct)%nat) ->
  (forall l, Permutation (sortf l) l) ->
  forall h b addr,
  is_panic (C17_Sniff.read_crypto_payload hp aead sortf false false h b) = false /\
  is_panic (C17_Sniff.sniff_udp hp aead sni sortf false false h b addr) = false.
Proof. exact proof.C17_Misc.udp_never_panics. Qed.
Print Assumptions C03_sniff_udp_never_panics.

(* ================= hole-punch and STUN packets (extras/realm) ============================= *)

(* DecodePunchPacket with SHA-256, every byte string and every metadata text.  From C20. *)
Theorem C03_punch_decode_never_panics : forall p m site, C20_Punch.decode_punch256 p m <> Panic site.
Proof. exact proof.C20_Punch.decode_punch256_no_panic. Qed.
Print Assumptions C03_punch_decode_never_panics.

(* PunchPacketConn: every history of AddPunchAttempt / RemovePunchAttempt / received datagrams /
   event consumption runs to completion (no panic), for any hash with non-empty digests and any
   STUN classifier.  From C20. *)
Theorem C03_punch_demux_never_panics : forall H is_stun, (forall x, H x <> []) ->
  forall l s id, C20_Punch.keys_nodup (C20_Punch.d_reg s) ->
  exists s' outs, C20_Punch.run H is_stun s l = Ok (s', outs) /\ C20_Punch.keys_nodup (C20_Punch.d_reg s') /\
                  length outs = length l /\
                  proof.C20_Punch.reg_find id (C20_Punch.d_reg s') =
                  proof.C20_Punch.binding l id (proof.C20_Punch.reg_find id (C20_Punch.d_reg s)).
Proof. exact proof.C20_Punch.run_registry. Qed.
Print Assumptions C03_punch_demux_never_panics.

(* STUN: parseSTUNBindingResponse / netIPPortToAddrPort after pion, Discover's receive loop over
   any sequence of packets / timeouts / errors (n within the buffer, as ReadFrom guarantees), and
   DiscoverWithDemux over the events the demultiplexer produces from any packet sequence - for
   EVERY answer of pion/stun (any IP length, any port, missing attributes). *)
Theorem C03_stun_never_panics : forall decode is_message,
  (forall p, is_panic (snd (parse_stun decode p)) = false) /\
  (forall buflen rxs pending,
     Forall (fun r => match r with RxPkt n _ => (0 <= n <= Z.of_nat buflen)%Z | _ => True end) rxs ->
     is_panic (discover_loop decode buflen pending rxs []) = false) /\
  (forall ps pending, is_panic (demux_loop pending (stun_events decode is_message ps) []) = false).
Proof. exact stun_never_panics. Qed.
Print Assumptions C03_stun_never_panics.

(* An accepted STUN address is 4 or 16 bytes with a port in 1..65535. *)
Theorem C03_stun_address_shape : forall ip port a p, ip_port_to_addrport ip port = Ok (a, p) ->
  (length a = 4 \/ length a = 16)%nat /\ (1 <= p <= 65535)%Z.
Proof. exact ip_port_shape. Qed.
Print Assumptions C03_stun_address_shape.

(* ================= speed-test requests and replies ======================================== *)

(* server(conn): any request stream (any chunking, zero-length reads, errors, truncation, any
   declared size up to 2^32-1), any failing write: no panic, buf[:n] in range, `remaining` never
   wraps, loop fuel never exhausted. *)
Theorem C03_speedtest_server_never_panics : forall s w, is_panic (r_res (server s w)) = false.
Proof. exact server_never_panics. Qed.
Print Assumptions C03_speedtest_server_never_panics.

(* Client side: the request, response and summary readers on any reply stream. *)
Theorem C03_speedtest_readers_never_panic : forall s,
  is_panic (fst (read_u32 s)) = false /\ is_panic (fst (read_response s)) = false /\
  is_panic (fst (read_summary s)) = false.
Proof. exact st_readers_never_panic. Qed.
Print Assumptions C03_speedtest_readers_never_panic.

(* The only peer-sized allocation of the speed-test protocol is the response message: at most
   65535 bytes; the summary's duration fits an int64. *)
Theorem C03_speedtest_alloc_bounded : forall s,
  (forall ok m s', read_response s = (Ok (ok, m), s') -> N.of_nat (length m) <= 65535) /\
  (forall d l s', read_summary s = (Ok (d, l), s') -> (0 <= d < 2 ^ 63)%Z /\ l < 2 ^ 32).
Proof. exact st_alloc_bounded. Qed.
Print Assumptions C03_speedtest_alloc_bounded.

(* ================= the two defects the property names, on the code before the fixes ======== *)

(* 7808a26: the uint8 fragment count made the splitter index past its slice. *)
Theorem C03_frag_old_refuted : exists m maxSize, is_panic (frag_old m maxSize) = true.
Proof. exact frag_old_refuted. Qed.
Print Assumptions C03_frag_old_refuted.

(* 3d877c6: UnProtect took the header-protection sample without a length check. *)
Theorem C03_unprotect_old_refuted :
  exists hp aead sortf data,
    is_panic (C17_Sniff.read_crypto_payload hp aead sortf true false [data] 0) = true.
Proof. exact proof.C17_Misc.unprotect_legacy_check_refuted. Qed.
Print Assumptions C03_unprotect_old_refuted.

(* ================= every peer-sized make() is bounded ===================================== *)

(* C03_alloc_bounded.  For every input, each allocation whose size a peer chooses stays under its cap (caps are the
   regenerated constants of gen/Params*.v):
   - TCP frames, any reader script: the readers allocate at most MaxAddressLength / MaxMessageLength bytes;
   - Defragger: at most 255 slots; the buffer of a reassembled message has exactly the size of the fragments fed for it;
   - QUIC Initial parsing: connection ids of at most 255 bytes, a token no longer than the datagram, CRYPTO frame data of
     at most maxCryptoFrameDataLen bytes, an assembled CRYPTO stream of at most maxCryptoPayloadLen bytes (a single
     frame is returned as it is);
   - Gecko receiver, any sequence: 8 slots, 2043 bytes per chunk copy, 16344 per reassembled packet;
   - hole-punch packets: longer than punchMaxWireLen is rejected before the copy, an accepted one is within the window;
   - speed test: a response message of at most 65535 bytes. *)
Theorem C03_alloc_bounded :
  (forall st,
     proof.C03_Alloc.alloc_of (snd (read_tcp_request st)) <= proof.C03_Alloc.alloc_of st + MaxAddressLength /\
     proof.C03_Alloc.alloc_of (snd (server_read_request st)) <= proof.C03_Alloc.alloc_of st + MaxAddressLength /\
     proof.C03_Alloc.alloc_of (snd (read_tcp_response st)) <= proof.C03_Alloc.alloc_of st + MaxMessageLength) /\
  (forall d m d' o, fcount m < 256 -> feed d m = Ok (d', o) ->
     (length (d_frags d') <= Nat.max (length (d_frags d)) 255)%nat /\
     (d_size d' <= d_size d + length (data m))%nat /\
     (1 < fcount m -> forall out, o = Some out -> length (data out) = d_size d')) /\
  (forall r hd rest, C17_Sniff.parse_long_header r = Ok (hd, rest) ->
     (length (C17_Sniff.h_dcid hd) <= 255)%nat /\ (length (C17_Sniff.h_scid hd) <= 255)%nat /\
     (length (C17_Sniff.h_token hd) <= length r)%nat) /\
  (forall r frs, C17_Sniff.extract_frames (length r) r [] = Ok frs ->
     Forall (fun f => N.of_nat (length (snd f)) <= C17_Sniff.maxCryptoFrameDataLen) frs) /\
  (forall sortf, (forall l, Permutation (sortf l) l) ->
     forall frames d, Forall (fun f => (0 <= fst f)%Z) frames -> C17_Sniff.assemble sortf frames = Ok (Some d) ->
     (exists f, frames = [f] /\ d = snd f) \/ (Z.of_nat (length d) <= C17_Sniff.maxCryptoPayloadLen)%Z) /\
  (forall rbuf acts, exists allocs,
     C03_Gecko.run_p rbuf C14_Gecko.r_init acts = Ok (C14_Gecko.run rbuf C14_Gecko.r_init acts, allocs) /\
     Forall C03_Gecko.alloc_ok allocs) /\
  (forall H packet m,
     ((ParamsC20.punchMaxWireLen < length packet)%nat -> C20_Punch.decode_punch H packet m = Err ELimit) /\
     (forall ty pad, C20_Punch.decode_punch H packet m = Ok (ty, pad) ->
        (ParamsC20.punchMinWireLen <= length packet <= ParamsC20.punchMaxWireLen)%nat)) /\
  (forall s ok m s', read_response s = (Ok (ok, m), s') -> N.of_nat (length m) <= 65535).
Proof. exact proof.C03_Alloc.alloc_bounded. Qed.
Print Assumptions C03_alloc_bounded.
