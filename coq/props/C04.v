(* C04 - TCP request/response framing is lossless, exact and bounded.
   Property theorems only; every proof is `exact <lemma>` from proof/C04_Framing.v, proof/C04_Dispatch.v, proof/C04_Fin.v,
   proof/C04_Client.v.

   Vocabulary (lib/Reader.v): an io.Reader is a finite script of read events (chunks of any size,
   zero-length reads, reads that return an error, reads that return data and an error together).
   [delivers s d post] says: s = pre ++ post where pre carries exactly the bytes d, cut into reads
   in an arbitrary way, zero-length reads included, and no error; post is arbitrary (more data,
   errors, nothing).  So "forall s post, delivers s (frame ++ trailing) post -> ..." quantifies over
   every split of the byte stream into reads and everything that may come later.
   [rs_ctr] carries what was asked of the reader: c_max = largest single Read request,
   c_alloc = bytes allocated with make() for peer-declared lengths. *)
From Hy Require Import model.C04_Framing proof.C04_Framing model.C04_Dispatch proof.C04_Dispatch proof.C04_Fin
  model.C04_Client proof.C04_Client.
From Coq Require Import ZArith.
Local Open Scope N_scope.

(* Request, end to end: any address of 1..MaxAddressLength bytes written by WriteTCPRequest with any
   padding the writer can draw, delivered in any chunking and followed by any trailing payload, is
   returned identical by the server (frame-type read, then ReadTCPRequest), and what is left in the
   stream is exactly the trailing payload (then post): the first payload byte is never swallowed. *)
Theorem C04_request_roundtrip : forall addr pad frame trailing post st,
  1 <= N.of_nat (length addr) <= MaxAddressLength ->
  drawable tcpRequestPaddingMin tcpRequestPaddingMax pad ->
  write_tcp_request addr pad = Ok frame ->
  delivers (rs_script st) (frame ++ trailing) post ->
  exists st', server_read_request st = (Ok addr, st') /\ delivers (rs_script st') trailing post.
Proof. exact request_roundtrip. Qed.
Print Assumptions C04_request_roundtrip.

(* Response, end to end: any status and any message of 0..MaxMessageLength bytes. *)
Theorem C04_response_roundtrip : forall ok msg pad frame trailing post st,
  N.of_nat (length msg) <= MaxMessageLength ->
  drawable tcpResponsePaddingMin tcpResponsePaddingMax pad ->
  write_tcp_response ok msg pad = Ok frame ->
  delivers (rs_script st) (frame ++ trailing) post ->
  exists st', read_tcp_response st = (Ok (ok, msg), st') /\ delivers (rs_script st') trailing post.
Proof. exact response_roundtrip. Qed.
Print Assumptions C04_response_roundtrip.

(* The same in plain words: the script is nothing but frame ++ trailing cut into reads. *)
Theorem C04_roundtrip_every_chunking :
  (forall addr pad frame trailing s,
     1 <= N.of_nat (length addr) <= MaxAddressLength ->
     drawable tcpRequestPaddingMin tcpRequestPaddingMax pad ->
     write_tcp_request addr pad = Ok frame ->
     clean s -> sdata s = frame ++ trailing ->
     exists st', run_on server_read_request s = (Ok addr, st') /\
                 clean (rs_script st') /\ sdata (rs_script st') = trailing) /\
  (forall ok msg pad frame trailing s,
     N.of_nat (length msg) <= MaxMessageLength ->
     drawable tcpResponsePaddingMin tcpResponsePaddingMax pad ->
     write_tcp_response ok msg pad = Ok frame ->
     clean s -> sdata s = frame ++ trailing ->
     exists st', run_on read_tcp_response s = (Ok (ok, msg), st') /\
                 clean (rs_script st') /\ sdata (rs_script st') = trailing).
Proof. exact (conj request_roundtrip_plain response_roundtrip_plain). Qed.
Print Assumptions C04_roundtrip_every_chunking.

(* Peer-chosen widths: the request reader accepts every legal varint width (1/2/4/8 bytes, value
   fitting) for the address length and for the padding length, any padding content up to
   MaxPaddingLength, and stops exactly at the end of the frame; it allocates exactly the address. *)
Theorem C04_request_peer_widths : forall wa wp addr pad trailing post st,
  fits wa (N.of_nat (length addr)) -> fits wp (N.of_nat (length pad)) ->
  1 <= N.of_nat (length addr) <= MaxAddressLength ->
  N.of_nat (length pad) <= MaxPaddingLength ->
  delivers (rs_script st) (request_frame wa wp addr pad ++ trailing) post ->
  exists st', read_tcp_request st = (Ok addr, st') /\ delivers (rs_script st') trailing post /\
              c_alloc (rs_ctr st') = c_alloc (rs_ctr st) + N.of_nat (length addr).
Proof. exact request_read_exact. Qed.
Print Assumptions C04_request_peer_widths.

(* Same for the response reader, for every status byte (0 = ok, anything else = error). *)
Theorem C04_response_peer_widths : forall status wm wp msg pad trailing post st,
  fits wm (N.of_nat (length msg)) -> fits wp (N.of_nat (length pad)) ->
  N.of_nat (length msg) <= MaxMessageLength ->
  N.of_nat (length pad) <= MaxPaddingLength ->
  delivers (rs_script st) (response_frame status wm wp msg pad ++ trailing) post ->
  exists st', read_tcp_response st = (Ok (b2n status =? 0, msg), st') /\
              delivers (rs_script st') trailing post /\
              c_alloc (rs_ctr st') = c_alloc (rs_ctr st) + N.of_nat (length msg).
Proof. exact response_read_exact. Qed.
Print Assumptions C04_response_peer_widths.

(* The server consumes the frame type and nothing else, AT WHATEVER WIDTH THE PEER ENCODED IT (http3's
   dispatcher identifies 0x401 with quicvarint.Peek at any legal width: 2, 4 or 8 bytes), so ReadTCPRequest
   starts at the address length (any widths for the following fields). *)
Theorem C04_server_consumes_only_type : forall wt wa wp addr pad trailing post st,
  fits wt FrameTypeTCPRequest ->
  fits wa (N.of_nat (length addr)) -> fits wp (N.of_nat (length pad)) ->
  1 <= N.of_nat (length addr) <= MaxAddressLength ->
  N.of_nat (length pad) <= MaxPaddingLength ->
  delivers (rs_script st) (varint_enc_w wt FrameTypeTCPRequest ++ request_frame wa wp addr pad ++ trailing) post ->
  exists st', server_read_request st = (Ok addr, st') /\ delivers (rs_script st') trailing post.
Proof. exact server_read_exact_w. Qed.
Print Assumptions C04_server_consumes_only_type.

(* the canonical two-byte form 44 01 that WriteTCPRequest emits (the statement as it stood before the
   generalisation over the width); 2, 4 and 8 are the widths that fit 0x401 *)
Theorem C04_server_consumes_only_type_canonical : forall wa wp addr pad trailing post st,
  fits wa (N.of_nat (length addr)) -> fits wp (N.of_nat (length pad)) ->
  1 <= N.of_nat (length addr) <= MaxAddressLength ->
  N.of_nat (length pad) <= MaxPaddingLength ->
  delivers (rs_script st) ([x44; x01] ++ request_frame wa wp addr pad ++ trailing) post ->
  exists st', server_read_request st = (Ok addr, st') /\ delivers (rs_script st') trailing post.
Proof. exact server_read_exact. Qed.
Print Assumptions C04_server_consumes_only_type_canonical.

Theorem C04_frame_type_widths :
  (varint_enc_w 2 FrameTypeTCPRequest = [x44; x01] /\ fits 2 FrameTypeTCPRequest) /\
  (fits 4 FrameTypeTCPRequest /\ fits 8 FrameTypeTCPRequest /\ ~ fits 1 FrameTypeTCPRequest).
Proof. exact (conj frame_type_canonical frame_type_fits_wide). Qed.
Print Assumptions C04_frame_type_widths.

(* Dispatcher and hijacker agree on the bytes of the frame type: for a varint of any legal width at the
   head of the stream, delivered in any chunking (partial data included), quicvarint.Peek reports its value
   and leaves the stream untouched, and the hijacker's quicvarint.Read returns the same value and consumes
   exactly those bytes - what follows the varint is what the next reader sees. *)
Theorem C04_dispatcher_hijacker_agree : forall w v rest post st,
  fits w v -> delivers (rs_script st) (varint_enc_w w v ++ rest) post ->
  io_peek_varint st = (Ok v, st) /\
  exists st', io_read_varint st = (Ok v, st') /\ delivers (rs_script st') rest post /\
              c_alloc (rs_ctr st') = c_alloc (rs_ctr st).
Proof. exact dispatcher_hijacker_agree. Qed.
Print Assumptions C04_dispatcher_hijacker_agree.

(* The real path end to end (model/C04_Dispatch.v: http3 dispatcher's Peek, ProxyStreamHijacker, ReadTCPRequest):
   a request with the frame type on any fitting width, the lengths on any fitting widths, any chunking and any
   trailing payload is decoded to exactly the address sent, and exactly the trailing payload is left: the
   first payload byte is never swallowed. *)
Theorem C04_dispatched_request_decoded : forall wt wa wp addr pad trailing post st,
  fits wt FrameTypeTCPRequest ->
  fits wa (N.of_nat (length addr)) -> fits wp (N.of_nat (length pad)) ->
  1 <= N.of_nat (length addr) <= MaxAddressLength ->
  N.of_nat (length pad) <= MaxPaddingLength ->
  delivers (rs_script st) (varint_enc_w wt FrameTypeTCPRequest ++ request_frame wa wp addr pad ++ trailing) post ->
  exists st', server_dispatch st = (Ok (Some addr), st') /\ delivers (rs_script st') trailing post.
Proof. exact server_dispatch_exact. Qed.
Print Assumptions C04_dispatched_request_decoded.

(* An empty / over-limit address length behind a frame type of any width: protocol error (nothing is dialled),
   the stream is left right behind the length field, only single-byte reads, nothing allocated. *)
Theorem C04_dispatched_reject_before_read : forall wt w v rest post st,
  fits wt FrameTypeTCPRequest -> fits w v -> (v = 0 \/ MaxAddressLength < v) ->
  delivers (rs_script st) (varint_enc_w wt FrameTypeTCPRequest ++ varint_enc_w w v ++ rest) post ->
  exists st', server_dispatch st = (Err EInvalid, st') /\ delivers (rs_script st') rest post /\
              c_max (rs_ctr st') <= N.max (c_max (rs_ctr st)) 1 /\ c_alloc (rs_ctr st') = c_alloc (rs_ctr st).
Proof. exact server_dispatch_reject_addr. Qed.
Print Assumptions C04_dispatched_reject_before_read.

(* Any other frame type: the stream is not hijacked and not one byte of it is consumed. *)
Theorem C04_dispatch_other_frame_untouched : forall w v rest post st,
  fits w v -> v <> FrameTypeTCPRequest ->
  delivers (rs_script st) (varint_enc_w w v ++ rest) post ->
  server_dispatch st = (Ok None, st).
Proof. exact server_dispatch_other. Qed.
Print Assumptions C04_dispatch_other_frame_untouched.

(* FIN coalesced with the final bytes.  For EVERY script pre (errors and all) and every bs: whether the last
   event hands out bs together with io.EOF (n > 0, io.EOF in one Read, as a QUIC stream does when the STREAM
   frame with the end of the data carries FIN) or hands out bs and the NEXT Read reports io.EOF makes no
   difference to what the three readers return nor to the data they leave unread.  (The Read counters differ
   - one more call may be made - and are not claimed.)  Together with the theorems above, which cover the
   second form, every complete frame is read back when the stream ends right behind it. *)
Theorem C04_final_eof_coalesced : forall pre bs,
  (fst (run_on read_tcp_request (pre ++ [Ev bs (Some EEof)])) = fst (run_on read_tcp_request (pre ++ [Ev bs None])) /\
   sdata (rs_script (snd (run_on read_tcp_request (pre ++ [Ev bs (Some EEof)])))) =
   sdata (rs_script (snd (run_on read_tcp_request (pre ++ [Ev bs None]))))) /\
  (fst (run_on read_tcp_response (pre ++ [Ev bs (Some EEof)])) = fst (run_on read_tcp_response (pre ++ [Ev bs None])) /\
   sdata (rs_script (snd (run_on read_tcp_response (pre ++ [Ev bs (Some EEof)])))) =
   sdata (rs_script (snd (run_on read_tcp_response (pre ++ [Ev bs None]))))) /\
  (fst (run_on server_read_request (pre ++ [Ev bs (Some EEof)])) = fst (run_on server_read_request (pre ++ [Ev bs None])) /\
   sdata (rs_script (snd (run_on server_read_request (pre ++ [Ev bs (Some EEof)])))) =
   sdata (rs_script (snd (run_on server_read_request (pre ++ [Ev bs None]))))).
Proof. exact final_eof_coalesced. Qed.
Print Assumptions C04_final_eof_coalesced.

(* The round trip when the peer closes its send side right behind what it wrote: the script is the written
   frame and a trailing payload (possibly empty: FIN right behind the frame) cut into reads in an arbitrary
   way, the LAST read reporting io.EOF together with its bytes. *)
Theorem C04_roundtrip_fin_coalesced :
  (forall addr pad frame trailing pre bs,
     1 <= N.of_nat (length addr) <= MaxAddressLength ->
     drawable tcpRequestPaddingMin tcpRequestPaddingMax pad ->
     write_tcp_request addr pad = Ok frame ->
     clean pre -> sdata pre ++ bs = frame ++ trailing ->
     fst (run_on server_read_request (pre ++ [Ev bs (Some EEof)])) = Ok addr /\
     sdata (rs_script (snd (run_on server_read_request (pre ++ [Ev bs (Some EEof)])))) = trailing) /\
  (forall ok msg pad frame trailing pre bs,
     N.of_nat (length msg) <= MaxMessageLength ->
     drawable tcpResponsePaddingMin tcpResponsePaddingMax pad ->
     write_tcp_response ok msg pad = Ok frame ->
     clean pre -> sdata pre ++ bs = frame ++ trailing ->
     fst (run_on read_tcp_response (pre ++ [Ev bs (Some EEof)])) = Ok (ok, msg) /\
     sdata (rs_script (snd (run_on read_tcp_response (pre ++ [Ev bs (Some EEof)])))) = trailing).
Proof. exact roundtrip_fin. Qed.
Print Assumptions C04_roundtrip_fin_coalesced.

(* THE CLIENT SIDE (core/client: clientImpl.TCP and tcpConn.Read, model/C04_Client.v).  The response frame is
   consumed by TCP() itself (no fast open) or by the application's first Read (fast open, the connection is
   handed out with Established = false).  In both modes, for every legal width of the two length fields, every
   message and padding within the limits, every payload and every way the stream is cut into reads - response
   and payload coalesced in one read, cut inside the frame, cut inside the payload - TCP() hands out a
   connection, and the application's first Read(b), len b = n, returns exactly what a plain Read(b) returns on
   a stream st1 that delivers exactly the payload (then post) and leaves that stream in the same state: not
   one byte beyond the frame is consumed on the way, whatever n is. *)
Theorem C04_client_first_read_exact : forall fo status wm wp msg pad payload post st n,
  b2n status = 0 ->
  fits wm (N.of_nat (length msg)) -> fits wp (N.of_nat (length pad)) ->
  N.of_nat (length msg) <= MaxMessageLength ->
  N.of_nat (length pad) <= MaxPaddingLength ->
  delivers (rs_script st) (response_frame status wm wp msg pad ++ payload) post ->
  exists st0 st1,
    client_tcp fo st = (Ok (TConn (negb fo)), st0) /\
    delivers (rs_script st1) payload post /\
    tcpconn_read (negb fo) n st0 =
      (Ok (RData (fst (fst (stream_read n st1))) (snd (fst (stream_read n st1))), true), snd (stream_read n st1)).
Proof. exact client_first_read_exact. Qed.
Print Assumptions C04_client_first_read_exact.

(* A failure response (any status byte but 0): the application gets a DialError carrying exactly the message -
   from TCP() without fast open, from its first Read with it - and the stream is left exactly behind the frame. *)
Theorem C04_client_dial_error_exact : forall fo status wm wp msg pad payload post st n,
  b2n status <> 0 ->
  fits wm (N.of_nat (length msg)) -> fits wp (N.of_nat (length pad)) ->
  N.of_nat (length msg) <= MaxMessageLength ->
  N.of_nat (length pad) <= MaxPaddingLength ->
  delivers (rs_script st) (response_frame status wm wp msg pad ++ payload) post ->
  exists st1, delivers (rs_script st1) payload post /\
    (fo = true -> client_tcp fo st = (Ok (TConn false), st) /\ tcpconn_read false n st = (Ok (RDial msg, false), st1)) /\
    (fo = false -> client_tcp fo st = (Ok (TDial msg), st1)).
Proof. exact client_dial_error_exact. Qed.
Print Assumptions C04_client_dial_error_exact.

(* The whole session: the stream is the response frame and the payload, cut into reads in an arbitrary way, and
   ends; the application reads with buffers of ARBITRARY positive sizes bufs[0], bufs[1], ... until io.EOF.  The
   concatenation of what its Reads return is exactly the payload - nothing swallowed, nothing twice - and the
   Reads end with io.EOF.  (fuel only makes the application's loop a total function.) *)
Theorem C04_client_reads_exactly_payload : forall fo wm wp status msg pad payload s bufs plen,
  b2n status = 0 ->
  fits wm (N.of_nat (length msg)) -> fits wp (N.of_nat (length pad)) ->
  N.of_nat (length msg) <= MaxMessageLength ->
  N.of_nat (length pad) <= MaxPaddingLength ->
  clean s -> sdata s = response_frame status wm wp msg pad ++ payload ->
  Forall (fun b => (1 <= b)%nat) bufs ->
  exists fuel0, forall fuel, (fuel0 <= fuel)%nat ->
    fst (client_session fo true plen bufs fuel (mkRS s ctr0)) = Ok (TConn (negb fo), (payload, FErr EEof)).
Proof. exact client_session_exact. Qed.
Print Assumptions C04_client_reads_exactly_payload.

(* Rejection before the declared amount is read or allocated.
   Address length 0 or above the limit, in any width: protocol error; the stream is left exactly after
   the length field (nothing of the declared amount was consumed); every Read call made asked for
   at most one byte; nothing was allocated. *)
Theorem C04_reject_address_before_read : forall w v rest post st,
  fits w v -> (v = 0 \/ MaxAddressLength < v) ->
  delivers (rs_script st) (varint_enc_w w v ++ rest) post ->
  exists st', read_tcp_request st = (Err EInvalid, st') /\ delivers (rs_script st') rest post /\
              c_max (rs_ctr st') <= N.max (c_max (rs_ctr st)) 1 /\
              c_alloc (rs_ctr st') = c_alloc (rs_ctr st).
Proof. exact request_reject_addr. Qed.
Print Assumptions C04_reject_address_before_read.

(* Padding length above the limit after a valid address: protocol error, stream left exactly after
   the padding length field, no Read larger than the address itself, only the address allocated. *)
Theorem C04_reject_request_padding_before_read : forall wa addr w v rest post st,
  fits wa (N.of_nat (length addr)) -> 1 <= N.of_nat (length addr) <= MaxAddressLength ->
  fits w v -> MaxPaddingLength < v ->
  delivers (rs_script st) (varint_enc_w wa (N.of_nat (length addr)) ++ addr ++ varint_enc_w w v ++ rest) post ->
  exists st', read_tcp_request st = (Err EInvalid, st') /\ delivers (rs_script st') rest post /\
              c_max (rs_ctr st') <= N.max (c_max (rs_ctr st)) (N.max 1 (N.of_nat (length addr))) /\
              c_alloc (rs_ctr st') = c_alloc (rs_ctr st) + N.of_nat (length addr).
Proof. exact request_reject_padding. Qed.
Print Assumptions C04_reject_request_padding_before_read.

(* Message length above the limit. *)
Theorem C04_reject_message_before_read : forall status w v rest post st,
  fits w v -> MaxMessageLength < v ->
  delivers (rs_script st) (status :: varint_enc_w w v ++ rest) post ->
  exists st', read_tcp_response st = (Err EInvalid, st') /\ delivers (rs_script st') rest post /\
              c_max (rs_ctr st') <= N.max (c_max (rs_ctr st)) 1 /\
              c_alloc (rs_ctr st') = c_alloc (rs_ctr st).
Proof. exact response_reject_msg. Qed.
Print Assumptions C04_reject_message_before_read.

(* Padding length above the limit after a valid message. *)
Theorem C04_reject_response_padding_before_read : forall status wm msg w v rest post st,
  fits wm (N.of_nat (length msg)) -> N.of_nat (length msg) <= MaxMessageLength ->
  fits w v -> MaxPaddingLength < v ->
  delivers (rs_script st)
           (status :: varint_enc_w wm (N.of_nat (length msg)) ++ msg ++ varint_enc_w w v ++ rest) post ->
  exists st', read_tcp_response st = (Err EInvalid, st') /\ delivers (rs_script st') rest post /\
              c_max (rs_ctr st') <= N.max (c_max (rs_ctr st)) (N.max 1 (N.of_nat (length msg))) /\
              c_alloc (rs_ctr st') = c_alloc (rs_ctr st) + N.of_nat (length msg).
Proof. exact response_reject_padding. Qed.
Print Assumptions C04_reject_response_padding_before_read.

(* Whatever the reader does (any script at all: garbage, truncation, errors, data+error reads), an
   accepted address has 1..MaxAddressLength bytes. *)
Theorem C04_accepted_address_bounded : forall st addr st',
  read_tcp_request st = (Ok addr, st') -> 1 <= N.of_nat (length addr) <= MaxAddressLength.
Proof. exact read_tcp_request_bounded. Qed.
Print Assumptions C04_accepted_address_bounded.

(* The readers never panic, on any script and any counter state (cited by C03).  In particular the
   make() calls are never reached with an out-of-range length and Reader.copyn never runs out of fuel. *)
Theorem C04_readers_never_panic : forall st,
  is_panic (fst (read_tcp_request st)) = false /\
  is_panic (fst (read_tcp_response st)) = false /\
  is_panic (fst (server_read_request st)) = false.
Proof. exact readers_never_panic. Qed.
Print Assumptions C04_readers_never_panic.

(* The writers size the buffer exactly and write the frame the protocol describes, with minimal
   varint widths (which fit); no slice bound, index or varintPut panic for any lengths below 2^62. *)
Theorem C04_writers_exact : forall val pad,
  N.of_nat (length val) <= maxVarInt8 -> N.of_nat (length pad) <= maxVarInt8 ->
  write_tcp_request val pad =
    Ok ([x44; x01] ++ request_frame (minw (length val)) (minw (length pad)) val pad) /\
  (forall ok, write_tcp_response ok val pad =
    Ok (response_frame (if ok then x00 else x01) (minw (length val)) (minw (length pad)) val pad)) /\
  fits (minw (length val)) (N.of_nat (length val)) /\ fits (minw (length pad)) (N.of_nat (length pad)).
Proof. exact writers_exact. Qed.
Print Assumptions C04_writers_exact.

(* varintPut as used (value below 2^62, at least 8 bytes of room): never panics, stores at the front
   of the buffer an encoding that quicvarint.Read reads back as the value, touches nothing else;
   and the bytes it stores are the minimal-width QUIC encoding (cited by C03). *)
Theorem C04_varintPut_as_used : forall v b, v <= maxVarInt8 -> (8 <= length b)%nat ->
  exists enc, varintPut b v = Ok (enc ++ skipn (length enc) b, length enc) /\ (length enc <= 8)%nat /\
              forall r, varint_read (enc ++ r) = Some (v, r).
Proof. exact varintPut_as_used. Qed.
Print Assumptions C04_varintPut_as_used.

Theorem C04_varintPut_minimal : forall v, varintPut_bytes v = varint_put v.
Proof. exact varintPut_bytes_spec. Qed.
Print Assumptions C04_varintPut_minimal.

(* The padding ranges the writers draw from (regenerated from /repo) are non-empty and
   non-negative, so padding.String() cannot panic, and every padding a writer can draw is within
   the limit the readers enforce. *)
Theorem C04_writer_fits_reader :
  (0 < tcpRequestPaddingMax - tcpRequestPaddingMin)%Z /\ (0 <= tcpRequestPaddingMin)%Z /\
  (0 < tcpResponsePaddingMax - tcpResponsePaddingMin)%Z /\ (0 <= tcpResponsePaddingMin)%Z /\
  (forall pad, drawable tcpRequestPaddingMin tcpRequestPaddingMax pad ->
               N.of_nat (length pad) <= MaxPaddingLength) /\
  (forall pad, drawable tcpResponsePaddingMin tcpResponsePaddingMax pad ->
               N.of_nat (length pad) <= MaxPaddingLength).
Proof. exact writer_fits_reader. Qed.
Print Assumptions C04_writer_fits_reader.
