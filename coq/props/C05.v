(* C05 - UDP fragmentation is all-or-nothing and size-bounded.
   Property theorems only; every proof is `exact <lemma>` from proof/C05_Frag.v. *)
From Hy Require Import model.C05_Frag model.C05_Send model.C05_SendIds model.C05_Sess proof.C05_Frag proof.C05_Send proof.C05_SendIds proof.C05_Sess.
From Coq Require Import ZArith.
Local Open Scope N_scope.

(* The splitter never panics, for every message, every limit (any Go int). *)
Theorem C05_frag_total : forall m maxSize, exists fs, frag m maxSize = Ok fs.
Proof. exact frag_total. Qed.
Print Assumptions C05_frag_total.

(* Every fragment fits the datagram limit; a message that fits is sent whole, unchanged. *)
Theorem C05_frag_fits : forall m maxSize fs, frag m maxSize = Ok fs ->
  Forall (fun f => (Z.of_nat (size f) <= maxSize)%Z) fs /\
  ((Z.of_nat (size m) <= maxSize)%Z -> fs = [m]).
Proof. exact frag_fits. Qed.
Print Assumptions C05_frag_fits.

(* At most 255 fragments; when the message is split: same session/packet id/address on every
   fragment, ids 0..n-1, count n, non-empty payloads whose concatenation is the payload. *)
Theorem C05_frag_shape : forall m maxSize fs, frag m maxSize = Ok fs ->
  (Z.of_nat (size m) > maxSize)%Z ->
  (length fs <= 255)%nat /\
  concat (map data fs) = (if Nat.eqb (length fs) 0 then [] else data m) /\
  (forall i f, nth_error fs i = Some f ->
     sid f = sid m /\ pid f = pid m /\ addr f = addr m /\
     fid f = N.of_nat i /\ fcount f = N.of_nat (length fs) /\ data f <> []).
Proof. exact frag_shape. Qed.
Print Assumptions C05_frag_shape.

(* The message is discarded (nothing is sent) exactly when it does not fit and either the
   payload budget is not positive or more than 255 fragments would be needed. *)
Theorem C05_frag_discard_iff : forall m maxSize,
  frag m maxSize = Ok [] <->
  ((Z.of_nat (size m) > maxSize)%Z /\
   let mp := (maxSize - Z.of_nat (header_size m))%Z in
   ((mp <= 0)%Z \/ (255 * mp < Z.of_nat (length (data m)))%Z)).
Proof. exact frag_discard_iff. Qed.
Print Assumptions C05_frag_discard_iff.

(* Any arrival order, with duplicates, of the fragments of one split message reassembles to exactly
   one message, equal to the original, whatever older state the reassembler held for another
   packet id. *)
Theorem C05_reassemble_any_order : forall m maxSize fs seq d,
  fid m = 0 -> fcount m = 1 ->
  frag m maxSize = Ok fs -> (2 <= length fs)%nat ->
  (forall f, In f seq -> In f fs) -> (forall f, In f fs -> In f seq) ->
  (d_pid d <> pid m \/ d_frags d = []) ->
  exists d', feed_all d seq = Ok (d', [m]).
Proof. exact reassemble_any_order. Qed.
Print Assumptions C05_reassemble_any_order.

(* History clause: fragments of several messages with pairwise distinct packet ids, any sequence
   with drops, duplicates, permutation and interleaving: the reassembler never panics and every
   message it emits is one of the messages that were sent. *)
Theorem C05_no_chimera : forall (ms : list msg) (lim : msg -> Z) (seq : list msg),
  NoDup (map pid ms) ->
  (forall m, In m ms -> fid m = 0 /\ fcount m = 1) ->
  (forall f, In f seq -> exists m fs, In m ms /\ frag m (lim m) = Ok fs /\ In f fs) ->
  exists d' outs, feed_all d_init seq = Ok (d', outs) /\ forall o, In o outs -> In o ms.
Proof. exact no_chimera. Qed.
Print Assumptions C05_no_chimera.

(* Wire format: parse . serialize is the identity on every message the protocol allows. *)
Theorem C05_wire_roundtrip : forall m, msg_wf m ->
  (1 <= length (addr m))%nat -> N.of_nat (length (addr m)) <= MaxMessageLength ->
  (1 <= length (data m))%nat ->
  parse (serialize m) = Ok m /\ length (serialize m) = size m.
Proof. exact wire_roundtrip. Qed.
Print Assumptions C05_wire_roundtrip.

(* The tree before the fix: commit panicked on some inputs (kept as documentation of the finding). *)
Theorem C05_frag_old_refuted : exists m maxSize, is_panic (frag_old m maxSize) = true.
Proof. exact frag_old_refuted. Qed.
Print Assumptions C05_frag_old_refuted.

(* ---------------- send paths (udpConn.Send, sendMessageAutoFrag) ---------------- *)

(* The send path never panics, whatever the connection does at each SendMessage call. *)
Theorem C05_send_total : forall buflen env newpid sid a d,
  exists evs r, send buflen env newpid sid a d = Ok (evs, r).
Proof. exact send_total. Qed.
Print Assumptions C05_send_total.

(* Complete shape of one send, for EVERY behaviour of the connection (env i = what it does at the i-th call):
   the first call is the whole, unchanged message; only a too-large refusal of THAT call, reporting limit L,
   leads to fragmentation, and what follows is then a prefix of frag(message with the fresh id, L) - so every
   fragment handed to the connection fits the limit reported for this very message (nothing is split against
   a limit learnt earlier); each call is answered by the connection's behaviour at that call; the loop stops at
   the first error and returns it; nil means that all fragments were handed in. *)
Theorem C05_send_whole_first_then_fresh_limit : forall buflen env newpid sid a d evs r,
  send buflen env newpid sid a d = Ok (evs, r) ->
  let m := whole sid 0 a d in
  let o := io_send buflen (env 0%nat) m in
  exists rest, evs = (m, o) :: rest /\
  ((forall L, o <> OTooLarge L) -> rest = [] /\ r = ret_of o) /\
  (forall L, o = OTooLarge L ->
     env 0%nat = RLim L /\ (L < Z.of_nat (size m))%Z /\
     exists fs, frag (whole sid newpid a d) L = Ok fs /\
       (exists n, map fst rest = firstn n fs) /\
       Forall (fun f => (Z.of_nat (size f) <= L)%Z) (map fst rest) /\
       (forall i f oi, nth_error rest i = Some (f, oi) -> oi = io_send buflen (env (S i)) f) /\
       (forall i f oi, nth_error rest i = Some (f, oi) -> (S i < length rest)%nat -> ret_of oi = SNil) /\
       (r = SNil -> map fst rest = fs) /\
       (r <> SNil -> exists f oi, nth_error rest (length rest - 1) = Some (f, oi) /\ ret_of oi = r)).
Proof. exact send_shape. Qed.
Print Assumptions C05_send_whole_first_then_fresh_limit.

(* Every step of every history is an independent send: the send path carries nothing (no remembered limit,
   no remembered id) from one message to the next. *)
Theorem C05_send_hist_independent : forall buflen sid steps rs,
  send_hist buflen sid steps = Ok rs ->
  length rs = length steps /\
  forall i s, nth_error steps i = Some s ->
    exists r, nth_error rs i = Some r /\
      send buflen (st_env s) (st_pid s) sid (st_addr s) (st_data s) = Ok r.
Proof. exact send_hist_independent. Qed.
Print Assumptions C05_send_hist_independent.

(* One send while the limit stays L: nil is returned and the far side (a Defragger in any state that is not
   in the middle of the same packet id) emits exactly [delivered]: the message, byte-identical, iff it fits the
   sender's buffer and L whole or in <= 255 fragments; otherwise nothing. *)
Theorem C05_send_delivers : forall buflen env L newpid sid a d d0,
  (forall i, env i = RLim L) ->
  (d_pid d0 <> newpid \/ d_frags d0 = []) ->
  exists evs d', send buflen env newpid sid a d = Ok (evs, SNil) /\
    feed_all d0 (accepted evs) = Ok (d', delivered buflen sid L (mkStep env newpid a d)) /\
    (d' = d0 \/ d_pid d' = newpid).
Proof. exact send_delivers. Qed.
Print Assumptions C05_send_delivers.

(* Histories: the limit is arbitrary from one send to the next (constant, growing, shrinking, oscillating)
   and stays put during each send; the fresh ids are pairwise distinct.  Every send returns nil and ONE
   Defragger fed with everything the connection accepted emits exactly the messages that fit the limit in
   force when they were sent, in order, byte-identical - and nothing else. *)
Theorem C05_send_hist_delivers : forall buflen sid (ls : list (Z * sstep)) d0,
  (forall L s, In (L, s) ls -> forall i, st_env s i = RLim L) ->
  NoDup (map (fun p => st_pid (snd p)) ls) ->
  (d_frags d0 = [] \/ ~ In (d_pid d0) (map (fun p => st_pid (snd p)) ls)) ->
  exists rs d', send_hist buflen sid (map snd ls) = Ok rs /\
    Forall (fun r => snd r = SNil) rs /\
    feed_all d0 (hist_accepted rs) = Ok (d', hist_delivered buflen sid ls).
Proof. exact send_hist_delivers. Qed.
Print Assumptions C05_send_hist_delivers.

(* Non-vacuity: a concrete history (limit 30, 17, 13, 60, 14, 14) - split in 3, split in 10 after the limit
   shrank, discarded, whole, 255 fragments, discarded (256 needed). *)
Theorem C05_send_hist_example : exists rs d',
  send_hist 4096 7 (map snd ex_hist) = Ok rs /\
  map (fun r => length (fst r)) rs = [4; 11; 1; 1; 256; 1]%nat /\
  feed_all d_init (hist_accepted rs) = Ok (d', hist_delivered 4096 7 ex_hist).
Proof. exact ex_hist_run. Qed.
Print Assumptions C05_send_hist_example.

(* ---------------- packet ids of a history (model/C05_SendIds.v) ---------------- *)

(* Histories under the EXACT requirement on the ids: every message that is split carries an id different from the id
   of the most recent earlier message that was split (what the far side's single slot may still hold).  Ids of
   messages that go out whole or are discarded do not matter.  Conclusion as in C05_send_hist_delivers. *)
Theorem C05_send_hist_delivers_fresh_ids : forall buflen sid (ls : list (Z * sstep)) d0 cur,
  (forall L s, In (L, s) ls -> forall i, st_env s i = RLim L) ->
  (d_frags d0 = [] \/ cur = Some (d_pid d0)) ->
  fresh_ids buflen sid cur ls ->
  exists rs d', send_hist buflen sid (map snd ls) = Ok rs /\
    Forall (fun r => snd r = SNil) rs /\
    feed_all d0 (hist_accepted rs) = Ok (d', hist_delivered buflen sid ls).
Proof. exact send_hist_delivers_fresh. Qed.
Print Assumptions C05_send_hist_delivers_fresh_ids.

(* Pairwise distinct ids (the hypothesis of C05_send_hist_delivers) are a special case of the exact requirement. *)
Theorem C05_fresh_ids_of_nodup : forall buflen sid (ls : list (Z * sstep)) cur,
  NoDup (map (fun p => st_pid (snd p)) ls) ->
  (forall x, cur = Some x -> ~ In x (map (fun p => st_pid (snd p)) ls)) ->
  fresh_ids buflen sid cur ls.
Proof. exact fresh_of_nodup. Qed.
Print Assumptions C05_fresh_ids_of_nodup.

(* The form the harness observes on the implementation (long-operation class: every message of the history is
   split): ids distinct among any w >= 2 consecutive sends.  The history may be of any length - in particular
   longer than the 65535 ids there are, which pairwise distinctness cannot cover. *)
Theorem C05_send_hist_delivers_window : forall buflen sid w (ls : list (Z * sstep)) d0,
  (2 <= w)%nat ->
  (forall L s, In (L, s) ls -> forall i, st_env s i = RLim L) ->
  (forall p, In p ls -> splits buflen sid (fst p) (snd p) = true) ->
  win_distinct w (map (fun p => st_pid (snd p)) ls) = true ->
  d_frags d0 = [] ->
  exists rs d', send_hist buflen sid (map snd ls) = Ok rs /\
    Forall (fun r => snd r = SNil) rs /\
    feed_all d0 (hist_accepted rs) = Ok (d', hist_delivered buflen sid ls).
Proof. exact send_hist_delivers_window. Qed.
Print Assumptions C05_send_hist_delivers_window.

(* The requirement is needed: two messages split in two under the SAME id, sent back to back over a loss-free
   channel - both fit, yet the far side returns only one of them. *)
Theorem C05_adjacent_id_repeat_loses_a_message : exists rs d' outs,
  send_hist 4096 7 (map snd ex_rep) = Ok rs /\
  feed_all d_init (hist_accepted rs) = Ok (d', outs) /\
  length outs = 1%nat /\ length (hist_delivered 4096 7 ex_rep) = 2%nat.
Proof. exact ex_rep_loses. Qed.
Print Assumptions C05_adjacent_id_repeat_loses_a_message.

(* ---------------- reassembly through the session managers (model/C05_Sess.v) ---------------- *)

(* Sessions do not interfere.  For every history of operations on one connection (arrivals of any sessions, pauses with
   the idle sweeper running, client opens and closes) and every session s: what s is handed, in order, and the table
   entry of s at the end are exactly those of the history with every operation of OTHER sessions removed - from any
   state that agrees on s's entry, the clock and the id counter.  In particular reassembly state is per session:
   fragments of other sessions, whatever their packet ids and counts, can neither evict nor complete a message of s. *)
Theorem C05_sessions_isolated : forall iv timeout s ops st st' st1 outs,
  agree s st st' ->
  sm_run iv timeout st ops = Ok (st1, outs) ->
  exists st1', sm_run iv timeout st' (filter (concerns s) ops) = Ok (st1', of_session s outs) /\
               agree s st1 st1'.
Proof. exact sess_isolated. Qed.
Print Assumptions C05_sessions_isolated.

(* A fragmented message that OPENS a session on the server (no entry for its session id) is delivered exactly once,
   equal to the original, in EVERY arrival order of its fragments with duplicates - the first fragment to arrive need
   not be fragment 0 - and whatever arrives for other sessions in between. *)
Theorem C05_sess_opening_any_order : forall iv timeout st ops m maxSize fs st1 outs,
  fid m = 0 -> fcount m = 1 ->
  frag m maxSize = Ok fs -> (2 <= length fs)%nat ->
  ms_tab st (sid m) = None ->
  (forall o, In o ops -> is_arrS o) ->
  (forall f, In f (arrivals_of (sid m) ops) -> In f fs) ->
  (forall f, In f fs -> In f (arrivals_of (sid m) ops)) ->
  sm_run iv timeout st ops = Ok (st1, outs) ->
  of_session (sid m) outs = [m].
Proof. exact sess_opening_delivers. Qed.
Print Assumptions C05_sess_opening_any_order.

(* The same after the idle sweeper removed the entry: a pause of at least one sweep interval that leaves the session
   idle for the timeout plus one interval removes the entry (with its reassembly state), and the fragmented message
   that follows re-opens the session in every arrival order. *)
Theorem C05_sess_reopen_any_order : forall iv timeout st d e ops m maxSize fs st1 outs,
  fid m = 0 -> fcount m = 1 ->
  frag m maxSize = Ok fs -> (2 <= length fs)%nat ->
  0 < iv -> iv <= d ->
  ms_tab st (sid m) = Some e -> se_last e + timeout + iv <= ms_now st + d ->
  (forall o, In o ops -> is_arrS o) ->
  (forall f, In f (arrivals_of (sid m) ops) -> In f fs) ->
  (forall f, In f fs -> In f (arrivals_of (sid m) ops)) ->
  sm_run iv timeout st (MSleep d :: ops) = Ok (st1, outs) ->
  of_session (sid m) outs = [m].
Proof. exact sess_reopen_delivers. Qed.
Print Assumptions C05_sess_reopen_any_order.

(* A history of arrivals of one session on the server is a history of that session's reassembler: every theorem about
   feed_all (any order, no chimera) carries over to the session manager. *)
Theorem C05_sess_single_is_feed_all : forall iv timeout s seq st d' outs,
  (forall f, In f seq -> sid f = s) ->
  feed_all (cur_d st s) seq = Ok (d', outs) ->
  exists st', sm_run iv timeout st (map MArrS seq) = Ok (st', outs) /\ cur_d st' s = d'.
Proof. exact run_single. Qed.
Print Assumptions C05_sess_single_is_feed_all.

(* Client: a message for a session that is not open is ignored. *)
Theorem C05_sess_client_unknown_ignored : forall iv timeout st m,
  ms_tab st (sid m) = None -> sm_step iv timeout st (MArrC m) = Ok (st, None).
Proof. exact client_unknown_ignored. Qed.
Print Assumptions C05_sess_client_unknown_ignored.

(* Non-vacuity: two sessions whose messages carry the SAME packet id and count, each split in 4, both opened by a
   fragment other than fragment 0, fragments alternating on the connection, one duplicate: both are delivered. *)
Theorem C05_sess_example : length exs_fa = 4%nat /\ length exs_fb = 4%nat /\
  run_outs (sm_run 1000 3000 (ms_init 500) exs_ops) = Some [exs_A; exs_B].
Proof. exact exs_run. Qed.
Print Assumptions C05_sess_example.

(* Variant that is not the code: dropping a fragment other than fragment 0 for a session with no entry loses both
   messages of that history although every fragment arrived. *)
Theorem C05_sess_guard_refuted :
  run_outs (sm_run_guard 1000 3000 (ms_init 500) exs_ops) = Some [].
Proof. exact sess_guard_refuted. Qed.
Print Assumptions C05_sess_guard_refuted.

(* Variant that is not the code: one reassembler shared by the sessions of a connection hands on a payload nobody
   sent (equal id and count across sessions) and loses both of two alternating messages (distinct ids), where the
   per-session table hands on nothing / delivers both. *)
Theorem C05_sess_shared_refuted :
  (exists d' x, shared_run d_init exs_ops_chimera = Ok (d', [x]) /\ x <> exs_A /\ x <> exs_B) /\
  run_outs (sm_run 1000 3000 (ms_init 500) exs_ops_chimera) = Some [] /\
  (exists d', shared_run d_init exs_ops_alt = Ok (d', [])) /\
  run_outs (sm_run 1000 3000 (ms_init 500) exs_ops_alt) = Some [exs_A; exs_C].
Proof. exact sess_shared_refuted. Qed.
Print Assumptions C05_sess_shared_refuted.
