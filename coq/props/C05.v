(* C05 - UDP fragmentation is all-or-nothing and size-bounded.
   Property theorems only; every proof is `exact <lemma>` from proof/C05_Frag.v. *)
From Hy Require Import model.C05_Frag proof.C05_Frag.
From Coq Require Import ZArith.
Local Open Scope N_scope.

(* The splitter never panics, for every message, every limit (any Go int). *)
Theorem C05_frag_total : forall m maxSize, exists fs, frag m maxSize = Ok fs.
Proof. exact frag_total. Qed.
Print Assumptions C05_frag_total.

(* Every fragment fits the datagram limit; a message that fits is sent whole, unchanged. *)
Theorem C05_frag_fits : forall m maxSize fs, frag m maxSize = Ok fs ->
  Forall (fun f => (Z.of_nat (size f) <= maxSize)%Z) fs /\
  ((Z.of_nat (size m) <= maxSize)%Z -> fs = [m]).
Proof. exact frag_fits. Qed.
Print Assumptions C05_frag_fits.

(* At most 255 fragments; when the message is split: same session/packet id/address on every
   fragment, ids 0..n-1, count n, non-empty payloads whose concatenation is the payload. *)
Theorem C05_frag_shape : forall m maxSize fs, frag m maxSize = Ok fs ->
  (Z.of_nat (size m) > maxSize)%Z ->
  (length fs <= 255)%nat /\
  concat (map data fs) = (if Nat.eqb (length fs) 0 then [] else data m) /\
  (forall i f, nth_error fs i = Some f ->
     sid f = sid m /\ pid f = pid m /\ addr f = addr m /\
     fid f = N.of_nat i /\ fcount f = N.of_nat (length fs) /\ data f <> []).
Proof. exact frag_shape. Qed.
Print Assumptions C05_frag_shape.

(* The message is discarded (nothing is sent) exactly when it does not fit and either the
   payload budget is not positive or more than 255 fragments would be needed. *)
Theorem C05_frag_discard_iff : forall m maxSize,
  frag m maxSize = Ok [] <->
  ((Z.of_nat (size m) > maxSize)%Z /\
   let mp := (maxSize - Z.of_nat (header_size m))%Z in
   ((mp <= 0)%Z \/ (255 * mp < Z.of_nat (length (data m)))%Z)).
Proof. exact frag_discard_iff. Qed.
Print Assumptions C05_frag_discard_iff.

(* Any arrival order, with duplicates, of the fragments of one split message reassembles to exactly
   one message, equal to the original, whatever older state the reassembler held for another
   packet id. *)
Theorem C05_reassemble_any_order : forall m maxSize fs seq d,
  fid m = 0 -> fcount m = 1 ->
  frag m maxSize = Ok fs -> (2 <= length fs)%nat ->
  (forall f, In f seq -> In f fs) -> (forall f, In f fs -> In f seq) ->
  (d_pid d <> pid m \/ d_frags d = []) ->
  exists d', feed_all d seq = Ok (d', [m]).
Proof. exact reassemble_any_order. Qed.
Print Assumptions C05_reassemble_any_order.

(* History clause: fragments of several messages with pairwise distinct packet ids, any sequence
   with drops, duplicates, permutation and interleaving: the reassembler never panics and every
   message it emits is one of the messages that were sent. *)
Theorem C05_no_chimera : forall (ms : list msg) (lim : msg -> Z) (seq : list msg),
  NoDup (map pid ms) ->
  (forall m, In m ms -> fid m = 0 /\ fcount m = 1) ->
  (forall f, In f seq -> exists m fs, In m ms /\ frag m (lim m) = Ok fs /\ In f fs) ->
  exists d' outs, feed_all d_init seq = Ok (d', outs) /\ forall o, In o outs -> In o ms.
Proof. exact no_chimera. Qed.
Print Assumptions C05_no_chimera.

(* Wire format: parse . serialize is the identity on every message the protocol allows. *)
Theorem C05_wire_roundtrip : forall m, msg_wf m ->
  (1 <= length (addr m))%nat -> N.of_nat (length (addr m)) <= MaxMessageLength ->
  (1 <= length (data m))%nat ->
  parse (serialize m) = Ok m /\ length (serialize m) = size m.
Proof. exact wire_roundtrip. Qed.
Print Assumptions C05_wire_roundtrip.

(* The tree before the fix: commit panicked on some inputs (kept as documentation of the finding). *)
Theorem C05_frag_old_refuted : exists m maxSize, is_panic (frag_old m maxSize) = true.
Proof. exact frag_old_refuted. Qed.
Print Assumptions C05_frag_old_refuted.
