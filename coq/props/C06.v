(* C06 - TCP relay preserves the byte stream and accounts it exactly.
   Property theorems only; every proof is `exact <lemma>` from proof/C06_Relay.v.
   A run is any list of atomic boundary actions the LTS of model/C06_Relay.v accepts from `init m`:
   every interleaving of the two copy loops and the parent, every chunking, every read/write error,
   every verdict of the logger, at every point.  `wok_tr tr` = the sinks obeyed the io.Writer contract. *)
From Hy Require Import lib.Bytes model.C06_Relay model.C06_Request proof.C06_Relay proof.C06_Request gen.ParamsC06.
From Hy Require Import model.C06_Pool proof.C06_Pool model.C06_Close proof.C06_Close.
From Hy Require Import model.C04_Framing model.C06_E2E proof.C06_E2E proof.C06_Frames.
From Hy Require Import model.C06_Hook proof.C06_Hook proof.C06_Poll.
From Hy Require Import model.C06_Events proof.C06_Events.
From Coq Require Import List NArith ZArith.
Import ListNotations.
Local Open Scope N_scope.

(* The state in which the two-way copy starts is reached by: request read, dial ok, response written. *)
Theorem C06_relay_reachable : forall m,
  exec (init m) [AReadReq true; ADial None; AWriteResp true Connected] = Some (relay_init m).
Proof. exact relay_init_reachable. Qed.
Print Assumptions C06_relay_reachable.

(* What the target received is a prefix of what the client stream produced: in order, nothing injected,
   duplicated or altered. *)
Theorem C06_prefix_up : forall m tr s, exec (init m) tr = Some s -> wok_tr tr ->
  exists rest, srcb Up tr = snkb Up tr ++ rest.
Proof. intros m tr s. exact (run_prefix m tr s Up). Qed.
Print Assumptions C06_prefix_up.

(* Same for what the client stream received from the target. *)
Theorem C06_prefix_down : forall m tr s, exec (init m) tr = Some s -> wok_tr tr ->
  exists rest, srcb Down tr = snkb Down tr ++ rest.
Proof. intros m tr s. exact (run_prefix m tr s Down). Qed.
Print Assumptions C06_prefix_down.

(* The hypothesis is needed: copyBufferLog ignores the count Write returns, so a sink that accepts fewer
   bytes without an error leaves a hole in the stream. *)
Theorem C06_prefix_needs_writer_contract :
  exists l p, lexec Logged Up PRead l = Some p /\ ~ exists rest, lsrc l = lsnk l ++ rest.
Proof. exact loop_prefix_needs_contract. Qed.
Print Assumptions C06_prefix_needs_writer_contract.

(* "What the target receives is a prefix of what the CLIENT sent" - not only of what the Up loop read: the client
   writes the request frame and (fast open: without waiting for the response) its payload on one stream, the server
   parses the request off the front of that stream and relays what is left.  For every request codec whose reader
   consumes exactly the frame (read_req (write_req a ++ rest) = Some (a, rest): property C04, a hypothesis here, observed
   by the harness's request-phase cases), every payload and every run that serves that stream: the target holds a
   prefix of the payload ... *)
Theorem C06_target_prefix_of_client_payload :
  forall (read_req : bytes -> option (bytes * bytes)) (write_req : bytes -> bytes),
  (forall addr rest, read_req (write_req addr ++ rest) = Some (addr, rest)) ->
  forall m tr s addr payload, exec (init m) tr = Some s -> wok_tr tr ->
  serves read_req (client_stream write_req addr payload) tr ->
  exists rest, payload = snkb Up tr ++ rest.
Proof. exact target_prefix_of_client. Qed.
Print Assumptions C06_target_prefix_of_client_payload.

(* ... and the whole payload, all of it approved by the logger, once the Up direction has read the stream to its end
   and returned nil. *)
Theorem C06_target_gets_whole_client_payload :
  forall (read_req : bytes -> option (bytes * bytes)) (write_req : bytes -> bytes),
  (forall addr rest, read_req (write_req addr ++ rest) = Some (addr, rest)) ->
  forall m tr s addr payload, exec (init m) tr = Some s -> wok_tr tr ->
  serves_all read_req (client_stream write_req addr payload) tr ->
  (pcof s Up = PRet GNil \/ pcof s Up = PDone GNil) ->
  snkb Up tr = payload /\ (m = Logged -> logged Up tr = blen payload).
Proof. exact target_gets_all_of_client. Qed.
Print Assumptions C06_target_gets_whole_client_payload.

(* The hypothesis is needed: with a request reader that reports the right address but reads ahead (a buffered reader
   when the early payload of a fast-open client has already arrived), a run exists in which the Up direction read the
   stream to its end and returned nil, yet the target received nothing of a non-empty payload and the logger heard of
   nothing. *)
Theorem C06_request_reader_must_not_read_ahead :
  exists (read_req : bytes -> option (bytes * bytes)) (write_req : bytes -> bytes) addr payload tr s,
    (forall rest, exists left, read_req (write_req addr ++ rest) = Some (addr, left)) /\
    exec (init Logged) tr = Some s /\ wok_tr tr /\
    serves_all read_req (client_stream write_req addr payload) tr /\
    pcof s Up = PRet GNil /\ snkb Up tr = [] /\ payload <> [] /\ logged Up tr = 0.
Proof. exact read_ahead_loses_payload. Qed.
Print Assumptions C06_request_reader_must_not_read_ahead.

(* A direction that has returned nil (its source reached EOF; no veto, no failed write got in the way)
   has delivered the whole of what its source produced, and the logger approved exactly that many bytes. *)
Theorem C06_complete_when_sender_finishes_first : forall m tr s d,
  exec (init m) tr = Some s -> wok_tr tr ->
  (pcof s d = PRet GNil \/ pcof s d = PDone GNil) ->
  srcb d tr = snkb d tr /\ (m = Logged -> logged d tr = blen (snkb d tr)) /\
  exists bl c, In (ALoop d (LRead bl c EEOF)) tr.
Proof. exact run_complete. Qed.
Print Assumptions C06_complete_when_sender_finishes_first.

(* ... and that is the only way it can end when the sender finishes first: once the direction has read EOF from
   its source, with no veto and no Write reporting an error in that direction (nothing closed under it), it is
   still delivering the last chunk or it has returned nil with everything delivered (PPanic: the reader broke
   the io.Reader contract by returning more than the buffer holds). *)
Theorem C06_sender_finishes_first_returns_nil : forall m tr s d bl c,
  exec (init m) tr = Some s -> wok_tr tr ->
  In (ALoop d (LRead bl c EEOF)) tr -> Forall quiet_act (proj d tr) ->
  match pcof s d with
  | PRet e | PDone e => e = GNil /\ srcb d tr = snkb d tr
  | PLog _ _ | PWrite _ _ | PPanic => True
  | _ => False
  end.
Proof. exact run_sender_finishes. Qed.
Print Assumptions C06_sender_finishes_first_returns_nil.

(* Every Write of a direction is directly preceded, in that direction, by the Read that returned this very
   chunk and - with a logger - by the LogTraffic call that approved its size in the argument position of
   the direction (Up: tx, Down: rx). *)
Theorem C06_logged_before_forwarded : forall m tr s d pre c nw ew post,
  exec (init m) tr = Some s -> wok_tr tr ->
  proj d tr = pre ++ LWrite c nw ew :: post ->
  match m with
  | Logged => exists pre' bl er, pre = pre' ++ [LRead bl c er; LLog (fst (log_args d (blen c))) (snd (log_args d (blen c))) true]
  | Fast => exists pre' bl er, pre = pre' ++ [LRead bl c er]
  end.
Proof. exact run_order. Qed.
Print Assumptions C06_logged_before_forwarded.

(* Every LogTraffic call happens with a logger configured, right after a non-empty Read of its direction,
   and carries that chunk's size: (n, 0) for Up, (0, n) for Down. *)
Theorem C06_log_arguments : forall m tr s d tx rx v,
  exec (init m) tr = Some s -> wok_tr tr -> In (ALoop d (LLog tx rx v)) tr ->
  m = Logged /\ exists pre bl c er post, proj d tr = pre ++ LRead bl c er :: LLog tx rx v :: post /\
                                       c <> [] /\ (tx, rx) = log_args d (blen c).
Proof. exact run_log_args. Qed.
Print Assumptions C06_log_arguments.

(* After a veto the direction does nothing but report errDisconnect: no Write (nothing of the vetoed chunk
   is forwarded), no further Read or LogTraffic. *)
Theorem C06_veto_forwards_nothing : forall m tr s d pre tx rx post,
  exec (init m) tr = Some s -> proj d tr = pre ++ LLog tx rx false :: post ->
  (post = [] /\ pcof s d = PRet GDisconnect) \/ (post = [LReturn GDisconnect] /\ pcof s d = PDone GDisconnect).
Proof. exact run_after_veto. Qed.
Print Assumptions C06_veto_forwards_nothing.

(* Accounting: at every point of every run, approved bytes = forwarded bytes + the chunk in flight (approved,
   not yet or only partly written), which is at most one copy buffer and is zero whenever the direction is
   between chunks or has returned nil. *)
Theorem C06_accounting : forall tr s d, exec (init Logged) tr = Some s -> wok_tr tr ->
  logged d tr = blen (snkb d tr) + inflight (proj d tr) /\ inflight (proj d tr) <= CopyBufSize /\
  match pcof s d with
  | PRead | PLog _ _ | PRet (GEnv EN) | PDone (GEnv EN) => inflight (proj d tr) = 0
  | PWrite c _ => inflight (proj d tr) = blen c
  | _ => True
  end.
Proof. exact run_accounting. Qed.
Print Assumptions C06_accounting.

(* The user's QUIC connection is closed by the relay only after the copy returned errDisconnect, and that
   value is produced only by a veto. *)
Theorem C06_closeconn_only_after_veto : forall m tr s, exec (init m) tr = Some s -> In ACloseConn tr ->
  In (AFirstReturn GDisconnect) tr /\ exists d tx rx, In (ALoop d (LLog tx rx false)) tr.
Proof. exact run_closeconn_only_if. Qed.
Print Assumptions C06_closeconn_only_after_veto.

(* "a veto closes that user's connection", the part that holds: once handleTCPRequest has finished, the
   connection has been closed if errDisconnect was the first value to reach errChan.
   Full statement (false, see below): par s = QDone -> In (ALoop d (LLog tx rx false)) tr -> In ACloseConn tr.
   Missing: copyTwoWayEx reads only one value from errChan; a vetoed loop that reports second is dropped. *)
Theorem C06_veto_closes_conn_partial : forall m tr s, exec (init m) tr = Some s -> par s = QDone ->
  hd_error (rets tr) = Some GDisconnect -> In ACloseConn tr.
Proof. exact run_closeconn_if. Qed.
Print Assumptions C06_veto_closes_conn_partial.

(* ... and the witness that the full clause fails: a finished run (parent done, both loops done, sinks
   well-behaved) with a veto in Down, nothing forwarded, and no CloseConn.  Replayed on the Go code by the
   harness (fixed case "veto swallowed"); recorded as an open known finding. *)
Theorem C06_veto_closes_conn_refuted :
  exists tr s, exec (init Logged) tr = Some s /\ wok_tr tr /\
    par s = QDone /\ pU s = PDone GNil /\ pD s = PDone GDisconnect /\
    In (ALoop Down (LLog 0 7 false)) tr /\ snkb Down tr = [] /\ ~ In ACloseConn tr.
Proof. exact veto_closes_conn_refuted. Qed.
Print Assumptions C06_veto_closes_conn_refuted.

(* A failed dial: the whole run is a prefix of [read request; dial error msg; write response (false, msg);
   close stream] - the response carries the server's message, no byte is read, logged or written. *)
Theorem C06_dial_error_relays_nothing : forall m tr s msg,
  exec (init m) tr = Some s -> In (ADial (Some msg)) tr ->
  exists k, tr = firstn k [AReadReq true; ADial (Some msg); AWriteResp false msg; ACloseStream].
Proof. exact dial_error_shape. Qed.
Print Assumptions C06_dial_error_relays_nothing.

(* Client side, for any TCPResponse codec that round-trips (property C04; here a hypothesis):
   the failure response reaches the application as DialError msg - from TCP() without fast open, from the
   first Read with fast open - and after a success response Read delivers exactly the bytes that follow the
   frame on the stream (the Down sink), fast open or not. *)
Theorem C06_client_view : forall (read_resp : bytes -> option (bool * bytes * bytes)) (write_resp : bool -> bytes -> bytes),
  (forall ok msg rest, read_resp (write_resp ok msg ++ rest) = Some (ok, msg, rest)) ->
  (forall fo msg payload, client_view read_resp fo (write_resp true msg ++ payload) = inr payload) /\
  (forall msg rest,
     client_tcp read_resp false (write_resp false msg ++ rest) = inl (CDialError msg) /\
     exists c, client_tcp read_resp true (write_resp false msg ++ rest) = inr c /\
               conn_read_all read_resp c = inl (CDialError msg)) /\
  (forall msg, stream_out write_resp [AReadReq true; ADial (Some msg); AWriteResp false msg; ACloseStream] = write_resp false msg).
Proof.
  intros rr wr H. split; [|split].
  - exact (client_ok rr wr H).
  - exact (client_dial_error rr wr H).
  - exact (dial_error_stream wr).
Qed.
Print Assumptions C06_client_view.

(* Non-vacuity: a run with a veto in Down after two forwarded chunks (3 bytes delivered of 5 read, 3 approved),
   Up forwarding concurrently, the vetoed loop reporting first, the connection closed. *)
Theorem C06_example_veto_run :
  exists s, exec (init Logged) veto_run = Some s /\ wok_tr veto_run /\ par s = QDone /\
    snkb Down veto_run = [x61; x62; x63] /\ srcb Down veto_run = [x61; x62; x63; x64; x65] /\
    logged Down veto_run = 3 /\ snkb Up veto_run = [x7a] /\ hd_error (rets veto_run) = Some GDisconnect /\
    In ACloseConn veto_run /\ sRx s = 5 /\ sTx s = 1.
Proof. exact veto_run_ok. Qed.
Print Assumptions C06_example_veto_run.

(* ---- isolation between relays.  The LTS above is ONE relay and keeps the chunk a loop is forwarding in the loop's
   program counter.  In the code the chunk sits in a pooled buffer (copyBufPool), the only state the relays of a server
   share.  model/C06_Pool.v is the world of all copy loops (any number of relays, started at any time) over a memory of
   buffers: a Read stores into the loop's buffer, a Write hands out what that buffer holds at that moment, Get/Put move
   buffers between the loops and the pool as copyBufferLog does (Get on entry, deferred Put when the loop returns).
   In every run of that world, from a server that has not relayed anything yet: a buffer held by a running loop (at
   Read, LogTraffic or Write) is not in the pool and is held by no other running loop, and the pool holds no buffer twice. *)
Theorem C06_pool_buffer_has_one_owner : forall tr w, wexec false w0 tr = Some w ->
  NoDup (wfree w) /\
  forall i si b, nth_error (slots w) i = Some si -> sbuf si = Some b -> running (spc si) = true ->
    ~ In b (wfree w) /\
    forall j sj, j <> i -> nth_error (slots w) j = Some sj -> sbuf sj = Some b -> running (spc sj) = false.
Proof. exact pool_exclusive. Qed.
Print Assumptions C06_pool_buffer_has_one_owner.

(* Therefore what any one loop did - its Writes carrying the bytes the memory held when they were made - is a run of
   the one-loop LTS, whatever the other relays did meanwhile: every per-loop theorem above holds for each relay of a
   busy server. *)
Theorem C06_pool_each_loop_is_a_relay_loop : forall tr w i s, wexec false w0 tr = Some w ->
  nth_error (slots w) i = Some s -> lexec (sm s) (sd s) PRead (wproj i tr) = Some (spc s).
Proof. exact pool_loop_run. Qed.
Print Assumptions C06_pool_each_loop_is_a_relay_loop.

(* In particular: with any number of other connections alive, what a loop's sink received is a prefix of what ITS
   source produced (nothing of another connection injected), and all of it once the loop has returned nil. *)
Theorem C06_relays_are_isolated : forall tr w i s, wexec false w0 tr = Some w ->
  nth_error (slots w) i = Some s -> wok (wproj i tr) ->
  (exists rest, lsrc (wproj i tr) = lsnk (wproj i tr) ++ rest) /\
  (spc s = PRet GNil \/ spc s = PDone GNil -> lsrc (wproj i tr) = lsnk (wproj i tr)).
Proof. exact pool_isolation. Qed.
Print Assumptions C06_relays_are_isolated.

(* The discipline is needed: if a buffer can go back to the pool while its loop is still running (the relay returning
   both directions' buffers when the FIRST direction finishes), a run exists - rejected by the world above - in which a
   loop read "AB", had it approved, and forwarded the late bytes "XX" of another connection. *)
Theorem C06_pool_put_must_wait_for_the_loop :
  wexec false w0 early_put_run = None /\
  exists w, wexec true w0 early_put_run = Some w /\ wok (wproj 1 early_put_run) /\
    lsrc (wproj 1 early_put_run) = [x41; x42] /\ lsnk (wproj 1 early_put_run) = [x58; x58] /\
    ~ exists rest, lsrc (wproj 1 early_put_run) = lsnk (wproj 1 early_put_run) ++ rest.
Proof. exact pool_early_put_injects. Qed.
Print Assumptions C06_pool_put_must_wait_for_the_loop.

(* Non-vacuity: three loops of two generations, the third reusing the buffer the first put back while the second is
   still forwarding; every sink holds its own stream. *)
Theorem C06_example_pool_reuse : exists w, wexec false w0 reuse_run = Some w /\
  lsnk (wproj 0 reuse_run) = [x58] /\ lsnk (wproj 1 reuse_run) = [x41; x42] /\ lsnk (wproj 2 reuse_run) = [x43] /\
  wfree w = [] /\ wfresh w = 2.
Proof. exact reuse_run_ok. Qed.
Print Assumptions C06_example_pool_reuse.

(* ---- the client closing its end (client.go:296, qstream.go:44).  For every application history between TCP() and
   Close() - any Writes, any Reads or none at all, so also a fast-open connection that never became Established - the
   server's end of the stream yields the request, every byte written behind it, and then EOF: the hypothesis under which
   C06_target_gets_whole_client_payload delivers the whole payload (the Up loop reads the stream to its end). *)
Theorem C06_client_close_is_graceful : forall write_req addr c0 h,
  upstream_of conn_close write_req addr c0 h = (client_stream write_req addr (payload_of h), Some UEOF).
Proof. exact close_is_graceful. Qed.
Print Assumptions C06_client_close_is_graceful.

(* The case distinction is not innocent: a Close that resets the stream of a connection whose response was never read
   ends a fast-open one-way upload (TCP(); Write p; Close()) with a reset - the server's Read fails and undelivered
   bytes are dropped - while every history with a Read, and every eager connection, still ends with EOF. *)
Theorem C06_client_close_must_not_abort_unestablished : forall write_req addr p,
  snd (upstream_of conn_close_abort_unestablished write_req addr (mkConn false []) [CWrite p]) = Some UReset /\
  (forall c0 h, established c0 = true \/ In CRead h ->
     snd (upstream_of conn_close_abort_unestablished write_req addr c0 h) = Some UEOF).
Proof. exact abort_unestablished_loses. Qed.
Print Assumptions C06_client_close_must_not_abort_unestablished.

(* ==== one connection end to end over the REAL codecs (model/C06_E2E.v): no codec hypothesis is left.
   The four byte streams of a connection are io.Reader scripts of lib/Reader.v (every cut into reads, zero-length reads,
   a terminal condition with or without the last bytes).  `delivers s (frame ++ early) post`: the frame and the first
   `early` bytes behind it arrive without an error, cut into reads in ANY way - a read may span the end of the frame
   (fast open) - and then the stream goes on as post (arbitrary).  `serves_io su tr`: the request was taken off su by the
   model of quicvarint.Read + protocol.ReadTCPRequest (C04) and the Up loop's Reads are Reads of the script that left;
   `target_io sd tr`: the Down loop's Reads are Reads of what the target sends.  `fin_ok s`: nothing follows the
   terminal condition of s (a peer's stream ends once). *)

(* The request phase of the real server leaves exactly the bytes behind the request frame WriteTCPRequest built, whatever
   the chunking (instance of C04_request_roundtrip at the front of the client stream). *)
Theorem C06_request_phase_is_exact : forall addr pad frame early su post,
  1 <= N.of_nat (length addr) <= MaxAddressLength -> drawable tcpRequestPaddingMin tcpRequestPaddingMax pad ->
  write_tcp_request addr pad = Ok frame -> delivers su (frame ++ early) post ->
  exists st1, run_on server_read_request su = (Ok addr, st1) /\ delivers (rs_script st1) early post /\
              sdata (rs_script st1) = early ++ sdata post /\ fin_ok (rs_script st1) = fin_ok post.
Proof. exact request_phase_exact. Qed.
Print Assumptions C06_request_phase_is_exact.

(* C06_target_prefix_of_client_payload with the real request codec: for every run that serves the stream, the target holds
   a prefix of the payload the client application wrote behind the request (early ++ everything after it). *)
Theorem C06_target_prefix_of_client_payload_real : forall addr pad frame early su post,
  1 <= N.of_nat (length addr) <= MaxAddressLength -> drawable tcpRequestPaddingMin tcpRequestPaddingMax pad ->
  write_tcp_request addr pad = Ok frame -> delivers su (frame ++ early) post ->
  forall m tr s, exec (init m) tr = Some s -> wok_tr tr -> serves_io su tr ->
  exists rest, early ++ sdata post = snkb Up tr ++ rest.
Proof. exact e2e_up_prefix. Qed.
Print Assumptions C06_target_prefix_of_client_payload_real.

(* C06_target_gets_whole_client_payload with the real request codec: the whole payload, all of it approved by the logger,
   once the Up direction has returned nil (the client finished first). *)
Theorem C06_target_gets_whole_client_payload_real : forall addr pad frame early su post,
  1 <= N.of_nat (length addr) <= MaxAddressLength -> drawable tcpRequestPaddingMin tcpRequestPaddingMax pad ->
  write_tcp_request addr pad = Ok frame -> delivers su (frame ++ early) post ->
  forall m tr s, exec (init m) tr = Some s -> wok_tr tr -> serves_io su tr ->
  fin_ok post = true -> (pcof s Up = PRet GNil \/ pcof s Up = PDone GNil) ->
  snkb Up tr = early ++ sdata post /\ (m = Logged -> logged Up tr = blen (early ++ sdata post)).
Proof. exact e2e_up_whole. Qed.
Print Assumptions C06_target_gets_whole_client_payload_real.

(* A request that does not parse (any script at all): nothing is relayed in either direction, nothing is written. *)
Theorem C06_bad_request_relays_nothing : forall su m tr s wr,
  (forall a st1, run_on server_read_request su <> (Ok a, st1)) ->
  exec (init m) tr = Some s -> serves_io su tr ->
  snkb Up tr = [] /\ snkb Down tr = [] /\ stream_out wr tr = [].
Proof. exact e2e_bad_request. Qed.
Print Assumptions C06_bad_request_relays_nothing.

(* Clause (b): what the server put on the stream.  On EVERY run it is the response frame (if one was written) followed by
   exactly the Down sink; on the success path the response is (true, "Connected"), it is the only one, and the run is
   [read request; dial ok; write response] followed by a run of the relay. *)
Theorem C06_stream_is_response_then_down_sink : forall wr m tr s, exec (init m) tr = Some s ->
  stream_out wr tr = resp_out wr tr ++ snkb Down tr /\
  (forall msg, In (AWriteResp true msg) tr ->
     msg = Connected /\ stream_out wr tr = wr true Connected ++ snkb Down tr /\
     exists tr', tr = accept_run ++ tr' /\ exec (relay_init m) tr' = Some s).
Proof.
  intros wr m tr s He. split; [exact (stream_out_every_run wr m tr s He)|].
  intros msg. exact (stream_out_success wr m tr s msg He).
Qed.
Print Assumptions C06_stream_is_response_then_down_sink.

(* C06_client_view with the real response codec, over every chunking of the client's incoming stream and every sequence of
   buffer sizes the application reads with: after the success response the application gets a prefix of the bytes behind
   the frame, and all of them once it has read up to the stream's end; the failure response reaches it as DialError msg -
   from TCP() without fast open, from the first Read with fast open - and no byte. *)
Theorem C06_client_view_real : forall pad frame early msg sc postc,
  N.of_nat (length msg) <= MaxMessageLength -> drawable tcpResponsePaddingMin tcpResponsePaddingMax pad ->
  delivers sc (frame ++ early) postc ->
  (write_tcp_response true msg pad = Ok frame -> forall fo ns,
     exists got e, client_io fo sc ns = inr (got, e) /\
       (exists rest, early ++ sdata postc = got ++ rest) /\
       (fin_ok postc = true -> e <> None -> got = early ++ sdata postc)) /\
  (write_tcp_response false msg pad = Ok frame ->
     (forall ns, client_io false sc ns = inl (RDial msg)) /\
     (forall n ns, client_io true sc (n :: ns) = inr ([], Some (RDial msg)))).
Proof.
  intros pad frame early msg sc postc Hm Hp Hd. split.
  - intros Hf fo ns. exact (client_io_ok pad frame early msg sc postc Hm Hp fo ns Hf Hd).
  - intros Hf. exact (client_io_dial_error pad frame early msg sc postc Hm Hp Hf Hd).
Qed.
Print Assumptions C06_client_view_real.

(* END TO END.  For every run of the server (every interleaving, chunking, error, veto), every request frame the client's
   writer can produce, every response padding the server's writer can draw, every cut of the four streams into reads:
   Up   - what the target received is a prefix of what the client application wrote behind the request, and the whole of
          it when the client finished first (Up returned nil);
   Down - what the client application reads (fast open or not, any buffer sizes) is a prefix of what the target sent, where
          the client's stream carries a prefix of what the server wrote (sdata sc ++ lost: QUIC delivers in order, without
          gaps), the response frame and `early` having arrived; and the whole of it when the target finished first (Down
          returned nil), nothing was lost and the application read to the stream's end. *)
Theorem C06_end_to_end : forall addr reqpad reqframe uearly su upost resppad dearly sd sc postc lost m tr s fo ns,
  1 <= N.of_nat (length addr) <= MaxAddressLength -> drawable tcpRequestPaddingMin tcpRequestPaddingMax reqpad ->
  write_tcp_request addr reqpad = Ok reqframe -> delivers su (reqframe ++ uearly) upost ->
  drawable tcpResponsePaddingMin tcpResponsePaddingMax resppad ->
  exec (init m) tr = Some s -> wok_tr tr -> serves_io su tr -> target_io sd tr ->
  ((exists rest, uearly ++ sdata upost = snkb Up tr ++ rest) /\
   (fin_ok upost = true -> (pcof s Up = PRet GNil \/ pcof s Up = PDone GNil) -> snkb Up tr = uearly ++ sdata upost)) /\
  (In (AWriteResp true Connected) tr ->
   delivers sc (real_write_resp resppad true Connected ++ dearly) postc ->
   stream_out (real_write_resp resppad) tr = sdata sc ++ lost ->
   exists got e, client_io fo sc ns = inr (got, e) /\
     (exists rest, sdata sd = got ++ rest) /\
     (fin_ok sd = true -> fin_ok postc = true -> lost = [] -> e <> None ->
      (pcof s Down = PRet GNil \/ pcof s Down = PDone GNil) -> got = sdata sd)).
Proof.
  intros addr reqpad reqframe uearly su upost resppad dearly sd sc postc lost m tr s fo ns Ha Hrp Hrf Hsu Hdp He Hw Hs Ht.
  split; [split|].
  - exact (e2e_up_prefix addr reqpad reqframe uearly su upost Ha Hrp Hrf Hsu m tr s He Hw Hs).
  - intros Hf Hp. exact (proj1 (e2e_up_whole addr reqpad reqframe uearly su upost Ha Hrp Hrf Hsu m tr s He Hw Hs Hf Hp)).
  - intros Hin Hsc Hout. exact (e2e_down resppad dearly sd sc postc lost Hdp m tr s fo ns He Hw Ht Hin Hsc Hout).
Qed.
Print Assumptions C06_end_to_end.

(* ... and the failed dial end to end: the client gets DialError with the server's message (of at most MaxMessageLength
   bytes; a longer one is a protocol error at the client: C04_reject_message_before_read), the target gets nothing. *)
Theorem C06_dial_error_end_to_end : forall m tr s msg pad early sc postc,
  exec (init m) tr = Some s -> In (ADial (Some msg)) tr ->
  N.of_nat (length msg) <= MaxMessageLength -> drawable tcpResponsePaddingMin tcpResponsePaddingMax pad ->
  delivers sc (real_write_resp pad false msg ++ early) postc ->
  snkb Up tr = [] /\ snkb Down tr = [] /\
  (In (AWriteResp false msg) tr -> stream_out (real_write_resp pad) tr = real_write_resp pad false msg) /\
  (forall ns, client_io false sc ns = inl (RDial msg)) /\
  (forall n ns, client_io true sc (n :: ns) = inr ([], Some (RDial msg))).
Proof. exact dial_error_e2e. Qed.
Print Assumptions C06_dial_error_end_to_end.

(* Non-vacuity: a concrete fast-open connection with real frames ("a:1", 64 / 128 bytes of padding): the first payload
   byte arrives in the same read as the tail of the request, the response in the same read as the first byte of the
   answer; the target gets "hi", the application reads "OK" and then EOF. *)
Theorem C06_example_end_to_end :
  drawable tcpRequestPaddingMin tcpRequestPaddingMax ex_reqpad /\
  drawable tcpResponsePaddingMin tcpResponsePaddingMax ex_resppad /\
  write_tcp_request ex_addr ex_reqpad = Ok ex_reqframe /\
  delivers ex_su (ex_reqframe ++ [x68]) [Ev [x69] (Some EEof)] /\
  delivers ex_sc (ex_respframe ++ [x4f]) [Ev [x4b] (Some EEof)] /\
  exists s, exec (init Logged) ex_run = Some s /\ wok_tr ex_run /\ par s = QDone /\
    serves_io ex_su ex_run /\ target_io ex_sd ex_run /\
    pcof s Up = PDone GNil /\ pcof s Down = PRet GNil /\
    snkb Up ex_run = [x68; x69] /\
    stream_out (real_write_resp ex_resppad) ex_run = sdata ex_sc /\
    client_io true ex_sc [4; 4; 4]%nat = inr ([x4f; x4b], Some (RStream EEof)) /\
    client_io false ex_sc [1; 1; 1]%nat = inr ([x4f; x4b], Some (RStream EEof)).
Proof. exact ex_e2e_ok. Qed.
Print Assumptions C06_example_end_to_end.

(* ==== The prefix clauses for EVERY script - errors, resets, FINs anywhere, also inside the frames (no `delivers`
   hypothesis): a frame reader that returns Ok has taken a well-formed frame off the front of the stream's data
   (lib/ReaderData.v) and the frame grammar is deterministic (proof/C06_Frames.v), so the frame boundary is where the
   writer put it whatever the events were; a reader that fails delivers nothing. *)

(* Up: the client's stream carries the request frame and then `payload` (sdata su = frame ++ payload), in whatever events:
   on every run that serves it the target holds a prefix of the payload. *)
Theorem C06_target_prefix_any_script : forall addr pad frame payload su m tr s,
  1 <= N.of_nat (length addr) <= MaxAddressLength -> drawable tcpRequestPaddingMin tcpRequestPaddingMax pad ->
  write_tcp_request addr pad = Ok frame -> sdata su = frame ++ payload ->
  exec (init m) tr = Some s -> wok_tr tr -> serves_io su tr ->
  exists rest, payload = snkb Up tr ++ rest.
Proof. exact e2e_up_any_script. Qed.
Print Assumptions C06_target_prefix_any_script.

(* Down, success path: the client's stream carries a prefix of what the server wrote (sdata sc ++ lost = stream_out), in
   whatever events: TCP() never reports a DialError, and whatever the application reads - fast open or not, any buffer
   sizes - is a prefix of what the target sent; its Reads never end with a DialError. *)
Theorem C06_client_reads_prefix_any_script : forall pad sd sc lost m tr s fo ns,
  drawable tcpResponsePaddingMin tcpResponsePaddingMax pad ->
  exec (init m) tr = Some s -> wok_tr tr -> target_io sd tr ->
  In (AWriteResp true Connected) tr ->
  sdata sc ++ lost = stream_out (real_write_resp pad) tr ->
  match client_io fo sc ns with
  | inl e => forall msg, e <> RDial msg
  | inr (got, e) => (exists rest, sdata sd = got ++ rest) /\ forall msg, e <> Some (RDial msg)
  end.
Proof. exact e2e_down_any_script. Qed.
Print Assumptions C06_client_reads_prefix_any_script.

(* Failed dial: whatever part of the failure response reaches the client, in whatever events, the application gets no
   byte, and a DialError - from TCP() or from a Read - carries the server's message. *)
Theorem C06_dial_error_any_script : forall pad sc lost m tr s msg fo ns,
  N.of_nat (length msg) <= MaxMessageLength -> drawable tcpResponsePaddingMin tcpResponsePaddingMax pad ->
  exec (init m) tr = Some s -> In (ADial (Some msg)) tr ->
  sdata sc ++ lost = stream_out (real_write_resp pad) tr ->
  match client_io fo sc ns with
  | inl e => forall m', e = RDial m' -> m' = msg
  | inr (got, e) => got = [] /\ forall m', e = Some (RDial m') -> m' = msg
  end.
Proof. exact e2e_dial_error_any_script. Qed.
Print Assumptions C06_dial_error_any_script.

(* ---- handleTCPRequest with the RequestHook branch (model/C06_Hook.v): the ok response of a hooked request is written
   BEFORE the dial.  A run is any list of handler actions the LTS accepts from HReadReq (hook present or not, whatever the
   hook returns, dial ok or failed, then every run of the relay LTS).
   At most one response frame is ever written on a stream, on every run. *)
Theorem C06_one_response_per_stream : forall m tr p, hexec false m HReadReq tr = Some p -> (length (hresps tr) <= 1)%nat.
Proof. exact one_response_per_stream. Qed.
Print Assumptions C06_one_response_per_stream.

(* On every run, hooked or not: the stream carries the response frame (if one was written yet) and then exactly the Down
   sink of the relay. *)
Theorem C06_hooked_stream_is_response_then_down_sink : forall wr m tr p, hexec false m HReadReq tr = Some p ->
  hstream_out wr tr = frames wr (hresps tr) ++ snkb Down (relay_part tr).
Proof. exact hstream_every_run. Qed.
Print Assumptions C06_hooked_stream_is_response_then_down_sink.

(* A run that reached the relay, hooked or not: its copy / teardown phase is a run of the relay LTS (behind the three
   actions of an accepted request, so every theorem above about `exec (init m)` holds of it); exactly one ok frame, then
   the Down sink on the stream; the target holds what the hook put back (as far as that one Write accepted it) and then
   exactly the Up sink; stats.Tx starts from what that Write reported. *)
Theorem C06_hooked_relay_is_a_relay : forall wr m tr tx0 s, hexec false m HReadReq tr = Some (HRelay tx0 s) ->
  exec (init m) (accept_run ++ relay_part tr) = Some s /\
  (exists msg, (msg = Connected \/ msg = HookMsg) /\ hresps tr = [(true, msg)] /\
     hstream_out wr tr = wr true msg ++ snkb Down (relay_part tr)) /\
  (exists nw, tx0 = (match hputback tr with [] => 0 | _ => u64z nw end) /\
     htarget_in tr = wrote (hputback tr) nw ++ snkb Up (relay_part tr)).
Proof. exact relay_of_run. Qed.
Print Assumptions C06_hooked_relay_is_a_relay.

(* Up on a hooked connection: when the target accepted the whole putback (handleTCPRequest ignores both results of that
   Write: a target that accepts less leaves a hole, which is why it is a hypothesis), it holds a prefix of what the hook
   put back followed by what the Up loop read. *)
Theorem C06_hooked_target_prefix : forall m tr p, hexec false m HReadReq tr = Some p -> wok_tr (relay_part tr) ->
  (forall c nw, In (XPutback c nw) tr -> (Z.of_N (blen c) <= nw)%Z) ->
  exists rest, hputback tr ++ srcb Up (relay_part tr) = htarget_in tr ++ rest.
Proof. exact hooked_target_prefix. Qed.
Print Assumptions C06_hooked_target_prefix.

(* A failed dial relays nothing, hooked or not: no action of the copy, nothing to a target; on a hooked connection the
   stream carries the ok frame the hook branch wrote before the dial and NOTHING behind it, otherwise at most the failure
   frame with the server's message. *)
Theorem C06_hooked_dial_error_relays_nothing : forall wr m tr p msg,
  hexec false m HReadReq tr = Some p -> In (XDial (Some msg)) tr ->
  relay_part tr = [] /\ htarget_in tr = [] /\
  (In (XCheck true) tr -> hstream_out wr tr = wr true HookMsg /\ hresps tr = [(true, HookMsg)]) /\
  (In (XCheck false) tr -> hstream_out wr tr = frames wr (hresps tr) /\ (hresps tr = [] \/ hresps tr = [(false, msg)])).
Proof. exact hooked_dial_error_relays_nothing. Qed.
Print Assumptions C06_hooked_dial_error_relays_nothing.

(* ... so the application of a hooked connection whose dial failed reads no byte, over the real codec, whatever part of
   the stream arrives in whatever events, fast open on or off, any buffers; and it never sees a DialError (the failure
   surfaces as the end of the stream). *)
Theorem C06_hooked_dial_error_client_reads_nothing : forall m tr p msg pad sc lost fo ns,
  drawable tcpResponsePaddingMin tcpResponsePaddingMax pad ->
  hexec false m HReadReq tr = Some p -> In (XDial (Some msg)) tr -> In (XCheck true) tr ->
  sdata sc ++ lost = hstream_out (real_write_resp pad) tr ->
  match client_io fo sc ns with
  | inl e => forall m', e <> RDial m'
  | inr (got, e) => got = [] /\ forall m', e <> Some (RDial m')
  end.
Proof. exact hooked_dial_error_client. Qed.
Print Assumptions C06_hooked_dial_error_client_reads_nothing.

(* Down on a connection that reached the relay, hooked or not: what the application reads is a prefix of what the
   target sent. *)
Theorem C06_hooked_client_reads_prefix : forall m tr tx0 s pad sd sc lost fo ns,
  drawable tcpResponsePaddingMin tcpResponsePaddingMax pad ->
  hexec false m HReadReq tr = Some (HRelay tx0 s) -> wok_tr (relay_part tr) -> target_io sd (relay_part tr) ->
  sdata sc ++ lost = hstream_out (real_write_resp pad) tr ->
  match client_io fo sc ns with
  | inl e => forall m', e <> RDial m'
  | inr (got, e) => (exists rest, sdata sd = got ++ rest) /\ forall m', e <> Some (RDial m')
  end.
Proof. exact hooked_client_reads_prefix. Qed.
Print Assumptions C06_hooked_client_reads_prefix.

(* The guard `if !hooked` of the failure response is needed: the handler that always writes it accepts (and the real one
   rejects) the run of a hooked connection with a failed dial that puts two frames on the stream, and the application -
   fast open on or off - reads the whole second frame as payload although no target was ever connected. *)
Theorem C06_failure_response_must_be_guarded :
  drawable tcpResponsePaddingMin tcpResponsePaddingMax hx_pad /\
  hexec true Logged HReadReq (double_response_run [] hx_msg) = Some HEnd /\
  hexec false Logged HReadReq (double_response_run [] hx_msg) = None /\
  hresps (double_response_run [] hx_msg) = [(true, HookMsg); (false, hx_msg)] /\
  relay_part (double_response_run [] hx_msg) = [] /\
  hstream_out hx_wr (double_response_run [] hx_msg) = hx_wr true HookMsg ++ hx_wr false hx_msg /\
  hx_wr false hx_msg <> [] /\
  forall fo, client_io fo [Chunk (hstream_out hx_wr (double_response_run [] hx_msg)); Ev [] (Some EEof)] [4096%nat; 4096%nat]
             = inr (hx_wr false hx_msg, Some (RStream EEof)).
Proof. exact unguarded_failure_response_injects. Qed.
Print Assumptions C06_failure_response_must_be_guarded.

(* Non-vacuity: a hooked run with a one-byte putback that relays in both directions and tears down. *)
Theorem C06_example_hooked_run : exists s, hexec false Logged HReadReq hx_run = Some (HRelay 1 s) /\ par s = QDone /\
  hresps hx_run = [(true, HookMsg)] /\ htarget_in hx_run = [x68; x69] /\ hputback hx_run = [x68] /\
  hstream_out hx_wr hx_run = hx_wr true HookMsg ++ [x4f; x4b] /\ hstats_tx (HRelay 1 s) = Some 2 /\ wok_tr (relay_part hx_run).
Proof. exact hx_run_ok. Qed.
Print Assumptions C06_example_hooked_run.

(* ---- the fast-open client that polls with read deadlines (app_polls): k Reads time out before the response has begun
   to arrive (Established stays false, the next Read parses the response from where the stream is), then the response
   frame and `early` arrive in any chunking, then the stream goes on in any way (more data, further expired deadlines
   that are retried, its end): the bytes the application gets are a prefix of the bytes behind the response frame. *)
Theorem C06_polling_client_reads_prefix : forall pad frame early msg s postc,
  N.of_nat (length msg) <= MaxMessageLength -> drawable tcpResponsePaddingMin tcpResponsePaddingMax pad ->
  write_tcp_response true msg pad = Ok frame -> delivers s (frame ++ early) postc ->
  forall k ns, (k <= length ns)%nat ->
  exists rest, early ++ sdata postc = fst (app_polls (mkCC false (mkRS (deadlines k ++ s) ctr0)) ns) ++ rest.
Proof. exact client_polls_prefix. Qed.
Print Assumptions C06_polling_client_reads_prefix.

(* A failed attempt must not count as "the response has been consumed": the variant that guards the lazy response read
   with a sync.Once hands, after one expired deadline, the response frame itself to the application in front of the
   target's bytes (the real Read, on the same script, delivers exactly the target's bytes). *)
Theorem C06_response_read_must_not_be_once_guarded :
  drawable tcpResponsePaddingMin tcpResponsePaddingMax px_pad /\
  write_tcp_response true Connected px_pad = Ok px_frame /\
  delivers [Chunk px_frame; Ev px_data (Some EEof)] (px_frame ++ []) [Ev px_data (Some EEof)] /\
  app_polls (mkCC false (mkRS px_script ctr0)) [4096; 4096; 4096]%nat = (px_data, Some (RStream EEof)) /\
  app_polls_once (mkOC false false (mkRS px_script ctr0)) [4096; 4096; 4096]%nat = (px_frame ++ px_data, Some (RStream EEof)) /\
  px_frame <> [].
Proof. exact once_guard_injects_response. Qed.
Print Assumptions C06_response_read_must_not_be_once_guarded.

(* ---------------- the tail of handleTCPRequest with the optional EventLogger (model/C06_Events.v) ---------------- *)

(* Configuration dimension.  For every complete run of the tail (EventLogger call if one is configured, close target,
   close stream, close connection), with or without an EventLogger: the user's QUIC connection is closed exactly when
   the copy returned errDisconnect - after both ends were closed - and an EventLogger is handed the copy's own result,
   once. *)
Theorem C06_veto_closes_conn_whatever_event_logger : forall evlog e tr,
  texec false (tail_init evlog e) tr = Some TEnd ->
  (closes_conn tr = true <-> e = GDisconnect) /\
  events_of tr = (if evlog then [e] else []) /\
  (e = GDisconnect -> exists pre, tr = pre ++ [TCloseTarget; TCloseStream; TCloseConn]) /\
  (e <> GDisconnect -> exists pre, tr = pre ++ [TCloseTarget; TCloseStream]).
Proof. exact tail_closes_iff. Qed.
Print Assumptions C06_veto_closes_conn_whatever_event_logger.

(* Configuring an EventLogger adds the one call in front and changes nothing else. *)
Theorem C06_event_logger_does_not_change_teardown : forall e tr1 tr2,
  texec false (tail_init true e) tr1 = Some TEnd -> texec false (tail_init false e) tr2 = Some TEnd ->
  closes_conn tr1 = closes_conn tr2 /\ tr1 = TEvent e :: tr2.
Proof. exact tail_evlog_irrelevant. Qed.
Print Assumptions C06_event_logger_does_not_change_teardown.

(* The tail is the teardown of the parent LTS of model/C06_Relay.v (which the veto theorems above are about). *)
Theorem C06_tail_is_relay_teardown : forall evlog e s,
  par s = QCloseT e ->
  exec s (flat_map to_act (tail_run false evlog e)) = Some (setpar s QDone).
Proof. exact tail_is_relay_tail. Qed.
Print Assumptions C06_tail_is_relay_teardown.

(* The error shown to the EventLogger must not be cleaned in the variable the close test reads: in that variant a veto
   closes the connection without an EventLogger and does NOT close it with one. *)
Theorem C06_event_logger_must_not_clean_the_error_in_place :
  (exists tr, texec true (tail_init true GDisconnect) tr = Some TEnd /\ closes_conn tr = false) /\
  (forall tr, texec true (tail_init false GDisconnect) tr = Some TEnd -> closes_conn tr = true).
Proof. exact remap_refuted. Qed.
Print Assumptions C06_event_logger_must_not_clean_the_error_in_place.

(* ---- the relay of a SNIFFED connection (model/C06_Sniffed.v): handleTCPRequest with the hook branch (model/C06_Hook.v)
   whose hook is the sniffer of extras/sniff (model/C17_Sniff.v sniff_tcp).  The client's stream behind the request is a
   script s: any chunking, zero-length reads, EOF / reset / a fired read deadline at any position - in front of the three
   probe bytes, inside the TLS record header, inside the record body, inside an HTTP header block.  `sniffed_over o s tr`:
   if the run called the hook, the hook returned what the sniffer returns on s, and the Up loop read the head of what the
   sniffer left unread (not hooked: the head of s).  No hypothesis about how much the hook took or handed back.
   On every such run the target's stream is a prefix of the client's stream: nothing lost, duplicated, reordered. *)
From Hy Require Import model.C17_Sniff proof.C17_Sniff model.C06_Sniffed proof.C06_Sniffed.

Theorem C06_sniffed_target_prefix_of_client_stream : forall fuel consumer sni s addr o m tr p,
  first_read_big consumer -> sniff_tcp fuel consumer sni false s addr = Ok o ->
  hexec false m HReadReq tr = Some p -> wok_tr (relay_part tr) -> putback_accepted tr -> sniffed_over o s tr ->
  exists rest, c17_unread s = htarget_in tr ++ rest.
Proof. exact sniffed_target_prefix. Qed.
Print Assumptions C06_sniffed_target_prefix_of_client_stream.

(* ... and once the Up direction has returned nil (it read the client's stream to its EOF), the target holds everything
   the sniffer and the Up loop took off the stream - wherever the sniffer stopped reading. *)
Theorem C06_sniffed_target_gets_whole_client_stream : forall fuel consumer sni s addr o m tr tx0 st,
  first_read_big consumer -> sniff_tcp fuel consumer sni false s addr = Ok o ->
  hexec false m HReadReq tr = Some (HRelay tx0 st) -> wok_tr (relay_part tr) -> putback_accepted tr -> sniffed_over o s tr ->
  (pcof st Up = PRet GNil \/ pcof st Up = PDone GNil) ->
  exists later, c17_unread s = htarget_in tr ++ later /\ hputback tr ++ srcb Up (relay_part tr) = htarget_in tr.
Proof. exact sniffed_target_whole. Qed.
Print Assumptions C06_sniffed_target_gets_whole_client_stream.

(* Every early return of the sniffer must hand back ALL it consumed: a read deadline fires 2 bytes into the body of a
   300-byte TLS record; the variant whose early return is 2 bytes short (`short_out 2`) is accepted by the same handler,
   every contract of the relay holds (writer contract, the Up loop reads exactly what was left and returns nil), and the
   target receives the record header, then the bytes that arrived later: not a prefix of what the client sent. *)
Theorem C06_sniffer_must_hand_back_all_it_consumed :
  exists o st, sniff_tcp 0 sx_consumer sx_sni false sx_script sx_addr = Ok o /\
    let pb := o_replay (short_out 2 o) in
    hexec false Logged HReadReq (sx_run pb) = Some (HRelay 5 st) /\ par st = QDone /\ pcof st Up = PDone GNil /\
    wok_tr (relay_part (sx_run pb)) /\ putback_accepted (sx_run pb) /\
    hputback (sx_run pb) = pb /\ srcb Up (relay_part (sx_run pb)) = c17_unread (o_rest (short_out 2 o)) /\
    htarget_in (sx_run pb) = [x16; x03; x01; x01; x2c] ++ sx_late /\
    ~ exists rest, c17_unread sx_script = htarget_in (sx_run pb) ++ rest.
Proof. exact short_putback_leaves_a_hole. Qed.
Print Assumptions C06_sniffer_must_hand_back_all_it_consumed.

(* Non-vacuity: the same history with the code's sniffer satisfies every hypothesis of the two theorems above and the
   target received the client's stream whole. *)
Theorem C06_example_sniffed_run : first_read_big sx_consumer /\
  exists o st, sniff_tcp 0 sx_consumer sx_sni false sx_script sx_addr = Ok o /\
    hexec false Logged HReadReq (sx_run sx_head) = Some (HRelay 7 st) /\ pcof st Up = PDone GNil /\
    wok_tr (relay_part (sx_run sx_head)) /\ putback_accepted (sx_run sx_head) /\ sniffed_over o sx_script (sx_run sx_head) /\
    htarget_in (sx_run sx_head) = c17_unread sx_script.
Proof. exact sx_example. Qed.
Print Assumptions C06_example_sniffed_run.
