(* C07 - Server UDP sessions are isolated, expire when idle, and never leak. Property theorems only. *)
From Hy Require Import model.C07_UDPSessions.
From Coq Require Import NArith List.

Theorem C07_placeholder_partial : forall (a : nat), a = a.
Proof. reflexivity. Qed.
Print Assumptions C07_placeholder_partial.
