(* C07 - Server UDP sessions are isolated, expire when idle, and never leak.
   Property theorems only; every proof is `exact <lemma>` from proof/C07_UDPSessions.v.
   Quantification: `reachable timeout s` = s is the result of ANY finite action sequence of the LTS of
   model/C07_UDPSessions.v from `init` (any idle timeout): every interleaving of the receive loop, the
   reply loops and the sweeper at atomic-section granularity, every message sequence over any session
   ids (complete / ignored fragment), every read / write / send / dial / hook failure, every passage
   of time, connection loss at any point. *)
From Hy Require Import model.C07_UDPSessions proof.C07_UDPSessions proof.C07_Relay.
From Hy Require Import model.C07_Birth proof.C07_BirthInv proof.C07_Birth.
From Coq Require Import NArith List Bool.
Import ListNotations.
Local Open Scope N_scope.

(* Every WriteTo goes through the socket owned by the session id of the datagram being written. *)
Theorem C07_isolation_out : forall timeout s a s' ev k sid ok,
  reachable timeout s -> step timeout s a = Some (s', ev) -> In (EWrite k sid ok) ev -> owner s k = Some sid.
Proof. exact isolation_out. Qed.
Print Assumptions C07_isolation_out.

(* Every SendMessage carrying a packet read from socket k is stamped with the id of the owner of k. *)
Theorem C07_isolation_back : forall timeout s a s' ev k sid ok n,
  reachable timeout s -> step timeout s a = Some (s', ev) -> In (ESend k sid ok n) ev -> owner s k = Some sid.
Proof. exact isolation_back. Qed.
Print Assumptions C07_isolation_back.

(* Packets read from a session's socket go back to the client, and count as traffic - for EVERY length, the empty
   datagram (n = 0) included (udp.go:186-214 never looks at udpN).
   (1) On an open socket ReadFrom may return a datagram of any length n >= 0: the action is enabled for every n. *)
Theorem C07_read_any_length : forall timeout s e en k n,
  nth_error (heap s) e = Some en -> e_pc en = PRead -> e_sock en = Some k -> e_closes en = 0%nat ->
  step timeout s (ARead e true n) = Some (set_entry s e (set_pc en (PGot n)), [ERead k true n]).
Proof. exact read_any_length. Qed.
Print Assumptions C07_read_any_length.

(* (2) The reply loop's next own action stores Last := now (the datagram is traffic of the session: with
   C07_active_kept the entry is not selected by any sweep within the timeout of that instant), whatever n. *)
Theorem C07_read_is_traffic : forall timeout s e en n,
  nth_error (heap s) e = Some en -> e_pc en = PGot n ->
  step timeout s (AStamp e) = Some (set_entry s e (set_pc (set_last en (now s)) (PSend n)), []).
Proof. exact stamp_any_length. Qed.
Print Assumptions C07_read_is_traffic.

(* (3) Then it calls SendMessage with the entry's own session id and the same length n. *)
Theorem C07_read_is_relayed : forall timeout s e en k n ok,
  nth_error (heap s) e = Some en -> e_pc en = PSend n -> e_sock en = Some k ->
  step timeout s (ASend e ok) = Some (set_entry s e (set_pc en (if ok then PRead else PC1)), [ESend k (e_sid en) ok n]).
Proof. exact send_any_length. Qed.
Print Assumptions C07_read_is_relayed.

(* (4) Nothing else moves a reply loop that holds a datagram: in every reachable state every action of every thread
   other than these two leaves its program counter and its socket as they are, so there is no path back to
   ReadFrom that skips the Last store or the SendMessage call. *)
Theorem C07_relay_not_skipped : forall timeout s a s' ev e en n,
  reachable timeout s -> nth_error (heap s) e = Some en -> holds en n -> step timeout s a = Some (s', ev) ->
  a = AStamp e \/ (exists ok, a = ASend e ok) \/
  (exists en', nth_error (heap s') e = Some en' /\ e_pc en' = e_pc en /\ e_sock en' = e_sock en).
Proof. exact relay_only_own. Qed.
Print Assumptions C07_relay_not_skipped.

(* A socket is closed at most once: its Close count is 1 if the entry is closed and has a socket, else 0;
   a successful write or read only ever happens on a socket whose Close count is 0. *)
Theorem C07_close_exactly_once : forall timeout s, reachable timeout s ->
  forall e en, nth_error (heap s) e = Some en ->
    e_closes en = (if e_closed en && has_sock en then 1%nat else 0%nat) /\ (e_closes en <= 1)%nat.
Proof. exact close_exactly_once. Qed.
Print Assumptions C07_close_exactly_once.

Theorem C07_no_io_after_close : forall timeout s a s' ev k, step timeout s a = Some (s', ev) ->
  (exists sid, In (EWrite k sid true) ev) \/ (exists n, In (ERead k true n) ev) ->
  exists e en, nth_error (heap s) e = Some en /\ e_sock en = Some k /\ e_closes en = 0%nat.
Proof. exact no_io_after_close. Qed.
Print Assumptions C07_no_io_after_close.

(* UDP() is only ever called for an entry whose closed flag is clear, and closed is forever
   (with its socket and Close count frozen). *)
Theorem C07_no_dial_after_exit : forall timeout s a s' ev sid r,
  step timeout s a = Some (s', ev) -> In (EDial sid r) ev ->
  exists e sid' en, rl s = RInit e sid' /\ nth_error (heap s) e = Some en /\ e_sid en = sid /\ e_closed en = false.
Proof. exact no_dial_after_exit. Qed.
Print Assumptions C07_no_dial_after_exit.

(* No socket for a session that already exited, second half: initConn holds connLock from the closed check to the
   socket install (one atomic section, also when the hook / dial is slow and sweeps run meanwhile), so the socket a
   successful dial returns lands in an entry that is open and is the table's entry for that id, before and after the
   step: the sweeper and the final cleanup still reach it (with C07_idle_expiry / C07_no_leak_at_exit: it is closed). *)
Theorem C07_dial_into_listed_entry : forall timeout s a s' ev sid k,
  reachable timeout s -> step timeout s a = Some (s', ev) -> In (EDial sid (Some k)) ev ->
  exists e en', In (sid, e) (table s) /\ table s' = table s /\
    nth_error (heap s') e = Some en' /\ e_sid en' = sid /\ e_sock en' = Some k /\ e_closed en' = false /\
    e_closes en' = 0%nat /\ e_pc en' = PRead.
Proof. exact dial_into_listed_entry. Qed.
Print Assumptions C07_dial_into_listed_entry.

Theorem C07_closed_forever : forall timeout s a s' ev e en, step timeout s a = Some (s', ev) ->
  nth_error (heap s) e = Some en -> e_closed en = true ->
  exists en', nth_error (heap s') e = Some en' /\ e_closed en' = true /\ e_sock en' = e_sock en /\
              e_closes en' = e_closes en /\ e_sid en' = e_sid en.
Proof. exact closed_forever. Qed.
Print Assumptions C07_closed_forever.

(* A datagram whose id has no table entry starts a fresh entry (new index, no socket, not closed), and every
   successful dial returns a socket number no entry has ever held. *)
Theorem C07_fresh_after_expiry : forall timeout s, reachable timeout s ->
  (forall sid c s' ev, rl s = RGot sid c -> C07_UDPSessions.find sid (table s) = None ->
     step timeout s ALookup = Some (s', ev) -> rl s' = RNew sid c) /\
  (forall sid c s' ev, rl s = RNew sid c -> step timeout s AInsert = Some (s', ev) ->
     rl s' = RFeed (length (heap s)) sid c /\ nth_error (heap s) (length (heap s)) = None /\
     exists en, nth_error (heap s') (length (heap s)) = Some en /\ e_sid en = sid /\ fresh en) /\
  (forall a s' ev sid k, step timeout s a = Some (s', ev) -> In (EDial sid (Some k)) ev ->
     k = nsock s /\ forall e en, nth_error (heap s) e = Some en -> e_sock en <> Some k).
Proof. exact fresh_after_expiry. Qed.
Print Assumptions C07_fresh_after_expiry.

(* Relative to tick times.  At a tick (taken when the clock has reached next_tick; the next one is one
   interval later) the sweeper's list is exactly the table entries with now - last > timeout ... *)
Theorem C07_tick_snapshot : forall timeout s s' ev, step timeout s ATick = Some (s', ev) ->
  next_tick s <= now s /\ next_tick s' = next_tick s + idleCleanupIntervalMs /\
  forall e, In e (sw_todo s') <-> In e (map snd (table s)) /\ idle timeout s e = true.
Proof. exact tick_snapshot. Qed.
Print Assumptions C07_tick_snapshot.

(* ... an entry idle at that tick is closed whenever the sweeper is next found with nothing left to do,
   whatever else happened in between ... *)
Theorem C07_idle_expiry : forall timeout s s1 ev e acts s2 tr,
  step timeout s ATick = Some (s1, ev) -> In e (map snd (table s)) -> idle timeout s e = true ->
  run timeout s1 acts = Some (s2, tr) -> sw_todo s2 = [] -> is_closed s2 e.
Proof. exact idle_expiry. Qed.
Print Assumptions C07_idle_expiry.

(* ... and an entry with traffic within the timeout is not selected, and the sweeper closes only selected entries. *)
Theorem C07_active_kept : forall timeout s s1 ev e,
  step timeout s ATick = Some (s1, ev) -> idle timeout s e = false -> ~ In e (sw_todo s1).
Proof. exact active_kept. Qed.
Print Assumptions C07_active_kept.

Theorem C07_sweeper_closes_only_listed : forall timeout s e s' ev,
  step timeout s (AClose1 TSW e) = Some (s', ev) -> In e (sw_todo s).
Proof. exact sweeper_closes_only_listed. Qed.
Print Assumptions C07_sweeper_closes_only_listed.

(* After the connection ended, in every state where nothing is left to run except reply loops that would be
   genuinely blocked in ReadFrom on an open socket: the table is empty, every entry is closed, no reply loop
   is running (so none is blocked either), every socket ever opened has been closed exactly once. *)
Theorem C07_no_leak_at_exit : forall timeout s, reachable timeout s -> terminal s = true ->
  table s = [] /\
  forall e en, nth_error (heap s) e = Some en ->
    e_closed en = true /\ reply_running en = false /\
    (forall k, e_sock en = Some k -> e_closes en = 1%nat /\ e_pc en = PDone).
Proof. exact no_leak_at_exit. Qed.
Print Assumptions C07_no_leak_at_exit.

(* Non-vacuity: two sessions, one expires, the other is kept by an empty datagram from the remote (relayed with
   length 0), the expired id is reused on a new socket, the connection is lost. *)
Theorem C07_example_run :
  exists s tr, run 2000 init ex_acts = Some (s, tr) /\ terminal s = true /\ table s = [] /\
    length (heap s) = 3%nat /\ nsock s = 3 /\
    tr = [ERecv 1 true; EDial 1 (Some 0); EWrite 0 1 true; ERecv 2 true; EDial 2 (Some 1); EWrite 1 2 true;
          EAdvance 1000; ERead 1 true 0; ESend 1 2 true 0; EAdvance 1000; EAdvance 1000;
          EClose 0; ELogClose 1; ERead 0 false 0;
          ERecv 1 true; EDial 1 (Some 2); EWrite 2 1 true; ERecvErr;
          EClose 2; ELogClose 1; EClose 1; ELogClose 2; ERead 1 false 0; ERead 2 false 0].
Proof. exact example_run. Qed.
Print Assumptions C07_example_run.

(* ---------------------------------------------------------------------------------------------------------------
   Creation against sweeps, at the granularity of the code (model/C07_Birth.v, module Birth): the life of one entry
   with feed() split where it releases m.mutex - lookup | newUDPSessionEntry | table insert | Feed's Last store |
   initConn - and a sweeper, the reply loop, the final cleanup and the clock moving between any two of them.
   `BirthP.reachable timeout true t0 more s`: s is reached by ANY action sequence from the start (any idle timeout, any
   start clock t0, `true` = udp.go:60 as it is: newUDPSessionEntry stores Last := time.Now()). *)

(* An entry that is visible in the table has been created, and its Last is no older than its creation (b_born is the
   clock when newUDPSessionEntry ran). *)
Theorem C07_visible_entry_is_stamped : forall timeout t0 more s,
  BirthP.reachable timeout true t0 more s -> Birth.b_vis s = true ->
  exists t, Birth.b_born s = Some t /\ t <= Birth.b_last s /\ Birth.b_last s <= Birth.b_now s.
Proof. exact BirthT.visible_is_stamped. Qed.
Print Assumptions C07_visible_entry_is_stamped.

(* The scan of cleanup(true) selects the entry only when more than the idle timeout has passed since its creation ... *)
Theorem C07_scan_selects_only_old : forall timeout t0 more s s',
  BirthP.reachable timeout true t0 more s -> Birth.bstep timeout true s Birth.AScan = Some s' -> Birth.b_sw s' = Birth.SC1 ->
  exists t, Birth.b_born s = Some t /\ t + timeout < Birth.b_now s.
Proof. exact BirthT.scan_selects_only_old. Qed.
Print Assumptions C07_scan_selects_only_old.

(* ... so while no more than the idle timeout has passed since the creation (and before it) the sweeper is not inside
   CloseWithErr on the entry and no Close(nil) has been reported before the loss of the connection, under every
   interleaving of the sweep with feed's statements ... *)
Theorem C07_young_session_not_swept : forall timeout t0 more s,
  BirthP.reachable timeout true t0 more s ->
  (forall t, Birth.b_born s = Some t -> Birth.b_now s <= t + timeout -> Birth.sw_selected s = false /\ Birth.o_nil_early s = false) /\
  (Birth.b_born s = None -> Birth.sw_selected s = false /\ Birth.o_nil_early s = false).
Proof. exact BirthT.young_not_swept. Qed.
Print Assumptions C07_young_session_not_swept.

(* ... and the datagram that created the session is not dropped: when the receive loop reaches initConn within the idle
   timeout of the creation the entry is open, "session is closed" is not a possible step, and whatever step the receive loop
   takes next has called the hook. *)
Theorem C07_first_datagram_reaches_hook : forall timeout t0 more s t,
  BirthP.reachable timeout true t0 more s -> Birth.b_rl s = Birth.BInit -> Birth.b_born s = Some t -> Birth.b_now s <= t + timeout ->
  Birth.b_closed s = false /\ Birth.bstep timeout true s Birth.AInitClosed = None /\
  (forall a s', Birth.bstep timeout true s a = Some s' -> Birth.b_rl s' <> Birth.BInit -> Birth.o_hook s' = true).
Proof. exact BirthT.first_datagram_reaches_hook. Qed.
Print Assumptions C07_first_datagram_reaches_hook.

(* Exactly one Close event per entry: never more than one; exactly one, and the entry gone from the table, once the
   receive loop, the sweeper and the reply loop have returned. *)
Theorem C07_one_close_event : forall timeout t0 more s,
  BirthP.reachable timeout true t0 more s ->
  Birth.o_closes s <= 1 /\
  (Birth.terminal s = true -> Birth.b_vis s = false /\ (Birth.b_born s <> None -> Birth.b_closed s = true /\ Birth.o_closes s = 1)).
Proof. exact BirthT.one_close_event. Qed.
Print Assumptions C07_one_close_event.

(* These statements depend on udp.go:60.  With the neighbouring design (newUDPSessionEntry leaves Last at the zero time,
   "stamped by Feed, which always follows creation") and any idle timeout below the start clock, the schedule
   recv, lookup, create, insert, SCAN, close, log, delete, Feed, initConn ends with the clock where it started, a Close(nil)
   reported before the loss of the connection, no hook / New / write: the session is killed at birth, its datagram dropped. *)
Theorem C07_stamped_by_feed_refuted : forall timeout t0, timeout < t0 ->
  exists s, Birth.brun timeout false (Birth.binit t0 0) BirthR.killed_at_birth = Some s /\ BirthP.reachable timeout false t0 0 s /\
            Birth.b_now s = t0 /\ Birth.b_born s = Some t0 /\ Birth.b_rl s = Birth.BIdle /\ Birth.b_vis s = false /\
            Birth.o_nil_early s = true /\ Birth.o_hook s = false /\ Birth.o_new s = false /\ Birth.o_write s = false.
Proof. exact BirthR.stamped_by_feed_refuted. Qed.
Print Assumptions C07_stamped_by_feed_refuted.

(* Non-vacuity: the same schedule on the code as it is - the scan leaves the entry alone, the datagram is relayed. *)
Theorem C07_same_schedule_on_the_code : forall timeout t0,
  exists s, Birth.brun timeout true (Birth.binit t0 0)
              [Birth.ARecv true; Birth.ALookup; Birth.ACreate; Birth.AInsert; Birth.AScan; Birth.AStampF; Birth.ADialOk; Birth.AWriteF] = Some s /\
            Birth.b_sw s = Birth.SIdle /\ Birth.b_vis s = true /\ Birth.b_closed s = false /\ Birth.o_hook s = true /\
            Birth.o_new s = true /\ Birth.o_write s = true /\ Birth.o_nil_early s = false.
Proof. exact BirthR.same_schedule_on_the_code. Qed.
Print Assumptions C07_same_schedule_on_the_code.

(* ---------------------------------------------------------------------------------------------------------------
   m.mutex (model/C07_Birth.v, module Locks): sync.RWMutex with Go's semantics (a writer that has called Lock blocks
   every later RLock until it has unlocked, and acquires when the active readers have drained); any number of threads,
   each running any sequence of the functions of udp.go given as their m.mutex operations (Locks.code_prog: feed on a
   hit / on a miss / on a miss with a failed dial, cleanup closing k entries, Count, a reply loop ending its session),
   under every schedule. *)

(* No deadlock: in every reachable state, if some thread has work left, some thread can move. *)
Theorem C07_lock_no_deadlock : forall progs sched ths,
  Forall Locks.code_prog progs -> Locks.lrun (Locks.start progs) sched = Some ths -> Locks.deadlocked ths = false.
Proof. exact LocksP.no_deadlock. Qed.
Print Assumptions C07_lock_no_deadlock.

(* Liveness: no run is longer than the work there is, and from every reachable state everybody can finish. *)
Theorem C07_lock_all_finish : forall progs sched ths,
  Forall Locks.code_prog progs -> Locks.lrun (Locks.start progs) sched = Some ths ->
  (length sched <= Locks.measure (Locks.start progs))%nat /\
  exists sched' ths', Locks.lrun ths sched' = Some ths' /\ Locks.all_done ths' = true.
Proof. exact LocksP.all_finish. Qed.
Print Assumptions C07_lock_all_finish.

(* The discipline behind it: nobody ever holds m.mutex twice - a reader never re-acquires the read lock while holding it -
   and nobody asks for it while holding it. *)
Theorem C07_lock_never_nested : forall progs sched ths,
  Forall Locks.code_prog progs -> Locks.lrun (Locks.start progs) sched = Some ths ->
  Forall (fun th => (Locks.t_r th <= 1)%nat /\ (Locks.t_r th = 1%nat -> Locks.t_w th = Locks.WNo /\ LocksP.asks th = false) /\
                    (Locks.t_w th = Locks.WHeld -> Locks.t_r th = 0%nat /\ LocksP.asks th = false)) ths.
Proof. exact LocksP.never_nested. Qed.
Print Assumptions C07_lock_never_nested.

(* The neighbouring design - cleanup sizing its slice with m.Count() under its own read lock - deadlocks with one writer:
   the sweeper holds the read lock, the receive loop asks for the write lock to insert a session, Count() asks for the read
   lock again. *)
Theorem C07_lock_nested_rlock_deadlocks :
  exists sched ths, Locks.lrun (Locks.start [Locks.cleanup_nested 0; Locks.feed_miss]) sched = Some ths /\
                    Locks.deadlocked ths = true /\ Locks.all_done ths = false.
Proof. exact LocksP.nested_rlock_deadlocks. Qed.
Print Assumptions C07_lock_nested_rlock_deadlocks.
