(* C08 - Every UDP datagram's destination passes the outbound policy.
   Property theorems only; every proof is `exact <lemma>` from proof/C08_UDPPolicy.v.
   Quantification: every address type with a decidable equality (destination strings), every policy
   predicate P, every hook function, every sequence of datagrams / socket reads / closes / dial faults,
   every eviction oracle (the `ev` carried by each datagram input).  The only hypothesis on the inputs,
   wf_input, is that a client datagram never carries the empty address (ParseUDPMessage rejects it). *)
(* the C09 names first: where both models use a name (run, step, ...) the session model's wins below *)
From Hy Require Import model.C05_Frag.
From Hy Require Import model.C09_ACL proof.C09_ACL model.C08_Adapter proof.C08_Adapter.
From Hy Require Import model.C08_UDPPolicy proof.C08_UDPPolicy model.C08_Feed proof.C08_Feed proof.C08_FeedC05.
From Hy Require Import model.C08_Raw proof.C08_Raw.
From Hy Require Import model.C08_Fail proof.C08_Fail proof.C08_Leaf.
From Coq Require Import NArith List.
Import ListNotations.

(* Invariant: whatever was evicted, every cached (destination, verdict) pair is the policy's own verdict. *)
Theorem C08_cache_sound :
  forall (addr : Type) (aeqb : addr -> addr -> bool), (forall a b, aeqb a b = true <-> a = b) ->
  forall (empty : addr) (P : addr -> bool) (hook : addr -> hookres addr) ins st os,
  Forall (wf_input addr empty) ins ->
  run addr aeqb empty P hook None ins = (st, os) ->
  match st with Some s => forall a v, In (a, v) (s_cache _ s) -> v = P a | None => True end.
Proof. exact cache_sound. Qed.
Print Assumptions C08_cache_sound.

(* A destination the policy rejects never receives a datagram, hook or not, whatever the history. *)
Theorem C08_denied_never_receives :
  forall (addr : Type) (aeqb : addr -> addr -> bool), (forall a b, aeqb a b = true <-> a = b) ->
  forall (empty : addr) (P : addr -> bool) (hook : addr -> hookres addr) ins st os x,
  Forall (wf_input addr empty) ins ->
  run addr aeqb empty P hook None ins = (st, os) ->
  P x = false -> forall o, In o os -> o_out _ o <> OFwd _ x.
Proof. exact denied_never_receives. Qed.
Print Assumptions C08_denied_never_receives.

(* The decision cache is transparent: forwarded / dropped / dial-failed / reply outcomes are those of the
   cache-less evaluation that asks the policy for every datagram, for every eviction oracle. *)
Theorem C08_cache_transparent :
  forall (addr : Type) (aeqb : addr -> addr -> bool), (forall a b, aeqb a b = true <-> a = b) ->
  forall (empty : addr) (P : addr -> bool) (hook : addr -> hookres addr) ins st os,
  Forall (wf_input addr empty) ins ->
  run addr aeqb empty P hook None ins = (st, os) ->
  map (o_out _) os = ref_run addr aeqb empty P hook None ins.
Proof. exact cache_transparent. Qed.
Print Assumptions C08_cache_transparent.

(* Without a rewriting hook: datagram to a is written to a iff P a (given that the session's socket could be
   dialed: the first destination is vetted by the dial itself), dropped otherwise; spec_nohook is that table. *)
Theorem C08_forward_only_allowed :
  forall (addr : Type) (aeqb : addr -> addr -> bool), (forall a b, aeqb a b = true <-> a = b) ->
  forall (empty : addr) (P : addr -> bool) (hook : addr -> hookres addr), (forall a, hook a = HKeep) ->
  forall ins st os,
  Forall (wf_input addr empty) ins ->
  run addr aeqb empty P hook None ins = (st, os) ->
  map (o_out _) os = spec_nohook addr P false ins.
Proof. exact forward_only_allowed. Qed.
Print Assumptions C08_forward_only_allowed.

(* The hook rewrote the first destination a to a' (any a', the empty string included): until the session is
   closed every datagram is written to a' whatever its own address, CheckUDP is never consulted, nothing is
   dialed again, and every reply is reported from a. *)
Theorem C08_override :
  forall (addr : Type) (aeqb : addr -> addr -> bool), (forall a b, aeqb a b = true <-> a = b) ->
  forall (empty : addr) (P : addr -> bool) (hook : addr -> hookres addr) a a' ev rest st os,
  hook a = HRewrite a' -> a <> a' -> a <> empty -> P a' = true ->
  forallb (fun i => negb (is_close addr i)) rest = true ->
  run addr aeqb empty P hook None (IDgram _ a false ev :: rest) = (st, os) ->
  map (o_out _) os = map (spec_override addr a a') (IDgram _ a false ev :: rest) /\
  Forall (fun o => o_consulted _ o = false /\ o_evicted _ o = None) os /\
  (forall o, In o (tl os) -> o_dialed _ o = None) /\ (exists o, hd_error os = Some o /\ o_dialed _ o = Some a').
Proof. exact override. Qed.
Print Assumptions C08_override.

(* Non-vacuity: 2 x 300 destinations, the policy denies every third, the cap (256) is exceeded. *)
Theorem C08_example_300 :
  let r := run N N.eqb 0%N ex_P (fun _ => HKeep) None ex_ins in
  map (o_out N) (snd r) = spec_nohook N ex_P false ex_ins /\
  length (filter (fun o => match o_evicted N o with Some _ => true | None => false end) (snd r)) = 89%nat /\
  length (filter (fun o => match o_out N o with ODrop _ => true | _ => false end) (snd r)) = 200%nat.
Proof. exact example_300. Qed.
Print Assumptions C08_example_300.

(* The input hypothesis is needed: with an empty first address in a hooked session the model (like the code)
   seeds the unchecked empty destination. The parser never delivers such a message. *)
Theorem C08_empty_first_address_refuted :
  exists (P : N -> bool) (hook : N -> hookres N) ins x,
    P x = false /\ In (OFwd N x) (map (o_out N) (snd (run N N.eqb 0%N P hook None ins))).
Proof. exact empty_first_address_refuted. Qed.
Print Assumptions C08_empty_first_address_refuted.

(* The tree before the fix bbf8060 (documentation of the finding): with well-formed inputs the old Feed
   forwarded to a destination the policy rejects when the hook rewrote to the empty string. *)
Theorem C08_old_refuted :
  exists (P : N -> bool) (hook : N -> hookres N) ins x,
    Forall (wf_input N 0%N) ins /\ P x = false /\
    In (OFwd N x) (map (o_out N) (snd (run_old N N.eqb 0%N P hook None ins))).
Proof. exact old_refuted. Qed.
Print Assumptions C08_old_refuted.

(* ---- second layer (model/C08_Feed.v): the whole of udpSessionEntry.Feed - the Defragger in front of the tail, the
   result of conn.WriteTo, entries without a socket.  A client message is (PacketID, FragID, FragCount, Addr); the
   fragments of one datagram may carry DIFFERENT addresses, arrive in any order, be duplicated, be abandoned for another
   packet id; any Feed may be told that its WriteTo fails.  [written o] = the addresses handed to conn.WriteTo by that
   Feed, successful or not. ---- *)

(* Nothing is ever handed to WriteTo for a destination the policy rejects, whatever the history. *)
Theorem C08_frag_denied_never_written :
  forall (addr : Type) (aeqb : addr -> addr -> bool), (forall a b, aeqb a b = true <-> a = b) ->
  forall (empty : addr) (P : addr -> bool) (hook : addr -> hookres addr) ins fs os x,
  Forall (fwf addr empty) ins ->
  frun addr aeqb empty P hook None ins = (fs, os) ->
  P x = false -> forall o, In o os -> ~ In x (written addr o).
Proof. exact feed_denied_never_written. Qed.
Print Assumptions C08_frag_denied_never_written.

(* In every reachable state, for every message m: the address given to checkAddr IS the address given to WriteTo
   (c = x), it is the address of the message that completed the datagram (the last arrived fragment), the policy allows
   it; a dropped datagram was dropped for that same address; in an overridden session (chk = None) CheckUDP is not
   consulted; and an injected write error shows up as ok = false of that ONE WriteTo - no second write. *)
Theorem C08_feed_check_is_write :
  forall (addr : Type) (aeqb : addr -> addr -> bool), (forall a b, aeqb a b = true <-> a = b) ->
  forall (empty : addr) (P : addr -> bool) (hook : addr -> hookres addr) ins fs os m fault ev werr fs' o,
  Forall (fwf addr empty) ins ->
  frun addr aeqb empty P hook None ins = (fs, os) -> u_addr _ m <> empty ->
  fstep addr aeqb empty P hook fs (FMsg _ m fault ev werr) = (fs', o) ->
  match fo_out _ o with
  | FWrite _ (Some c) x ok => c = x /\ x = u_addr _ m /\ P x = true /\ ok = negb werr
  | FWrite _ None x ok => P x = true /\ ok = negb werr /\ fo_consulted _ o = false
  | FDrop _ c => c = u_addr _ m /\ P c = false
  | FRep _ _ => False
  | _ => True
  end.
Proof. exact feed_check_is_write. Qed.
Print Assumptions C08_feed_check_is_write.

(* A failing WriteTo changes nothing but the reported result: same session state as with a successful one. *)
Theorem C08_feed_write_error_only_reported :
  forall (addr : Type) (aeqb : addr -> addr -> bool) (empty : addr) (P : addr -> bool) (hook : addr -> hookres addr)
         fs m fault ev,
  fst (fstep addr aeqb empty P hook fs (FMsg _ m fault ev true)) =
  fst (fstep addr aeqb empty P hook fs (FMsg _ m fault ev false)).
Proof. exact fstep_werr_state. Qed.
Print Assumptions C08_feed_write_error_only_reported.

(* Overridden session (the hook rewrote the first destination a to a'): until it is closed, whatever arrives - fragments
   with any addresses, in any order, with or without write errors - every Feed either calls nothing or calls
   WriteTo(a') exactly once (ok = the injected result), never consults CheckUDP, never dials; replies come from a. *)
Theorem C08_feed_override :
  forall (addr : Type) (aeqb : addr -> addr -> bool), (forall a b, aeqb a b = true <-> a = b) ->
  forall (empty : addr) (P : addr -> bool) (hook : addr -> hookres addr) m ev werr a' rest fs os,
  N.leb (u_cnt _ m) 1 = true ->
  hook (u_addr _ m) = HRewrite a' -> u_addr _ m <> a' -> u_addr _ m <> empty -> P a' = true ->
  forallb (fun i => negb (is_fclose addr i)) rest = true ->
  frun addr aeqb empty P hook None (FMsg _ m false ev werr :: rest) = (fs, os) ->
  exists o os', os = o :: os' /\
    fo_out _ o = FWrite _ None a' (negb werr) /\ fo_dialed _ o = Some a' /\ fo_consulted _ o = false /\
    Forall2 (ov_post addr (u_addr _ m) a') rest os'.
Proof. exact feed_override. Qed.
Print Assumptions C08_feed_override.

(* The first layer (all theorems above it) is this layer restricted to complete messages and successful writes. *)
Theorem C08_feed_refines :
  forall (addr : Type) (aeqb : addr -> addr -> bool) (empty : addr) (P : addr -> bool) (hook : addr -> hookres addr) ins fs os,
  frun addr aeqb empty P hook None (map (embed addr) ins) = (fs, os) ->
  run addr aeqb empty P hook None ins = (proj_state addr fs, map (proj_obs addr) os).
Proof. exact feed_refines. Qed.
Print Assumptions C08_feed_refines.

(* Composition with C05: the session model's Defragger is the C05 model of frag.Defragger.Feed with payload and
   session id forgotten (am, ad: proof/C08_FeedC05.v), and the message it hands out carries the address of the
   message just fed - the LAST arrived fragment. *)
Theorem C08_defragger_is_C05 : forall d m d' o,
  C05_Frag.feed d m = Ok (d', o) -> dfeed (list byte) (ad d) (am m) = (ad d', option_map am o).
Proof. exact dfeed_is_C05_feed. Qed.
Print Assumptions C08_defragger_is_C05.

Theorem C08_defragger_emits_last_addr : forall d m d' x,
  C05_Frag.feed d m = Ok (d', Some x) -> C05_Frag.addr x = C05_Frag.addr m.
Proof. exact C05_feed_emits_last_addr. Qed.
Print Assumptions C08_defragger_emits_last_addr.

(* Non-vacuity: live plain session, policy rejects 2; a datagram whose head fragment names 2 and whose tail names 1:
   tail last -> checked and written for 1; head last -> checked for 2 and dropped.  Hooked session: the 2nd WriteTo fails. *)
Theorem C08_example_fragments :
  map (fo_out N) (snd (frun N N.eqb 0%N exf_P (fun _ => HKeep) None exf_ins)) =
  [ FWrite N (Some 1%N) 1%N true; FNone N; FWrite N (Some 1%N) 1%N true; FNone N; FDrop N 2%N ].
Proof. exact example_fragments. Qed.
Print Assumptions C08_example_fragments.

Theorem C08_example_hooked_write_error :
  map (fo_out N) (snd (frun N N.eqb 0%N exf_P (fun _ => HRewrite 1%N) None
                        [ FMsg N (mkU N 0 0 1 2%N) false 0%N false; FMsg N (mkU N 0 0 1 2%N) false 0%N true;
                          FMsg N (mkU N 0 0 1 2%N) false 0%N false ])) =
  [ FWrite N None 1%N true; FWrite N None 1%N false; FWrite N None 1%N true ].
Proof. exact example_hooked_write_error. Qed.
Print Assumptions C08_example_hooked_write_error.

(* ---- the policy adapter (extras/outbounds): PluggableOutboundAdapter -> resolver stage -> aclEngine -> outbound.
   The hypothesis of the session theorems above - the dial (UDP) vets a destination with the very policy CheckUDP
   applies to the later ones - for this pipeline: both entry points reach the same outbound with the same request
   (host, port and the resolve info the resolver stage stored, rewritten alike by a hijack rule), for every rule set,
   default outbound, resolver and destination; hence the two verdicts are equal for any outbound behaviour. *)
Theorem C08_adapter_check_walks_same_acl :
  forall (ip_str : ip -> str) (rs : list rule) (dflt : N) (resolve : str -> option (ip * ip)) (h : str) (p : N),
  adapter_check_udp ip_str rs dflt resolve h p = adapter_udp ip_str rs dflt resolve h p.
Proof. exact adapter_same_walk. Qed.
Print Assumptions C08_adapter_check_walks_same_acl.

Theorem C08_adapter_same_policy :
  forall (ip_str : ip -> str) (rs : list rule) (dflt : N) (resolve : str -> option (ip * ip))
         (accepts : N -> reqaddr -> bool) (h : str) (p : N),
  check_allows ip_str rs dflt resolve accepts h p = dial_allows ip_str rs dflt resolve accepts h p.
Proof. exact adapter_same_policy. Qed.
Print Assumptions C08_adapter_same_policy.

(* What that policy is: first match over the rules on the host NAME TOGETHER WITH THE ADDRESSES THE RESOLVER STAGE
   STORED (seen_host), UDP, the destination port; no match = the default outbound with the request untouched. *)
Theorem C08_adapter_check_default :
  forall ip_str rs dflt resolve h p,
  Forall (fun x => rule_match x (norm_host (seen_host resolve h)) ProtocolUDP p = false) rs ->
  adapter_check_udp ip_str rs dflt resolve h p = (dflt, mkReq h p (resolve h)).
Proof. exact adapter_check_default. Qed.
Print Assumptions C08_adapter_check_default.

Theorem C08_adapter_check_first_match :
  forall ip_str rs dflt resolve h p pre r post,
  rs = pre ++ r :: post ->
  Forall (fun x => rule_match x (norm_host (seen_host resolve h)) ProtocolUDP p = false) pre ->
  rule_match r (norm_host (seen_host resolve h)) ProtocolUDP p = true ->
  fst (adapter_check_udp ip_str rs dflt resolve h p) = r_ob r /\
  (r_hijack r = [] -> snd (adapter_check_udp ip_str rs dflt resolve h p) = mkReq h p (resolve h)).
Proof. exact adapter_check_first. Qed.
Print Assumptions C08_adapter_check_first_match.

(* Non-vacuity: reject(10.0.0.0/8); ob1(all) and a name that resolves to 10.1.2.3 - refused by both entry points. *)
Theorem C08_adapter_example_resolved_name_refused :
  fst (adapter_check_udp ip_str_hex ex_rules 1 ex_resolve ex_name 53) = ex_REJECT /\
  fst (adapter_udp ip_str_hex ex_rules 1 ex_resolve ex_name 53) = ex_REJECT.
Proof. exact example_resolved_name_refused. Qed.
Print Assumptions C08_adapter_example_resolved_name_refused.

(* A per-datagram check that evaluates the rules on Host and Port only is NOT the dial-time policy. *)
Theorem C08_adapter_hostport_only_refuted :
  exists rs dflt resolve h p,
    fst (adapter_check_udp_hostport ip_str_hex rs dflt h p) <> fst (adapter_udp ip_str_hex rs dflt resolve h p).
Proof. exact hostport_only_refuted. Qed.
Print Assumptions C08_adapter_hostport_only_refuted.

(* ---- composition with C05: the input hypothesis (wf_input / fwf: "a client datagram never carries the empty address")
   discharged from C05's model of protocol.ParseUDPMessage (C05_Frag.parse).  model/C08_Raw.v: a session is driven by RAW
   datagram bytes; udpIOImpl.ReceiveMessage parses each one and skips (`continue`) what ParseUDPMessage rejects; what it
   accepts goes to udpSessionEntry.Feed.  Addresses are Go strings (list byte), the empty address is "". ---- *)

(* ParseUDPMessage never delivers a message with an empty address: for every byte string. *)
Theorem C08_parsed_address_nonempty : forall b m, C05_Frag.parse b = Ok m -> C05_Frag.addr m <> [].
Proof. exact parse_addr_nonempty. Qed.
Print Assumptions C08_parsed_address_nonempty.

(* Hence, with NO hypothesis on the inputs: for every policy, every hook, every sequence of raw client datagrams (any bytes:
   truncated, zero-length address, over-long address, fragments in any order with any addresses), socket reads and closes,
   with any dial faults, eviction choices and write errors - nothing is ever handed to WriteTo for a destination the policy
   rejects. *)
Theorem C08_raw_denied_never_written :
  forall (P : list byte -> bool) (hook : list byte -> hookres (list byte)) rs fs os x,
  frun (list byte) str_eqb [] P hook None (feed_inputs rs) = (fs, os) -> P x = false ->
  forall o, In o os -> ~ In x (written (list byte) o).
Proof. exact raw_denied_never_written. Qed.
Print Assumptions C08_raw_denied_never_written.

(* ... and after any such history, for the next raw datagram that parses (as message m): the address given to checkAddr is
   the address given to WriteTo, it is the address field of that very datagram, and the policy allows it; a dropped datagram
   was dropped for that same address; an overridden session does not consult CheckUDP; one WriteTo at most. *)
Theorem C08_raw_check_is_write :
  forall (P : list byte -> bool) (hook : list byte -> hookres (list byte)) rs fs os b m fault ev werr fs' o,
  frun (list byte) str_eqb [] P hook None (feed_inputs rs) = (fs, os) -> C05_Frag.parse b = Ok m ->
  fstep (list byte) str_eqb [] P hook fs (FMsg _ (umsg_of m) fault ev werr) = (fs', o) ->
  match fo_out _ o with
  | FWrite _ (Some c) x ok => c = x /\ x = C05_Frag.addr m /\ P x = true /\ ok = negb werr
  | FWrite _ None x ok => P x = true /\ ok = negb werr /\ fo_consulted _ o = false
  | FDrop _ c => c = C05_Frag.addr m /\ P c = false
  | FRep _ _ => False
  | _ => True
  end.
Proof. exact raw_check_is_write. Qed.
Print Assumptions C08_raw_check_is_write.

(* Non-vacuity: "a:53" allowed, "b:53" rejected; between the two a datagram with lAddr = 0 and a truncated one. *)
Theorem C08_raw_example :
  map (fo_out (list byte))
      (snd (frun (list byte) str_eqb [] (fun a => str_eqb a ex_a) (fun _ => HKeep) None (feed_inputs ex_raws)))
  = [ FWrite _ (Some ex_a) ex_a true; FDrop _ ex_b ].
Proof. exact raw_example. Qed.
Print Assumptions C08_raw_example.

(* ---- third layer (model/C08_Fail.v): the policy may FAIL, and the dial-time policy and the per-datagram policy are two
   functions.  Qd a / Qc a : what Outbound.UDP(a) of a fresh session / Outbound.CheckUDP(a) does - PAllow, PDeny, or PFail
   (it panics); the hook may panic too (None); iow is the code between checkAddr and the outbound (udpIOImpl.CheckUDP), which
   for the code is io_result: the answer is passed on, a panic propagates (the Feed is aborted before anything is cached or
   written; out of the dial it leaves the entry wedged: SDead).  The two hypotheses:
     wrapper_safe iow          - the wrapper reports "allowed" only when the outbound said "allowed"  (proved for io_result);
     forall a, Qc a = PAllow -> Qd a = PAllow
                               - CheckUDP never allows what UDP of a fresh session refuses: a hypothesis on the OUTBOUND,
                                 proved below for the ACL pipeline over the leaf outbounds of extras/outbounds and checked on
                                 every run for each real implementation by the harness. ---- *)

Theorem C08_io_wrapper_passes_failure_on : wrapper_safe io_result.
Proof. exact io_result_safe. Qed.
Print Assumptions C08_io_wrapper_passes_failure_on.

(* Only "allowed" answers enter the decision cache as allowed: whatever failed on the way, a destination cached as allowed
   is one for which a fresh session could be dialed. *)
Theorem C08_fail_cache_only_allowed :
  forall (addr : Type) (aeqb : addr -> addr -> bool), (forall a b, aeqb a b = true <-> a = b) ->
  forall (empty : addr) (Qd Qc : addr -> pres) (hook : addr -> option (hookres addr)) (iow : pres -> Res bool),
  wrapper_safe iow -> (forall a, Qc a = PAllow -> Qd a = PAllow) ->
  forall ins st os,
  Forall (wf_input addr empty) ins ->
  run3 addr aeqb empty Qd Qc hook iow (S3 addr None) ins = (st, os) ->
  match st with S3 _ (Some s) => forall a, In (a, true) (s_cache _ s) -> Qd a = PAllow | _ => True end.
Proof. exact fail_cache_only_allowed. Qed.
Print Assumptions C08_fail_cache_only_allowed.

(* A destination on which the policy did not say "allowed" (it rejected it, or it failed) is never written to: not by the
   Feed in which the policy failed, not by any later one. *)
Theorem C08_fail_never_written :
  forall (addr : Type) (aeqb : addr -> addr -> bool), (forall a b, aeqb a b = true <-> a = b) ->
  forall (empty : addr) (Qd Qc : addr -> pres) (hook : addr -> option (hookres addr)) (iow : pres -> Res bool),
  wrapper_safe iow -> (forall a, Qc a = PAllow -> Qd a = PAllow) ->
  forall ins st os x,
  Forall (wf_input addr empty) ins ->
  run3 addr aeqb empty Qd Qc hook iow (S3 addr None) ins = (st, os) ->
  Qd x <> PAllow -> forall o, In o os -> o3_out _ o <> O3 _ (OFwd _ x).
Proof. exact fail_never_written. Qed.
Print Assumptions C08_fail_never_written.

(* A Feed out of which a failure propagates writes nothing (its output is OPanic, not a write) and leaves the entry exactly
   as it was - in particular its cache - or, when the failure left the dial of a fresh entry, wedged.  For every wrapper. *)
Theorem C08_fail_changes_nothing :
  forall (addr : Type) (aeqb : addr -> addr -> bool), (forall a b, aeqb a b = true <-> a = b) ->
  forall (empty : addr) (Qd Qc : addr -> pres) (hook : addr -> option (hookres addr)) (iow : pres -> Res bool) st i st' o,
  step3 addr aeqb empty Qd Qc hook iow st i = (st', o) -> o3_out _ o = OPanic _ ->
  st' = st \/ (st = S3 _ None /\ st' = SDead _).
Proof. exact fail_changes_nothing. Qed.
Print Assumptions C08_fail_changes_nothing.

(* The first layer (every theorem above it) is this layer with one two-valued policy behind both entry points, a hook that
   does not panic and the code's wrapper. *)
Theorem C08_fail_refines :
  forall (addr : Type) (aeqb : addr -> addr -> bool) (empty : addr) (P : addr -> bool) (hook : addr -> hookres addr) ins st,
  run3 addr aeqb empty (fun a => pres_of_bool (P a)) (fun a => pres_of_bool (P a)) (fun a => Some (hook a)) io_result (S3 _ st) ins =
  (S3 _ (fst (run addr aeqb empty P hook st ins)), map (lift_obs _) (snd (run addr aeqb empty P hook st ins))).
Proof. exact run3_refines. Qed.
Print Assumptions C08_fail_refines.

(* Non-vacuity: 1 allowed, 2 the policy fails, 3 rejected; 1, 2, 3, 1, 2: the failing destination is never written, never cached. *)
Theorem C08_example_policy_fails :
  let r := run3 N N.eqb 0%N exq exq (fun _ => Some HKeep) io_result (S3 N None) exq_ins in
  map (o3_out N) (snd r) = [O3 N (OFwd N 1%N); OPanic N; O3 N (ODrop N); O3 N (OFwd N 1%N); OPanic N] /\
  fst r = S3 N (Some (mkSess N 0%N 0%N [(3%N, false); (1%N, true)])).
Proof. exact example_policy_fails. Qed.
Print Assumptions C08_example_policy_fails.

(* The wrapper hypothesis is needed: a CheckUDP wrapper that recovers the outbound's panic into a local error variable while
   its own result is unnamed returns nil; the destination the policy failed on is written to and cached as allowed. *)
Theorem C08_recover_into_local_refuted :
  exists (Q : N -> pres) ins x,
    Q x = PFail /\ Forall (wf_input N 0%N) ins /\
    let r := run3 N N.eqb 0%N Q Q (fun _ => Some HKeep) io_recover_into_local (S3 N None) ins in
    In (O3 N (OFwd N x)) (map (o3_out N) (snd r)) /\
    match fst r with S3 _ (Some s) => In (x, true) (s_cache N s) | _ => False end.
Proof. exact recover_into_local_refuted. Qed.
Print Assumptions C08_recover_into_local_refuted.

(* The outbound hypothesis is needed: with a CheckUDP that allows a destination UDP refuses, that destination is written to
   inside a session opened on another one. *)
Theorem C08_inconsistent_check_refuted :
  exists (Qd Qc : N -> pres) ins x,
    Qd x = PDeny /\ Forall (wf_input N 0%N) ins /\
    In (O3 N (OFwd N x))
       (map (o3_out N) (snd (run3 N N.eqb 0%N Qd Qc (fun _ => Some HKeep) io_result (S3 N None) ins))).
Proof. exact inconsistent_check_refuted. Qed.
Print Assumptions C08_inconsistent_check_refuted.

(* ---- the outbound hypothesis for the compositions of extras/outbounds: resolver -> aclEngine -> leaf, the leaves being
   direct / SOCKS5 / HTTP proxy / reject (leaf_udp, leaf_check: model/C08_Fail.v) under any names and any rule set. ---- *)

(* every leaf implementation, a SOCKS5 proxy that does not grant UDP ASSOCIATE excepted (its UDP() fails for an
   environmental reason while its CheckUDP() has no way to know) *)
Theorem C08_leaves_consistent : forall l, l <> LSocks5 false -> leaf_consistent leaf_check leaf_udp l.
Proof. exact leaf_consistent_real. Qed.
Print Assumptions C08_leaves_consistent.

(* whichever leaf the rules select for a destination: the pipeline's CheckUDP never allows what its UDP refuses *)
Theorem C08_pipeline_check_implies_dial :
  forall (ip_str : ip -> str) (rs : list rule) (dflt : N) (resolve : str -> option (ip * ip)) (leaves : N -> leaf)
         (chk udp : leaf -> bool),
  (forall ob, leaf_consistent chk udp (leaves ob)) ->
  forall h p, pipe_check ip_str rs dflt resolve leaves chk h p = true -> pipe_dial ip_str rs dflt resolve leaves udp h p = true.
Proof. exact pipe_check_implies_dial. Qed.
Print Assumptions C08_pipeline_check_implies_dial.

(* sessions over such a pipeline (split: net.SplitHostPort + parsePortUint16 of the adapter): nothing is written to a
   destination for which a fresh session could not be dialed, whatever leaves the destinations of one session are routed to *)
Theorem C08_pipeline_session_never_written :
  forall (ip_str : ip -> str) (rs : list rule) (dflt : N) (resolve : str -> option (ip * ip)) (leaves : N -> leaf)
         (chk udp : leaf -> bool) (addr : Type) (split : addr -> option (str * N))
         (aeqb : addr -> addr -> bool), (forall a b, aeqb a b = true <-> a = b) ->
  forall (empty : addr) (hook : addr -> option (hookres addr)) ins st os x,
  (forall ob, leaf_consistent chk udp (leaves ob)) ->
  Forall (wf_input addr empty) ins ->
  run3 addr aeqb empty (Qd_pipe ip_str rs dflt resolve leaves udp addr split) (Qc_pipe ip_str rs dflt resolve leaves chk addr split)
       hook io_result (S3 _ None) ins = (st, os) ->
  Qd_pipe ip_str rs dflt resolve leaves udp addr split x <> PAllow -> forall o, In o os -> o3_out _ o <> O3 _ (OFwd _ x).
Proof. exact pipe_session_never_written. Qed.
Print Assumptions C08_pipeline_session_never_written.

(* Non-vacuity: direct(a); default = an HTTP proxy.  A session on a:53, then b:53: dropped. *)
Theorem C08_example_leaf_pipeline :
  map (o3_out N)
      (snd (run3 N N.eqb 0%N (Qd_pipe ip_str_hex exl_rules 2 exl_resolve exl_leaves leaf_udp N exl_split)
                 (Qc_pipe ip_str_hex exl_rules 2 exl_resolve exl_leaves leaf_check N exl_split)
                 (fun _ => Some HKeep) io_result (S3 N None) exl_ins)) =
  [O3 N (OFwd N 1%N); O3 N (ODrop N); O3 N (OFwd N 1%N); O3 N (ODrop N)].
Proof. exact example_leaf_pipeline. Qed.
Print Assumptions C08_example_leaf_pipeline.

(* An HTTP-proxy leaf whose CheckUDP says nil is not consistent: same rules, the pipeline's CheckUDP allows b:53, its UDP
   refuses it, and the session opened on a:53 writes to b:53. *)
Theorem C08_http_check_nil_refuted :
  pipe_check ip_str_hex exl_rules 2 exl_resolve exl_leaves leaf_check_http_nil exl_b 53 = true /\
  pipe_dial ip_str_hex exl_rules 2 exl_resolve exl_leaves leaf_udp exl_b 53 = false /\
  In (O3 N (OFwd N 2%N))
     (map (o3_out N)
          (snd (run3 N N.eqb 0%N (Qd_pipe ip_str_hex exl_rules 2 exl_resolve exl_leaves leaf_udp N exl_split)
                     (Qc_pipe ip_str_hex exl_rules 2 exl_resolve exl_leaves leaf_check_http_nil N exl_split)
                     (fun _ => Some HKeep) io_result (S3 N None) exl_ins))).
Proof. exact http_check_nil_refuted. Qed.
Print Assumptions C08_http_check_nil_refuted.
