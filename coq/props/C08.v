(* C08 - Every UDP datagram's destination passes the outbound policy.
   Property theorems only; every proof is `exact <lemma>` from proof/C08_UDPPolicy.v.
   Quantification: every address type with a decidable equality (destination strings), every policy
   predicate P, every hook function, every sequence of datagrams / socket reads / closes / dial faults,
   every eviction oracle (the `ev` carried by each datagram input).  The only hypothesis on the inputs,
   wf_input, is that a client datagram never carries the empty address (ParseUDPMessage rejects it). *)
(* the C09 names first: where both models use a name (run, step, ...) the session model's wins below *)
From Hy Require Import model.C09_ACL proof.C09_ACL model.C08_Adapter proof.C08_Adapter.
From Hy Require Import model.C08_UDPPolicy proof.C08_UDPPolicy.
From Coq Require Import NArith List.
Import ListNotations.

(* Invariant: whatever was evicted, every cached (destination, verdict) pair is the policy's own verdict. *)
Theorem C08_cache_sound :
  forall (addr : Type) (aeqb : addr -> addr -> bool), (forall a b, aeqb a b = true <-> a = b) ->
  forall (empty : addr) (P : addr -> bool) (hook : addr -> hookres addr) ins st os,
  Forall (wf_input addr empty) ins ->
  run addr aeqb empty P hook None ins = (st, os) ->
  match st with Some s => forall a v, In (a, v) (s_cache _ s) -> v = P a | None => True end.
Proof. exact cache_sound. Qed.
Print Assumptions C08_cache_sound.

(* A destination the policy rejects never receives a datagram, hook or not, whatever the history. *)
Theorem C08_denied_never_receives :
  forall (addr : Type) (aeqb : addr -> addr -> bool), (forall a b, aeqb a b = true <-> a = b) ->
  forall (empty : addr) (P : addr -> bool) (hook : addr -> hookres addr) ins st os x,
  Forall (wf_input addr empty) ins ->
  run addr aeqb empty P hook None ins = (st, os) ->
  P x = false -> forall o, In o os -> o_out _ o <> OFwd _ x.
Proof. exact denied_never_receives. Qed.
Print Assumptions C08_denied_never_receives.

(* The decision cache is transparent: forwarded / dropped / dial-failed / reply outcomes are those of the
   cache-less evaluation that asks the policy for every datagram, for every eviction oracle. *)
Theorem C08_cache_transparent :
  forall (addr : Type) (aeqb : addr -> addr -> bool), (forall a b, aeqb a b = true <-> a = b) ->
  forall (empty : addr) (P : addr -> bool) (hook : addr -> hookres addr) ins st os,
  Forall (wf_input addr empty) ins ->
  run addr aeqb empty P hook None ins = (st, os) ->
  map (o_out _) os = ref_run addr aeqb empty P hook None ins.
Proof. exact cache_transparent. Qed.
Print Assumptions C08_cache_transparent.

(* Without a rewriting hook: datagram to a is written to a iff P a (given that the session's socket could be
   dialed: the first destination is vetted by the dial itself), dropped otherwise; spec_nohook is that table. *)
Theorem C08_forward_only_allowed :
  forall (addr : Type) (aeqb : addr -> addr -> bool), (forall a b, aeqb a b = true <-> a = b) ->
  forall (empty : addr) (P : addr -> bool) (hook : addr -> hookres addr), (forall a, hook a = HKeep) ->
  forall ins st os,
  Forall (wf_input addr empty) ins ->
  run addr aeqb empty P hook None ins = (st, os) ->
  map (o_out _) os = spec_nohook addr P false ins.
Proof. exact forward_only_allowed. Qed.
Print Assumptions C08_forward_only_allowed.

(* The hook rewrote the first destination a to a' (any a', the empty string included): until the session is
   closed every datagram is written to a' whatever its own address, CheckUDP is never consulted, nothing is
   dialed again, and every reply is reported from a. *)
Theorem C08_override :
  forall (addr : Type) (aeqb : addr -> addr -> bool), (forall a b, aeqb a b = true <-> a = b) ->
  forall (empty : addr) (P : addr -> bool) (hook : addr -> hookres addr) a a' ev rest st os,
  hook a = HRewrite a' -> a <> a' -> a <> empty -> P a' = true ->
  forallb (fun i => negb (is_close addr i)) rest = true ->
  run addr aeqb empty P hook None (IDgram _ a false ev :: rest) = (st, os) ->
  map (o_out _) os = map (spec_override addr a a') (IDgram _ a false ev :: rest) /\
  Forall (fun o => o_consulted _ o = false /\ o_evicted _ o = None) os /\
  (forall o, In o (tl os) -> o_dialed _ o = None) /\ (exists o, hd_error os = Some o /\ o_dialed _ o = Some a').
Proof. exact override. Qed.
Print Assumptions C08_override.

(* Non-vacuity: 2 x 300 destinations, the policy denies every third, the cap (256) is exceeded. *)
Theorem C08_example_300 :
  let r := run N N.eqb 0%N ex_P (fun _ => HKeep) None ex_ins in
  map (o_out N) (snd r) = spec_nohook N ex_P false ex_ins /\
  length (filter (fun o => match o_evicted N o with Some _ => true | None => false end) (snd r)) = 89%nat /\
  length (filter (fun o => match o_out N o with ODrop _ => true | _ => false end) (snd r)) = 200%nat.
Proof. exact example_300. Qed.
Print Assumptions C08_example_300.

(* The input hypothesis is needed: with an empty first address in a hooked session the model (like the code)
   seeds the unchecked empty destination. The parser never delivers such a message. *)
Theorem C08_empty_first_address_refuted :
  exists (P : N -> bool) (hook : N -> hookres N) ins x,
    P x = false /\ In (OFwd N x) (map (o_out N) (snd (run N N.eqb 0%N P hook None ins))).
Proof. exact empty_first_address_refuted. Qed.
Print Assumptions C08_empty_first_address_refuted.

(* The tree before the fix bbf8060 (documentation of the finding): with well-formed inputs the old Feed
   forwarded to a destination the policy rejects when the hook rewrote to the empty string. *)
Theorem C08_old_refuted :
  exists (P : N -> bool) (hook : N -> hookres N) ins x,
    Forall (wf_input N 0%N) ins /\ P x = false /\
    In (OFwd N x) (map (o_out N) (snd (run_old N N.eqb 0%N P hook None ins))).
Proof. exact old_refuted. Qed.
Print Assumptions C08_old_refuted.

(* ---- the policy adapter (extras/outbounds): PluggableOutboundAdapter -> resolver stage -> aclEngine -> outbound.
   The hypothesis of the session theorems above - the dial (UDP) vets a destination with the very policy CheckUDP
   applies to the later ones - for this pipeline: both entry points reach the same outbound with the same request
   (host, port and the resolve info the resolver stage stored, rewritten alike by a hijack rule), for every rule set,
   default outbound, resolver and destination; hence the two verdicts are equal for any outbound behaviour. *)
Theorem C08_adapter_check_walks_same_acl :
  forall (ip_str : ip -> str) (rs : list rule) (dflt : N) (resolve : str -> option (ip * ip)) (h : str) (p : N),
  adapter_check_udp ip_str rs dflt resolve h p = adapter_udp ip_str rs dflt resolve h p.
Proof. exact adapter_same_walk. Qed.
Print Assumptions C08_adapter_check_walks_same_acl.

Theorem C08_adapter_same_policy :
  forall (ip_str : ip -> str) (rs : list rule) (dflt : N) (resolve : str -> option (ip * ip))
         (accepts : N -> reqaddr -> bool) (h : str) (p : N),
  check_allows ip_str rs dflt resolve accepts h p = dial_allows ip_str rs dflt resolve accepts h p.
Proof. exact adapter_same_policy. Qed.
Print Assumptions C08_adapter_same_policy.

(* What that policy is: first match over the rules on the host NAME TOGETHER WITH THE ADDRESSES THE RESOLVER STAGE
   STORED (seen_host), UDP, the destination port; no match = the default outbound with the request untouched. *)
Theorem C08_adapter_check_default :
  forall ip_str rs dflt resolve h p,
  Forall (fun x => rule_match x (norm_host (seen_host resolve h)) ProtocolUDP p = false) rs ->
  adapter_check_udp ip_str rs dflt resolve h p = (dflt, mkReq h p (resolve h)).
Proof. exact adapter_check_default. Qed.
Print Assumptions C08_adapter_check_default.

Theorem C08_adapter_check_first_match :
  forall ip_str rs dflt resolve h p pre r post,
  rs = pre ++ r :: post ->
  Forall (fun x => rule_match x (norm_host (seen_host resolve h)) ProtocolUDP p = false) pre ->
  rule_match r (norm_host (seen_host resolve h)) ProtocolUDP p = true ->
  fst (adapter_check_udp ip_str rs dflt resolve h p) = r_ob r /\
  (r_hijack r = [] -> snd (adapter_check_udp ip_str rs dflt resolve h p) = mkReq h p (resolve h)).
Proof. exact adapter_check_first. Qed.
Print Assumptions C08_adapter_check_first_match.

(* Non-vacuity: reject(10.0.0.0/8); ob1(all) and a name that resolves to 10.1.2.3 - refused by both entry points. *)
Theorem C08_adapter_example_resolved_name_refused :
  fst (adapter_check_udp ip_str_hex ex_rules 1 ex_resolve ex_name 53) = ex_REJECT /\
  fst (adapter_udp ip_str_hex ex_rules 1 ex_resolve ex_name 53) = ex_REJECT.
Proof. exact example_resolved_name_refused. Qed.
Print Assumptions C08_adapter_example_resolved_name_refused.

(* A per-datagram check that evaluates the rules on Host and Port only is NOT the dial-time policy. *)
Theorem C08_adapter_hostport_only_refuted :
  exists rs dflt resolve h p,
    fst (adapter_check_udp_hostport ip_str_hex rs dflt h p) <> fst (adapter_udp ip_str_hex rs dflt resolve h p).
Proof. exact hostport_only_refuted. Qed.
Print Assumptions C08_adapter_hostport_only_refuted.
