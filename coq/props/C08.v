(* C08 - Every UDP datagram's destination passes the outbound policy.
   Property theorems only; every proof is `exact <lemma>` from proof/C08_UDPPolicy.v.
   Quantification: every address type with a decidable equality (destination strings), every policy
   predicate P, every hook function, every sequence of datagrams / socket reads / closes / dial faults,
   every eviction oracle (the `ev` carried by each datagram input).  The only hypothesis on the inputs,
   wf_input, is that a client datagram never carries the empty address (ParseUDPMessage rejects it). *)
From Hy Require Import model.C08_UDPPolicy proof.C08_UDPPolicy.
From Coq Require Import NArith List.
Import ListNotations.

(* Invariant: whatever was evicted, every cached (destination, verdict) pair is the policy's own verdict. *)
Theorem C08_cache_sound :
  forall (addr : Type) (aeqb : addr -> addr -> bool), (forall a b, aeqb a b = true <-> a = b) ->
  forall (empty : addr) (P : addr -> bool) (hook : addr -> hookres addr) ins st os,
  Forall (wf_input addr empty) ins ->
  run addr aeqb empty P hook None ins = (st, os) ->
  match st with Some s => forall a v, In (a, v) (s_cache _ s) -> v = P a | None => True end.
Proof. exact cache_sound. Qed.
Print Assumptions C08_cache_sound.

(* A destination the policy rejects never receives a datagram, hook or not, whatever the history. *)
Theorem C08_denied_never_receives :
  forall (addr : Type) (aeqb : addr -> addr -> bool), (forall a b, aeqb a b = true <-> a = b) ->
  forall (empty : addr) (P : addr -> bool) (hook : addr -> hookres addr) ins st os x,
  Forall (wf_input addr empty) ins ->
  run addr aeqb empty P hook None ins = (st, os) ->
  P x = false -> forall o, In o os -> o_out _ o <> OFwd _ x.
Proof. exact denied_never_receives. Qed.
Print Assumptions C08_denied_never_receives.

(* The decision cache is transparent: forwarded / dropped / dial-failed / reply outcomes are those of the
   cache-less evaluation that asks the policy for every datagram, for every eviction oracle. *)
Theorem C08_cache_transparent :
  forall (addr : Type) (aeqb : addr -> addr -> bool), (forall a b, aeqb a b = true <-> a = b) ->
  forall (empty : addr) (P : addr -> bool) (hook : addr -> hookres addr) ins st os,
  Forall (wf_input addr empty) ins ->
  run addr aeqb empty P hook None ins = (st, os) ->
  map (o_out _) os = ref_run addr aeqb empty P hook None ins.
Proof. exact cache_transparent. Qed.
Print Assumptions C08_cache_transparent.

(* Without a rewriting hook: datagram to a is written to a iff P a (given that the session's socket could be
   dialed: the first destination is vetted by the dial itself), dropped otherwise; spec_nohook is that table. *)
Theorem C08_forward_only_allowed :
  forall (addr : Type) (aeqb : addr -> addr -> bool), (forall a b, aeqb a b = true <-> a = b) ->
  forall (empty : addr) (P : addr -> bool) (hook : addr -> hookres addr), (forall a, hook a = HKeep) ->
  forall ins st os,
  Forall (wf_input addr empty) ins ->
  run addr aeqb empty P hook None ins = (st, os) ->
  map (o_out _) os = spec_nohook addr P false ins.
Proof. exact forward_only_allowed. Qed.
Print Assumptions C08_forward_only_allowed.

(* The hook rewrote the first destination a to a' (any a', the empty string included): until the session is
   closed every datagram is written to a' whatever its own address, CheckUDP is never consulted, nothing is
   dialed again, and every reply is reported from a. *)
Theorem C08_override :
  forall (addr : Type) (aeqb : addr -> addr -> bool), (forall a b, aeqb a b = true <-> a = b) ->
  forall (empty : addr) (P : addr -> bool) (hook : addr -> hookres addr) a a' ev rest st os,
  hook a = HRewrite a' -> a <> a' -> a <> empty -> P a' = true ->
  forallb (fun i => negb (is_close addr i)) rest = true ->
  run addr aeqb empty P hook None (IDgram _ a false ev :: rest) = (st, os) ->
  map (o_out _) os = map (spec_override addr a a') (IDgram _ a false ev :: rest) /\
  Forall (fun o => o_consulted _ o = false /\ o_evicted _ o = None) os /\
  (forall o, In o (tl os) -> o_dialed _ o = None) /\ (exists o, hd_error os = Some o /\ o_dialed _ o = Some a').
Proof. exact override. Qed.
Print Assumptions C08_override.

(* Non-vacuity: 2 x 300 destinations, the policy denies every third, the cap (256) is exceeded. *)
Theorem C08_example_300 :
  let r := run N N.eqb 0%N ex_P (fun _ => HKeep) None ex_ins in
  map (o_out N) (snd r) = spec_nohook N ex_P false ex_ins /\
  length (filter (fun o => match o_evicted N o with Some _ => true | None => false end) (snd r)) = 89%nat /\
  length (filter (fun o => match o_out N o with ODrop _ => true | _ => false end) (snd r)) = 200%nat.
Proof. exact example_300. Qed.
Print Assumptions C08_example_300.

(* The input hypothesis is needed: with an empty first address in a hooked session the model (like the code)
   seeds the unchecked empty destination. The parser never delivers such a message. *)
Theorem C08_empty_first_address_refuted :
  exists (P : N -> bool) (hook : N -> hookres N) ins x,
    P x = false /\ In (OFwd N x) (map (o_out N) (snd (run N N.eqb 0%N P hook None ins))).
Proof. exact empty_first_address_refuted. Qed.
Print Assumptions C08_empty_first_address_refuted.

(* The tree before the fix bbf8060 (documentation of the finding): with well-formed inputs the old Feed
   forwarded to a destination the policy rejects when the hook rewrote to the empty string. *)
Theorem C08_old_refuted :
  exists (P : N -> bool) (hook : N -> hookres N) ins x,
    Forall (wf_input N 0%N) ins /\ P x = false /\
    In (OFwd N x) (map (o_out N) (snd (run_old N N.eqb 0%N P hook None ins))).
Proof. exact old_refuted. Qed.
Print Assumptions C08_old_refuted.
