(* C09 - ACL decisions are first-match and independent of lookup history.
   Property theorems only; every proof is `exact <lemma>` from proof/C09_ACL.v. *)
From Hy Require Import model.C09_ACL proof.C09_ACL model.C09_Conc proof.C09_Conc.
From Coq Require Import ZArith.
Local Open Scope N_scope.

(* First match: for every rule list and query, either some rule matches and the answer is the outbound
   and hijack address of the FIRST such rule in list (= file) order, or no rule matches and the answer is
   the zero outbound with a nil hijack address (the engine then uses the default outbound). *)
Theorem C09_first_match : forall rs q,
  let h := norm_host (q_host q) in
  (exists pre r post,
      rs = pre ++ r :: post /\
      Forall (fun x => rule_match x h (q_proto q) (q_port q) = false) pre /\
      rule_match r h (q_proto q) (q_port q) = true /\
      fresh rs q = (Some (r_ob r), r_hijack r))
  \/ (Forall (fun x => rule_match x h (q_proto q) (q_port q) = false) rs /\ fresh rs q = (None, [])).
Proof. exact fresh_spec. Qed.
Print Assumptions C09_first_match.

(* A rule matches exactly when its protocol is "both" or the queried one, the port lies in the
   inclusive range [start, end] (always tested) and its address pattern matches. *)
Theorem C09_rule_match : forall r h p port,
  rule_match r h p port = true <->
  (r_proto r = ProtocolBoth \/ r_proto r = p) /\ (r_sp r <= port /\ port <= r_ep r) /\ matcher_spec (r_m r) h.
Proof. exact rule_match_full. Qed.
Print Assumptions C09_rule_match.

(* Meaning of the address patterns: all; exact name; suffix = the domain or anything ending in
   "." ++ domain (dot boundary); wildcard = '*' stands for any run of bytes, dots included;
   IP = same address with 4-byte and v4-mapped forms identified, in either resolved slot. *)
Theorem C09_matchers : forall m h, matcher_match m h = true <-> matcher_spec m h.
Proof. exact matcher_match_spec. Qed.
Print Assumptions C09_matchers.

Theorem C09_suffix_boundary : forall p n,
  suffix_match p n = true <-> n = p \/ exists pre, n = pre ++ "."%byte :: p.
Proof. exact suffix_match_spec. Qed.
Print Assumptions C09_suffix_boundary.

Theorem C09_wildcard : forall p s, deep_match p s = true <-> wmatch p s.
Proof. exact deep_match_spec. Qed.
Print Assumptions C09_wildcard.

(* Host names compare without regard to letter case or trailing dots, in queries and in patterns. *)
Theorem C09_normalization : forall rs n n' v4 v6 p port k k',
  to_lower n = to_lower n' ->
  fresh rs (mkQuery (mkHost (n ++ repeat "."%byte k) v4 v6) p port) =
  fresh rs (mkQuery (mkHost (n' ++ repeat "."%byte k') v4 v6) p port).
Proof. exact normalization. Qed.
Print Assumptions C09_normalization.

Theorem C09_pattern_normalization : forall a a' k k',
  to_lower a = to_lower a' ->
  compile_host_matcher (a ++ repeat "."%byte k) = compile_host_matcher (a' ++ repeat "."%byte k').
Proof. exact pattern_normalization. Qed.
Print Assumptions C09_pattern_normalization.

(* Compile keeps file order: the i-th compiled rule is the compilation of the i-th text rule. *)
Theorem C09_compile_order : forall obs ts csize rs,
  compile obs ts csize = Ok rs -> Forall2 (fun t r => compile_rule obs t = Ok r) ts rs.
Proof. exact compile_order. Qed.
Print Assumptions C09_compile_order.

(* Cache key: whatever net.IP.String does, as long as it never prints '|' and prints two addresses
   alike only when they agree after To4 normalisation, two queries with the same key
   (name|v4|v6, protocol, port) have the same fresh evaluation under every rule list. *)
Theorem C09_key_injective : forall (ip_str : ip -> str),
  (forall a, ~ In "|"%byte (ip_str a)) ->
  (forall a b, ip_str a = ip_str b -> canon a = canon b) ->
  forall rs q1 q2, mk_key ip_str q1 = mk_key ip_str q2 -> fresh rs q1 = fresh rs q2.
Proof. exact key_injective. Qed.
Print Assumptions C09_key_injective.

(* Decision caching is invisible: for every rule list, every history of queries (any length, any
   repeats) and EVERY eviction behaviour of the cache (any oracle: LRU of any capacity, random, purge
   at any time), each answer equals the fresh first-match evaluation of that query. *)
Theorem C09_cache_invisible : forall (ip_str : ip -> str),
  (forall a, ~ In "|"%byte (ip_str a)) ->
  (forall a b, ip_str a = ip_str b -> canon a = canon b) ->
  forall (pol : nat -> cache -> list key) rs qs,
  run ip_str pol rs qs = map (fresh rs) qs.
Proof. exact cache_invisible. Qed.
Print Assumptions C09_cache_invisible.

(* The same for concurrent callers: along EVERY interleaving of the atomic cache sections (Get, Add
   after a miss) of any number of lookups, with evictions anywhere, every value a Get returns is the
   fresh evaluation of the query it was asked for (a caller whose Get misses returns its own scan). *)
Theorem C09_cache_invisible_concurrent : forall (ip_str : ip -> str),
  (forall a, ~ In "|"%byte (ip_str a)) ->
  (forall a b, ip_str a = ip_str b -> canon a = canon b) ->
  forall rs (os : list (cop)),
  Forall (fun x => snd x = fresh rs (fst x)) (cop_hits ip_str rs [] os).
Proof. exact cache_invisible_concurrent. Qed.
Print Assumptions C09_cache_invisible_concurrent.

(* Whole concurrent calls, not only their cache hits: callers enter Match at any time, each performs its
   two atomic cache sections (Get; after a miss and the scan of the immutable rule slice, Add of the
   FINAL scan result) in program order, interleaved in any way with the sections of the other callers
   and with evictions of any kind.  Every caller that has returned has returned the fresh first-match
   evaluation of its own query - whether or not another lookup of the same key was in progress.
   (A variant of the code that Adds an entry before it is final is not an instance of this step
   relation; the correspondence check runs this LTS on observed overlapping schedules and rejects it.) *)
Theorem C09_concurrent_lookups : forall (ip_str : ip -> str),
  (forall a, ~ In "|"%byte (ip_str a)) ->
  (forall a b, ip_str a = ip_str b -> canon a = canon b) ->
  forall (pol : cache -> list key) rs (es : list cev) q r,
  In (Some (q, r)) (answers (snd (conc_run ip_str pol rs es))) -> r = fresh rs q.
Proof. exact conc_answers_fresh. Qed.
Print Assumptions C09_concurrent_lookups.

(* Every accepted proto/port text yields one of the three protocols and a range 0 <= start <= end <= 65535. *)
Theorem C09_protoport_wf : forall s p a b,
  parse_proto_port s = Some (p, a, b) ->
  (p = ProtocolBoth \/ p = ProtocolTCP \/ p = ProtocolUDP) /\ a <= b /\ b <= 65535.
Proof. exact parse_proto_port_wf. Qed.
Print Assumptions C09_protoport_wf.

(* The two hypotheses on the rendering are satisfiable. *)
Theorem C09_rendering_exists :
  (forall a, ~ In "|"%byte (ip_str_hex a)) /\ (forall a b, ip_str_hex a = ip_str_hex b -> canon a = canon b).
Proof. exact (conj ip_str_hex_nobar ip_str_hex_inj). Qed.
Print Assumptions C09_rendering_exists.

(* The engine: no matching rule = default outbound, request untouched; otherwise the first matching
   rule's outbound, and the request is rewritten exactly when that rule has a hijack address
   (IPv4 slot for an address with a 4-byte form, IPv6 slot otherwise). *)
Theorem C09_engine_default : forall rs d a p,
  Forall (fun x => rule_match x (norm_host (req_host a)) p (ra_port a) = false) rs ->
  engine_handle rs d a p = (d, RwNone).
Proof. exact engine_default. Qed.
Print Assumptions C09_engine_default.

Theorem C09_engine_first : forall rs d a p pre r post,
  rs = pre ++ r :: post ->
  Forall (fun x => rule_match x (norm_host (req_host a)) p (ra_port a) = false) pre ->
  rule_match r (norm_host (req_host a)) p (ra_port a) = true ->
  engine_handle rs d a p =
    (r_ob r,
     match r_hijack r with
     | [] => RwNone
     | _ => match to4 (r_hijack r) with
            | Some x => RwHijack (r_hijack r) x []
            | None => RwHijack (r_hijack r) [] (r_hijack r)
            end
     end).
Proof. exact engine_first. Qed.
Print Assumptions C09_engine_first.

(* The predicate before the repair (start port 0 = "any port") is refuted: tcp/0-100 matched port 443. *)
Theorem C09_port_any_old_refuted :
  exists r h, parse_proto_port [x74;x63;x70;x2f;x30;x2d;x31;x30;x30] = Some (r_proto r, r_sp r, r_ep r) /\
              rule_match_old r h ProtocolTCP 443 = true /\ rule_match r h ProtocolTCP 443 = false.
Proof. exact port_any_old_refuted. Qed.
Print Assumptions C09_port_any_old_refuted.
