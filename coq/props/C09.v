(* C09 - ACL decisions are first-match and independent of lookup history.
   Property theorems only; every proof is `exact <lemma>` from proof/C09_ACL.v, C09_Conc.v, C09_IPString.v,
   C09_CIDR.v, C09_Text.v.  The first block speaks about rule records and an abstract address rendering; the
   blocks after it about the modelled net.IP.String, the bit-level meaning of CIDR rules and rule FILES (text). *)
From Hy Require Import model.C09_ACL proof.C09_ACL model.C09_Conc proof.C09_Conc.
From Hy Require Import model.C09_IPString proof.C09_IPString proof.C09_CIDR model.C09_Text proof.C09_Text.
From Hy Require Import model.C09_Engine proof.C09_Engine.
From Coq Require Import ZArith Sorting.Sorted.
Local Open Scope N_scope.

(* First match: for every rule list and query, either some rule matches and the answer is the outbound
   and hijack address of the FIRST such rule in list (= file) order, or no rule matches and the answer is
   the zero outbound with a nil hijack address (the engine then uses the default outbound). *)
Theorem C09_first_match : forall rs q,
  let h := norm_host (q_host q) in
  (exists pre r post,
      rs = pre ++ r :: post /\
      Forall (fun x => rule_match x h (q_proto q) (q_port q) = false) pre /\
      rule_match r h (q_proto q) (q_port q) = true /\
      fresh rs q = (Some (r_ob r), r_hijack r))
  \/ (Forall (fun x => rule_match x h (q_proto q) (q_port q) = false) rs /\ fresh rs q = (None, [])).
Proof. exact fresh_spec. Qed.
Print Assumptions C09_first_match.

(* A rule matches exactly when its protocol is "both" or the queried one, the port lies in the
   inclusive range [start, end] (always tested) and its address pattern matches. *)
Theorem C09_rule_match : forall r h p port,
  rule_match r h p port = true <->
  (r_proto r = ProtocolBoth \/ r_proto r = p) /\ (r_sp r <= port /\ port <= r_ep r) /\ matcher_spec (r_m r) h.
Proof. exact rule_match_full. Qed.
Print Assumptions C09_rule_match.

(* Meaning of the address patterns: all; exact name; suffix = the domain or anything ending in
   "." ++ domain (dot boundary); wildcard = '*' stands for any run of bytes, dots included;
   IP = same address with 4-byte and v4-mapped forms identified, in either resolved slot. *)
Theorem C09_matchers : forall m h, matcher_match m h = true <-> matcher_spec m h.
Proof. exact matcher_match_spec. Qed.
Print Assumptions C09_matchers.

Theorem C09_suffix_boundary : forall p n,
  suffix_match p n = true <-> n = p \/ exists pre, n = pre ++ "."%byte :: p.
Proof. exact suffix_match_spec. Qed.
Print Assumptions C09_suffix_boundary.

Theorem C09_wildcard : forall p s, deep_match p s = true <-> wmatch p s.
Proof. exact deep_match_spec. Qed.
Print Assumptions C09_wildcard.

(* Host names compare without regard to letter case or trailing dots, in queries and in patterns. *)
Theorem C09_normalization : forall rs n n' v4 v6 p port k k',
  to_lower n = to_lower n' ->
  fresh rs (mkQuery (mkHost (n ++ repeat "."%byte k) v4 v6) p port) =
  fresh rs (mkQuery (mkHost (n' ++ repeat "."%byte k') v4 v6) p port).
Proof. exact normalization. Qed.
Print Assumptions C09_normalization.

Theorem C09_pattern_normalization : forall a a' k k',
  to_lower a = to_lower a' ->
  compile_host_matcher (a ++ repeat "."%byte k) = compile_host_matcher (a' ++ repeat "."%byte k').
Proof. exact pattern_normalization. Qed.
Print Assumptions C09_pattern_normalization.

(* Compile keeps file order: the i-th compiled rule is the compilation of the i-th text rule. *)
Theorem C09_compile_order : forall obs ts csize rs,
  compile obs ts csize = Ok rs -> Forall2 (fun t r => compile_rule obs t = Ok r) ts rs.
Proof. exact compile_order. Qed.
Print Assumptions C09_compile_order.

(* Cache key: whatever net.IP.String does, as long as it never prints '|' and prints two addresses
   alike only when they agree after To4 normalisation, two queries with the same key
   (name|v4|v6, protocol, port) have the same fresh evaluation under every rule list. *)
Theorem C09_key_injective : forall (ip_str : ip -> str),
  (forall a, ~ In "|"%byte (ip_str a)) ->
  (forall a b, ip_str a = ip_str b -> canon a = canon b) ->
  forall rs q1 q2, mk_key ip_str q1 = mk_key ip_str q2 -> fresh rs q1 = fresh rs q2.
Proof. exact key_injective. Qed.
Print Assumptions C09_key_injective.

(* Decision caching is invisible: for every rule list, every history of queries (any length, any
   repeats) and EVERY eviction behaviour of the cache (any oracle: LRU of any capacity, random, purge
   at any time), each answer equals the fresh first-match evaluation of that query. *)
Theorem C09_cache_invisible : forall (ip_str : ip -> str),
  (forall a, ~ In "|"%byte (ip_str a)) ->
  (forall a b, ip_str a = ip_str b -> canon a = canon b) ->
  forall (pol : nat -> cache -> list key) rs qs,
  run ip_str pol rs qs = map (fresh rs) qs.
Proof. exact cache_invisible. Qed.
Print Assumptions C09_cache_invisible.

(* The same for concurrent callers: along EVERY interleaving of the atomic cache sections (Get, Add
   after a miss) of any number of lookups, with evictions anywhere, every value a Get returns is the
   fresh evaluation of the query it was asked for (a caller whose Get misses returns its own scan). *)
Theorem C09_cache_invisible_concurrent : forall (ip_str : ip -> str),
  (forall a, ~ In "|"%byte (ip_str a)) ->
  (forall a b, ip_str a = ip_str b -> canon a = canon b) ->
  forall rs (os : list (cop)),
  Forall (fun x => snd x = fresh rs (fst x)) (cop_hits ip_str rs [] os).
Proof. exact cache_invisible_concurrent. Qed.
Print Assumptions C09_cache_invisible_concurrent.

(* Whole concurrent calls, not only their cache hits: callers enter Match at any time, each performs its
   two atomic cache sections (Get; after a miss and the scan of the immutable rule slice, Add of the
   FINAL scan result) in program order, interleaved in any way with the sections of the other callers
   and with evictions of any kind.  Every caller that has returned has returned the fresh first-match
   evaluation of its own query - whether or not another lookup of the same key was in progress.
   (A variant of the code that Adds an entry before it is final is not an instance of this step
   relation; the correspondence check runs this LTS on observed overlapping schedules and rejects it.) *)
Theorem C09_concurrent_lookups : forall (ip_str : ip -> str),
  (forall a, ~ In "|"%byte (ip_str a)) ->
  (forall a b, ip_str a = ip_str b -> canon a = canon b) ->
  forall (pol : cache -> list key) rs (es : list cev) q r,
  In (Some (q, r)) (answers (snd (conc_run ip_str pol rs es))) -> r = fresh rs q.
Proof. exact conc_answers_fresh. Qed.
Print Assumptions C09_concurrent_lookups.

(* Every accepted proto/port text yields one of the three protocols and a range 0 <= start <= end <= 65535. *)
Theorem C09_protoport_wf : forall s p a b,
  parse_proto_port s = Some (p, a, b) ->
  (p = ProtocolBoth \/ p = ProtocolTCP \/ p = ProtocolUDP) /\ a <= b /\ b <= 65535.
Proof. exact parse_proto_port_wf. Qed.
Print Assumptions C09_protoport_wf.

(* The two hypotheses on the rendering are satisfiable. *)
Theorem C09_rendering_exists :
  (forall a, ~ In "|"%byte (ip_str_hex a)) /\ (forall a b, ip_str_hex a = ip_str_hex b -> canon a = canon b).
Proof. exact (conj ip_str_hex_nobar ip_str_hex_inj). Qed.
Print Assumptions C09_rendering_exists.

(* The engine: no matching rule = default outbound, request untouched; otherwise the first matching
   rule's outbound, and the request is rewritten exactly when that rule has a hijack address
   (IPv4 slot for an address with a 4-byte form, IPv6 slot otherwise). *)
Theorem C09_engine_default : forall rs d a p,
  Forall (fun x => rule_match x (norm_host (req_host a)) p (ra_port a) = false) rs ->
  engine_handle rs d a p = (d, RwNone).
Proof. exact engine_default. Qed.
Print Assumptions C09_engine_default.

Theorem C09_engine_first : forall rs d a p pre r post,
  rs = pre ++ r :: post ->
  Forall (fun x => rule_match x (norm_host (req_host a)) p (ra_port a) = false) pre ->
  rule_match r (norm_host (req_host a)) p (ra_port a) = true ->
  engine_handle rs d a p =
    (r_ob r,
     match r_hijack r with
     | [] => RwNone
     | _ => match to4 (r_hijack r) with
            | Some x => RwHijack (r_hijack r) x []
            | None => RwHijack (r_hijack r) [] (r_hijack r)
            end
     end).
Proof. exact engine_first. Qed.
Print Assumptions C09_engine_first.

(* The engine entry points on a request as a resolver hands it over - AddrEx{Host, Port, ResolveInfo{IPv4, IPv6, Err}}, where
   an error may come TOGETHER with addresses (one family resolved, the other lookup failed): TCP looks up ProtocolTCP, UDP and
   CheckUDP ProtocolUDP, on exactly (Host, ResolveInfo.IPv4, ResolveInfo.IPv6).  The error is never read: *)
Theorem C09_engine_lookup : forall ip_str rs d a op,
  engine_call ip_str rs d a op =
  let dec := handle_result d (fresh rs (mkQuery (reqx_host a) (op_proto op) (rx_port a))) in
  (fst dec, op, reqx_after ip_str a (snd dec)).
Proof. exact enginex_lookup. Qed.
Print Assumptions C09_engine_lookup.

(* requests that differ only in the error get the same outbound, the same method and the same rewrite, namely those of the
   error-free request of C09_engine_first; the outbound sees the caller's request (error included) unless a hijack address
   replaces Host and ResolveInfo (then without error); no addresses + error = no ResolveInfo. *)
Theorem C09_engine_error_irrelevant : forall ip_str rs d n port v4 v6 e e' op,
  let c := engine_call ip_str rs d (mkReqX n port (Some (mkRI v4 v6 e))) op in
  let c' := engine_call ip_str rs d (mkReqX n port (Some (mkRI v4 v6 e'))) op in
  fst c = fst c' /\
  engine_handle rs d (reqx_forget (mkReqX n port (Some (mkRI v4 v6 e)))) (op_proto op) =
  engine_handle rs d (mkReq n port (Some (v4, v6))) (op_proto op) /\
  (snd c = mkReqX n port (Some (mkRI v4 v6 e)) /\ snd c' = mkReqX n port (Some (mkRI v4 v6 e')) \/
   snd c = snd c' /\ exists h a b, rx_ri (snd c) = Some (mkRI a b false) /\ rx_host (snd c) = ip_str h).
Proof. exact enginex_err_irrelevant. Qed.
Print Assumptions C09_engine_error_irrelevant.

Theorem C09_engine_no_addresses : forall rs d n port e op,
  engine_handle rs d (reqx_forget (mkReqX n port (Some (mkRI [] [] e)))) (op_proto op) =
  engine_handle rs d (reqx_forget (mkReqX n port None)) (op_proto op).
Proof. exact enginex_nil_ri. Qed.
Print Assumptions C09_engine_no_addresses.

(* first match at the entry points: the outbound of the first rule matching (name, IPv4, IPv6, protocol of the entry point,
   port) receives the call, with the request untouched or rewritten to that rule's hijack address; no rule = default outbound. *)
Theorem C09_engine_call_first : forall ip_str rs d a op pre r post,
  rs = pre ++ r :: post ->
  Forall (fun x => rule_match x (norm_host (reqx_host a)) (op_proto op) (rx_port a) = false) pre ->
  rule_match r (norm_host (reqx_host a)) (op_proto op) (rx_port a) = true ->
  engine_call ip_str rs d a op =
    (r_ob r, op,
     match r_hijack r with
     | [] => a
     | _ => match to4 (r_hijack r) with
            | Some x => mkReqX (ip_str (r_hijack r)) (rx_port a) (Some (mkRI x [] false))
            | None => mkReqX (ip_str (r_hijack r)) (rx_port a) (Some (mkRI [] (r_hijack r) false))
            end
     end).
Proof. exact enginex_first. Qed.
Print Assumptions C09_engine_call_first.

Theorem C09_engine_call_default : forall ip_str rs d a op,
  Forall (fun x => rule_match x (norm_host (reqx_host a)) (op_proto op) (rx_port a) = false) rs ->
  engine_call ip_str rs d a op = (d, op, a).
Proof. exact enginex_default. Qed.
Print Assumptions C09_engine_call_default.

(* The predicate before the repair (start port 0 = "any port") is refuted: tcp/0-100 matched port 443. *)
Theorem C09_port_any_old_refuted :
  exists r h, parse_proto_port [x74;x63;x70;x2f;x30;x2d;x31;x30;x30] = Some (r_proto r, r_sp r, r_ep r) /\
              rule_match_old r h ProtocolTCP 443 = true /\ rule_match r h ProtocolTCP 443 = false.
Proof. exact port_any_old_refuted. Qed.
Print Assumptions C09_port_any_old_refuted.

(* ================= net.IP.String: the rendering inside the cache key, modelled and its two properties proved ================= *)

(* The modelled rendering ("<nil>", "?" ++ hex, dotted decimal, RFC 5952 text) never contains '|'. *)
Theorem C09_ip_string_nobar : forall a, ~ In "|"%byte (ip_string a).
Proof. exact ip_string_nobar. Qed.
Print Assumptions C09_ip_string_nobar.

(* It determines the address up to To4 normalisation: a decoder recovers canon a from the text, for byte
   strings of EVERY length (nil, 4, 16, anything else). *)
Theorem C09_ip_string_decodes : forall a, ip_unstring (ip_string a) = canon a.
Proof. exact ip_unstring_string. Qed.
Print Assumptions C09_ip_string_decodes.

Theorem C09_ip_string_injective : forall a b, ip_string a = ip_string b -> canon a = canon b.
Proof. exact ip_string_inj. Qed.
Print Assumptions C09_ip_string_injective.

(* "::" stands for the leftmost longest run of at least two zero groups; no such run, no compression. *)
Theorem C09_ip_string_zero_run : forall g,
  match best_run g 0 None with
  | Some (bs, be) =>
      (2 <= be - bs)%nat /\ zero_range g bs be /\
      (forall s e, zero_range g s e -> (e - s <= be - bs)%nat) /\
      (forall s e, (s < bs)%nat -> zero_range g s e -> (e - s < be - bs)%nat)
  | None => forall s e, zero_range g s e -> (e - s < 2)%nat
  end.
Proof. exact best_run_spec. Qed.
Print Assumptions C09_ip_string_zero_run.

(* The cache theorems for the modelled rendering: no hypothesis left. *)
Theorem C09_key_injective_rendered : forall rs q1 q2,
  mk_key ip_string q1 = mk_key ip_string q2 -> fresh rs q1 = fresh rs q2.
Proof. exact (key_injective ip_string ip_string_nobar ip_string_inj). Qed.
Print Assumptions C09_key_injective_rendered.

Theorem C09_cache_invisible_rendered : forall (pol : nat -> cache -> list key) rs qs,
  run ip_string pol rs qs = map (fresh rs) qs.
Proof. exact (cache_invisible ip_string ip_string_nobar ip_string_inj). Qed.
Print Assumptions C09_cache_invisible_rendered.

Theorem C09_cache_invisible_concurrent_rendered : forall rs (os : list cop),
  Forall (fun x => snd x = fresh rs (fst x)) (cop_hits ip_string rs [] os).
Proof. exact (cache_invisible_concurrent ip_string ip_string_nobar ip_string_inj). Qed.
Print Assumptions C09_cache_invisible_concurrent_rendered.

Theorem C09_concurrent_lookups_rendered : forall (pol : cache -> list key) rs (es : list cev) q r,
  In (Some (q, r)) (answers (snd (conc_run ip_string pol rs es))) -> r = fresh rs q.
Proof. exact (conc_answers_fresh ip_string ip_string_nobar ip_string_inj). Qed.
Print Assumptions C09_concurrent_lookups_rendered.

(* ================= CIDR rules: the declarative reading ================= *)

(* IPv4 network a.b.c.d/n: an address slot x matches iff it has a 4-byte form (4 bytes, or 16 bytes v4-mapped) whose
   first n bits are the first n bits of a.b.c.d. *)
Theorem C09_cidr_v4 : forall a n x, length a = 4%nat -> n <= 32 ->
  ipnet_contains (ip_mask (v4in6_prefix ++ a) (cidr_mask n 32)) (cidr_mask n 32) x = true <-> in_net4 a n x.
Proof. exact cidr_v4. Qed.
Print Assumptions C09_cidr_v4.

(* IPv6 network a/n: x matches iff it is 16 bytes, NOT v4-mapped, and agrees with a on the first n bits; except that
   a v4-mapped network text with n >= 96 is the IPv4 network of its last four bytes with prefix n - 96. *)
Theorem C09_cidr_v6 : forall a n x, length a = 16%nat -> n <= 128 ->
  ipnet_contains (ip_mask a (cidr_mask n 128)) (cidr_mask n 128) x = true <->
  if (96 <=? n) && is_mapped a then in_net4 (skipn 12 a) (n - 96) x else in_net6 a n x.
Proof. exact cidr_v6. Qed.
Print Assumptions C09_cidr_v6.

(* n = 0: the whole family (and nothing of the other); n = 32 / 128: exactly that address; bits of the written
   network address beyond the prefix are irrelevant. *)
Theorem C09_cidr_edges : forall a x,
  (in_net4 a 0 x <-> exists y, to4 x = Some y) /\
  (in_net6 a 0 x <-> length x = 16%nat /\ to4 x = None) /\
  (length a = 4%nat -> (in_net4 a 32 x <-> to4 x = Some a)) /\
  (length a = 16%nat -> (in_net6 a 128 x <-> x = a /\ to4 a = None)) /\
  (forall n a', prefix_eq n a a' -> (in_net4 a n x <-> in_net4 a' n x) /\ (in_net6 a n x <-> in_net6 a' n x)).
Proof. exact cidr_edges. Qed.
Print Assumptions C09_cidr_edges.

(* The text level: a rule address that compiles to a CIDR matcher is "addr/n" with addr an IP text and n a decimal
   number not above the address size, and the matcher means the above. *)
Theorem C09_cidr_rule : forall addr nip mk,
  compile_host_matcher addr = Ok (MCIDR nip mk) ->
  exists ta tn r n,
    cut "/"%byte (norm_name addr) = Some (ta, tn) /\ parse_addr ta = Some r /\ parse_dec tn = Some n /\
    ((fst r = true /\ n <= 32 /\ length (snd r) = 4%nat /\
      forall x, ipnet_contains nip mk x = true <-> in_net4 (snd r) n x)
     \/
     (fst r = false /\ n <= 128 /\ length (snd r) = 16%nat /\
      forall x, ipnet_contains nip mk x = true <->
                if (96 <=? n) && is_mapped (snd r) then in_net4 (skipn 12 (snd r)) (n - 96) x else in_net6 (snd r) n x)).
Proof. exact cidr_rule. Qed.
Print Assumptions C09_cidr_rule.

(* n above the address size: no matcher (Compile fails, the file is rejected). *)
Theorem C09_cidr_too_long : forall s ta tn r n,
  cut "/"%byte s = Some (ta, tn) -> parse_addr ta = Some r -> parse_dec tn = Some n ->
  (if fst r then 32 else 128) < n -> parse_cidr s = None.
Proof. exact parse_cidr_too_long. Qed.
Print Assumptions C09_cidr_too_long.

(* ================= rule FILES: ParseTextRules ================= *)

(* The hand-written line parser accepts exactly the language of
   ^(\w+)\s*\(([^,]+)(?:,([^,]+))?(?:,([^,]+))?\)$ and returns the same submatches (trimmed). *)
Theorem C09_line_grammar : forall l t, parse_line l = Some t <-> line_lang l t.
Proof. exact parse_line_lang. Qed.
Print Assumptions C09_line_grammar.

Theorem C09_line_rejects : forall l, parse_line l = None <-> ~ exists t, line_lang l t.
Proof. exact parse_line_rejects. Qed.
Print Assumptions C09_line_rejects.

(* Every record the parser returns has a word as outbound and comma-free, trimmed fields; printing it canonically
   and parsing the print returns it. *)
Theorem C09_line_round_trip : forall l t, parse_line l = Some t -> wf_trule t /\ parse_line (print_rule t) = Some t.
Proof. exact line_round_trip_wf. Qed.
Print Assumptions C09_line_round_trip.

Theorem C09_print_parse : forall t, wf_trule t -> parse_line (print_rule t) = Some t.
Proof. exact print_parse. Qed.
Print Assumptions C09_print_parse.

(* Comments: everything from the first '#' is ignored; a line of white space and/or a comment is blank; a blank
   line can be removed or inserted anywhere without changing the rules or their order. *)
Theorem C09_comments_and_blanks :
  (forall l c, has_byte hash l = false -> clean_line (l ++ hash :: c) = clean_line l) /\
  (forall sp c, forallb is_space sp = true -> clean_line (sp ++ hash :: c) = [] /\ clean_line sp = []) /\
  (forall pre l post b, nonempty (clean_line l) = false ->
     rules_only (parse_lines (pre ++ l :: post) b) = rules_only (parse_lines (pre ++ post) b)).
Proof. exact (conj comment_ignored (conj comment_line_blank blank_line_ignored)). Qed.
Print Assumptions C09_comments_and_blanks.

(* ParseTextRules returns exactly the rule lines, in increasing line order, when every line is blank or a rule ... *)
Theorem C09_file_rules : forall text lrs, parse_text text = PRules lrs ->
  (forall n t, In (n, t) lrs <-> file_rule text n t) /\ StronglySorted lnum_lt lrs /\
  Forall line_ok (split_on newline text).
Proof. exact file_rules. Qed.
Print Assumptions C09_file_rules.

(* ... and otherwise the number and the cleaned text of the FIRST offending line. *)
Theorem C09_file_error : forall text n c, parse_text text = PSyntax n c ->
  exists i l, n = (1 + i)%nat /\ nth_error (split_on newline text) i = Some l /\ c = clean_line l /\ nonempty c = true /\
              parse_line c = None /\ Forall line_ok (firstn i (split_on newline text)).
Proof. exact file_error. Qed.
Print Assumptions C09_file_error.

Theorem C09_file_total : forall text, Forall line_ok (split_on newline text) -> exists lrs, parse_text text = PRules lrs.
Proof. exact file_total. Qed.
Print Assumptions C09_file_total.

Theorem C09_file_round_trip : forall text lrs, parse_text text = PRules lrs ->
  parse_text (print_file (map snd lrs)) = PRules (combine (seq 1 (length lrs)) (map snd lrs)).
Proof. exact file_round_trip. Qed.
Print Assumptions C09_file_round_trip.

(* Compile (ParseTextRules text) keeps file order. *)
Theorem C09_file_order : forall obs text csize rs, compile_text obs text csize = Ok rs ->
  exists lrs, parse_text text = PRules lrs /\
              (forall n t, In (n, t) lrs <-> file_rule text n t) /\ StronglySorted lnum_lt lrs /\
              Forall2 (fun lt r => compile_rule obs (snd lt) = Ok r) lrs rs.
Proof. exact compile_text_order. Qed.
Print Assumptions C09_file_order.

(* First match on the TEXT of a rule file: the answer is the outbound and hijack address of the rule on the
   smallest-numbered line whose compiled rule matches the (normalised) query; no such line, no decision. *)
Theorem C09_file_first_match : forall obs text csize rs q,
  compile_text obs text csize = Ok rs ->
  let h := norm_host (q_host q) in
  (exists n t r,
      file_rule text n t /\ compile_rule obs t = Ok r /\ rule_match r h (q_proto q) (q_port q) = true /\
      (forall n' t' r', (n' < n)%nat -> file_rule text n' t' -> compile_rule obs t' = Ok r' ->
                        rule_match r' h (q_proto q) (q_port q) = false) /\
      fresh rs q = (Some (r_ob r), r_hijack r))
  \/ ((forall n t r, file_rule text n t -> compile_rule obs t = Ok r -> rule_match r h (q_proto q) (q_port q) = false) /\
      fresh rs q = (None, [])).
Proof. exact file_first_match. Qed.
Print Assumptions C09_file_first_match.

(* One bad line rejects the whole file. *)
Theorem C09_file_rejects : forall obs text csize,
  (exists n l, nth_error (split_on newline text) n = Some l /\ ~ line_ok l) -> compile_text obs text csize = Err EInvalid.
Proof. exact compile_text_rejects. Qed.
Print Assumptions C09_file_rejects.
