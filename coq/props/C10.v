(* C10 - Negotiated send rate never exceeds either side's declared limit.
   Property theorems only; every proof is `exact <lemma>` from proof/C10_Negotiate.v.
   server_decide / client_decide / server_auth / client_connect / handshake are the transcriptions of
   ServeHTTP's authentication branch, clientImpl.connect and the header codec (model/C10_Negotiate.v);
   spec_server / spec_client are written from PROTOCOL.md (lattice Unknown / Fin / Unlimited / Auto). *)
From Hy Require Import model.C10_Negotiate proof.C10_Negotiate model.C10_Reuse proof.C10_Reuse.
From Coq Require Import ZArith.
Local Open Scope N_scope.

(* Clause 1 (server as sender): for every configuration and every declared client rate, the branch
   structure of ServeHTTP computes min(own send limit, client's receive limit) with the server's 0 =
   unlimited, the client's 0 = unknown, ignore-client-bandwidth = no fixed rate. *)
Theorem C10_server_spec : forall c clientRx, fst (server_decide c clientRx) = spec_server c clientRx.
Proof. exact server_spec. Qed.
Print Assumptions C10_server_spec.

(* Clause 1 (client as sender): connect() computes min(own send limit, server's receive limit) with
   the client's 0 = unknown, the server's 0 = unlimited, "auto" = no fixed rate. *)
Theorem C10_client_spec : forall c resp, fst (client_decide c resp) = spec_client c resp.
Proof. exact client_spec. Qed.
Print Assumptions C10_client_spec.

(* A fixed rate is positive, never above the sender's own limit (when it has one) and never above
   the peer's declared limit (when it declared one); it is one of the two. *)
Theorem C10_never_exceeds_server : forall c clientRx r,
  fst (server_decide c clientRx) = Brutal r ->
  s_ignore c = false /\ 0 < r /\ 0 < clientRx /\ r <= clientRx /\
  (0 < s_max_tx c -> r <= s_max_tx c) /\ (r = clientRx \/ r = s_max_tx c).
Proof. exact server_never_exceeds. Qed.
Print Assumptions C10_never_exceeds_server.

Theorem C10_never_exceeds_client : forall c resp r,
  fst (client_decide c resp) = Brutal r ->
  r_auto resp = false /\ 0 < r /\ 0 < c_max_tx c /\ r <= c_max_tx c /\
  (0 < r_rx resp -> r <= r_rx resp) /\ (r = c_max_tx c \/ r = r_rx resp).
Proof. exact client_never_exceeds. Qed.
Print Assumptions C10_never_exceeds_client.

(* Clause 2: the configured congestion controller runs exactly when the client declared 0 / the
   server ignores client bandwidth (server side), the server answered "auto" / the client has no
   send limit of its own (client side). *)
Theorem C10_falls_back_server : forall c clientRx,
  fst (server_decide c clientRx) = Configured <-> (s_ignore c = true \/ clientRx = 0).
Proof. exact server_falls_back. Qed.
Print Assumptions C10_falls_back_server.

Theorem C10_falls_back_client : forall c resp,
  fst (client_decide c resp) = Configured <-> (r_auto resp = true \/ c_max_tx c = 0).
Proof. exact client_falls_back. Qed.
Print Assumptions C10_falls_back_client.

(* Clause 3, server: for every request header (any byte strings, any number of values): the tx given
   to EventLogger.Connect is the decided rate (0 iff configured controller), the installed
   controller is the decided one, and if the decided rate is below 2^63 the Brutal sender is
   constructed with exactly the reported rate. *)
Theorem C10_reported_is_enforced_server : forall c vals,
  let so := server_auth c vals in
  so_connect_tx so = reported (so_decision so) /\
  so_installed so = install (so_decision so) (s_type c) /\
  ((forall r, so_decision so = Brutal r -> r < 9223372036854775808) ->
   enforced_as_reported (so_decision so) (s_type c) (so_installed so) (so_connect_tx so)).
Proof. exact server_reported_is_enforced. Qed.
Print Assumptions C10_reported_is_enforced_server.

(* Clause 3, client: HandshakeInfo.Tx, for every response header. *)
Theorem C10_reported_is_enforced_client : forall c vals,
  let co := client_connect c vals in
  co_info_tx co = reported (co_decision co) /\
  co_installed co = install (co_decision co) (c_type c) /\
  ((forall r, co_decision co = Brutal r -> r < 9223372036854775808) ->
   enforced_as_reported (co_decision co) (c_type c) (co_installed co) (co_info_tx co)).
Proof. exact client_reported_is_enforced. Qed.
Print Assumptions C10_reported_is_enforced_client.

(* Whatever a client sends (missing, non-numeric, overflowing header included), a server with
   0 < MaxTx < 2^63 that installs Brutal enforces a rate in (0, MaxTx], equal to the reported one. *)
Theorem C10_server_enforced_bounded : forall c vals b,
  0 < s_max_tx c -> s_max_tx c < 9223372036854775808 ->
  so_installed (server_auth c vals) = IBrutal b ->
  (0 < b <= Z.of_N (s_max_tx c))%Z /\ Z.of_N (so_connect_tx (server_auth c vals)) = b.
Proof. exact server_enforced_bounded. Qed.
Print Assumptions C10_server_enforced_bounded.

(* Same for a client with MaxTx < 2^63 against any response header. *)
Theorem C10_client_enforced_bounded : forall c vals b,
  c_max_tx c < 9223372036854775808 ->
  co_installed (client_connect c vals) = IBrutal b ->
  (0 < b <= Z.of_N (c_max_tx c))%Z /\ Z.of_N (co_info_tx (client_connect c vals)) = b.
Proof. exact client_enforced_bounded. Qed.
Print Assumptions C10_client_enforced_bounded.

(* FINDING (fingerprint "negotiated-rate>=2^63"): without the 2^63 bound clause 3 is false of the
   code.  A server without MaxTx that receives Hysteria-CC-RX: 18446744073709551615 reports
   tx = 2^64-1 and installs a Brutal sender whose ByteCount rate is -1. *)
Theorem C10_reported_is_enforced_refuted_above_2p63 :
  exists (c : server_cfg) (vals : list (list byte)) (r : N) (b : Z),
    server_cfg_ok c = true /\ s_ignore c = false /\
    so_decision (server_auth c vals) = Brutal r /\
    so_connect_tx (server_auth c vals) = r /\
    so_installed (server_auth c vals) = IBrutal b /\
    (b < 0)%Z /\ Z.of_N r <> b.
Proof. exact reported_is_enforced_refuted. Qed.
Print Assumptions C10_reported_is_enforced_refuted_above_2p63.

(* ... and 2^63 is the exact threshold: a decided rate is installed unchanged iff it is < 2^63. *)
Theorem C10_enforced_iff_below_2p63 : forall r, r <= MaxU64 ->
  (install (Brutal r) TBbr = IBrutal (Z.of_N r) <-> r < 9223372036854775808).
Proof. exact brutal_above_2p63. Qed.
Print Assumptions C10_enforced_iff_below_2p63.

(* Header codec: what one side encodes the other decodes, for every uint64, "auto" included. *)
Theorem C10_header_roundtrip : forall n auto, n <= MaxU64 ->
  req_from_header (req_to_header n) = n /\
  resp_from_header (resp_to_header (mkResp n auto)) = mkResp (if auto then 0 else n) auto.
Proof. exact header_roundtrip. Qed.
Print Assumptions C10_header_roundtrip.

(* Decoding of arbitrary header values (strconv.ParseUint with the error dropped):
   missing or empty = 0; a decimal numeral saturates at 2^64-1; anything with a non-digit is 0,
   unless the digits before the first non-digit already overflowed (then 2^64-1). *)
Theorem C10_header_decode :
  (req_from_header [] = 0 /\ req_from_header [[]] = 0 /\
   resp_from_header [] = mkResp 0 false /\ resp_from_header [[]] = mkResp 0 false) /\
  (forall s, s <> [] -> forallb is_digit s = true -> parse_rx s = N.min (dval s) MaxU64) /\
  (forall pre c t, forallb is_digit pre = true -> is_digit c = false ->
     parse_rx (pre ++ c :: t) = if MaxU64 <? dval pre then MaxU64 else 0) /\
  (forall s, parse_rx s <= MaxU64).
Proof. exact header_decode. Qed.
Print Assumptions C10_header_decode.

(* Both sides together, through the real header encoding: for every pair of configurations the
   authenticator sees the client's declaration, each side's decision is the specification applied
   to the *configured* numbers of the peer, and what is reported is what was decided/installed. *)
Theorem C10_handshake_spec : forall s c,
  c_max_rx c <= MaxU64 -> s_max_rx s <= MaxU64 ->
  let '(so, co) := handshake s c in
  so_auth_tx so = c_max_rx c /\
  so_decision so = spec_server s (c_max_rx c) /\
  co_decision co = spec_client c (mkResp (s_max_rx s) (s_ignore s)) /\
  so_connect_tx so = reported (so_decision so) /\
  co_info_tx co = reported (co_decision co) /\
  so_installed so = install (so_decision so) (s_type s) /\
  co_installed co = install (co_decision co) (c_type c).
Proof. exact handshake_spec. Qed.
Print Assumptions C10_handshake_spec.

(* ---- one connection, several auth requests (h3sHandler is per connection, requests are serialised by authMutex) ----

   A POST /auth on an already authenticated connection is answered with the same 233 response and changes NOTHING:
   not the authenticated flag, not the controller installed on the connection, no new Connect event, no new call of
   the Authenticator - whatever Hysteria-CC-RX it carries and whatever the Authenticator would say to it. *)
Theorem C10_reauth_does_not_renegotiate : forall c st rq,
  cs_auth st = true ->
  serve_auth c st rq = (st, R233 (mkResp (s_max_rx c) (s_ignore c))).
Proof. exact reauth_does_not_renegotiate. Qed.
Print Assumptions C10_reauth_does_not_renegotiate.

(* For every history of auth requests on a fresh connection (any number rejected by the Authenticator, then the first
   accepted one, then any further requests): the connection ends authenticated, the controller on it is the one
   negotiated by the FIRST accepted request, exactly one Connect event was logged, with that request's rate, the
   Authenticator was consulted for the rejected requests and the accepted one only, and every later request saw the
   same response with the controller unchanged after it. *)
Theorem C10_first_accepted_auth_decides : forall c pre vals post,
  Forall (fun r : auth_req => snd r = false) pre ->
  let r := serve_run c conn_init (pre ++ (vals, true) :: post) in
  let so := server_auth c vals in
  cs_auth (fst r) = true /\
  cs_installed (fst r) = so_installed so /\
  cs_connects (fst r) = [so_connect_tx so] /\
  cs_authcalls (fst r) = map (fun r : auth_req => req_from_header (fst r)) pre ++ [so_auth_tx so] /\
  snd r = map (fun _ => (RMasq, IDefault)) pre ++
          (R233 (so_resp so), so_installed so) ::
          map (fun _ => (R233 (so_resp so), so_installed so)) post.
Proof. exact first_accepted_auth_decides. Qed.
Print Assumptions C10_first_accepted_auth_decides.

(* Clause 3 for the connection: after any such history the single reported rate is the enforced one (below 2^63). *)
Theorem C10_connection_reported_is_enforced : forall c pre vals post,
  Forall (fun r : auth_req => snd r = false) pre ->
  let st := fst (serve_run c conn_init (pre ++ (vals, true) :: post)) in
  let so := server_auth c vals in
  (forall r, so_decision so = Brutal r -> r < 9223372036854775808) ->
  exists tx, cs_connects st = [tx] /\ enforced_as_reported (so_decision so) (s_type c) (cs_installed st) tx.
Proof. exact connection_reported_is_enforced. Qed.
Print Assumptions C10_connection_reported_is_enforced.

(* Non-vacuity: 1000000, then 50000000, then 0 on one connection of a server without a send limit. *)
Theorem C10_reauth_example :
  let c := mkSrv false 0 0 TBbr in
  let r := serve_run c conn_init [([[x31;x30;x30;x30;x30;x30;x30]], true); ([[x35;x30;x30;x30;x30;x30;x30;x30]], true); ([[x30]], true)] in
  cs_connects (fst r) = [1000000] /\ cs_installed (fst r) = IBrutal 1000000 /\
  map snd (snd r) = [IBrutal 1000000; IBrutal 1000000; IBrutal 1000000].
Proof. exact reauth_example. Qed.
Print Assumptions C10_reauth_example.

(* One client Config object, several handshakes (NewClient keeps the pointer; a reconnecting client may be handed
   the same object every time): client_seq threads the object through the sequence.  Every handshake of the
   sequence is the one a FRESH Config holding the caller's current limits would make - same outcome, same declared
   receive rate - and it leaves the object's limits exactly as the caller set them (new_client only reads them;
   the correspondence check compares the real object's bandwidth fields after every real NewClient). *)
Theorem C10_reused_config_is_fresh : forall steps c,
  client_seq c steps =
  map (fun p : client_cfg * seq_step =>
         (fst p, client_connect (fst p) (snd (snd p)), req_to_header (c_max_rx (fst p))))
      (combine (cfg_in_force c steps) steps).
Proof. exact client_seq_fresh. Qed.
Print Assumptions C10_reused_config_is_fresh.

(* ... in particular without caller writes: whatever the earlier handshakes were answered ("auto", numbers, 0,
   junk, in any order), the handshake answered vals decides what the specification says for the ORIGINAL limits
   and THIS answer, and the object still holds the original limits afterwards. *)
Theorem C10_reused_config_history_independent : forall c pre vals post,
  Forall (fun s : seq_step => fst s = None) (pre ++ (None, vals) :: post) ->
  nth_error (client_seq c (pre ++ (None, vals) :: post)) (length pre) =
    Some (c, client_connect c vals, req_to_header (c_max_rx c)) /\
  co_decision (client_connect c vals) = spec_client c (resp_from_header vals).
Proof. exact reused_config_history_independent. Qed.
Print Assumptions C10_reused_config_history_independent.
