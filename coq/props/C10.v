(* C10 - Negotiated send rate never exceeds either side's declared limit.
   Property theorems only; every proof is `exact <lemma>` from proof/C10_Negotiate.v.
   server_decide / client_decide / server_auth / client_connect / handshake are the transcriptions of
   ServeHTTP's authentication branch, clientImpl.connect and the header codec (model/C10_Negotiate.v);
   spec_server / spec_client are written from PROTOCOL.md (lattice Unknown / Fin / Unlimited / Auto). *)
From Hy Require Import model.C10_Negotiate proof.C10_Negotiate model.C10_Reuse proof.C10_Reuse.
From Hy Require Import model.C11_Pacer model.C11_Brutal proof.C11_Pacer model.C10_Wire proof.C10_Wire.
From Coq Require Import ZArith.
Local Open Scope N_scope.

(* Clause 1 (server as sender): for every configuration and every declared client rate, the branch
   structure of ServeHTTP computes min(own send limit, client's receive limit) with the server's 0 =
   unlimited, the client's 0 = unknown, ignore-client-bandwidth = no fixed rate. *)
Theorem C10_server_spec : forall c clientRx, fst (server_decide c clientRx) = spec_server c clientRx.
Proof. exact server_spec. Qed.
Print Assumptions C10_server_spec.

(* Clause 1 (client as sender): connect() computes min(own send limit, server's receive limit) with
   the client's 0 = unknown, the server's 0 = unlimited, "auto" = no fixed rate. *)
Theorem C10_client_spec : forall c resp, fst (client_decide c resp) = spec_client c resp.
Proof. exact client_spec. Qed.
Print Assumptions C10_client_spec.

(* A fixed rate is positive, never above the sender's own limit (when it has one) and never above
   the peer's declared limit (when it declared one); it is one of the two. *)
Theorem C10_never_exceeds_server : forall c clientRx r,
  fst (server_decide c clientRx) = Brutal r ->
  s_ignore c = false /\ 0 < r /\ 0 < clientRx /\ r <= clientRx /\
  (0 < s_max_tx c -> r <= s_max_tx c) /\ (r = clientRx \/ r = s_max_tx c).
Proof. exact server_never_exceeds. Qed.
Print Assumptions C10_never_exceeds_server.

Theorem C10_never_exceeds_client : forall c resp r,
  fst (client_decide c resp) = Brutal r ->
  r_auto resp = false /\ 0 < r /\ 0 < c_max_tx c /\ r <= c_max_tx c /\
  (0 < r_rx resp -> r <= r_rx resp) /\ (r = c_max_tx c \/ r = r_rx resp).
Proof. exact client_never_exceeds. Qed.
Print Assumptions C10_never_exceeds_client.

(* Clause 2: the configured congestion controller runs exactly when the client declared 0 / the
   server ignores client bandwidth (server side), the server answered "auto" / the client has no
   send limit of its own (client side). *)
Theorem C10_falls_back_server : forall c clientRx,
  fst (server_decide c clientRx) = Configured <-> (s_ignore c = true \/ clientRx = 0).
Proof. exact server_falls_back. Qed.
Print Assumptions C10_falls_back_server.

Theorem C10_falls_back_client : forall c resp,
  fst (client_decide c resp) = Configured <-> (r_auto resp = true \/ c_max_tx c = 0).
Proof. exact client_falls_back. Qed.
Print Assumptions C10_falls_back_client.

(* Clause 3, server: for every request header (any byte strings, any number of values): the tx given
   to EventLogger.Connect is the decided rate (0 iff configured controller), the installed
   controller is the decided one, and if the decided rate is below 2^63 the Brutal sender is
   constructed with exactly the reported rate. *)
Theorem C10_reported_is_enforced_server : forall c vals,
  let so := server_auth c vals in
  so_connect_tx so = reported (so_decision so) /\
  so_installed so = install (so_decision so) (s_type c) /\
  ((forall r, so_decision so = Brutal r -> r < 9223372036854775808) ->
   enforced_as_reported (so_decision so) (s_type c) (so_installed so) (so_connect_tx so)).
Proof. exact server_reported_is_enforced. Qed.
Print Assumptions C10_reported_is_enforced_server.

(* Clause 3, client: HandshakeInfo.Tx, for every response header. *)
Theorem C10_reported_is_enforced_client : forall c vals,
  let co := client_connect c vals in
  co_info_tx co = reported (co_decision co) /\
  co_installed co = install (co_decision co) (c_type c) /\
  ((forall r, co_decision co = Brutal r -> r < 9223372036854775808) ->
   enforced_as_reported (co_decision co) (c_type c) (co_installed co) (co_info_tx co)).
Proof. exact client_reported_is_enforced. Qed.
Print Assumptions C10_reported_is_enforced_client.

(* Whatever a client sends (missing, non-numeric, overflowing header included), a server with
   0 < MaxTx < 2^63 that installs Brutal enforces a rate in (0, MaxTx], equal to the reported one. *)
Theorem C10_server_enforced_bounded : forall c vals b,
  0 < s_max_tx c -> s_max_tx c < 9223372036854775808 ->
  so_installed (server_auth c vals) = IBrutal b ->
  (0 < b <= Z.of_N (s_max_tx c))%Z /\ Z.of_N (so_connect_tx (server_auth c vals)) = b.
Proof. exact server_enforced_bounded. Qed.
Print Assumptions C10_server_enforced_bounded.

(* Same for a client with MaxTx < 2^63 against any response header. *)
Theorem C10_client_enforced_bounded : forall c vals b,
  c_max_tx c < 9223372036854775808 ->
  co_installed (client_connect c vals) = IBrutal b ->
  (0 < b <= Z.of_N (c_max_tx c))%Z /\ Z.of_N (co_info_tx (client_connect c vals)) = b.
Proof. exact client_enforced_bounded. Qed.
Print Assumptions C10_client_enforced_bounded.

(* FINDING (fingerprint "negotiated-rate>=2^63"): without the 2^63 bound clause 3 is false of the
   code.  A server without MaxTx that receives Hysteria-CC-RX: 18446744073709551615 reports
   tx = 2^64-1 and installs a Brutal sender whose ByteCount rate is -1. *)
Theorem C10_reported_is_enforced_refuted_above_2p63 :
  exists (c : server_cfg) (vals : list (list byte)) (r : N) (b : Z),
    server_cfg_ok c = true /\ s_ignore c = false /\
    so_decision (server_auth c vals) = Brutal r /\
    so_connect_tx (server_auth c vals) = r /\
    so_installed (server_auth c vals) = IBrutal b /\
    (b < 0)%Z /\ Z.of_N r <> b.
Proof. exact reported_is_enforced_refuted. Qed.
Print Assumptions C10_reported_is_enforced_refuted_above_2p63.

(* ... and 2^63 is the exact threshold: a decided rate is installed unchanged iff it is < 2^63. *)
Theorem C10_enforced_iff_below_2p63 : forall r, r <= MaxU64 ->
  (install (Brutal r) TBbr = IBrutal (Z.of_N r) <-> r < 9223372036854775808).
Proof. exact brutal_above_2p63. Qed.
Print Assumptions C10_enforced_iff_below_2p63.

(* Header codec: what one side encodes the other decodes, for every uint64, "auto" included. *)
Theorem C10_header_roundtrip : forall n auto, n <= MaxU64 ->
  req_from_header (req_to_header n) = n /\
  resp_from_header (resp_to_header (mkResp n auto)) = mkResp (if auto then 0 else n) auto.
Proof. exact header_roundtrip. Qed.
Print Assumptions C10_header_roundtrip.

(* Decoding of arbitrary header values (strconv.ParseUint with the error dropped):
   missing or empty = 0; a decimal numeral saturates at 2^64-1; anything with a non-digit is 0,
   unless the digits before the first non-digit already overflowed (then 2^64-1). *)
Theorem C10_header_decode :
  (req_from_header [] = 0 /\ req_from_header [[]] = 0 /\
   resp_from_header [] = mkResp 0 false /\ resp_from_header [[]] = mkResp 0 false) /\
  (forall s, s <> [] -> forallb is_digit s = true -> parse_rx s = N.min (dval s) MaxU64) /\
  (forall pre c t, forallb is_digit pre = true -> is_digit c = false ->
     parse_rx (pre ++ c :: t) = if MaxU64 <? dval pre then MaxU64 else 0) /\
  (forall s, parse_rx s <= MaxU64).
Proof. exact header_decode. Qed.
Print Assumptions C10_header_decode.

(* Both sides together, through the real header encoding: for every pair of configurations the
   authenticator sees the client's declaration, each side's decision is the specification applied
   to the *configured* numbers of the peer, and what is reported is what was decided/installed. *)
Theorem C10_handshake_spec : forall s c,
  c_max_rx c <= MaxU64 -> s_max_rx s <= MaxU64 ->
  let '(so, co) := handshake s c in
  so_auth_tx so = c_max_rx c /\
  so_decision so = spec_server s (c_max_rx c) /\
  co_decision co = spec_client c (mkResp (s_max_rx s) (s_ignore s)) /\
  so_connect_tx so = reported (so_decision so) /\
  co_info_tx co = reported (co_decision co) /\
  so_installed so = install (so_decision so) (s_type s) /\
  co_installed co = install (co_decision co) (c_type c).
Proof. exact handshake_spec. Qed.
Print Assumptions C10_handshake_spec.

(* ---- one connection, several auth requests (h3sHandler is per connection, requests are serialised by authMutex) ----

   A POST /auth on an already authenticated connection is answered with the same 233 response and changes NOTHING:
   not the authenticated flag, not the controller installed on the connection, no new Connect event, no new call of
   the Authenticator - whatever Hysteria-CC-RX it carries and whatever the Authenticator would say to it. *)
Theorem C10_reauth_does_not_renegotiate : forall c st rq,
  cs_auth st = true ->
  serve_auth c st rq = (st, R233 (mkResp (s_max_rx c) (s_ignore c))).
Proof. exact reauth_does_not_renegotiate. Qed.
Print Assumptions C10_reauth_does_not_renegotiate.

(* For every history of auth requests on a fresh connection (any number rejected by the Authenticator, then the first
   accepted one, then any further requests): the connection ends authenticated, the controller on it is the one
   negotiated by the FIRST accepted request, exactly one Connect event was logged, with that request's rate, the
   Authenticator was consulted for the rejected requests and the accepted one only, and every later request saw the
   same response with the controller unchanged after it. *)
Theorem C10_first_accepted_auth_decides : forall c pre vals post,
  Forall (fun r : auth_req => snd r = false) pre ->
  let r := serve_run c conn_init (pre ++ (vals, true) :: post) in
  let so := server_auth c vals in
  cs_auth (fst r) = true /\
  cs_installed (fst r) = so_installed so /\
  cs_connects (fst r) = [so_connect_tx so] /\
  cs_authcalls (fst r) = map (fun r : auth_req => req_from_header (fst r)) pre ++ [so_auth_tx so] /\
  snd r = map (fun _ => (RMasq, IDefault)) pre ++
          (R233 (so_resp so), so_installed so) ::
          map (fun _ => (R233 (so_resp so), so_installed so)) post.
Proof. exact first_accepted_auth_decides. Qed.
Print Assumptions C10_first_accepted_auth_decides.

(* Clause 3 for the connection: after any such history the single reported rate is the enforced one (below 2^63). *)
Theorem C10_connection_reported_is_enforced : forall c pre vals post,
  Forall (fun r : auth_req => snd r = false) pre ->
  let st := fst (serve_run c conn_init (pre ++ (vals, true) :: post)) in
  let so := server_auth c vals in
  (forall r, so_decision so = Brutal r -> r < 9223372036854775808) ->
  exists tx, cs_connects st = [tx] /\ enforced_as_reported (so_decision so) (s_type c) (cs_installed st) tx.
Proof. exact connection_reported_is_enforced. Qed.
Print Assumptions C10_connection_reported_is_enforced.

(* Non-vacuity: 1000000, then 50000000, then 0 on one connection of a server without a send limit. *)
Theorem C10_reauth_example :
  let c := mkSrv false 0 0 TBbr in
  let r := serve_run c conn_init [([[x31;x30;x30;x30;x30;x30;x30]], true); ([[x35;x30;x30;x30;x30;x30;x30;x30]], true); ([[x30]], true)] in
  cs_connects (fst r) = [1000000] /\ cs_installed (fst r) = IBrutal 1000000 /\
  map snd (snd r) = [IBrutal 1000000; IBrutal 1000000; IBrutal 1000000].
Proof. exact reauth_example. Qed.
Print Assumptions C10_reauth_example.

(* One client Config object, several handshakes (NewClient keeps the pointer; a reconnecting client may be handed
   the same object every time): client_seq threads the object through the sequence.  Every handshake of the
   sequence is the one a FRESH Config holding the caller's current limits would make - same outcome, same declared
   receive rate - and it leaves the object's limits exactly as the caller set them (new_client only reads them;
   the correspondence check compares the real object's bandwidth fields after every real NewClient). *)
Theorem C10_reused_config_is_fresh : forall steps c,
  client_seq c steps =
  map (fun p : client_cfg * seq_step =>
         (fst p, client_connect (fst p) (snd (snd p)), req_to_header (c_max_rx (fst p))))
      (combine (cfg_in_force c steps) steps).
Proof. exact client_seq_fresh. Qed.
Print Assumptions C10_reused_config_is_fresh.

(* ... in particular without caller writes: whatever the earlier handshakes were answered ("auto", numbers, 0,
   junk, in any order), the handshake answered vals decides what the specification says for the ORIGINAL limits
   and THIS answer, and the object still holds the original limits afterwards. *)
Theorem C10_reused_config_history_independent : forall c pre vals post,
  Forall (fun s : seq_step => fst s = None) (pre ++ (None, vals) :: post) ->
  nth_error (client_seq c (pre ++ (None, vals) :: post)) (length pre) =
    Some (c, client_connect c vals, req_to_header (c_max_rx c)) /\
  co_decision (client_connect c vals) = spec_client c (resp_from_header vals).
Proof. exact reused_config_history_independent. Qed.
Print Assumptions C10_reused_config_history_independent.

(* ---------- composition with C11: "the rate reported to the application is the rate actually enforced ON THE WIRE" ----------
   Clause 3 above stops at "the installed Brutal sender was constructed with the reported rate".  model/C10_Wire.v joins it
   to C11's sender and pacer models: sender_of i dis = the BrutalSender object UseBrutal installs (brutal.NewBrutalSender(tx,
   BandwidthConfig.DisableLossCompensation) = C11's brutal_init), and C11's theorems (C11_sender_bandwidth_bound,
   C11_rate_upper_bound, C11_sender_drives_pacer, C11_wakeup_suffices, C11_rearm_progress) are applied to THAT object.
   comp_rate r = floor(5r/4) = r / 0.8.  Units: bytes, nanoseconds (monotime).

   Hypotheses of C11 that REMAIN (all others are discharged), for the sends of the interval, stated on the sender
   (wire_first / wire_ok, model/C10_Wire.v) and on its call history (hist_ok, model/C11_Brutal.v):
     * r < 2^50 B/s (float64(bps) exact, C11's range) and 4 ms x r/0.8 < 2^63 (the burst term; holds up to 1.8 TB/s:
       C10_wire_burst_range);
     * datagram sizes in [0, M], M <= 2^32;
     * send times are monotime values (0 < t < 2^63) that do not go backwards, and (r/0.8) x gap < 2^63 between
       consecutive sends (the FIRST send of the interval is exempt from both);
     * a paced packet is sent only when the pacer's budget covers it (quic-go asks HasPacingBudget first);
     * ack/loss batch times are non-negative int64, do not go backwards, fewer than 2^64 packets reported in total. *)

(* The seam, server: for EVERY request header, a decision Brutal r with r < 2^50 reports r to EventLogger.Connect and
   installs exactly C11's initial sender for r; r is positive, at most the client's declaration and at most the
   server's own limit when it has one. *)
Theorem C10_installed_sender_server : forall c vals r dis,
  so_decision (server_auth c vals) = Brutal r -> r < 2 ^ 50 ->
  so_connect_tx (server_auth c vals) = r /\
  sender_of (so_installed (server_auth c vals)) dis = Some (brutal_init (Z.of_N r) dis) /\
  0 < r /\ r <= req_from_header vals /\ (0 < s_max_tx c -> r <= s_max_tx c).
Proof. exact server_wire. Qed.
Print Assumptions C10_installed_sender_server.

(* The seam, client (HandshakeInfo.Tx), for EVERY response header. *)
Theorem C10_installed_sender_client : forall c vals r dis,
  co_decision (client_connect c vals) = Brutal r -> r < 2 ^ 50 ->
  co_info_tx (client_connect c vals) = r /\
  sender_of (co_installed (client_connect c vals)) dis = Some (brutal_init (Z.of_N r) dis) /\
  0 < r /\ r <= c_max_tx c /\
  (0 < r_rx (resp_from_header vals) -> r <= r_rx (resp_from_header vals)).
Proof. exact client_wire. Qed.
Print Assumptions C10_installed_sender_client.

(* Wire-level rate bound, server: for every configuration, every request header whose decision is Brutal r (r < 2^50),
   every loss-compensation setting, every call history pre ++ OSent t0 sz0 :: mid of the installed sender (any ack/loss
   batches, datagram-size changes and idle time in between) satisfying the remaining hypotheses: the bytes released
   from the send at t0 to the last send of mid are at most
       burst_bound + (REPORTED rate / 0.8) x interval / 10^9,
   with the rate EventLogger.Connect was given; hence at most the same expression with the client's declared limit,
   and with the server's own limit when it has one (so: min(own, declared)/0.8 per second plus a burst). *)
Theorem C10_wire_rate_bound_server : forall c vals r dis b0 M pre t0 sz0 mid,
  so_decision (server_auth c vals) = Brutal r -> r < 2 ^ 50 ->
  sender_of (so_installed (server_auth c vals)) dis = Some b0 ->
  let rep := so_connect_tx (server_auth c vals) in
  (maxBurstPacingDelayMultiplier * MinPacingDelay_ns * comp_rate rep < two63)%Z -> (0 <= M <= mds_limit)%Z ->
  hist_ok 0 0 (pre ++ OSent t0 sz0 :: mid) ->
  wire_first M (brun b0 pre) t0 sz0 -> wire_ok (comp_rate rep) M (on_sent (brun b0 pre) t0 sz0) mid ->
  let dt := (last_sent mid t0 - t0)%Z in
  let bound (L : N) := (burst_bound (comp_rate L) M + comp_rate L * dt / ns_per_s)%Z in
  (0 <= dt)%Z /\
  (sent_bytes (OSent t0 sz0 :: mid) <= bound rep)%Z /\
  (sent_bytes (OSent t0 sz0 :: mid) <= bound (req_from_header vals))%Z /\
  (0 < s_max_tx c -> (sent_bytes (OSent t0 sz0 :: mid) <= bound (s_max_tx c))%Z).
Proof. exact server_wire_bound. Qed.
Print Assumptions C10_wire_rate_bound_server.

(* Wire-level rate bound, client: the same with HandshakeInfo.Tx, the client's own limit and the server's declared one. *)
Theorem C10_wire_rate_bound_client : forall c vals r dis b0 M pre t0 sz0 mid,
  co_decision (client_connect c vals) = Brutal r -> r < 2 ^ 50 ->
  sender_of (co_installed (client_connect c vals)) dis = Some b0 ->
  let rep := co_info_tx (client_connect c vals) in
  (maxBurstPacingDelayMultiplier * MinPacingDelay_ns * comp_rate rep < two63)%Z -> (0 <= M <= mds_limit)%Z ->
  hist_ok 0 0 (pre ++ OSent t0 sz0 :: mid) ->
  wire_first M (brun b0 pre) t0 sz0 -> wire_ok (comp_rate rep) M (on_sent (brun b0 pre) t0 sz0) mid ->
  let dt := (last_sent mid t0 - t0)%Z in
  let bound (L : N) := (burst_bound (comp_rate L) M + comp_rate L * dt / ns_per_s)%Z in
  (0 <= dt)%Z /\
  (sent_bytes (OSent t0 sz0 :: mid) <= bound rep)%Z /\
  (sent_bytes (OSent t0 sz0 :: mid) <= bound (c_max_tx c))%Z /\
  (0 < r_rx (resp_from_header vals) ->
   (sent_bytes (OSent t0 sz0 :: mid) <= bound (r_rx (resp_from_header vals)))%Z).
Proof. exact client_wire_bound. Qed.
Print Assumptions C10_wire_rate_bound_client.

(* Never stalled: the sender installed for a reported rate r (0 < r < 2^50), after ANY call history: the pacer runs at a
   bandwidth in [r, r/0.8]; TimeUntilSend never panics; waiting until the time it announces yields budget for a full
   datagram (HasPacingBudget true); and if the budget is still short at `now`, the announced time is strictly later
   than now and at most max(MinPacingDelay, time for one datagram at the REPORTED rate + 1 ns) after the last send. *)
Theorem C10_wire_never_stalled : forall r dis, 0 < r < 2 ^ 50 -> forall l,
  hist_ok 0 0 l ->
  let b := brun (brutal_init (Z.of_N r) dis) l in
  let p := b_pacer b in
  (Z.of_N r <= bandwidth b <= comp_rate r)%Z /\ p_mds p = b_mds b /\
  (exists w, b_time_until_send b = Ok w) /\
  (forall w, (0 <= p_budget p < b_mds b)%Z -> (b_mds b <= mds_limit)%Z -> (0 < p_last p)%Z ->
     b_time_until_send b = Ok w -> (p_last p <= w < two63)%Z -> (comp_rate r * (w - p_last p) < two63)%Z ->
     has_pacing_budget b w = true) /\
  (forall now w, (0 <= p_budget p <= two63 / 2)%Z -> (0 <= b_mds b <= mds_limit)%Z ->
     (0 < p_last p <= now)%Z -> (now < two63)%Z -> (comp_rate r * (now - p_last p) < two63)%Z ->
     has_pacing_budget b now = false -> b_time_until_send b = Ok w -> (p_last p <= w)%Z ->
     (now < w)%Z /\ (w - p_last p <= Z.max MinPacingDelay_ns (ns_per_s * b_mds b / Z.of_N r + 1))%Z).
Proof. exact wire_never_stalled. Qed.
Print Assumptions C10_wire_never_stalled.

(* Both sides of one handshake, through the real header encoding: each side's fixed rate is what it reports, is at most
   its own limit and the CONFIGURED receive limit of the peer, and the sender it installs is C11's initial sender for that
   reported rate - so C10_wire_rate_bound_* and C10_wire_never_stalled speak about both directions of the connection. *)
Theorem C10_handshake_wire : forall s c,
  c_max_rx c <= MaxU64 -> s_max_rx s <= MaxU64 ->
  let '(so, co) := handshake s c in
  (forall r, so_decision so = Brutal r -> r < 2 ^ 50 ->
     so_connect_tx so = r /\ 0 < r /\ r <= c_max_rx c /\ (0 < s_max_tx s -> r <= s_max_tx s) /\
     forall dis, sender_of (so_installed so) dis = Some (brutal_init (Z.of_N r) dis)) /\
  (forall r, co_decision co = Brutal r -> r < 2 ^ 50 ->
     co_info_tx co = r /\ 0 < r /\ r <= c_max_tx c /\ (0 < s_max_rx s -> r <= s_max_rx s) /\
     forall dis, sender_of (co_installed co) dis = Some (brutal_init (Z.of_N r) dis)).
Proof. exact handshake_wire. Qed.
Print Assumptions C10_handshake_wire.

(* the burst side condition in numbers, with the constants of this build (4 x MinPacingDelay = 4 ms) *)
Theorem C10_wire_burst_range : forall r, r <= 1800000000000 ->
  (maxBurstPacingDelayMultiplier * MinPacingDelay_ns * comp_rate r < two63)%Z.
Proof. exact burst_range_ok. Qed.
Print Assumptions C10_wire_burst_range.

(* Non-vacuity: server without a send limit, Hysteria-CC-RX: 65536.  Reported 65536; the installed sender (datagram size
   1200) sends its whole initial burst at t = 1 s, sees 40 acked / 10 lost (ack rate 0.8: bandwidth 81920 = 65536/0.8) and
   sends one datagram more exactly when it is covered: all hypotheses hold, the bound is met with equality (13200). *)
Theorem C10_wire_example :
  let c := mkSrv false 0 0 TBbr in
  let vals := [[x36;x35;x35;x33;x36]] in
  let pre := [OSetMds 1200] in
  let mid := [OEvent 1000000001 40 10; OSent 1014648438 1200] in
  let b0 := brutal_init 65536 false in
  so_decision (server_auth c vals) = Brutal 65536 /\ so_connect_tx (server_auth c vals) = 65536 /\
  sender_of (so_installed (server_auth c vals)) false = Some b0 /\
  comp_rate 65536 = 81920%Z /\
  (maxBurstPacingDelayMultiplier * MinPacingDelay_ns * comp_rate 65536 < two63)%Z /\
  hist_ok 0 0 (pre ++ OSent 1000000000 12000 :: mid) /\
  wire_first 1200 (brun b0 pre) 1000000000 12000 /\
  wire_ok (comp_rate 65536) 1200 (on_sent (brun b0 pre) 1000000000 12000) mid /\
  sent_bytes (OSent 1000000000 12000 :: mid) = 13200%Z /\
  (burst_bound (comp_rate 65536) 1200 + comp_rate 65536 * (last_sent mid 1000000000 - 1000000000) / ns_per_s = 13200)%Z /\
  windows_ok (comp_rate 65536) (burst_bound (comp_rate 65536) 1200) (sends_of (pre ++ OSent 1000000000 12000 :: mid)) = true.
Proof. exact wire_example. Qed.
Print Assumptions C10_wire_example.
