(* C11 - Brutal sends at the configured rate: bounded above, never stalled.
   Property theorems only; every proof is `exact <lemma>` from proof/C11_*.v.
   Units: nanoseconds and bytes; two63 = 2^63, two64 = 2^64; mds_limit = 2^32. *)
From Hy Require Import lib.F64 model.C11_Pacer model.C11_Brutal model.C11_Calls proof.C11_Pacer proof.C11_Brutal proof.C11_Float proof.C11_Calls.
From Coq Require Import ZArith List.
Import ListNotations.
Local Open Scope Z_scope.

(* "waiting until the time the pacer announces always yields budget for a full datagram":
   for every positive bandwidth, every datagram size and bucket level below it, if TimeUntilSend
   announces w then Budget(w) >= maxDatagramSize - within the range where the time values are
   int64 and rate x gap fits 63 bits. *)
Theorem C11_wakeup_suffices : forall bw p w,
  0 < bw < two63 ->
  0 <= p_budget p < p_mds p -> p_mds p <= mds_limit ->
  0 < p_last p ->
  time_until_send bw p = Ok w ->
  p_last p <= w < two63 -> bw * (w - p_last p) < two63 ->
  p_mds p <= budget bw p w.
Proof. exact wakeup_suffices. Qed.
Print Assumptions C11_wakeup_suffices.

(* progress under a bandwidth change: if, whatever the bandwidth is by now, the budget at `now`
   is still short, the time a fresh TimeUntilSend announces lies strictly in the future (the send
   loop cannot spin) and at most max(MinPacingDelay, time for one datagram at the smallest
   bandwidth + 1 ns) after the last send (it cannot sleep for ever). *)
Theorem C11_rearm_progress : forall bw bwmin p now w,
  0 < bwmin <= bw -> bw < two63 ->
  0 <= p_budget p <= two63 / 2 -> 0 <= p_mds p <= mds_limit ->
  0 < p_last p <= now -> now < two63 -> bw * (now - p_last p) < two63 ->
  budget bw p now < p_mds p ->
  time_until_send bw p = Ok w ->
  p_last p <= w ->
  now < w /\ w - p_last p <= Z.max MinPacingDelay_ns (ns_per_s * p_mds p / bwmin + 1).
Proof. exact rearm_progress. Qed.
Print Assumptions C11_rearm_progress.

(* "over any interval the bytes released by pacing are at most a bounded burst plus B times the
   interval": from ANY pacer state, for every sequence of sends s, l (the sends of the interval)
   in which every bandwidth value used lies in [0, B], every datagram size in [0, M], times are
   positive and non-decreasing, each packet is sent only when the budget covers it and
   rate x gap < 2^63:   bytes <= max_burst(B, M) + B * (t_last - t_first) / 10^9.
   With B = floor(1.25 * rate) (C11_bandwidth_bound) this is "burst + rate/0.8 x interval". *)
Theorem C11_rate_upper_bound : forall B M,
  maxBurstPacingDelayMultiplier * MinPacingDelay_ns * B < two63 -> M <= mds_limit ->
  forall p s l,
  send_ok B M p s -> sends_ok B M (psend_step p s) l ->
  bytes_of (s :: l) <= burst_bound B M + B * (s_t (last (s :: l) s) - s_t s) / ns_per_s.
Proof. exact rate_upper_bound. Qed.
Print Assumptions C11_rate_upper_bound.

(* "its window is never below one datagram": for every rate, RTT, ack rate (any float64 whatever,
   including the out-of-range conversions), so a sender with at most one datagram in flight is
   never blocked by the window. *)
Theorem C11_window_floor : forall b rtt inflight,
  b_mds b <= cwndNoRTT ->
  b_mds b <= cwnd b rtt /\ (inflight <= b_mds b -> can_send b rtt inflight = true).
Proof. exact window_floor_b. Qed.
Print Assumptions C11_window_floor.

(* The loss-compensation factor after ANY call history (sends, datagram-size changes, idle time
   and ack/loss batches in any order) whose batch times are non-negative int64 values that do not
   go backwards and that reports fewer than 2^64 packets in total:
   with A, L = acked and lost packets of all batches whose second lies in [cur-4, cur]
   (cur = second of the latest batch) - the precise meaning of "roughly the last five seconds":
   the current, partial second and the four before it -
   the stored float64 is exactly what the code's formula gives on A and L (1 below 50 samples,
   float64(A)/float64(A+L) clamped below at the constant 0.8), the exact fraction likewise,
   and both are 1 when compensation is disabled. *)
Theorem C11_ack_rate_value : forall bps dis l,
  hist_ok 0 0 l ->
  let b := brun (brutal_init bps dis) l in
  let st := ev_hist l ([], 0) in
  let A := cnt e_ack (inwin (snd st)) (fst st) in
  let L := cnt e_loss (inwin (snd st)) (fst st) in
  b_rate b = (if dis then f_one else rate_f A L) /\
  b_rateq b = (if dis then (1, 1) else rate_q A L).
Proof. exact ack_rate_value. Qed.
Print Assumptions C11_ack_rate_value.

(* "the loss-compensation factor always lies in [0.8, 1], equal to acked/(acked+lost) ... when at
   least 50 samples exist and 1 otherwise or when compensation is disabled" - in exact arithmetic:
   the fraction n/d the model keeps next to the float. *)
Theorem C11_ack_rate_range : forall bps dis l,
  hist_ok 0 0 l ->
  let b := brun (brutal_init bps dis) l in
  let st := ev_hist l ([], 0) in
  let A := cnt e_ack (inwin (snd st)) (fst st) in
  let L := cnt e_loss (inwin (snd st)) (fst st) in
  let n := fst (b_rateq b) in let d := snd (b_rateq b) in
  0 < d /\ 4 * d <= 5 * n /\ n <= d /\
  (dis = true -> b_rateq b = (1, 1)) /\
  (A + L < 50 -> b_rateq b = (1, 1)) /\
  (dis = false -> 50 <= A + L -> 4 * (A + L) <= 5 * A -> b_rateq b = (A, A + L)) /\
  (dis = false -> 50 <= A + L -> 5 * A < 4 * (A + L) -> b_rateq b = (4, 5)).
Proof. exact ack_rate_q_full. Qed.
Print Assumptions C11_ack_rate_range.

(* "rate/0.8", on the binary64 computation the code performs (Flocq): for every configured rate
   below 2^50 B/s (9 Pbit/s) and every float64 ack rate r with 0.8f <= r <= 1, the bandwidth handed
   to the pacer, int64(float64(bps)/r), lies in [bps, floor(1.25*bps)].  So B = floor(1.25*bps) in
   C11_rate_upper_bound: "a bounded burst plus rate/0.8 times the interval". *)
Theorem C11_bandwidth_bound : forall bps r,
  0 <= bps < 2 ^ 50 -> fleb min_ack_rate r = true -> fleb r f_one = true ->
  bps <= bandwidth_of bps r <= 5 * bps / 4.
Proof. exact bandwidth_bound_f64. Qed.
Print Assumptions C11_bandwidth_bound.

(* "the loss-compensation factor always lies in [0.8, 1]" for the float64 the sender stores, and the
   resulting bandwidth, after ANY call history (as in C11_ack_rate_value) of a sender configured
   with a rate below 2^50 B/s: 0.8f <= ackRate <= 1, ackRate = 1 when compensation is disabled,
   rate <= bandwidth <= floor(1.25*rate). *)
Theorem C11_sender_bandwidth_bound : forall bps dis l,
  0 <= bps < 2 ^ 50 -> hist_ok 0 0 l ->
  let b := brun (brutal_init bps dis) l in
  fleb min_ack_rate (b_rate b) = true /\ fleb (b_rate b) f_one = true /\
  (dis = true -> b_rate b = f_one) /\
  bps <= bandwidth b <= 5 * bps / 4.
Proof. exact sender_bandwidth_bound. Qed.
Print Assumptions C11_sender_bandwidth_bound.

(* the same bound in exact arithmetic, for the exact rate n/d in [0.8, 1] of C11_ack_rate_range *)
Theorem C11_bandwidth_bound_exact : forall bps n d,
  0 <= bps -> 0 < d -> 4 * d <= 5 * n -> n <= d ->
  bps <= bps * d / n <= 5 * bps / 4.
Proof. exact bandwidth_bound_q. Qed.
Print Assumptions C11_bandwidth_bound_exact.

(* Parts 1 and 2 fit together: after ANY call history the sender's pacer is exactly the pacer-level
   state reached by the induced send history (each OnPacketSent with the bandwidth
   trunc(float(bps)/ackRate) and the datagram size in force at that moment), so
   C11_rate_upper_bound, C11_wakeup_suffices and C11_rearm_progress apply to the sender with
   bw = bandwidth b. *)
Theorem C11_sender_drives_pacer : forall bps dis l,
  let b := brun (brutal_init bps dis) l in
  b_pacer b = set_mds (prun pacer_init (psends_of (brutal_init bps dis) l)) (b_mds b).
Proof. exact pacer_of_brun_init. Qed.
Print Assumptions C11_sender_drives_pacer.

(* "the rate bound counts EVERY byte released through the pacing gate": OnPacketSent does not read
   isRetransmittable (nor bytesInFlight, packetNumber).  For every sender state b, every call history
   l with the full argument lists, every flag value r and every instant: re-flagging all sends of l
   with r (all ack-eliciting, or none) leaves the whole sender state - pacer bucket, last send time,
   ack rate, slots - and therefore Budget, HasPacingBudget, TimeUntilSend and the induced
   pacer-level send history unchanged.  A packet that is not ack-eliciting is never free. *)
Theorem C11_flag_irrelevant : forall b l r now,
  let b1 := krun b l in
  let b2 := krun b (map (set_flag r) l) in
  b1 = b2 /\
  b_budget b1 now = b_budget b2 now /\
  has_pacing_budget b1 now = has_pacing_budget b2 now /\
  b_time_until_send b1 = b_time_until_send b2 /\
  ksends_of b l = ksends_of b (map (set_flag r) l).
Proof. exact flag_irrelevant. Qed.
Print Assumptions C11_flag_irrelevant.

(* the same for ANY two histories that differ only in the arguments OnPacketSent does not read *)
Theorem C11_unread_args_irrelevant : forall b l l',
  same_calls l l' ->
  krun b l = krun b l' /\ ksends_of b l = ksends_of b l'.
Proof. exact calls_irrelevant. Qed.
Print Assumptions C11_unread_args_irrelevant.

(* C11_sender_drives_pacer for call histories with flags: the sender's pacer is the pacer-level state
   reached by ALL its sends, and the bytes of that pacer-level history are all the bytes released
   (ack-eliciting or not) - so `bytes_of` in C11_rate_upper_bound is `released`. *)
Theorem C11_every_release_counts : forall bps dis l,
  let b := krun (brutal_init bps dis) l in
  b_pacer b = set_mds (prun pacer_init (ksends_of (brutal_init bps dis) l)) (b_mds b) /\
  bytes_of (ksends_of (brutal_init bps dis) l) = released l.
Proof. exact pacer_of_krun_init. Qed.
Print Assumptions C11_every_release_counts.
