(* C12 - BBR survives any QUIC-consistent event sequence with sane outputs.
   Property theorems only; every proof is `exact <lemma>` (or a two-line combination) from proof/C12_*.v.
   Layer 1: the containers (ring buffer, packet-number-indexed queue, windowed filter). *)
From Hy Require Import lib.Res lib.F64 lib.F64x model.C12_Queue model.C12_Sender model.C12_Full
  proof.C12_Ring proof.C12_PQ proof.C12_Layer1 proof.C12_Sender proof.C12_Arith proof.C12_Full proof.C12_Late proof.C12_Burst proof.C12_Bdp.
From Coq Require Import ZArith List Bool Lia.
Import ListNotations.
Local Open Scope Z_scope.

(* ------------------------------------------------------------------ layer 1: RingBuffer *)

(* The ring buffer is a queue: under its representation invariant (established by Init, preserved
   by every operation) PushBack never panics and appends, growing by doubling only when full;
   PopFront / Front return the first element and panic exactly on the empty queue; Offset(k) for
   0 <= k < Len is the k-th element and a write through the returned pointer updates exactly it. *)
Theorem C12_ring_refines_queue : forall (T : Type) (zero : T),
  (forall n, rb_wf (rb_init zero n) /\ rb_list zero (rb_init zero n) = []) /\
  (forall r, rb_wf r -> rb_len r = length (rb_list zero r) /\ (rb_len r <= rb_cap r)%nat /\
                        (rb_empty r = true <-> rb_list zero r = [])) /\
  (forall r t, rb_wf r -> exists r', rb_push zero r t = Ok r' /\ rb_wf r' /\
       rb_list zero r' = rb_list zero r ++ [t] /\
       (rb_cap r' = rb_cap r \/
        (rb_len r = rb_cap r /\ rb_cap r' = (if (rb_cap r =? 0)%nat then 1 else 2 * rb_cap r)%nat))) /\
  (forall r x l, rb_wf r -> rb_list zero r = x :: l ->
       (exists r', rb_pop zero r = Ok (x, r') /\ rb_wf r' /\ rb_list zero r' = l /\ rb_cap r' = rb_cap r) /\
       (exists i, rb_front r = Ok i /\ rb_get zero r i = x)) /\
  (forall r, rb_wf r -> rb_list zero r = [] -> rb_pop zero r = Panic 2 /\ rb_front r = Panic 5) /\
  (forall r k, rb_wf r -> 0 <= k < Z.of_nat (rb_len r) ->
       exists i, rb_offset r k = Ok i /\ rb_get zero r i = nth (Z.to_nat k) (rb_list zero r) zero /\
         forall y, rb_wf (rb_set r i y) /\ rb_list zero (rb_set r i y) = upd (Z.to_nat k) y (rb_list zero r)).
Proof.
  intros T zero. split; [|split; [|split; [|split; [|split]]]].
  - intros n. split; [apply rb_init_wf|apply rb_init_list].
  - intros r W. split; [apply (rb_len_length T zero)|]. split; [now apply (rb_len_le_cap T r)|now apply (rb_empty_iff T zero r)].
  - intros r t W. now apply (rb_push_refines T zero).
  - intros r x l W HL. split; [now apply (rb_pop_refines T zero)|now apply (rb_front_refines T zero r x l)].
  - intros r W HL. split; [now apply (rb_pop_empty T zero)|now apply (rb_front_empty T zero)].
  - intros r k W Hk. destruct (rb_offset_refines T zero r k W Hk) as (i & E & _ & G & S).
    exists i. split; [exact E|]. split; [exact G|]. intros y. destruct (S y) as (A & B & _). auto.
Qed.
Print Assumptions C12_ring_refines_queue.

(* ------------------------------------------------------------------ layer 1: packetNumberIndexedQueue *)

(* For EVERY sequence of Emplace / Emplace(nil) / GetEntry / Remove / RemoveUpTo (packet numbers
   handed to Emplace non-negative, otherwise arbitrary: gaps, out-of-order and duplicate inserts,
   removals in any order), starting from newPacketNumberIndexedQueue(size) for any size, the
   implementation never panics and returns, step by step, exactly what the specification
   "first packet number + list of optional entries" returns, and ends in the abstraction of the
   specification's final state. *)
Theorem C12_queue_refines_spec : forall (T : Type) (zeroT : T) size ops,
  Forall (op_ok T) ops ->
  exists q, impl_run T zeroT (pq_new zeroT size) ops =
              Ok (q, snd (spec_run T (invalidPacketNumber, []) ops)) /\
            pq_wf T zeroT q /\
            pq_abs T zeroT q = fst (spec_run T (invalidPacketNumber, []) ops).
Proof.
  intros T zeroT size ops H.
  destruct (pq_new_wf T zeroT size) as (W & A).
  destruct (impl_run_refines T zeroT ops (pq_new zeroT size) W H) as (q & E & Wq & Aq).
  rewrite A in *. exists q. auto.
Qed.
Print Assumptions C12_queue_refines_spec.

(* The specification is a finite map from packet numbers to entries: a successful Emplace extends
   it at pn (a refused one changes nothing), Remove deletes pn, RemoveUpTo n deletes everything
   below n, and nothing else changes.  Stated on the implementation (GetEntry before / after). *)
Theorem C12_queue_is_finite_map : forall (T : Type) (zeroT : T) q, pq_wf T zeroT q ->
  (forall pn e q' b, 0 <= pn -> pq_emplace zeroT q pn (Some e) = Ok (q', b) ->
     forall pn', 0 <= pn' ->
       pq_get zeroT q' pn' = (if b && (pn' =? pn) then Ok (Some e) else pq_get zeroT q pn')) /\
  (forall pn q' r, pq_remove zeroT q pn = Ok (q', r) ->
     pq_get zeroT q pn = Ok r /\
     forall pn', 0 <= pn' -> pq_get zeroT q' pn' = (if pn' =? pn then Ok None else pq_get zeroT q pn')) /\
  (forall n q', pq_remove_upto zeroT q n = Ok q' ->
     forall pn', 0 <= pn' -> pq_get zeroT q' pn' = (if pn' <? n then Ok None else pq_get zeroT q pn')).
Proof.
  intros T zeroT q W. pose proof W as ((_ & _ & Hf) & Hh & _). split; [|split].
  - intros pn e q' b Hpn E pn' Hpn'.
    destruct (emplace_refines T zeroT q pn e W Hpn) as (q1 & E1 & W1 & A1).
    rewrite E in E1. injection E1 as <- Eb.
    rewrite (get_refines T zeroT q' pn' W1), (get_refines T zeroT q pn' W), A1.
    rewrite (spec_emplace_get T (pq_abs T zeroT q) pn e pn' Hpn Hpn' Hf), <- Eb.
    destruct b; simpl; [destruct (pn' =? pn)|]; reflexivity.
  - intros pn q' r E.
    destruct (remove_refines T zeroT q pn W) as (q1 & E1 & W1 & A1).
    rewrite E in E1. injection E1 as <- Er. split.
    + rewrite (get_refines T zeroT q pn W), Er. reflexivity.
    + intros pn' Hpn'. rewrite (get_refines T zeroT q' pn' W1), (get_refines T zeroT q pn' W), A1.
      rewrite (spec_remove_get T (pq_abs T zeroT q) pn pn' Hpn' Hf). destruct (pn' =? pn); reflexivity.
  - intros n q' E pn' Hpn'.
    destruct (remove_upto_refines T zeroT q n W) as (q1 & E1 & W1 & A1).
    rewrite E in E1. injection E1 as <-.
    rewrite (get_refines T zeroT q' pn' W1), (get_refines T zeroT q pn' W), A1.
    rewrite (spec_upto_get T (pq_abs T zeroT q) n pn' Hpn' Hf Hh). destruct (pn' <? n); reflexivity.
Qed.
Print Assumptions C12_queue_is_finite_map.

(* Bookkeeping is the live packet-number span: EntrySlotsUsed is 0 on an empty queue and
   LastPacket - FirstPacket + 1 otherwise; a successful Emplace(pn) makes pn the last packet (so
   slots = pn - first + 1, gaps included); after RemoveUpTo n no entry below n remains and, when
   anything remains, last is unchanged, first >= max(old first, n) and
   slots = last - first + 1 <= last - max(old first, n) + 1. *)
Theorem C12_queue_slots_are_span : forall (T : Type) (zeroT : T) q, pq_wf T zeroT q ->
  ((pq_is_empty q = true /\ pq_slots q = 0 /\ q_first q = invalidPacketNumber) \/
   (pq_is_empty q = false /\ 0 <= q_first q /\ pq_slots q = pq_last q - q_first q + 1 /\ 0 < pq_slots q)) /\
  (forall pn e q', 0 <= pn -> pq_emplace zeroT q pn (Some e) = Ok (q', true) ->
     pq_wf T zeroT q' /\ pq_last q' = pn /\ pq_slots q' = pn - q_first q' + 1 /\
     (pq_is_empty q = true \/ (pq_last q < pn /\ q_first q' = q_first q))) /\
  (forall n q', pq_remove_upto zeroT q n = Ok q' ->
     pq_wf T zeroT q' /\
     (forall pn, 0 <= pn -> pn < n -> pq_get zeroT q' pn = Ok None) /\
     (forall pn, 0 <= pn -> n <= pn -> pq_get zeroT q' pn = pq_get zeroT q pn) /\
     (pq_is_empty q' = false ->
        pq_last q' = pq_last q /\ n <= q_first q' /\ q_first q <= q_first q' /\
        pq_slots q' = pq_last q - q_first q' + 1 /\ pq_slots q' <= pq_last q - Z.max (q_first q) n + 1)).
Proof.
  intros T zeroT q W. split; [now apply (slots_span T zeroT)|]. split.
  - intros pn e q' Hpn E. now apply (emplace_last T zeroT q pn e q').
  - intros n q' E. now apply (upto_span T zeroT q n q').
Qed.
Print Assumptions C12_queue_slots_are_span.

(* ------------------------------------------------------------------ layer 1: WindowedFilter *)

(* Max filter (bandwidth over round trips), for every window length: if the three estimates are
   ordered (best >= second >= third, times non-decreasing) and the new time is not before the
   newest estimate, then after Update they are still ordered, the best estimate is at least the
   new sample, and the window length is unchanged.  (Update is a total function: three array
   slots, no index can go wrong - the model is a record of three entries.) *)
Theorem C12_filter_max_ordered : forall f s t, wmax_ord f -> snd (w2 f) <= t < two64 ->
  wmax_ord (wf_update 0 cmp_max f s t) /\ s <= wf_best (wf_update 0 cmp_max f s t) /\
  w_len (wf_update 0 cmp_max f s t) = w_len f.
Proof. exact wmax_update_ord. Qed.
Print Assumptions C12_filter_max_ordered.

(* non-vacuity: a concrete queue history with a gap, an out-of-order insert and removals *)
Example C12_queue_example :
  snd (spec_run Z (invalidPacketNumber, [])
         [OEmplace Z 3 30; OEmplace Z 6 60; OEmplace Z 5 50; OGet Z 4; OGet Z 6; ORemove Z 3; OUpTo Z 7; OGet Z 6]) =
  [RBool Z true; RBool Z true; RBool Z false; REntry Z None; REntry Z (Some 60); REntry Z (Some 30); RUnit Z; REntry Z None]
  /\ exists q, impl_run Z 0 (pq_new 0 2%nat)
         [OEmplace Z 3 30; OEmplace Z 6 60; OEmplace Z 5 50; OGet Z 4; OGet Z 6; ORemove Z 3; OUpTo Z 7; OGet Z 6] =
       Ok (q, [RBool Z true; RBool Z true; RBool Z false; REntry Z None; REntry Z (Some 60); REntry Z (Some 30); RUnit Z; REntry Z None])
       /\ pq_slots q = 0.
Proof. split; [vm_compute; reflexivity|]. eexists. split; vm_compute; reflexivity. Qed.

(* ------------------------------------------------------------------ layer 2: the sender's window skeleton *)
(* `winv` (proof/C12_Sender.v): 0 < mds <= MaxPacketBufferSize, minCW = 4*mds, minCW <= cwnd <= maxCW,
   minCW <= initialCW <= maxCW, minCW <= recoveryWindow, maxCW <= 20000*mds (and the two unused
   packet-sized windows within [0, 20000*mds]).  In all theorems below the float-derived quantities
   (target window, mode and full-bandwidth flag after the float-dependent state machine, sampler
   outputs) are universally quantified `oracle` values. *)

(* After EVERY sequence of OnPacketSent / OnCongestionEventEx / SetMaxDatagramSize events (any
   packet numbers, any byte counts - int64 wrap of the intermediate sums included -, any oracle
   values; datagram sizes non-decreasing and <= MaxPacketBufferSize), starting from
   newBbrSender(m, icw, mcw) for ANY configured initial / maximum window with
   4 datagrams <= icw <= mcw <= 20000 datagrams (NewBbrSender(m) is the instance 32*m, 20000*m):
   no panic, and 4*mds <= GetCongestionWindow <= maxCongestionWindow,
   4*mds <= maxCongestionWindow (C12_min_le_max) in every mode and recovery state. *)
Theorem C12_cwnd_range : forall m icw mcw agg es,
  0 < m <= c12_MaxPacketBufferSize ->
  c12_minCongestionWindowPackets * m <= icw <= mcw -> mcw <= c12_MaxCongestionWindowPackets * m ->
  mds_ok m es ->
  new_sender m = new_sender_with m (c12_initialCongestionWindowPackets * m) (c12_MaxCongestionWindowPackets * m) /\
  exists st, wrun agg (new_sender_with m icw mcw) es = Ok st /\ winv st /\
    c12_minCongestionWindowPackets * mds st <= get_cwnd st <= maxCW st /\
    c12_minCongestionWindowPackets * mds st <= maxCW st.
Proof.
  intros m icw mcw agg es Hm Hi Hx Hok. split; [reflexivity|].
  destruct (wrun_inv es agg (new_sender_with m icw mcw) (new_sender_with_inv m icw mcw Hm Hi Hx) Hok) as (st & E & W).
  exists st. split; [exact E|]. split; [exact W|]. pose proof (get_cwnd_range st W). split; [assumption|lia].
Qed.
Print Assumptions C12_cwnd_range.

(* the same, event by event: each modelled update preserves the invariant for all oracle values *)
Theorem C12_cwnd_range_step : forall st, winv st ->
  (forall pn b, winv (on_sent st pn b)) /\
  (forall agg prior sumAcked sumLost lastAcked hasLosses o,
     winv (cong_event st agg prior sumAcked sumLost lastAcked hasLosses o)) /\
  (forall s, mds st <= s <= c12_MaxPacketBufferSize -> exists st', set_mds st s = Ok st' /\ winv st' /\ mds st' = s) /\
  c12_minCongestionWindowPackets * mds st <= get_cwnd st <= maxCW st.
Proof.
  intros st W. split; [intros; now apply on_sent_inv|]. split.
  - intros. now apply cong_event_inv.
  - split; [|now apply get_cwnd_range]. intros s Hs.
    destruct (set_mds_inv st s W Hs) as (st' & E & W' & M & _). eauto.
Qed.
Print Assumptions C12_cwnd_range_step.

(* bandwidthForPacer, about the DIVISION RESULT: for every pacing rate (Bandwidth = uint64 bits per second, any
   value PacingRate() can return) the value handed to the pacer is max(minBps, float64(rate)/BytesPerSecond
   truncated) >= minBps = 65536 BYTES per second, with BytesPerSecond = 8; for rates below 2^53 bits/s (1 PB/s)
   that is max(65536, rate/8) exactly: the floor is what the pacer gets for every rate below 8*65536 = 524288
   bits/s and rate/8 above.  (A floor test on the bits/s value itself fails this: floor_before_division_refuted.) *)
Theorem C12_pacing_floor : forall rate,
  c12_minBps <= bandwidth_for_pacer rate /\
  bandwidth_for_pacer rate = Z.max c12_minBps (f64_of_u64 (u64 rate) / c12_BytesPerSecond) /\
  (0 <= rate < 9007199254740992 ->
     bandwidth_for_pacer rate = Z.max 65536 (rate / 8) /\
     (rate < 8 * 65536 -> bandwidth_for_pacer rate = 65536) /\
     (8 * 65536 <= rate -> bandwidth_for_pacer rate = rate / 8)) /\
  c12_minBps = 65536 /\ c12_BytesPerSecond = 8.
Proof.
  intros. split; [apply pacer_floor|]. split; [apply pacer_is_max|]. split; [apply pacer_units|]. split; reflexivity.
Qed.
Print Assumptions C12_pacing_floor.

(* SetMaxDatagramSize: a size >= the current one (and <= MaxPacketBufferSize) never panics and keeps
   the invariant (so min <= max is preserved: rescaling is monotone); a smaller size panics (site 10).
   Seed rule: when QUIC's initial size is > 0 the seed is min(quic, byAddr) <= quic, hence the first
   size QUIC reports (>= its initial size) is never below the seed and cannot hit that panic. *)
Theorem C12_datagram_size_monotone :
  (forall st s, winv st -> mds st <= s <= c12_MaxPacketBufferSize ->
     exists st', set_mds st s = Ok st' /\ winv st' /\ mds st' = s) /\
  (forall st s, s < mds st -> set_mds st s = Panic 10) /\
  (forall quicSize byAddr, 0 < quicSize -> seed_packet_size quicSize byAddr <= quicSize) /\
  (forall quicSize byAddr reported,
     0 < quicSize -> 0 < byAddr -> quicSize <= reported <= c12_MaxPacketBufferSize ->
     exists st', set_mds (new_sender (seed_packet_size quicSize byAddr)) reported = Ok st' /\ winv st').
Proof.
  split; [|split; [|split]].
  - intros st s W Hs. destruct (set_mds_inv st s W Hs) as (st' & E & W' & M & _). eauto.
  - exact set_mds_smaller_panics.
  - exact seed_le_quic.
  - intros q a r Hq Ha Hr. pose proof (seed_le_quic q a Hq) as Hs.
    assert (Hpos : 0 < seed_packet_size q a).
    { unfold seed_packet_size. destruct (q <=? 0) eqn:E; [exact Ha|]. apply Z.min_glb_lt; assumption. }
    assert (W : winv (new_sender (seed_packet_size q a))).
    { apply new_sender_inv. split; [exact Hpos|]. apply Z.le_trans with q; [exact Hs|]. apply Z.le_trans with r; tauto. }
    destruct (set_mds_inv _ r W) as (st' & E & W' & _).
    { change (mds (new_sender (seed_packet_size q a))) with (seed_packet_size q a). split; [|tauto].
      apply Z.le_trans with q; tauto. }
    exists st'. auto.
Qed.
Print Assumptions C12_datagram_size_monotone.

(* Deadlock half of the last clause, PARTIAL.  Proved: in every state satisfying the invariant (hence
   every reachable state, C12_cwnd_range) CanSend(inflight) holds whenever inflight < 4*mds; and the
   pacer, fed any bandwidth >= minBps (C12_pacing_floor; < 1 TB/s so that int64 products do not
   wrap), either allows an immediate send (TimeUntilSend = 0) or has, at the wake-up time it
   announces, budget for a full datagram - so the send loop is never left waiting for a time at
   which it still may not send.
   MISSING (not attempted): "does not settle far below capacity on a loss-free path" is a
   convergence statement about the closed loop sender + network (float gains, bandwidth filter,
   round counting); there is no theorem for it.  The harness's bottleneck simulator reports
   delivered throughput per profile as supporting evidence only (evidence key `supporting_only`).
   Also not covered: quic-go's own send loop and timers; the first pacer call (lastSentTime zero). *)
Theorem C12_never_stalled_partial :
  (forall st b, winv st -> b < c12_minCongestionWindowPackets * mds st -> can_send st b = true) /\
  (forall p bw, c12_minBps <= bw < 1000000000000 ->
     0 < p_mds p <= c12_MaxPacketBufferSize -> 0 <= p_budget p -> 0 < p_last p < 4611686018427387904 ->
     p_mds p <= pacer_budget p bw (pacer_time_until_send p bw) \/ pacer_time_until_send p bw = 0).
Proof. split; [exact can_send_below_min|exact pacer_wakeup_has_budget]. Qed.
Print Assumptions C12_never_stalled_partial.

(* Bookkeeping over QUIC traces: for EVERY event sequence with strictly increasing sent packet
   numbers (in particular every quic_consistent one: skipped numbers, non-retransmittable packets,
   any acked / lost lists, loss-only events), the sampler's connectionStateMap - driven exactly as
   OnPacketSent / OnCongestionEventEx drive it - never panics, and after every congestion event
   EntrySlotsUsed <= max(0, lastSent - leastUnacked + 1) with leastUnacked the code's estimate
   (lastAcked - 2, or lastLost + 1 for loss-only events) and no entry below leastUnacked remains;
   between events the queue's last packet never exceeds lastSent. *)
Theorem C12_bookkeeping_bounded : forall size m0 es1 acked lost es2,
  (quic_consistent m0 (es1 ++ QCong acked lost :: es2) = true \/
   sent_increasing_from invalidPacketNumber (es1 ++ QCong acked lost :: es2) = true) ->
  exists q1 q2 q3,
    bk_run (pq_new 0 size) es1 = Ok q1 /\ bk_step q1 (QCong acked lost) = Ok q2 /\ bk_run q2 es2 = Ok q3 /\
    pq_slots q2 <= Z.max 0 (last_sent_of invalidPacketNumber es1 - least_unacked acked lost + 1) /\
    (forall pn, 0 <= pn -> pn < least_unacked acked lost -> pq_get 0 q2 pn = Ok None) /\
    (pq_is_empty q3 = false -> pq_last q3 <= last_sent_of invalidPacketNumber (es1 ++ QCong acked lost :: es2)).
Proof.
  intros size m0 es1 acked lost es2 H.
  assert (Hinc : sent_increasing_from invalidPacketNumber (es1 ++ QCong acked lost :: es2) = true).
  { destruct H as [H|H]; [|exact H]. eapply quic_consistent_increasing. exact H. }
  destruct (sent_increasing_app es1 (QCong acked lost :: es2) _ Hinc) as (H1 & H2).
  assert (I0 : bk_inv (pq_new 0 size) invalidPacketNumber).
  { destruct (pq_new_wf Z 0 size) as (W & A). split; [exact W|]. split; [|apply Z.le_refl].
    intros EM. exfalso. assert (X : pq_is_empty (pq_new 0 size) = true) by reflexivity. congruence. }
  destruct (bk_run_inv es1 _ _ I0 H1) as (q1 & E1 & I1).
  destruct (bk_step_inv q1 _ (QCong acked lost) I1 eq_refl) as (q2 & E2 & I2 & S2 & G2).
  destruct (bk_run_inv es2 q2 _ I2 H2) as (q3 & E3 & I3).
  exists q1, q2, q3. split; [exact E1|]. split; [exact E2|]. split; [exact E3|]. split; [exact S2|]. split; [exact G2|].
  destruct I3 as (_ & L3 & _). intros EM. specialize (L3 EM).
  assert (X : last_sent_of invalidPacketNumber (es1 ++ QCong acked lost :: es2) =
              last_sent_of (last_sent_of invalidPacketNumber [QCong acked lost]) es2 \/ True) by (right; exact I).
  clear X.
  assert (Happ : forall a b l0, last_sent_of l0 (a ++ b) = last_sent_of (last_sent_of l0 a) b).
  { induction a as [|e t IH]; intros; [reflexivity|]. destruct e; cbn [app last_sent_of]; apply IH. }
  rewrite Happ. cbn [last_sent_of]. cbn [last_sent_of] in L3. exact L3.
Qed.
Print Assumptions C12_bookkeeping_bounded.

(* non-vacuity of layer 2: a concrete run reaching recovery and an MTU raise, and a consistent trace *)
Example C12_window_example :
  exists st, wrun false (new_sender 1200)
    [WSent 0 1200; WSent 1 2400;
     WCong 2400 1200 0 (Some 0) false (mkO c12_modeProbeBw true 50000 0 0 1200 0 1200);
     WSent 2 2400; WSent 3 3600;
     WCong 3600 1200 1200 (Some 3) true (mkO c12_modeProbeBw true 50000 0 0 1200 1200 2400);
     WSetMds 1452;
     WCong 1200 1200 0 (Some 2) false (mkO c12_modeProbeRtt true 50000 0 0 1200 0 3600)] = Ok st /\
  recState st = c12_recConservation /\ get_cwnd st = 4 * 1452 /\ maxCW st = 20000 * 1452.
Proof. eexists. split; [vm_compute; reflexivity|]. vm_compute. auto. Qed.

(* both clamps are load-bearing where the code has them: the window cap after the full-bandwidth branch
   (a sender sitting at the maximum in PROBE_BW with a target above it), the floor test after the division
   (40 KB/s = 320000 bits/s pacing rate in DRAIN on a slow path) *)
Example C12_clamps_example :
  (exists st target bytesAcked, winv st /\ mds st = 1200 /\
     maxCW st < cwnd (calc_cwnd_cap_in_startup_only st false target 0 0 bytesAcked 0) /\
     cwnd (calc_cwnd st false target 0 0 bytesAcked 0) = maxCW st) /\
  bandwidth_for_pacer_floor_before_division 320000 = 40000 /\ bandwidth_for_pacer 320000 = 65536 /\
  bandwidth_for_pacer 4000000 = 500000 /\ bandwidth_for_pacer 18446744073709551615 = 2305843009213693952.
Proof.
  split; [apply cap_in_startup_only_refuted; vm_compute; split; [reflexivity|discriminate]|].
  vm_compute. auto.
Qed.

Example C12_consistent_example :
  quic_consistent 1200 [QSent 0 1200 true; QSent 1 50 false; QSent 3 1200 true; QSent 4 1200 true;
                        QCong [(3, 1200)] [(0, 1200)]; QSetMds 1452; QSent 7 1452 true; QCong [] [(4, 1200)]] = true.
Proof. vm_compute. reflexivity. Qed.

(* ================================================================== layer 3: the whole sender, no oracles ===========
   model/C12_Full.v is the complete bbrSender + bandwidthSampler + maxAckHeightTracker + pacer as a deterministic LTS
   over the calls QUIC makes; its floating-point computations are binary64 on Coq's primitive floats, so the
   primitives (PrimFloat.*, and the float type) are listed by Print Assumptions below - no property of a float
   result is used in any proof (FloatAxioms does not appear).  Every theorem quantifies over ALL profile
   configurations `P` (any gains, any flags), of which the three shipped profiles are instances, over every
   newBbrSender(m, icw, mcw) with 4 datagrams <= icw <= mcw <= 20000 datagrams, and over every sequence of calls
   that is well-formed in the sense of `fevs_ok` (proof/C12_Full.v), which every quic_consistent history of quic-go
   satisfies and which asks much less: event times are monotime values (0 < t < 2^62), rttStats.MinRTT() is an int64
   and non-zero when a congestion event is delivered, packet numbers / sizes / the random draw are non-negative, a
   congestion event carries at least one packet, datagram sizes do not decrease and stay <= MaxPacketBufferSize.
   Packet numbers need NOT increase, acked / lost packets need NOT have been sent, times need NOT be monotone. *)

(* (a) No call ever panics: not the ring pops of chooseA0Point (including its loop whose bound shrinks while it pops),
   not Front / Back / Offset, not Emplace / GetEntry / RemoveUpTo of the connection-state map, not
   lostPackets[len-1], not pacingGain[cycleCurrentOffset], not an integer division (BandwidthFromDelta's delta,
   scaleByteWindowForDatagramSize), not SetMaxDatagramSize - and the run ends in a state satisfying the invariant
   `finv` (spelled out in C12_full_wellformed).  This is C12_bookkeeping_bounded's "no panic" for the REAL sampler:
   connectionStateMap entries, A0 candidates, ack points, max-ack-height tracker included. *)
Theorem C12_full_never_panics : forall P m icw mcw es, params_ok m icw mcw -> fevs_ok m es ->
  exists st, frun P (new_full P m icw mcw) es = Ok st /\ finv P st.
Proof.
  intros P m icw mcw es Hp He. destruct (reachable_inv P m icw mcw es Hp He) as (st & E & I & _). eauto.
Qed.
Print Assumptions C12_full_never_panics.

(* (b) Well-formedness of every reachable state: the mode is one of the four, the gains are table values for the mode
   (STARTUP: highGain / highCwndGain; DRAIN: 1/highGain / highCwndGain; PROBE_BW: an entry of the pacingGain cycle /
   congestionWindowGainConstant; PROBE_RTT: 1.0), DRAIN and PROBE_BW are only entered at full bandwidth, the gain
   cycle index is in range, both containers satisfy their representation invariants. *)
Theorem C12_full_wellformed : forall P m icw mcw es st, params_ok m icw mcw -> fevs_ok m es ->
  frun P (new_full P m icw mcw) es = Ok st ->
  let w := fw st in let mm := fm st in
  ((mode w = c12_modeStartup /\ m_pacingGain mm = p_highGain P /\ m_cwndGain mm = p_highCwndGain P) \/
   (mode w = c12_modeDrain /\ m_pacingGain mm = p_drainGain P /\ m_cwndGain mm = p_highCwndGain P /\ atFullBw w = true) \/
   (mode w = c12_modeProbeBw /\ In (m_pacingGain mm) gain_table /\ m_cwndGain mm = p_cwndGainConst P /\ atFullBw w = true) \/
   (mode w = c12_modeProbeRtt /\ m_pacingGain mm = f_one /\
    (m_cwndGain mm = p_highCwndGain P \/ m_cwndGain mm = p_cwndGainConst P))) /\
  0 <= m_cycleOff mm < c12_gainCycleLength /\ Z.of_nat (length gain_table) = c12_gainCycleLength /\
  pq_wf cse cse0 (sm_csm (fs st)) /\ rb_wf (sm_a0 (fs st)) /\ winv w.
Proof.
  intros P m icw mcw es st Hp He E. destruct (reachable_inv P m icw mcw es Hp He) as (st1 & E1 & I & _).
  rewrite E in E1. injection E1 as <-. destruct I as (W & (Wq & _ & Wa & _) & _ & G & O & _).
  cbv zeta. split; [exact G|]. split; [exact O|]. split; [exact gain_table_len|]. auto.
Qed.
Print Assumptions C12_full_wellformed.

(* (b) Mode transitions, statement by statement (maybeExitStartupOrDrain / maybeEnterOrExitProbeRtt as called by
   OnCongestionEventEx; OnPacketSent and SetMaxDatagramSize do not touch the mode: f_sent_ok / set_mds_flags).
   STARTUP is left only at full bandwidth; DRAIN only to PROBE_BW and only with in-flight <= target; PROBE_RTT is
   entered only when min_rtt expired outside quiescence (pacing gain 1, exit time cleared or scheduled 200 ms ahead
   when the in-flight is already small); it is left only with a scheduled exit time that has passed AND a round trip
   since - to STARTUP before full bandwidth was reached, to PROBE_BW after - refreshing the min-RTT timestamp. *)
Theorem C12_mode_transitions :
  (forall P g full low rnd now g', exit_startup_or_drain P g full low rnd now = Ok g' ->
     (gmode g = c12_modeStartup ->
        (full = false /\ g' = g) \/
        (full = true /\ low = false /\ gmode g' = c12_modeDrain /\ gpg g' = p_drainGain P) \/
        (full = true /\ low = true /\ gmode g' = c12_modeProbeBw)) /\
     (gmode g = c12_modeDrain -> (low = false /\ g' = g) \/ (low = true /\ gmode g' = c12_modeProbeBw)) /\
     (gmode g <> c12_modeStartup -> gmode g <> c12_modeDrain -> g' = g)) /\
  (forall P g full expired exq irs small exitAt rp ts rnd now g' ea rp' ts' al,
     enter_exit_probe_rtt P g full expired exq irs small exitAt rp ts rnd now = Ok (g', ea, rp', ts', al) ->
     (gmode g <> c12_modeProbeRtt -> gmode g' = c12_modeProbeRtt ->
        expired = true /\ exq = false /\ gpg g' = f_one /\ al = true /\
        ((small = false /\ ea = 0) \/ (small = true /\ ea = i64w (now + c12_probeRttTimeNs) /\ rp' = false))) /\
     (gmode g <> c12_modeProbeRtt -> gmode g' <> c12_modeProbeRtt ->
        g' = g /\ ea = exitAt /\ rp' = rp /\ ts' = ts /\ al = false) /\
     (gmode g = c12_modeProbeRtt -> gmode g' <> c12_modeProbeRtt ->
        exitAt <> 0 /\ 0 <= i64w (now - exitAt) /\ (rp = true \/ irs = true) /\ rp' = true /\ ts' = now /\ al = true /\
        gmode g' = (if full then c12_modeProbeBw else c12_modeStartup)) /\
     (gmode g = c12_modeProbeRtt -> gmode g' = c12_modeProbeRtt -> g' = g /\ al = true /\ ts' = ts)).
Proof. split; [exact exit_startup_or_drain_edges|exact probe_rtt_edges]. Qed.
Print Assumptions C12_mode_transitions.

(* (c) C12_cwnd_range and C12_pacing_floor re-established on the full model, no oracle: in every reachable state
   4*mds <= GetCongestionWindow <= maxCongestionWindow, and bandwidthForPacer() - PacingRate() computed by the model,
   float fallback `highGain * BandwidthFromDelta(initialCongestionWindow, getMinRtt())` included - is defined for
   every int64 value of rttStats.MinRTT() and is >= minBps = 65536 bytes/s. *)
Theorem C12_full_cwnd_range : forall P m icw mcw es st, params_ok m icw mcw -> fevs_ok m es ->
  frun P (new_full P m icw mcw) es = Ok st ->
  c12_minCongestionWindowPackets * mds (fw st) <= f_get_cwnd st <= maxCW (fw st) /\
  (forall rttMin, in64 rttMin -> exists bw, f_bw_for_pacer P st rttMin = Ok bw /\ c12_minBps <= bw).
Proof.
  intros P m icw mcw es st Hp He E. destruct (reachable_inv P m icw mcw es Hp He) as (st1 & E1 & I & _).
  rewrite E in E1. injection E1 as <-. split.
  - destruct I as (W & _). exact (get_cwnd_range (fw st) W).
  - intros rttMin Hr. exact (full_pacing_floor P st rttMin I Hr).
Qed.
Print Assumptions C12_full_cwnd_range.

(* (c) why: every step of the full model moves the window fields exactly as ONE step of layer 2's skeleton does, for
   the oracle values the full model computes (target window from gain x BDP, mode and full-bandwidth flag from the
   state machine, max ack height / excess / byte counts from the sampler) - so every layer 2 theorem proved "for all
   oracle values" (C12_cwnd_range, C12_cwnd_range_step) holds of the full model. *)
Theorem C12_full_refines_skeleton : forall P m icw mcw es e st st', params_ok m icw mcw ->
  fevs_ok m (es ++ [e]) -> frun P (new_full P m icw mcw) es = Ok st -> fstep P st e = Ok st' ->
  exists we, wstep (p_enableAckAgg P) (fw st) we = Ok (fw st') /\
    match e, we with
    | FSent _ bif pn _ _ _, WSent pn' bif' => pn' = pn /\ bif' = bif
    | FCong _ prior _ _ acked lost, WCong prior' sa sl la hl _ =>
        prior' = prior /\ sa = sum_bytes acked /\ sl = sum_bytes lost /\ la = last_acked_of acked /\ hl = negb (is_nil lost)
    | FSetMds s, WSetMds s' => s' = s
    | _, _ => False
    end.
Proof.
  intros P m icw mcw es e st st' Hp He E Es.
  destruct Hp as (Hm & Hi & Hx). destruct (new_full_inv P m icw mcw Hm Hi Hx) as (I0 & _).
  destruct (fevs_ok_split P es (new_full P m icw mcw) e st I0 He E) as (_ & Hev & I).
  destruct e as [now bif pn bytes retx rttMin|now prior rttMin rnd acked lost|s]; cbn [fstep] in Es.
  - destruct (f_sent_ok P st now bif pn bytes retx rttMin I Hev) as (st1 & E1 & _ & FW & _).
    rewrite Es in E1. injection E1 as <-. exists (WSent pn bif). cbn [wstep]. rewrite FW. split; [reflexivity|split; reflexivity].
  - destruct (f_cong_ok P st now prior rttMin rnd acked lost I Hev) as (st1 & E1 & _ & _ & _ & o & FW).
    rewrite Es in E1. injection E1 as <-.
    exists (WCong prior (sum_bytes acked) (sum_bytes lost) (last_acked_of acked) (negb (is_nil lost)) o).
    cbn [wstep]. rewrite FW. split; [reflexivity|repeat split; reflexivity].
  - unfold f_set_mds in Es. destruct (set_mds (fw st) s) as [w'| |] eqn:E1; cbn [bind] in Es; try discriminate.
    injection Es as <-. exists (WSetMds s). cbn [wstep fw]. split; [exact E1|reflexivity].
Qed.
Print Assumptions C12_full_refines_skeleton.

(* (d) Towards "does not deadlock", on the full model, PARTIAL.  In every reachable state:
   1. CanSend(b) holds for every b < 4*mds: since every outstanding packet is eventually acked or declared lost by
      QUIC and OnCongestionEventEx sets bytesInFlight to prior - acked - lost, draining the in-flight below four
      datagrams (in particular an ack or loss of everything outstanding) always re-enables sending, in every mode and
      recovery state, whatever the bandwidth samples were;
   2. the passage of time re-enables the pacer: for a sender seeded with a size <= InitialPacketSize (what
      seedPacketSize yields; the pacer starts at InitialPacketSize, so its datagram size is never below the sender's),
      either TimeUntilSend() is zero ("send now") or at the time it announces the budget covers one datagram of the
      SENDER's size - exactly what HasPacingBudget tests - for the pacing bandwidth the model computes (>= 64 KB/s by
      (c); the int64 products of the pacer need it below 1 TB/s).
   MISSING: that CanSend holds after an ack while more than 4 datagrams stay in flight (false in general: the window
   follows the target down), monotonicity of the budget after the wake-up time for arbitrarily late calls (the
   pacer's product bandwidth x elapsed can wrap), convergence / throughput (no theorem, simulator evidence only). *)
Theorem C12_full_never_stalled_partial : forall P m icw mcw es st, params_ok m icw mcw -> m <= c12_InitialPacketSize ->
  fevs_ok m es -> frun P (new_full P m icw mcw) es = Ok st ->
  (forall b, b < c12_minCongestionWindowPackets * mds (fw st) -> f_can_send st b = true) /\
  (forall rttMin bw, f_bw_for_pacer P st rttMin = Ok bw -> bw < 1000000000000 ->
     c12_minBps <= bw /\
     (pacer_time_until_send (fpc st) bw = 0 \/
      mds (fw st) <= pacer_budget (fpc st) bw (pacer_time_until_send (fpc st) bw))).
Proof.
  intros P m icw mcw es st Hp Hm He E. destruct (reachable_inv P m icw mcw es Hp He) as (st1 & E1 & I & PM).
  rewrite E in E1. injection E1 as <-. split.
  - intros b Hb. destruct I as (W & _). exact (can_send_below_min (fw st) b W Hb).
  - intros rttMin bw Eb Hbw. split.
    + unfold f_bw_for_pacer, bw_for_pacer_f in Eb. destruct (pacing_rate_f P (fw st) (fm st) rttMin); cbn [bind] in Eb; try discriminate.
      injection Eb as <-. apply pacer_floor.
    + exact (full_wakeup_has_budget P st rttMin bw I (PM Hm) Eb Hbw).
Qed.
Print Assumptions C12_full_never_stalled_partial.

(* non-vacuity of layer 3: a well-formed history on the conservative profile (overestimate avoidance: A0 candidates in
   use) - four packets (the first one sent with nothing in flight: the sampler's quiescence branch), an ack, a loss-only event, a datagram-size raise, another ack - runs to a state whose sampler
   has acked 2400 bytes and lost 1200 *)
Example C12_full_example :
  let es := [FSent 1000000 0 0 1200 true 0; FSent 1100000 2400 1 1200 true 0; FSent 1200000 3600 2 1200 true 0;
             FSent 1300000 4800 3 1200 true 0;
             FCong 21000000 4800 20000000 0 [(0, 1200)] [];
             FCong 45000000 3600 20000000 0 [] [(1, 1200)];
             FSetMds 1452;
             FCong 46000000 2400 20000000 3 [(2, 1200)] []] in
  params_ok 1200 (32 * 1200) (20000 * 1200) /\ fevs_ok 1200 es /\
  exists st, frun prof_conservative (new_full prof_conservative 1200 (32 * 1200) (20000 * 1200)) es = Ok st /\
    sm_totalAcked (fs st) = 2400 /\ sm_totalLost (fs st) = 1200 /\ mds (fw st) = 1452 /\ p_mds (fpc st) = 1452 /\
    mode (fw st) = c12_modeStartup /\ m_pacingRate (fm st) = 15360000 /\ cwnd (fw st) = 40800.
Proof.
  cbv zeta. split; [unfold params_ok; vm_compute; intuition discriminate|].
  split.
  - cbn [fevs_ok fev_ok]. unfold time_ok, in64, c12_MaxPacketBufferSize. repeat split; try lia; try (left; discriminate); try (right; discriminate).
  - eexists. split; [vm_compute; reflexivity|]. vm_compute. repeat split; reflexivity.
Qed.

(* ------------------------------------------------------------------ the long-run clauses (proof/C12_Late.v)
   (e) PROBE_RTT cannot pin the connection, at the level of whole OnCongestionEventEx calls of the full model: the
   min-RTT time stamp is only ever set to the time of the event at hand; PROBE_RTT is entered only when min_rtt is known
   and its stamp is more than minRttExpiry (10 s) old, and ENTERING as well as LEAVING PROBE_RTT refresh the stamp.
   (OnPacketSent and SetMaxDatagramSize do not touch mode or stamp.)  Hence, with a clock that does not go back, at
   least minRttExpiry passes between leaving PROBE_RTT and entering it again: the clause the harness checks on the real
   sender after every event (and at most 2 entries per 10 s). *)
Theorem C12_probe_rtt_spacing : forall P st now prior rttMin rnd acked lost st',
  f_cong P st now prior rttMin rnd acked lost = Ok st' ->
  (m_minRttTs (fm st') = m_minRttTs (fm st) \/ m_minRttTs (fm st') = now) /\
  (mode (fw st) <> c12_modeProbeRtt -> mode (fw st') = c12_modeProbeRtt ->
     m_minRtt (fm st) <> 0 /\ i64w (m_minRttTs (fm st) + c12_minRttExpiryNs) < now /\ m_minRttTs (fm st') = now) /\
  (mode (fw st) = c12_modeProbeRtt -> mode (fw st') <> c12_modeProbeRtt -> m_minRttTs (fm st') = now).
Proof. exact f_cong_min_rtt_stamp. Qed.
Print Assumptions C12_probe_rtt_spacing.

(* (f) "does not deadlock" at the pacer for LATE calls (after an application idle gap), extending
   C12_never_stalled_partial beyond the announced wake-up instant.  For a pacing bandwidth in [64 KB/s, 1 TB/s):
   1. while bandwidth x elapsed < 2^63 (no wrap) the budget never shrinks, so a call at any time at or after the
      announced wake-up time - immediately, when TimeUntilSend is zero - finds budget for a datagram;
   2. when the int64 product has wrapped to a value <= -(budgetAtLastSent+1)*10^9 the guard `if budget < 0` makes the
      budget a full burst (>= 10 datagrams).
   NOT covered (no theorem can hold there: the code's value is what is left of a wrapped product): bandwidth x elapsed
   in [2^64 k, 2^64 k + 2^63) for k >= 1 (wrapped back to a non-negative value) and the sliver of negative values above
   -(budgetAtLastSent+1)*10^9; the harness evaluates its verdict on resumes in those ranges as well. *)
Theorem C12_pacer_late_calls :
  (forall p bw now,
     c12_minBps <= bw < 1000000000000 -> 0 < p_mds p <= c12_MaxPacketBufferSize -> 0 <= p_budget p < 4611686018427387904 ->
     0 < p_last p -> p_last p <= now < 4611686018427387904 -> pacer_time_until_send p bw <= now ->
     bw * (now - p_last p) < two63 -> p_mds p <= pacer_budget p bw now) /\
  (forall p bw now,
     0 < p_mds p <= c12_MaxPacketBufferSize -> 0 < p_last p -> 0 <= p_budget p < 4611686018427387904 ->
     wrap64 (bw * wrap64 (now - p_last p)) <= - (1000000000 * (p_budget p + 1)) ->
     pacer_budget p bw now = max_burst p bw /\ 10 * p_mds p <= pacer_budget p bw now).
Proof. split; [exact pacer_late_has_budget|exact pacer_budget_wrapped_negative]. Qed.
Print Assumptions C12_pacer_late_calls.

(* The overflow guard must map a negative budget to "a lot", not to zero: with `min(maxBurstSize(), max(budget, 0))`,
   1.25 GB/s and a call 11 s after the last packet, TimeUntilSend names an instant 10.99 s in the past while the budget
   is ZERO (the real Budget is a full 5 MB burst): HasPacingBudget is false although nothing was sent for 11 s. *)
Theorem C12_pacer_negative_budget_must_not_clamp_to_zero :
  let p := mkP 0 1200 1000000000 in let bw := 1250000000 in let now := 12000000000 in
  pacer_time_until_send p bw = 1001000000 /\ pacer_time_until_send p bw < now /\
  wrap64 (bw * wrap64 (now - p_last p)) < 0 /\
  pacer_budget p bw now = 5000000 /\ pacer_budget_clamp0 p bw now = 0.
Proof. exact clamp0_deadlocks. Qed.
Print Assumptions C12_pacer_negative_budget_must_not_clamp_to_zero.

(* (g) "does not settle far below capacity" at the pacer: the pacer's timer wakes the send loop at most once per
   MinPacingDelay (1 ms), so the pacer sustains the bandwidth bw it is given only if a wake-up one MinPacingDelay after
   the last packet may release what bw delivers in that time (q).  For bw in [64 KB/s, 1 TB/s): the burst cap is at least
   4 q (the bandwidth-proportional term of maxBurstSize, computed in integer nanoseconds), the budget at that wake-up is
   exactly min(burst cap, budget left + q), hence at least q.  (With the fallback term alone - ten datagrams - the cap is a
   ceiling of 10 datagrams per wake-up, ~100 Mbit/s; the harness runs loss-free paths of 200 Mbit/s .. 2 Gbit/s for
   every profile and requires >= 50% of capacity in every 5 s window.) *)
Theorem C12_pacer_burst_sustains_rate : forall p bw,
  c12_minBps <= bw < 1000000000000 -> 0 < p_mds p <= c12_MaxPacketBufferSize ->
  0 < p_last p < 4611686018427387904 -> 0 <= p_budget p < 4611686018427387904 ->
  let q := c12_MinPacingDelayNs * bw / 1000000000 in
  4 * q <= max_burst p bw /\
  pacer_budget p bw (p_last p + c12_MinPacingDelayNs) = Z.min (max_burst p bw) (p_budget p + q) /\
  q <= pacer_budget p bw (p_last p + c12_MinPacingDelayNs).
Proof. exact pacer_burst_sustains_rate. Qed.
Print Assumptions C12_pacer_burst_sustains_rate.

(* (h) "does not settle far below capacity" at the target window, over the RTT dimension: getTargetCongestionWindow(gain) is
   gain x bdpFromRttAndBandwidth(min_rtt, bandwidth estimate) and falls back to gain x the initial window (32 datagrams)
   when that is zero.  Whenever min_rtt (ns) x bandwidth (bits/s) fits int64, the code's product is the exact floor of the
   path's bandwidth-delay product in bytes - for ANY min_rtt, sub-millisecond ones included -, so it holds n bytes as soon as
   the path does and it is zero only for a path holding less than one byte.  A version on whole milliseconds
   (rtt.Milliseconds() x bytes/s / 1000) is zero for EVERY min_rtt below 1 ms whatever the bandwidth: at 8 Gbit/s x 0.9 ms
   (703 datagrams in flight needed) the target window would stay at gain x 32 datagrams.  (The harness runs loss-free paths
   of 0.1..0.9 ms at 3..40 Gbit/s and of 0.5..2 s at 0.25..10 MB/s for every profile and requires >= 50% of capacity in
   every window.) *)
Theorem C12_bdp_exact :
  (forall rtt bw, 0 <= rtt -> 0 <= bw -> rtt * bw < 9223372036854775808 ->
     bdp_of rtt bw = rtt * bw / (c12_BytesPerSecond * 1000000000)) /\
  (forall rtt bw n, 0 <= rtt -> 0 <= bw -> rtt * bw < 9223372036854775808 -> 0 <= n ->
     n * (c12_BytesPerSecond * 1000000000) <= rtt * bw -> n <= bdp_of rtt bw) /\
  (forall rtt bw, 0 <= rtt -> 0 <= bw -> rtt * bw < 9223372036854775808 ->
     (bdp_of rtt bw = 0 <-> rtt * bw < c12_BytesPerSecond * 1000000000)) /\
  (forall rtt bw, 0 <= rtt < 1000000 -> bdp_of_ms rtt bw = 0) /\
  (bdp_of 900000 8000000000 = 900000 /\ bdp_of_ms 900000 8000000000 = 0).
Proof.
  change (c12_BytesPerSecond * 1000000000) with 8000000000.
  split; [exact bdp_exact|]. split; [exact bdp_at_least|]. split; [exact bdp_zero_iff|].
  split; [exact bdp_of_ms_sub_ms|exact bdp_ms_example].
Qed.
Print Assumptions C12_bdp_exact.
