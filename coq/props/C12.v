(* C12 - BBR survives any QUIC-consistent event sequence with sane outputs.
   Property theorems only; every proof is `exact <lemma>` (or a two-line combination) from proof/C12_*.v.
   Layer 1: the containers (ring buffer, packet-number-indexed queue, windowed filter). *)
From Hy Require Import lib.Res model.C12_Queue proof.C12_Ring proof.C12_PQ proof.C12_Layer1.
From Coq Require Import ZArith List Bool.
Import ListNotations.
Local Open Scope Z_scope.

(* ------------------------------------------------------------------ layer 1: RingBuffer *)

(* The ring buffer is a queue: under its representation invariant (established by Init, preserved
   by every operation) PushBack never panics and appends, growing by doubling only when full;
   PopFront / Front return the first element and panic exactly on the empty queue; Offset(k) for
   0 <= k < Len is the k-th element and a write through the returned pointer updates exactly it. *)
Theorem C12_ring_refines_queue : forall (T : Type) (zero : T),
  (forall n, rb_wf (rb_init zero n) /\ rb_list zero (rb_init zero n) = []) /\
  (forall r, rb_wf r -> rb_len r = length (rb_list zero r) /\ (rb_len r <= rb_cap r)%nat /\
                        (rb_empty r = true <-> rb_list zero r = [])) /\
  (forall r t, rb_wf r -> exists r', rb_push zero r t = Ok r' /\ rb_wf r' /\
       rb_list zero r' = rb_list zero r ++ [t] /\
       (rb_cap r' = rb_cap r \/
        (rb_len r = rb_cap r /\ rb_cap r' = (if (rb_cap r =? 0)%nat then 1 else 2 * rb_cap r)%nat))) /\
  (forall r x l, rb_wf r -> rb_list zero r = x :: l ->
       (exists r', rb_pop zero r = Ok (x, r') /\ rb_wf r' /\ rb_list zero r' = l /\ rb_cap r' = rb_cap r) /\
       (exists i, rb_front r = Ok i /\ rb_get zero r i = x)) /\
  (forall r, rb_wf r -> rb_list zero r = [] -> rb_pop zero r = Panic 2 /\ rb_front r = Panic 5) /\
  (forall r k, rb_wf r -> 0 <= k < Z.of_nat (rb_len r) ->
       exists i, rb_offset r k = Ok i /\ rb_get zero r i = nth (Z.to_nat k) (rb_list zero r) zero /\
         forall y, rb_wf (rb_set r i y) /\ rb_list zero (rb_set r i y) = upd (Z.to_nat k) y (rb_list zero r)).
Proof.
  intros T zero. split; [|split; [|split; [|split; [|split]]]].
  - intros n. split; [apply rb_init_wf|apply rb_init_list].
  - intros r W. split; [apply (rb_len_length T zero)|]. split; [now apply (rb_len_le_cap T r)|now apply (rb_empty_iff T zero r)].
  - intros r t W. now apply (rb_push_refines T zero).
  - intros r x l W HL. split; [now apply (rb_pop_refines T zero)|now apply (rb_front_refines T zero r x l)].
  - intros r W HL. split; [now apply (rb_pop_empty T zero)|now apply (rb_front_empty T zero)].
  - intros r k W Hk. destruct (rb_offset_refines T zero r k W Hk) as (i & E & _ & G & S).
    exists i. split; [exact E|]. split; [exact G|]. intros y. destruct (S y) as (A & B & _). auto.
Qed.
Print Assumptions C12_ring_refines_queue.

(* ------------------------------------------------------------------ layer 1: packetNumberIndexedQueue *)

(* For EVERY sequence of Emplace / Emplace(nil) / GetEntry / Remove / RemoveUpTo (packet numbers
   handed to Emplace non-negative, otherwise arbitrary: gaps, out-of-order and duplicate inserts,
   removals in any order), starting from newPacketNumberIndexedQueue(size) for any size, the
   implementation never panics and returns, step by step, exactly what the specification
   "first packet number + list of optional entries" returns, and ends in the abstraction of the
   specification's final state. *)
Theorem C12_queue_refines_spec : forall (T : Type) (zeroT : T) size ops,
  Forall (op_ok T) ops ->
  exists q, impl_run T zeroT (pq_new zeroT size) ops =
              Ok (q, snd (spec_run T (invalidPacketNumber, []) ops)) /\
            pq_wf T zeroT q /\
            pq_abs T zeroT q = fst (spec_run T (invalidPacketNumber, []) ops).
Proof.
  intros T zeroT size ops H.
  destruct (pq_new_wf T zeroT size) as (W & A).
  destruct (impl_run_refines T zeroT ops (pq_new zeroT size) W H) as (q & E & Wq & Aq).
  rewrite A in *. exists q. auto.
Qed.
Print Assumptions C12_queue_refines_spec.

(* The specification is a finite map from packet numbers to entries: a successful Emplace extends
   it at pn (a refused one changes nothing), Remove deletes pn, RemoveUpTo n deletes everything
   below n, and nothing else changes.  Stated on the implementation (GetEntry before / after). *)
Theorem C12_queue_is_finite_map : forall (T : Type) (zeroT : T) q, pq_wf T zeroT q ->
  (forall pn e q' b, 0 <= pn -> pq_emplace zeroT q pn (Some e) = Ok (q', b) ->
     forall pn', 0 <= pn' ->
       pq_get zeroT q' pn' = (if b && (pn' =? pn) then Ok (Some e) else pq_get zeroT q pn')) /\
  (forall pn q' r, pq_remove zeroT q pn = Ok (q', r) ->
     pq_get zeroT q pn = Ok r /\
     forall pn', 0 <= pn' -> pq_get zeroT q' pn' = (if pn' =? pn then Ok None else pq_get zeroT q pn')) /\
  (forall n q', pq_remove_upto zeroT q n = Ok q' ->
     forall pn', 0 <= pn' -> pq_get zeroT q' pn' = (if pn' <? n then Ok None else pq_get zeroT q pn')).
Proof.
  intros T zeroT q W. pose proof W as ((_ & _ & Hf) & Hh & _). split; [|split].
  - intros pn e q' b Hpn E pn' Hpn'.
    destruct (emplace_refines T zeroT q pn e W Hpn) as (q1 & E1 & W1 & A1).
    rewrite E in E1. injection E1 as <- Eb.
    rewrite (get_refines T zeroT q' pn' W1), (get_refines T zeroT q pn' W), A1.
    rewrite (spec_emplace_get T (pq_abs T zeroT q) pn e pn' Hpn Hpn' Hf), <- Eb.
    destruct b; simpl; [destruct (pn' =? pn)|]; reflexivity.
  - intros pn q' r E.
    destruct (remove_refines T zeroT q pn W) as (q1 & E1 & W1 & A1).
    rewrite E in E1. injection E1 as <- Er. split.
    + rewrite (get_refines T zeroT q pn W), Er. reflexivity.
    + intros pn' Hpn'. rewrite (get_refines T zeroT q' pn' W1), (get_refines T zeroT q pn' W), A1.
      rewrite (spec_remove_get T (pq_abs T zeroT q) pn pn' Hpn' Hf). destruct (pn' =? pn); reflexivity.
  - intros n q' E pn' Hpn'.
    destruct (remove_upto_refines T zeroT q n W) as (q1 & E1 & W1 & A1).
    rewrite E in E1. injection E1 as <-.
    rewrite (get_refines T zeroT q' pn' W1), (get_refines T zeroT q pn' W), A1.
    rewrite (spec_upto_get T (pq_abs T zeroT q) n pn' Hpn' Hf Hh). destruct (pn' <? n); reflexivity.
Qed.
Print Assumptions C12_queue_is_finite_map.

(* Bookkeeping is the live packet-number span: EntrySlotsUsed is 0 on an empty queue and
   LastPacket - FirstPacket + 1 otherwise; a successful Emplace(pn) makes pn the last packet (so
   slots = pn - first + 1, gaps included); after RemoveUpTo n no entry below n remains and, when
   anything remains, last is unchanged, first >= max(old first, n) and
   slots = last - first + 1 <= last - max(old first, n) + 1. *)
Theorem C12_queue_slots_are_span : forall (T : Type) (zeroT : T) q, pq_wf T zeroT q ->
  ((pq_is_empty q = true /\ pq_slots q = 0 /\ q_first q = invalidPacketNumber) \/
   (pq_is_empty q = false /\ 0 <= q_first q /\ pq_slots q = pq_last q - q_first q + 1 /\ 0 < pq_slots q)) /\
  (forall pn e q', 0 <= pn -> pq_emplace zeroT q pn (Some e) = Ok (q', true) ->
     pq_wf T zeroT q' /\ pq_last q' = pn /\ pq_slots q' = pn - q_first q' + 1 /\
     (pq_is_empty q = true \/ (pq_last q < pn /\ q_first q' = q_first q))) /\
  (forall n q', pq_remove_upto zeroT q n = Ok q' ->
     pq_wf T zeroT q' /\
     (forall pn, 0 <= pn -> pn < n -> pq_get zeroT q' pn = Ok None) /\
     (forall pn, 0 <= pn -> n <= pn -> pq_get zeroT q' pn = pq_get zeroT q pn) /\
     (pq_is_empty q' = false ->
        pq_last q' = pq_last q /\ n <= q_first q' /\ q_first q <= q_first q' /\
        pq_slots q' = pq_last q - q_first q' + 1 /\ pq_slots q' <= pq_last q - Z.max (q_first q) n + 1)).
Proof.
  intros T zeroT q W. split; [now apply (slots_span T zeroT)|]. split.
  - intros pn e q' Hpn E. now apply (emplace_last T zeroT q pn e q').
  - intros n q' E. now apply (upto_span T zeroT q n q').
Qed.
Print Assumptions C12_queue_slots_are_span.

(* ------------------------------------------------------------------ layer 1: WindowedFilter *)

(* Max filter (bandwidth over round trips), for every window length: if the three estimates are
   ordered (best >= second >= third, times non-decreasing) and the new time is not before the
   newest estimate, then after Update they are still ordered, the best estimate is at least the
   new sample, and the window length is unchanged.  (Update is a total function: three array
   slots, no index can go wrong - the model is a record of three entries.) *)
Theorem C12_filter_max_ordered : forall f s t, wmax_ord f -> snd (w2 f) <= t < two64 ->
  wmax_ord (wf_update 0 cmp_max f s t) /\ s <= wf_best (wf_update 0 cmp_max f s t) /\
  w_len (wf_update 0 cmp_max f s t) = w_len f.
Proof. exact wmax_update_ord. Qed.
Print Assumptions C12_filter_max_ordered.

(* non-vacuity: a concrete queue history with a gap, an out-of-order insert and removals *)
Example C12_queue_example :
  snd (spec_run Z (invalidPacketNumber, [])
         [OEmplace Z 3 30; OEmplace Z 6 60; OEmplace Z 5 50; OGet Z 4; OGet Z 6; ORemove Z 3; OUpTo Z 7; OGet Z 6]) =
  [RBool Z true; RBool Z true; RBool Z false; REntry Z None; REntry Z (Some 60); REntry Z (Some 30); RUnit Z; REntry Z None]
  /\ exists q, impl_run Z 0 (pq_new 0 2%nat)
         [OEmplace Z 3 30; OEmplace Z 6 60; OEmplace Z 5 50; OGet Z 4; OGet Z 6; ORemove Z 3; OUpTo Z 7; OGet Z 6] =
       Ok (q, [RBool Z true; RBool Z true; RBool Z false; REntry Z None; REntry Z (Some 60); REntry Z (Some 30); RUnit Z; REntry Z None])
       /\ pq_slots q = 0.
Proof. split; [vm_compute; reflexivity|]. eexists. split; vm_compute; reflexivity. Qed.
