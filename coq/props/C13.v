(* C13 - Salamander is transparent, spec-exact, and drops junk.
   Property theorems only; every proof is `exact <lemma>` from proof/C13_Salamander.v.
   H is the hash function: every theorem but the wire format holds for an arbitrary one.
   Model: model/C13_Salamander.v (new_obfs, obfuscate, deobfuscate, read_from/read_seq = the
   drop-and-retry loop of ReadFrom over a sequence of incoming datagrams/errors, write_to,
   run_readers = concurrent readers as a schedule of atomic loop iterations).
   Closed forms used in the statements (proof/C13_Salamander.v): xor_cycle k 0 p = p XOR k cycled,
   plain H psk w = the decoding of wire packet w, decoded, recv, net_item/item_ev/item_out. *)
From Hy Require Import lib.Bytes lib.Res lib.Blake2b model.C13_Salamander proof.C13_Salamander model.C13_Lock proof.C13_Lock.
From Coq Require Import ZArith.

(* Transparency, for ANY hash function: a packet of 1..2040 bytes written through a wrapper whose
   key was accepted, with any 8-byte salt, is returned unchanged (same bytes, same length, the
   sender's address, no error) by ReadFrom on a wrapper with the same key, and nothing is left over. *)
Theorem C13_transparent : forall (H : list byte -> list byte) psk o salt p plen addr,
  new_obfs psk = Ok o -> length salt = 8%nat -> (1 <= length p <= 2040)%nat -> (length p <= plen)%nat ->
  exists wire,
    write_to H o salt p None = Ok (wire, length p, None) /\
    read_from H o plen [mkEv wire addr None] = Ok (Some (mkR (length p) p addr None, [])).
Proof. exact transparent. Qed.
Print Assumptions C13_transparent.

(* Wire format, with H := BLAKE2b-256 of lib/Blake2b.v (RFC 7693; vectors there): the datagram
   handed to the network is the 8 salt bytes followed by c with |c| = |p| and
   c[i] = p[i] XOR BLAKE2b-256(key || salt)[i mod 32]. *)
Theorem C13_wire_format : forall psk salt p, length salt = 8%nat -> (length p <= 2040)%nat ->
  exists c,
    write_to blake2b256 psk salt p None = Ok (salt ++ c, length p, None) /\
    length c = length p /\
    length (blake2b256 (psk ++ salt)) = 32%nat /\
    forall i, (i < length p)%nat ->
      nth i c x00 = bxor (nth i p x00) (nth (i mod 32) (blake2b256 (psk ++ salt)) x00).
Proof. exact wire_format. Qed.
Print Assumptions C13_wire_format.

(* Counts, writer: WriteTo reports len(p) when the underlying write succeeds and 0 with the
   underlying error otherwise - for every p, oversize ones included. *)
Theorem C13_counts_write : forall (H : list byte -> list byte) psk salt p uerr, exists wire,
  write_to H psk salt p uerr = Ok (wire, match uerr with None => length p | Some _ => 0%nat end, uerr).
Proof. exact write_to_counts. Qed.
Print Assumptions C13_counts_write.

(* Counts, reader: every error-free return of a ReadFrom loop iteration comes from a datagram w
   (as cut to the 2048-byte read buffer) longer than 8 bytes and reports exactly |w| - 8 bytes,
   which are w's decoding, fit the caller's buffer, and carry w's source address. *)
Theorem C13_counts_read : forall (H : list byte -> list byte) psk plen e r,
  read_iter H psk plen e = Ok (Some r) -> r_err r = None ->
  let w := firstn 2048 (u_data e) in
  (8 < length w)%nat /\ r_n r = (length w - 8)%nat /\ r_data r = plain H psk w /\
  length (r_data r) = r_n r /\ (r_n r <= plen)%nat /\ r_addr r = u_addr e /\ u_err e = None.
Proof. exact counts_read. Qed.
Print Assumptions C13_counts_read.

(* Junk is invisible: for every sequence of incoming datagrams and errors, every position, and
   every sequence of caller buffer sizes, inserting a datagram of 0..8 bytes changes nothing of what
   the successive ReadFrom calls return. *)
Theorem C13_junk_invisible : forall (H : list byte -> list byte) psk evs1 evs2 j plens,
  u_err j = None -> (length (u_data j) <= 8)%nat ->
  read_seq H psk plens (evs1 ++ j :: evs2) = read_seq H psk plens (evs1 ++ evs2).
Proof. exact junk_invisible. Qed.
Print Assumptions C13_junk_invisible.

(* Drops junk: for every sequence ws of incoming (datagram, address) pairs, k successive ReadFrom
   calls (buffer >= 2040 bytes) return exactly the first k decodings of the datagrams longer than
   8 bytes, in order; datagrams of 0..8 bytes never surface. *)
Theorem C13_drops_junk : forall (H : list byte -> list byte) psk pl ws k, (2040 <= pl)%nat ->
  read_seq H psk (repeat pl k) (map recv ws) =
  Ok (firstn k (map (decoded H psk) (filter (fun w => Nat.ltb 8 (length (fst w))) ws))).
Proof. exact drops_junk. Qed.
Print Assumptions C13_drops_junk.

(* An underlying error always surfaces, unchanged, with the address the underlying conn gave. *)
Theorem C13_error_surfaces : forall (H : list byte -> list byte) psk plen e x, u_err e = Some x ->
  exists r, read_iter H psk plen e = Ok (Some r) /\ r_err r = Some x /\ r_addr r = u_addr e.
Proof. exact error_surfaces. Qed.
Print Assumptions C13_error_surfaces.

(* End to end: any mix, in any order, of packets written with the same key (any salts, payloads of
   1..2040 bytes) and junk of at most 8 bytes: the reader is given exactly the written payloads, in
   order, with their lengths and addresses - nothing else. *)
Theorem C13_end_to_end : forall (H : list byte -> list byte) psk pl items k,
  Forall (item_ok pl) items ->
  read_seq H psk (repeat pl k) (map (item_ev H psk) items) = Ok (firstn k (flat_map item_out items)).
Proof. exact end_to_end. Qed.
Print Assumptions C13_end_to_end.

(* Keys shorter than 4 bytes are refused; a key is accepted (and stored as is) iff it has >= 4 bytes. *)
Theorem C13_short_key_refused : forall psk, (length psk < 4)%nat -> new_obfs psk = Err EInvalid.
Proof. exact short_key_refused. Qed.
Print Assumptions C13_short_key_refused.

Theorem C13_key_accepted_iff : forall psk, new_obfs psk = Ok psk <-> (4 <= length psk)%nat.
Proof. exact key_accepted_iff. Qed.
Print Assumptions C13_key_accepted_iff.

(* The key rule is over bytes.  Whether a key is accepted or refused depends on the number of its bytes
   only - two keys of the same length are treated alike, whatever their bytes spell (multi-byte UTF-8
   sequences, bytes that are no UTF-8, NULs) -, and a key is refused exactly when it has fewer than 4. *)
Theorem C13_key_rule_bytes_only : forall psk psk', length psk = length psk' ->
  (new_obfs psk = Ok psk <-> new_obfs psk' = Ok psk') /\
  (new_obfs psk = Err EInvalid <-> new_obfs psk' = Err EInvalid).
Proof. exact key_rule_bytes_only. Qed.
Print Assumptions C13_key_rule_bytes_only.

Theorem C13_key_refused_iff : forall psk, new_obfs psk = Err EInvalid <-> (length psk < 4)%nat.
Proof. exact key_refused_iff. Qed.
Print Assumptions C13_key_refused_iff.

(* Every key of 4 or more bytes round-trips, for ANY hash function: it is accepted as it is, and a
   packet of 1..2040 bytes written with it (any 8-byte salt) comes back unchanged from a wrapper with
   the same key bytes.  (proof/C13_Salamander.v key_rule_is_not_characters / nonascii_key_wire_image:
   4-byte keys of one and two characters, with the wire image hashlib computes.) *)
Theorem C13_every_key_of_4_bytes_round_trips : forall (H : list byte -> list byte) psk salt p plen addr,
  (4 <= length psk)%nat -> length salt = 8%nat -> (1 <= length p <= 2040)%nat -> (length p <= plen)%nat ->
  new_obfs psk = Ok psk /\
  exists wire,
    write_to H psk salt p None = Ok (wire, length p, None) /\
    read_from H psk plen [mkEv wire addr None] = Ok (Some (mkR (length p) p addr None, [])).
Proof. exact any_key_round_trips. Qed.
Print Assumptions C13_every_key_of_4_bytes_round_trips.

(* No panic (for C03): Obfuscate, Deobfuscate, WriteTo and any sequence of ReadFrom calls over any
   incoming sequence return normally, whatever the peer-controlled bytes, buffer sizes and key. *)
Theorem C13_never_panics : forall (H : list byte -> list byte) psk salt p inp cap plens evs uerr,
  (exists r, obfuscate H psk salt p cap = Ok r) /\
  (exists r, deobfuscate H psk inp cap = Ok r) /\
  (exists r, write_to H psk salt p uerr = Ok r) /\
  (exists r, read_seq H psk plens evs = Ok r).
Proof. exact never_panics. Qed.
Print Assumptions C13_never_panics.

(* Schedules: with several goroutines in ReadFrom on one wrapped socket (a schedule = which reader
   runs each atomic loop iteration), the sequence of surfaced packets and the unread remainder are
   the same for all schedules of the same length ... *)
Theorem C13_schedule_independent : forall (H : list byte -> list byte) psk pl s1 s2 evs,
  length s1 = length s2 ->
  exists l1 l2 rest,
    run_readers H psk (fun _ => pl) s1 evs = Ok (l1, rest) /\
    run_readers H psk (fun _ => pl) s2 evs = Ok (l2, rest) /\
    map snd l1 = map snd l2.
Proof. exact schedule_independent. Qed.
Print Assumptions C13_schedule_independent.

(* ... and once the incoming queue is drained it is exactly what one sequential reader gets. *)
Theorem C13_concurrent_as_sequential : forall (H : list byte -> list byte) psk pl sched evs,
  (length evs <= length sched)%nat ->
  exists log,
    run_readers H psk (fun _ => pl) sched evs = Ok (log, []) /\
    read_seq H psk (repeat pl (S (length evs))) evs = Ok (map snd log).
Proof. exact concurrent_as_sequential. Qed.
Print Assumptions C13_concurrent_as_sequential.

(* Lock discipline (model/C13_Lock.v: WriteTo under writeMutex, each ReadFrom loop iteration under
   readMutex): for EVERY history of calls on one wrapped socket - writes of any length with any
   outcome of the socket below (success or any error), read iterations on any incoming datagram or
   error, in any order - started with both mutexes free, every call returns (none is Stuck), it
   returns exactly the value of the sequential model (write_to / read_iter, so the counts and wire
   format above apply to each), and both mutexes are free again at the end: a failed underlying
   write or read leaves the socket usable. *)
Theorem C13_locks_released : forall (H : list byte -> list byte) psk cs, exists rets,
  run_calls H psk cs free = Ok (rets, free) /\ Forall2 (ret_of H psk) cs rets /\ ~ In Stuck rets.
Proof. exact locks_released. Qed.
Print Assumptions C13_locks_released.

(* ... and the Stuck outcome is not vacuous: were writeMutex ever left held by a call that has
   returned, every later WriteTo of the history would be stuck and the mutex would stay held. *)
Theorem C13_leaked_write_lock_blocks : forall (H : list byte -> list byte) psk rd cs rets l,
  run_calls H psk cs (mkL rd true) = Ok (rets, l) ->
  wr_held l = true /\ Forall2 (fun c r => match c with CallW _ _ _ => r = Stuck | CallR _ _ => True end) cs rets.
Proof. exact leaked_write_lock_blocks. Qed.
Print Assumptions C13_leaked_write_lock_blocks.
