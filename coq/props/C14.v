(* C14 - Gecko reassembles handshake packets exactly with bounded state.
   Property theorems only; every proof is `exact <lemma>` from proof/C14_*.v.

   Sender: `write_to c ctr p o` = the datagrams WriteTo hands to the Salamander layer for packet p
   with the connection's message counter ctr and the crypto/rand draws o (any values).
   Receiver: the deterministic state machine of model/C14_Gecko.v; `run rbuf st acts` feeds a list
   of actions (Packet now src datagram tie_break | Tick now) to the state.  Time and the eviction
   tie-break (Go map order) are inputs chosen by the environment, so "forall acts" covers every
   stream of well- or ill-formed datagrams from any sources at any times. *)
From Hy Require Import model.C14_Gecko proof.C14_Gecko proof.C14_Sender proof.C14_Recv proof.C14_Round proof.C14_WriteErr.
From Hy Require Import corr.C14_Corr proof.C14_Isolation.
From Coq Require Import ZArith.
Local Open Scope Z_scope.

(* decodeFrame never panics, whatever bytes arrive (used by C03). *)
Theorem C14_decode_total : forall b, is_panic (decode_frame b) = false.
Proof. exact decode_no_panic. Qed.
Print Assumptions C14_decode_total.

(* Option validation: every accepted configuration has 0 < min <= max <= 2048. *)
Theorem C14_config : forall omin omax c, wrap_cfg omin omax = Some c -> cfg_ok c.
Proof. exact wrap_cfg_ok. Qed.
Print Assumptions C14_config.

(* Sender, long-header packet (any length >= 1, any counter value incl. the 8-bit and 32-bit wrap,
   any random draws): WriteTo never panics or errs, reports len(p), advances the counter, and sends
   n in 2..8 frames; frame i decodes to (message id = uint8(counter+1), index i, total n) with
   payload = chunk i of the packet cut in n pieces, the pieces concatenate to the packet, and the wire
   datagram (8-byte salt + frame) of every chunk that can fit lies in [min, max]. *)
Theorem C14_sender_frames : forall c ctr p o b0 t,
  cfg_ok c -> p = b0 :: t -> (N.land (b2n b0) 128 =? 0)%N = false ->
  exists fs n,
    write_to c ctr p o = Ok (fs, ((ctr + 1) mod 2 ^ 32)%N, zlen p) /\
    (2 <= n <= 8)%nat /\
    concat (split_spec p n) = p /\
    frames_ok c (((ctr + 1) mod 2 ^ 32) mod 256)%N (split_spec p n) fs.
Proof. exact sender_spec. Qed.
Print Assumptions C14_sender_frames.

(* Short-header packets are handed down unchanged as one datagram and consume no message id. *)
Theorem C14_sender_passthrough : forall c ctr p o b0 t,
  p = b0 :: t -> (N.land (b2n b0) 128 =? 0)%N = true -> write_to c ctr p o = Ok ([p], ctr, zlen p).
Proof. exact sender_passthrough. Qed.
Print Assumptions C14_sender_passthrough.

(* Inner write errors.  `write_to_f c ctr p o fail` = WriteTo when the inner conn's k-th WriteTo call
   (fail = Some k) returns an error.  For a long-header packet, any counter, any draws, ANY k: let fs be the
   n frames the fault-free call sends (C14_sender_frames: frame i = chunk i under message id
   uint8(counter+1)).  If k < n the call reports the error, exactly the frames before position k - a
   prefix of fs, all under that id - have reached the wire, and the message id stays CONSUMED: the counter is
   counter+1 exactly as after a successful write (it is not handed back); if k >= n the fault is never reached
   and the call is the fault-free one. *)
Theorem C14_write_error : forall c ctr p o k b0 t,
  cfg_ok c -> p = b0 :: t -> (N.land (b2n b0) 128 =? 0)%N = false ->
  exists fs n,
    (2 <= n <= 8)%nat /\ length fs = n /\
    concat (split_spec p n) = p /\
    frames_ok c (ctr_next ctr mod 256)%N (split_spec p n) fs /\
    write_to c ctr p o = Ok (fs, ctr_next ctr, zlen p) /\
    write_to_f c ctr p o None = Ok (mkW fs None (ctr_next ctr) (WDone (zlen p))) /\
    write_to_f c ctr p o (Some k) =
      Ok (if Nat.ltb k n
          then mkW (firstn k fs) (Some (nth k fs [])) (ctr_next ctr) WFail
          else mkW fs None (ctr_next ctr) (WDone (zlen p))).
Proof. exact write_error_spec. Qed.
Print Assumptions C14_write_error.

(* Message ids over ANY sequence of WriteTo calls on one conn (any packets - long-header, short-header,
   empty -, any draws, an inner write error at any position of any call): no call panics, and the i-th
   call, when it carries a long-header packet, runs under message id
   (start + number of long-header packets up to and including it) mod 256 (w_ctr is the counter it leaves;
   by C14_write_error its frames carry w_ctr mod 256).  Hence two long-header writes i < j use DIFFERENT
   ids unless the number of long-header writes in (i, j] is a multiple of 256 - in particular successive
   ones always differ, whether or not either of them (or anything in between) failed, so chunks orphaned
   by a failed write can never meet the chunks of a later message under the same reassembly key within
   256 messages (hypothesis (a) of C14_roundtrip_any_order / `conforms` of C14_no_chimera). *)
Theorem C14_ids_differ : forall c ctr ws i j,
  cfg_ok c -> (ctr < 2 ^ 32)%N -> (i < j < length ws)%nat ->
  exists outs, send_run c ctr ws = Ok outs /\ length outs = length ws /\
    forall d,
      (w_ctr (nth i outs d) mod 256 = (ctr + count_long (firstn (S i) ws)) mod 256)%N /\
      (w_ctr (nth j outs d) mod 256 = (ctr + count_long (firstn (S j) ws)) mod 256)%N /\
      (((count_long (firstn (S j) ws) - count_long (firstn (S i) ws)) mod 256 <> 0)%N ->
       (w_ctr (nth i outs d) mod 256 <> w_ctr (nth j outs d) mod 256)%N).
Proof. exact ids_differ. Qed.
Print Assumptions C14_ids_differ.

(* Size range: for every chunk length and every random draw the padding fits uint16 and, whenever
   salt + header + chunk <= max, the datagram size salt + header + pad + chunk is within [min, max]. *)
Theorem C14_size_range : forall c L r,
  cfg_ok c -> 0 <= L ->
  exists pl, pad_len c L r = Ok pl /\ (Z.of_N pl < 65536) /\
    (8 + 5 + L <= c_max c -> c_min c <= 8 + 5 + Z.of_N pl + L <= c_max c).
Proof. exact size_range. Qed.
Print Assumptions C14_size_range.

(* Frames of packets up to 2043 bytes fit the receiver's 2048-byte read buffer. *)
Theorem C14_frames_fit : forall c mid cs fs,
  cfg_ok c -> frames_ok c mid cs fs -> zlen (concat cs) <= 2043 -> forall f, In f fs -> zlen f <= 2048.
Proof. exact frames_fit. Qed.
Print Assumptions C14_frames_fit.

(* Round trip, any arrival order.  fs = the frames of one message (cs = its chunks, as produced by
   C14_sender_frames) sent from src under message id mid.  The receiver is in ANY reachable state
   without a stale entry under (src, mid).  acts = ANY action list in which every frame occurs at
   least once (any order, any duplication), interleaved with arbitrary other datagrams - frames of
   other messages and sources, garbage, short-header packets - and gc ticks, provided
   (a) datagrams from src that decode under id mid are frames of this message (distinct pending ids),
   (b) no gc tick later than T and no arrival earlier than T - 8 s (the message is not expired),
   (c) the table stays below 4096 entries, (d) src has at most 7 other pending messages counting
   those the interleaved frames open.
   Then the packet is returned byte-identical (up to the caller's buffer) at least once, every
   packet returned under that key is that packet (never a mixture), short-header datagrams are returned
   unchanged and undecodable ones are dropped (out_ok). *)
Theorem C14_roundtrip_any_order : forall c mid cs fs rbuf src T acts0 acts,
  frames_ok c mid cs fs -> (2 <= length cs)%nat -> (forall f, In f fs -> zlen f <= 2048) ->
  let st := fst (run rbuf r_init acts0) in
  tget (src, mid) st = None ->
  (forall now dg choice h pl, In (Packet now src dg choice) acts ->
     decode_frame (firstn 2048 dg) = Ok (h, pl) -> h_mid h = mid -> In dg fs) ->
  (forall f, In f fs -> exists now choice, In (Packet now src f choice) acts) ->
  Forall (timely T) acts ->
  zlen (tbl st) + Z.of_nat (length acts) < 4096 ->
  (others src mid st + foreign src mid acts <= 7)%nat ->
  let outs := snd (run rbuf st acts) in
  Exists (fun o => o = Some (src, firstn rbuf (concat cs))) outs /\
  Forall2 (out_ok (one_msg src mid cs) rbuf) acts outs.
Proof. exact roundtrip. Qed.
Print Assumptions C14_roundtrip_any_order.

(* No chimera / pass-through over every history from the empty state: M names the message
   travelling under each (source, message id) - i.e. pending messages of one source have distinct
   ids; ids re-used by a different message within its lifetime are outside the hypothesis.  If every
   datagram that decodes under a key of M is a frame of that message (anything else - other keys,
   garbage, any ticks, evictions, expiry - is unconstrained), then every datagram returned for a key
   of M is exactly that message, every short-header datagram is returned unchanged with its source,
   and empty or undecodable datagrams return nothing. *)
Theorem C14_no_chimera : forall (M : msgmap) rbuf acts,
  Forall (conforms M) acts ->
  Forall2 (out_ok M rbuf) acts (snd (run rbuf r_init acts)).
Proof. exact no_chimera. Qed.
Print Assumptions C14_no_chimera.

(* Census: after EVERY action sequence (any datagrams, any sources, any times, any tie-breaks),
   the per-source counter equals the number of table entries of that source, neither map has
   duplicate keys, and the counter map keeps no zero or negative entry. *)
Theorem C14_census : forall rbuf acts,
  let st := fst (run rbuf r_init acts) in
  NoDup (map fst (tbl st)) /\ NoDup (map fst (per st)) /\
  (forall s, pget s st = Z.of_nat (count_src s st)) /\
  (forall s c, In (s, c) (per st) -> 0 < c).
Proof. exact census_always. Qed.
Print Assumptions C14_census.

(* Bounds, whatever an attacker sends: at most 8 pending messages per source, 4096 overall. *)
Theorem C14_bounds : forall rbuf acts,
  let st := fst (run rbuf r_init acts) in
  (forall s, (count_src s st <= 8)%nat /\ pget s st <= 8) /\ (length (tbl st) <= 4096)%nat.
Proof. exact bounds_always. Qed.
Print Assumptions C14_bounds.

(* TTL sweep: gcExpired(now) removes exactly the entries whose deadline is before now and leaves
   every other entry untouched (nothing is forgotten early). *)
Theorem C14_ttl_sweep : forall rbuf acts now k,
  let st := fst (run rbuf r_init acts) in
  tget k (fst (step rbuf st (Tick now))) =
  match tget k st with Some e => if e_deadline e <? now then None else Some e | None => None end.
Proof. exact ttl_sweep. Qed.
Print Assumptions C14_ttl_sweep.

(* The deadline of an entry is fixed when it is created (arrival time + 8 s) and never moves:
   with C14_ttl_sweep, an incomplete message first seen at time t is gone after the first Tick
   later than t + 8 s. *)
Theorem C14_ttl_deadline : forall rbuf acts now src dg choice k e',
  let st := fst (run rbuf r_init acts) in
  tget k (fst (step rbuf st (Packet now src dg choice))) = Some e' ->
  match tget k st with
  | Some e => e_deadline e' = e_deadline e
  | None => e_deadline e' = now + 8000000000
  end.
Proof. exact ttl_deadline. Qed.
Print Assumptions C14_ttl_deadline.

(* The gc loop ticks at every multiple of 4 s: some tick falls in (d, d + 4 s] for any deadline d. *)
Theorem C14_ttl_tick : forall t0 d,
  0 <= t0 <= d -> exists t, In t (ticks_between t0 (d + 4000000000)) /\ d < t <= d + 4000000000.
Proof. exact tick_after_deadline. Qed.
Print Assumptions C14_ttl_tick.

(* No lock-out: in every reachable state a well-formed frame that opens a new message is admitted
   whenever its source really has fewer than 8 pending messages, and it is refused (state unchanged)
   only when the table really holds 8 entries of that source. *)
Theorem C14_no_lockout : forall rbuf acts now src dg choice h pl,
  let st := fst (run rbuf r_init acts) in
  decode_frame (firstn 2048 dg) = Ok (h, pl) ->
  tget (src, h_mid h) st = None ->
  ((count_src src st < 8)%nat ->
     exists e, tget (src, h_mid h) (fst (step rbuf st (Packet now src dg choice))) = Some e) /\
  ((count_src src st >= 8)%nat ->
     step rbuf st (Packet now src dg choice) = (st, None)).
Proof. exact no_lockout. Qed.
Print Assumptions C14_no_lockout.

(* Source names are String() values.  The correspondence check gives the rows of a case's source-address
   table (names = the String() of each row as the Go standard library computed it) their model name through
   src_name: two rows get the SAME name exactly when their strings are equal - so addresses that differ only
   in the IPv6 zone, the port, one address byte, the Go type behind net.Addr ... are different sources as soon
   as String() differs, and addresses with one String() (an IPv4 address and its IPv4-mapped form, a
   *net.UDPAddr and a custom net.Addr printing the same text) are one source - and every row has a name. *)
Theorem C14_source_names : forall names i j a b,
  names <> [] -> src_name names i = Some a -> src_name names j = Some b ->
  (a = b <-> nth_error names (N.to_nat i) = nth_error names (N.to_nat j)).
Proof. exact src_name_inj. Qed.
Print Assumptions C14_source_names.

(* Cross-source interleaving.  From ANY reachable state and for ANY history acts (any datagrams - well-formed
   or not, equal message ids, equal chunk counts -, any source names, any times and gc ticks, any interleaving)
   that keeps the table below the global cap of 4096 (where the oldest-entry eviction, by design, couples the
   sources): delete from the history every datagram whose source name differs from s.  Then the receiver
   returns, at the positions of the datagrams of s and of the ticks, exactly what it returned in the full
   history (outs_of = those positions), it holds exactly the same pending messages for s (every message id),
   and the per-source budget of s is the same.  Source names are only ever compared for equality. *)
Theorem C14_source_isolation : forall rbuf s acts0 acts,
  let st := fst (run rbuf r_init acts0) in
  zlen (tbl st) + zlen acts < 4096 ->
  let full := run rbuf st acts in
  let alone := run rbuf st (filter (of_src s) acts) in
  outs_of s acts (snd full) = snd alone /\
  (forall m, tget (s, m) (fst full) = tget (s, m) (fst alone)) /\
  pget s (fst full) = pget s (fst alone).
Proof. exact source_isolation. Qed.
Print Assumptions C14_source_isolation.

(* Attribution: whatever is returned for source s is returned at the position of a datagram that came from s
   (any state, any history, caps and evictions included). *)
Theorem C14_output_attribution : forall rbuf acts st s b n,
  nth_error (snd (run rbuf st acts)) n = Some (Some (s, b)) ->
  exists a, nth_error acts n = Some a /\ of_src s a = true.
Proof. exact outs_attributed. Qed.
Print Assumptions C14_output_attribution.
