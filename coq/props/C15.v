(* C15 - Traffic stats API conserves bytes; kick and online counts are exact.
   Property theorems only; every proof is `exact <lemma>` from proof/C15_Stats.v (lib/Lin.v for
   the linearizability checker).

   The model (model/C15_Stats.v) is an atomic object whose operations are the mutex critical
   sections of extras/trafficlogger/http.go, so "for all operation sequences" below is "for all
   interleavings of LogTraffic, LogOnlineState, GET /traffic (with and without clear),
   POST /kick and GET /online".  No bound on lengths, ids or byte counts. *)
From Hy Require Import lib.Lin model.C15_Stats proof.C15_Stats model.C15_Sites proof.C15_Sites.
From Hy Require Import model.C15_FromC01 proof.C15_FromC01.
From Hy Require Import model.C15_Pending proof.C15_Pending.
From Hy Require Import model.C15_Copy proof.C15_Copy.
From Coq Require Import ZArith Permutation.
Local Open Scope N_scope.

(* Conservation.  Per user i and direction d, over every run from the empty server:
   (sum of what the clearing snapshots showed) + (what a final snapshot shows)
   = (sum of the bytes of i's accepted reports), modulo 2^64 always, and as plain numbers when
   the accepted total is below 2^64.  Refused reports are not in the right-hand side. *)
Theorem C15_conservation : forall ops s' rs d i,
  run init_state ops = (s', rs) ->
  (cleared_sum d i ops rs + shown d i (stats s')) mod W64 = allowed_sum d i ops rs mod W64 /\
  (allowed_sum d i ops rs < W64 ->
   cleared_sum d i ops rs + shown d i (stats s') = allowed_sum d i ops rs).
Proof. exact conservation. Qed.
Print Assumptions C15_conservation.

(* The same from an arbitrary state (what that state already shows is carried over). *)
Theorem C15_conservation_any_state : forall ops s s' rs d i,
  run s ops = (s', rs) ->
  (cleared_sum d i ops rs + shown d i (stats s')) mod W64 =
  (shown d i (stats s) + allowed_sum d i ops rs) mod W64 /\
  (shown d i (stats s) + allowed_sum d i ops rs < W64 ->
   cleared_sum d i ops rs + shown d i (stats s') = shown d i (stats s) + allowed_sum d i ops rs).
Proof. exact conservation_any_state. Qed.
Print Assumptions C15_conservation_any_state.

(* A snapshot shows the counters as they are; with clear it also empties them in the same
   step (nothing can be logged in between), without clear it changes nothing. *)
Theorem C15_snapshot_atomic : forall s c,
  step s (OTraffic c) = ((if c then mkState [] (kick s) (online s) else s), RStats (stats s)).
Proof. exact snapshot_step. Qed.
Print Assumptions C15_snapshot_atomic.

(* A refused report adds nothing, was caused by a pending kick, and consumes it. *)
Theorem C15_refused_adds_nothing : forall s i tx rx s',
  step s (OLog i tx rx) = (s', RBool false) ->
  stats s' = stats s /\ online s' = online s /\ mem i (kick s) = true /\ mem i (kick s') = false.
Proof. exact refused_adds_nothing. Qed.
Print Assumptions C15_refused_adds_nothing.

(* Kick, complete characterisation: after any operations `pre` from any state, a report of user i
   is accepted iff no kick of i is pending, where a kick becomes pending at a Kick listing i
   and stops being pending at i's next report (kick_pending in the model file). *)
Theorem C15_kick_exact : forall pre s s1 rs i tx rx,
  run s pre = (s1, rs) ->
  snd (step s1 (OLog i tx rx)) = RBool (negb (kick_pending i (mem i (kick s)) pre)).
Proof. exact kick_exact. Qed.
Print Assumptions C15_kick_exact.

(* Kick exactly once: Kick ids with i among them; then anything except a report of i (more
   kicks of i included - they collapse); i's next report is refused; then anything except a kick
   or a report of i; the report after that is accepted.  From every state, whatever follows. *)
Theorem C15_kick_exactly_once : forall s ids i mid1 a b mid2 c d post,
  mem i ids = true -> no_log i mid1 -> no_log i mid2 -> no_kick i mid2 ->
  let ops := OKick ids :: mid1 ++ OLog i a b :: mid2 ++ OLog i c d :: post in
  let rs := snd (run s ops) in
  nth (1 + List.length mid1) rs RUnit = RBool false /\
  nth (1 + List.length mid1 + 1 + List.length mid2) rs RUnit = RBool true.
Proof. exact kick_exactly_once. Qed.
Print Assumptions C15_kick_exactly_once.

(* Other users are unaffected: a user with no pending kick whom nobody kicks is never refused. *)
Theorem C15_unkicked_never_refused : forall pre s i tx rx post,
  mem i (kick s) = false -> no_kick i pre ->
  nth (List.length pre) (snd (run s (pre ++ OLog i tx rx :: post))) RUnit = RBool true.
Proof. exact never_kicked_never_refused. Qed.
Print Assumptions C15_unkicked_never_refused.

(* Online, general: for every notification sequence (fewer than 2^63 "online" for the user: Go int),
   the listing holds exactly the count the property describes - up on online, down on offline,
   an offline at zero absorbed - with the entry absent at zero and never a non-positive entry. *)
Theorem C15_online_listing : forall ops s' rs i,
  run init_state ops = (s', rs) -> (ups i ops < P63)%Z ->
  let c := live_count i 0 ops in
  (0 <= c)%Z /\ get i (online s') = (if (c =? 0)%Z then None else Some c) /\
  (forall v, get i (online s') = Some v -> (0 < v)%Z).
Proof. exact online_listing. Qed.
Print Assumptions C15_online_listing.

(* Online, the property's clause: when no prefix has more offline than online notifications for
   the user (what core/server guarantees: one online per accepted auth, one offline when that
   connection's handler returns), GET /online shows exactly #online - #offline, nothing at zero. *)
Theorem C15_online_exact : forall ops s' rs i,
  run init_state ops = (s', rs) -> (ups i ops < P63)%Z -> paired i ops ->
  let c := balance i ops in
  (0 <= c)%Z /\ get i (online s') = (if (c =? 0)%Z then None else Some c) /\
  snd (step s' OGetOnline) = ROnline (online s') /\ fst (step s' OGetOnline) = s'.
Proof. exact online_exact. Qed.
Print Assumptions C15_online_exact.

(* Not stale after a disconnect: connect then disconnect restores the user's listing exactly
   (in particular a user with no other connection disappears from it). *)
Theorem C15_online_not_stale : forall s i,
  match get i (online s) with Some v => (0 < v < P63 - 1)%Z | None => True end ->
  let s2 := fst (step (fst (step s (OOnline i true))) (OOnline i false)) in
  get i (online s2) = get i (online s).
Proof. exact online_not_stale. Qed.
Print Assumptions C15_online_not_stale.

(* The HTTP front and the logger methods are a thin layer: every call either performs exactly
   one object operation and shows its response, or leaves the object alone and answers with an
   error / the index page / the stream dump. *)
Theorem C15_calls_refine_object : forall secret s c,
  match call_op secret c with
  | Some o => fst (call_step secret s c) = fst (step s o) /\
              view (snd (step s o)) (snd (call_step secret s c))
  | None => fst (call_step secret s c) = s /\ inert (snd (call_step secret s c))
  end.
Proof. exact call_refines. Qed.
Print Assumptions C15_calls_refine_object.

(* With a secret configured, a request without it is answered 401 and touches nothing. *)
Theorem C15_unauthorized_inert : forall secret s r,
  secret <> ""%string -> r_auth r <> secret ->
  http_step secret s r = (s, (StatusUnauthorized, BError)).
Proof. exact unauthorized_inert. Qed.
Print Assumptions C15_unauthorized_inert.

(* No HTTP request changes the online map; only GET /traffic with a true `clear` empties the
   counters (and only by emptying them); only POST /kick changes the kick set. *)
Theorem C15_http_effects : forall secret s r,
  let s' := fst (http_step secret s r) in
  online s' = online s /\
  (stats s' = stats s \/ (stats s' = [] /\ route secret r = RtTraffic /\ parse_bool (r_clear r) = true)) /\
  (kick s' = kick s \/ route secret r = RtKick).
Proof. exact http_effects. Qed.
Print Assumptions C15_http_effects.

(* Concurrency: a recorded history accepted by the checker used in the correspondence stage has
   a sequential order that respects real time and on which the model gives the recorded
   responses - so the theorems above speak about it. *)
Theorem C15_lin_check_sound : forall (sp : spec) (h : list (event (Op sp) (Resp sp))),
  lin_check sp h = true ->
  exists l, Permutation l h /\ rt_ok sp l /\ seq_ok sp (init sp) l = true.
Proof. exact lin_check_sound. Qed.
Print Assumptions C15_lin_check_sound.

(* ... and the checker is not stricter than the definition: a LinNo verdict (as opposed to an
   exhausted budget) means that no such order exists. *)
Theorem C15_lin_search_complete : forall (sp : spec) budget (h : list (event (Op sp) (Resp sp))),
  lin_search sp budget h = LinNo ->
  ~ exists l, Permutation l h /\ rt_ok sp l /\ seq_ok sp (init sp) l = true.
Proof. exact lin_search_complete. Qed.
Print Assumptions C15_lin_search_complete.

(* ---------- the report sites of core/server: "POST /kick ... which disconnects them" ----------
   model/C15_Sites.v: the stats object plus the authenticated QUIC connections of the hysteria
   server, and the code that follows each of the four LogTraffic call sites (TCP upload, TCP
   download, UDP upload = udpIOImpl.ReceiveMessage, UDP download = udpIOImpl.SendMessage). *)

(* At every one of the four sites a refused report closes the QUIC connection (for the two TCP
   sites: when this direction's errDisconnect is the first value to reach copyTwoWayEx's channel;
   the other case is the open finding recorded for C06), an accepted one never does. *)
Theorem C15_refused_report_closes_at_every_site : forall st ok other,
  (is_tcp st = true -> other = false) ->
  (site_action st ok other = CloseConn <-> ok = false).
Proof.
  intros st ok other H. split; [apply site_closes_only_refused|].
  intros ->. apply site_refused_closes. exact H.
Qed.
Print Assumptions C15_refused_report_closes_at_every_site.

(* A report made on an open connection is refused iff a kick of its user is pending ... *)
Theorem C15_report_result : forall secret w slot st n other c,
  nth_error (conns w) slot = Some c -> c_open c = true ->
  snd (wstep secret w (EReport slot st n other)) = WBool (negb (mem (c_id c) (kick (logger w)))).
Proof. exact report_result. Qed.
Print Assumptions C15_report_result.

(* ... a refused one closes exactly that connection (same user, still to be reported offline),
   leaves every other connection alone, adds no bytes, touches no online count and consumes
   the kick ... *)
Theorem C15_refused_report_disconnects : forall secret w slot st n other c w',
  nth_error (conns w) slot = Some c -> c_open c = true ->
  (is_tcp st = true -> other = false) ->
  wstep secret w (EReport slot st n other) = (w', WBool false) ->
  conns w' = upd slot close_conn (conns w) /\
  stats (logger w') = stats (logger w) /\ online (logger w') = online (logger w) /\
  mem (c_id c) (kick (logger w)) = true /\ mem (c_id c) (kick (logger w')) = false.
Proof. exact report_refused. Qed.
Print Assumptions C15_refused_report_disconnects.

(* ... an accepted one closes nothing, and a closed connection reports nothing any more. *)
Theorem C15_accepted_report_keeps_connections : forall secret w slot st n other w',
  wstep secret w (EReport slot st n other) = (w', WBool true) -> conns w' = conns w.
Proof. exact report_accepted. Qed.
Print Assumptions C15_accepted_report_keeps_connections.

Theorem C15_closed_connection_reports_nothing : forall secret w slot st n other c,
  nth_error (conns w) slot = Some c -> c_open c = false ->
  wstep secret w (EReport slot st n other) = (w, WNone).
Proof. exact closed_reports_nothing. Qed.
Print Assumptions C15_closed_connection_reports_nothing.

(* Census, for every sequence of server events (authentications in one step or in the auth handler's
   atomic steps - enter Authenticate / store the flag or reject / announce - with the connection dying
   at any point in between, further - also concurrent - auth requests on an authenticated connection,
   reports at any site, client closes, handler returns, API requests; a further auth request changes
   nothing: last clause): GET /online lists for every user exactly the announced connections whose
   handleClient has not yet reported offline; that is never less than the user's live authenticated
   (open and announced: nopen) connections and, once the handlers of all closed connections have
   returned, exactly them. *)
Theorem C15_census : forall secret evs i,
  (Z.of_nat (List.length evs) < P63)%Z ->
  let w := wrun secret init_world evs in
  let c := nlisted i (conns w) in
  (0 <= c)%Z /\ get i (online (logger w)) = (if (c =? 0)%Z then None else Some c) /\
  snd (wstep secret w (EHttp (mkReq secret "GET" "/online" "" None))) =
    WHttp StatusOK (BOnline (online (logger w))) /\
  (nopen i (conns w) <= c)%Z /\ (quiescent (conns w) -> c = nopen i (conns w)) /\
  (forall slot j, fst (wstep secret w (EAuthAgain slot j)) = w).
Proof. exact census. Qed.
Print Assumptions C15_census.

(* The last clause needs the whole auth handler to be one atomic section per request (authMutex).  In
   the variant where the mutex covers only the stores, a second request in flight on the same
   connection runs the success branch too: one connection is listed twice, and once for ever after it
   has disconnected and its handler has returned. *)
Theorem C15_auth_not_atomic_refuted : forall secret,
  let w0 := wrun secret init_world [EAuth 0%N] in
  let w1 := auth_again_unlocked w0 0 in
  let w2 := wrun secret w1 [EClientClose 0; EHandlerReturn 0] in
  nlisted 0%N (conns w1) = 1%Z /\ get 0%N (online (logger w1)) = Some 2%Z /\
  nopen 0%N (conns w2) = 0%Z /\ nlisted 0%N (conns w2) = 0%Z /\ get 0%N (online (logger w2)) = Some 1%Z.
Proof. exact auth_unlocked_refuted. Qed.
Print Assumptions C15_auth_not_atomic_refuted.

(* Kick disconnects, end to end: in any reachable world, if a kick of a user is pending, that
   user's next report - at whichever site, on whichever of its open connections (c_ann: whose auth
   handler has announced it and returned - a connection still inside its auth handler is covered by
   C15_notifications_paired: its handleClient waits for the handler) - is refused,
   that connection is closed and reports nothing any more, its handler returns, and then the user
   has one open connection less, GET /online shows one less (no entry at zero), the kick is used
   up, no byte was added and every other connection is as it was. *)
Theorem C15_kick_disconnects : forall secret evs slot c st n other,
  (Z.of_nat (List.length evs) + 2 < P63)%Z ->
  let w := wrun secret init_world evs in
  nth_error (conns w) slot = Some c -> c_open c = true -> c_ann c = true ->
  mem (c_id c) (kick (logger w)) = true ->
  (is_tcp st = true -> other = false) ->
  let i := c_id c in
  let w1 := fst (wstep secret w (EReport slot st n other)) in
  let w2 := fst (wstep secret w1 (EHandlerReturn slot)) in
  snd (wstep secret w (EReport slot st n other)) = WBool false /\
  is_open slot w1 = false /\
  wstep secret w1 (EReport slot st n other) = (w1, WNone) /\
  snd (wstep secret w1 (EHandlerReturn slot)) = WUnit /\
  nopen i (conns w2) = (nopen i (conns w) - 1)%Z /\
  (let k := (nlisted i (conns w) - 1)%Z in
   (0 <= k)%Z /\ get i (online (logger w2)) = (if (k =? 0)%Z then None else Some k)) /\
  mem i (kick (logger w2)) = false /\ stats (logger w2) = stats (logger w) /\
  (forall j, j <> slot -> nth_error (conns w2) j = nth_error (conns w) j).
Proof. exact kick_disconnects. Qed.
Print Assumptions C15_kick_disconnects.

(* Pairing of the notifications (what C15_online_exact assumes of core/server as `paired`), for every
   sequence of server events, the auth handler taken in its atomic steps and the connection dying at
   any point of them (closed while the Authenticator is still deciding, between the store of the flag
   and the announcement, after it): the stats object has seen exactly the recorded LogOnlineState calls;
   for every connection these are nothing, or one online, or one online followed by one offline - never
   an offline without or before the online of that connection, never two of a kind; per user no prefix
   has more offline than online calls, and #online - #offline is the number of announced connections
   whose handleClient has not reported offline yet (never negative). *)
Theorem C15_notifications_paired : forall secret evs,
  let w := wrun secret init_world evs in
  let tr := wtrace secret init_world evs in
  online (logger w) = online (fst (run init_state (note_ops tr))) /\
  (forall k, conn_notes k tr = [] \/
             exists i, conn_notes k tr = [(i, true)] \/ conn_notes k tr = [(i, true); (i, false)]) /\
  (forall i, paired i (note_ops tr)) /\
  (forall i, balance i (note_ops tr) = nlisted i (conns w) /\ (0 <= nlisted i (conns w))%Z).
Proof. exact notifications_paired. Qed.
Print Assumptions C15_notifications_paired.

(* That rests on two facts of the code: handleClient continues only when no request handler of the
   connection is in flight (http3 handleConn waits for them), and the auth handler announces
   unconditionally once it has stored the flag.  In the variant where the handler returns without
   announcing a client that went away while the Authenticator was deciding - after the store - the
   connection is reported offline without ever having been reported online, and the decrement comes
   out of the user's other, live connection: one live authenticated connection, no entry in the listing. *)
Theorem C15_unannounced_return_refuted : forall secret,
  let w0 := wrun secret init_world [EAuth 0%N; EAuthBegin 0%N; EClientClose 1; EAuthDecide 1 true] in
  let w1 := return_unannounced w0 1 in
  let w2 := fst (wstep secret w1 (EHandlerReturn 1)) in
  wnote w1 (EHandlerReturn 1) = [(1%nat, (0%N, false))] /\
  conn_notes 1 (wtrace secret init_world [EAuth 0%N; EAuthBegin 0%N; EClientClose 1; EAuthDecide 1 true]) = [] /\
  nopen 0%N (conns w2) = 1%Z /\ get 0%N (online (logger w2)) = None.
Proof. exact unannounced_return_refuted. Qed.
Print Assumptions C15_unannounced_return_refuted.

(* ---------- composition with C01: the `paired` hypothesis of C15_online_exact discharged from C01's server model ----------
   model/C15_FromC01.v: A = model/C01_ServerAuth.v (the server as a labelled transition system over the atomic sections
   of ServeHTTP / handleClient, any number of connections), S = model/C15_Stats.v (this object).  online_ops enc tr = the
   LogOnlineState calls in the trace tr of a run of A, as operations of S, user ids numbered by enc (any function). *)

(* For every run of C01's server model from its initial state (any interleaving of any connections' requests, verdicts,
   streams, datagrams, closes): the LogOnlineState calls it emits satisfy `paired` for every user (no prefix has more
   offline than online calls), #online - #offline is the number of connections authenticated as that user whose
   handleClient has not run its tail, and there are at most as many online calls as actions (the 2^63 side condition
   of C15_online_exact holds for every run shorter than 2^63 actions). *)
Theorem C15_paired_from_C01_run : forall enc cfg masq acts s tr i,
  A.run cfg masq A.init acts = Some (s, tr) ->
  paired i (online_ops enc tr) /\
  balance i (online_ops enc tr) = nlive enc s i (conns_of acts) /\
  (ups i (online_ops enc tr) <= Z.of_nat (List.length acts))%Z.
Proof. exact online_from_c01_run. Qed.
Print Assumptions C15_paired_from_C01_run.

(* Hence, with no pairing hypothesis left: after ANY run of the server model, a stats object that has performed exactly the
   run's LogOnlineState calls - interleaved in any way with any other operations (LogTraffic reports, GET /traffic,
   POST /kick, GET /online) - answers GET /online, for every id string, with exactly the number of connections that are
   authenticated with that id and not yet closed (handleClient's tail not run), and lists no entry at zero.
   enc = the numbering of id strings, any injective function. *)
Theorem C15_online_listing_after_C01_run : forall enc cfg masq acts s tr ops st rs id,
  (forall a b, enc a = enc b -> a = b) ->
  A.run cfg masq A.init acts = Some (s, tr) ->
  only_online ops = online_ops enc tr ->
  run init_state ops = (st, rs) ->
  (Z.of_nat (List.length acts) < P63)%Z ->
  let c := nauth s id (conns_of acts) in
  step st OGetOnline = (st, ROnline (online st)) /\
  get (enc id) (online st) = (if (c =? 0)%Z then None else Some c).
Proof. exact listing_counts_authenticated. Qed.
Print Assumptions C15_online_listing_after_C01_run.

(* The same for an arbitrary (not necessarily injective) numbering: users whose id strings are numbered alike are
   counted together. *)
Theorem C15_online_listing_after_C01_run_any_numbering : forall enc cfg masq acts s tr ops st rs i,
  A.run cfg masq A.init acts = Some (s, tr) ->
  only_online ops = online_ops enc tr ->
  run init_state ops = (st, rs) ->
  (Z.of_nat (List.length acts) < P63)%Z ->
  let c := nlive enc s i (conns_of acts) in
  get i (online st) = (if (c =? 0)%Z then None else Some c) /\
  step st OGetOnline = (st, ROnline (online st)).
Proof. exact listing_from_c01_run. Qed.
Print Assumptions C15_online_listing_after_C01_run_any_numbering.

(* ---------------- request goroutines and the end of a connection (model/C15_Pending.v) ---------------- *)

(* "Not stale after a disconnect" - the clause about what handleClient's continuation may depend on.  A connection's
   proxy requests run in goroutines of their own (hijacked streams) that may sit in an outbound dial for any time.
   For every state: once the connection is closed and its auth handlers are done, handleClient's continuation is
   enabled, reports the user offline and unlists the connection - whatever number of request goroutines (pend p) of
   that connection is still in flight. *)
Theorem C15_offline_does_not_wait_for_request_goroutines : forall secret p slot c,
  nth_error (conns (pw p)) slot = Some c ->
  c_open c = false -> c_busy c = false -> c_exited c = false -> c_flag c = true ->
  pstep false secret p (PW (EHandlerReturn slot)) =
    (mkPW (mkWorld (fst (do_online (logger (pw p)) (c_id c) false)) (upd slot unlist_conn (conns (pw p)))) (pend p), WUnit).
Proof. exact offline_enabled. Qed.
Print Assumptions C15_offline_does_not_wait_for_request_goroutines.

(* Request goroutines starting and returning are invisible to the world of model/C15_Sites.v: every run with them is the
   run of its C15_Sites events, so every theorem above about wrun holds of it. *)
Theorem C15_request_goroutines_do_not_touch_the_census : forall secret l p,
  pw (prun false secret p l) = wrun secret (pw p) (wevents l).
Proof. exact prun_projects. Qed.
Print Assumptions C15_request_goroutines_do_not_touch_the_census.

(* ... in particular the census: the listing shows, per user, the announced connections whose handleClient has not yet
   reported offline - exactly the live ones once the handlers of closed connections have returned - with any number of
   requests pending on any connection, dead or alive. *)
Theorem C15_census_with_pending_requests : forall secret l i,
  (Z.of_nat (List.length (wevents l)) < P63)%Z ->
  let p := prun false secret init_pworld l in
  let c := nlisted i (conns (pw p)) in
  get i (online (logger (pw p))) = (if (c =? 0)%Z then None else Some c) /\
  (nopen i (conns (pw p)) <= c)%Z /\
  (quiescent (conns (pw p)) -> c = nopen i (conns (pw p))).
Proof. exact census_with_requests. Qed.
Print Assumptions C15_census_with_pending_requests.

(* The clause is needed: in the variant where handleClient waits for the request goroutines (a WaitGroup over
   handleTCPRequest) a user whose only connection is gone stays listed, with count 1 and no live connection, for as long
   as one dial hangs; handleClient's continuation is refused however often it is tried; the code, on the same run, has
   dropped the user while the request is still in its dial. *)
Theorem C15_waiting_for_request_goroutines_refuted : forall secret,
  let p := prun true secret init_pworld (stale_run 0) in
  nopen 0 (conns (pw p)) = 0%Z /\
  get 0 (online (logger (pw p))) = Some 1%Z /\
  (forall n, prun true secret p (repeat (PW (EHandlerReturn 0)) n) = p) /\
  get 0 (online (logger (pw (prun true secret p [PReqEnd 0 1; PW (EHandlerReturn 0)])))) = None /\
  let q := prun false secret init_pworld (stale_run 0) in
  get 0 (online (logger (pw q))) = None /\ pend_at 0 (pend q) = 1.
Proof. exact waits_refuted. Qed.
Print Assumptions C15_waiting_for_request_goroutines_refuted.

(* ---------- the refused report at EVERY position of a stream (model/C15_Copy.v) ----------
   copy.go copyBufferLog as a loop over the Reads of one copy direction; a Read may return its bytes together with
   io.EOF (the last data and the end of the stream in one call) or with a failure.  The site theorems above take the
   relay one chunk at a time; these say the chunk can be ANY chunk of the stream. *)

(* copyBufferLog returns errDisconnect iff some report was refused, the iterations before it having been passed (nothing
   read, or a chunk accepted and written, and no Read error): whatever came with the refused bytes - nil, io.EOF, an
   error - and whatever follows. *)
Theorem C15_copy_refused_iff_disconnect : forall l,
  fst (copy_loop l) = CDisconnect <->
  exists pre r post, l = pre ++ r :: post /\ forallb passes pre = true /\
                     (0 <? rs_n r) = true /\ rs_ok r = false.
Proof. exact copy_refused_iff. Qed.
Print Assumptions C15_copy_refused_iff_disconnect.

(* Then the chunks before it were reported (accepted) and written, the refused chunk was reported and NOT written, and
   nothing was read, reported or written after it; and no run of the loop lets a refusal go unanswered: the trace holds a
   refused report iff the loop ends with errDisconnect (then exactly one). *)
Theorem C15_copy_refused_forwards_nothing : forall pre r post,
  forallb passes pre = true -> (0 <? rs_n r) = true -> rs_ok r = false ->
  copy_loop (pre ++ r :: post) = (CDisconnect, pass_trace pre ++ [ALog (rs_n r) false]).
Proof. exact copy_refused_at. Qed.
Print Assumptions C15_copy_refused_forwards_nothing.

Theorem C15_copy_every_refusal_answered : forall l,
  refusals (snd (copy_loop l)) =
  (if match fst (copy_loop l) with CDisconnect => true | _ => false end then 1 else 0)%nat.
Proof. exact copy_trace_refusals. Qed.
Print Assumptions C15_copy_every_refusal_answered.

(* handleTCPRequest over the whole stream: it closes the QUIC connection iff the copy direction met a refusal (and its
   result was the first to reach copyTwoWayEx's channel) - which is what the one-chunk site model says of a refused
   report at a TCP site. *)
Theorem C15_relay_refusal_closes_at_every_position : forall pre r post,
  forallb passes pre = true -> (0 <? rs_n r) = true -> rs_ok r = false ->
  tcp_relay_action (pre ++ r :: post) false = CloseConn /\
  tcp_relay_action (pre ++ r :: post) false = site_action TcpUp false false /\
  tcp_relay_action (pre ++ r :: post) false = site_action TcpDown false false.
Proof. exact relay_refused_closes. Qed.
Print Assumptions C15_relay_refusal_closes_at_every_position.

Theorem C15_relay_closes_only_on_refusal : forall l other,
  tcp_relay_action l other = CloseConn ->
  other = false /\ exists pre r post, l = pre ++ r :: post /\ forallb passes pre = true /\
                                      (0 <? rs_n r) = true /\ rs_ok r = false.
Proof. exact relay_closes_only_refused. Qed.
Print Assumptions C15_relay_closes_only_on_refusal.

(* The order of the two tests in the loop body matters: in the variant that looks at the Read error first, a refusal on
   the chunk that came with io.EOF uses the kick up (the refused report is in the trace) and the copy returns nil:
   handleTCPRequest closes nothing.  The code, on the same stream, ends with errDisconnect. *)
Theorem C15_copy_eof_first_refuted :
  let l := [mkRs 100 RNil true true; mkRs 5 REOF false true] in
  copy_loop l = (CDisconnect, [ALog 100 true; AWrite 100 true; ALog 5 false]) /\
  copy_loop_eof_first l = (CNil, [ALog 100 true; AWrite 100 true; ALog 5 false]) /\
  refusals (snd (copy_loop_eof_first l)) = 1%nat /\
  handle_tcp_request (cperr_of (fst (copy_loop_eof_first l))) false = Forward /\
  tcp_relay_action l false = CloseConn.
Proof. exact eof_first_refuted. Qed.
Print Assumptions C15_copy_eof_first_refuted.
