(* C16 - Reconnecting client: one live connection, reconnect on loss, Close is final.
   Property theorems only; every proof is `exact <lemma>` from proof/C16_Reconnect.v.
   The LTS (model/C16_Reconnect.v) has one action per atomic section of clientDo (Enter = first locked
   section incl. reconnect(), Do = f(client) outside the lock, Leave = second locked section, Ret),
   rc.Close(), and the environment (Start of a call by any goroutine, Kill of a connection, the fault
   chosen for each reconnect attempt, the raw outcome of each f(client)).  `run true s0 tr` is a
   strict run of ANY action list, i.e. any interleaving of any number of goroutines with kills,
   failing reconnects and Close at any point; `starts` = lazy or (successful) eager construction. *)
From Coq Require Import List Arith Bool NArith.
Import ListNotations.
From Hy Require Import gen.ParamsC16 model.C16_Reconnect proof.C16_Reconnect model.C16_Split proof.C16_Split.
From Hy Require Import model.C16_Loss proof.C16_Loss.
From Hy Require Import corr.C16_Corr model.C16_Trace proof.C16_Accept.

(* Census.  In every state of every run (in particular at every quiescent point) every open factory
   socket is the current client's: at most one is open, and every superseded (or never adopted)
   socket is closed and has been closed at least once. *)
Theorem C16_at_most_one_socket : forall s0 tr s, starts s0 -> run true s0 tr = Some s ->
  (forall i k, nth_error (socks s) i = Some k -> s_open k = true -> cur s = Some i) /\
  (open_sids s = [] \/ exists c, cur s = Some c /\ open_sids s = [c]) /\
  (forall i k, nth_error (socks s) i = Some k -> cur s <> Some i ->
     s_open k = false /\ 1 <= s_closes k).
Proof. intros s0 tr s H R. exact (at_most_one s (starts_reachable s0 tr s H R)). Qed.
Print Assumptions C16_at_most_one_socket.

(* What the code really guarantees about double closes: a socket is closed at most once plus once per
   rc.Close() call (Close does not clear rc.client, so a late second locked section, or a second
   Close, closes the same client again); without Close calls: at most once.  Open <-> never closed. *)
Theorem C16_close_count_bound : forall s0 tr s, starts s0 -> run true s0 tr = Some s ->
  forall i k, nth_error (socks s) i = Some k ->
    s_closes k <= 1 + nclose s /\ (s_open k = true <-> s_closes k = 0).
Proof. intros s0 tr s H R. exact (closes_bound s (starts_reachable s0 tr s H R)). Qed.
Print Assumptions C16_close_count_bound.

(* Reconnect on loss, clause by clause, from any state of any run:
   (1) once connection c is lost, whatever happens next, a call that holds c cannot succeed on it and
       its permanent error is classified ClosedError;
   (2) the second locked section of that call returns ClosedError to the caller, evaluates no config,
       opens nothing, and if c is still the current client drops it AND closes its socket (otherwise
       another goroutine already did: nothing changes);
   (3) the next first locked section that finds no client evaluates configFunc exactly once more; on
       success a fresh socket is the new current client, alive, and connectedFunc gets count+1; on a
       config / factory / handshake failure the call returns that error, no client, count unchanged,
       and the set of open sockets is unchanged (connect() closed what it opened). *)
Theorem C16_reconnects_on_loss : forall s0 tr s, starts s0 -> run true s0 tr = Some s ->
  (forall c s1 evs tr2 s2 g,
     step true s (Kill c) = Some (s1, evs) -> run true s1 tr2 = Some s2 -> get_pc s2 g = PEntered c ->
     step true s2 (Do g WOk) = None /\ step true s2 (Do g WStreamLimit) = None /\
     exists s3, step true s2 (Do g WDead) = Some (s3, []) /\ get_pc s3 g = PDone c RClosed) /\
  (forall g c s1 evs,
     get_pc s g = PDone c RClosed -> step true s (Leave g) = Some (s1, evs) ->
     get_pc s1 g = PRet TClosed /\ cur s1 <> Some c /\ ncfg s1 = ncfg s /\ nnew s1 = nnew s /\
     count s1 = count s /\ length (socks s1) = length (socks s) /\
     (cur s = Some c -> cur s1 = None /\ evs = [ESockClose c] /\
                        exists k, nth_error (socks s1) c = Some k /\ s_open k = false) /\
     (cur s <> Some c -> cur s1 = cur s /\ evs = [] /\ socks s1 = socks s)) /\
  (forall g f s1 evs,
     get_pc s g = PStarted -> closed s = false -> cur s = None ->
     step true s (Enter g f) = Some (s1, evs) ->
     ncfg s1 = S (ncfg s) /\
     hd_error evs = Some (ECfg (match f with FCfgErr => false | _ => true end)) /\
     match f with
     | FOk => cur s1 = Some (length (socks s)) /\ count s1 = S (count s) /\
              evs = [ECfg true; ENew (length (socks s)); EConnected (S (count s))] /\
              get_pc s1 g = PEntered (length (socks s)) /\ alive s1 (length (socks s)) = true /\
              length (socks s1) = S (length (socks s))
     | _ => cur s1 = None /\ count s1 = count s /\ open_sids s1 = open_sids s /\
            exists t, fault_ret f = Some t /\ get_pc s1 g = PRet t
     end).
Proof.
  intros s0 tr s H R. pose proof (starts_reachable s0 tr s H R) as Re. split; [|split].
  - intros. eapply loss_is_observed; eauto.
  - intros. eapply leave_closed; eauto.
  - intros. eapply enter_reconnects; eauto.
Qed.
Print Assumptions C16_reconnects_on_loss.

(* A recoverable error (or success) never clears the client and never triggers a reconnect: the
   second section only sets the caller's result; a first section that finds a client evaluates no
   config and opens nothing; f(client) itself only sets the caller's pc. *)
Theorem C16_recoverable_does_not_reconnect : forall s,
  (forall g c r s1 evs,
     get_pc s g = PDone c r -> r <> RClosed -> step true s (Leave g) = Some (s1, evs) ->
     evs = [] /\ get_pc s1 g = PRet (ret_of r) /\ cur s1 = cur s /\ socks s1 = socks s /\
     ncfg s1 = ncfg s /\ nnew s1 = nnew s /\ count s1 = count s /\ closed s1 = closed s) /\
  (forall g f c s1 evs,
     cur s = Some c -> step true s (Enter g f) = Some (s1, evs) ->
     evs = [] /\ ncfg s1 = ncfg s /\ nnew s1 = nnew s /\ count s1 = count s /\ socks s1 = socks s /\
     cur s1 = cur s) /\
  (forall g w s1 evs, step true s (Do g w) = Some (s1, evs) ->
     evs = [] /\ cur s1 = cur s /\ socks s1 = socks s /\ ncfg s1 = ncfg s /\ nnew s1 = nnew s /\
     count s1 = count s /\ closed s1 = closed s /\
     exists c, get_pc s g = PEntered c /\ get_pc s1 g = PDone c (classify w)).
Proof.
  intros s. split; [|split].
  - intros. eapply leave_recoverable; eauto.
  - intros. eapply enter_keeps_client; eauto.
  - intros. eapply do_changes_pc_only; eauto.
Qed.
Print Assumptions C16_recoverable_does_not_reconnect.

(* The stream limit is a recoverable error for the code on this tree (the row of
   wrapIfConnectionClosed is probed on the pinned quic-go on every run: gen/ParamsC16.v). *)
Theorem C16_stream_limit_is_recoverable : classify WStreamLimit = RRecov.
Proof. exact stream_limit_recoverable. Qed.
Print Assumptions C16_stream_limit_is_recoverable.

(* ---- The ways a connection can die (model/C16_Loss.v).  In the LTS above a loss is one environment action
   (Kill) and the error f(client) then meets is one raw outcome (WDead) that [classify] turns into
   ClosedError.  In the code that is wrapIfConnectionClosed applied to the error VALUE quic-go returns, and
   quic-go ends a connection with one of finitely many error types.  The classification is an oracle input
   of the model: the row of wrapIfConnectionClosed for every kind of the enum [errkind] is read off the
   working tree on every run (gen/ParamsC16.v c16_kind_closed), and the harness reports every error value it
   really meets by kind (a value of no kind, or one classified against the table, breaks the tie).

   The oracle is total over the enum; the recoverable kinds are exactly {stream limit reached}; every
   terminal kind (idle timeout, handshake timeout, application close by the server or by this side,
   transport error from the server or found locally, TLS alert, version negotiation failure, stateless
   reset, transport / socket closed) is wrapped as ClosedError, which is what the LTS does with a dead
   connection; and the step "f(client) meets an error of kind k, classified by the oracle" IS the Do step of
   the LTS on the raw outcome the kind stands for, in every state. *)
Theorem C16_loss_classification_total :
  (forall k, In k all_kinds /\ kind_of_id (kind_id k) = Some k /\ exists r, wrap_kind k = Some r) /\
  (forall k, wrap_kind k = Some RRecov <-> k = KStreamLimit) /\
  (forall k, terminal k = true ->
     wrap_kind k = Some RClosed /\ raw_of k = Some WDead /\ classify WDead = RClosed) /\
  (forall s g k w, raw_of k = Some w -> do_kind s g k = step true s (Do g w)).
Proof.
  split; [|split; [|split]].
  - intros k. split; [apply all_kinds_complete|]. split; [apply kind_of_id_id|apply wrap_total].
  - exact wrap_recoverable_iff.
  - exact wrap_terminal_closed.
  - exact do_kind_is_do.
Qed.
Print Assumptions C16_loss_classification_total.

(* Reconnect on loss for EVERY terminal kind, with the number of failing calls bounded by one: in any state
   of any run in which goroutine g is idle, rc is not closed and c is the live current client, let the
   connection be lost with a terminal error of any kind k.  The next call of g (whatever fault is queued for
   a reconnect: it makes none) meets that error, returns ClosedError and closes the socket of the dead
   client - nothing is open, no config evaluated, count unchanged; the call after it evaluates the config
   once more, connects (count+1), succeeds on the fresh connection, and the fresh socket is the only open
   one. *)
Theorem C16_every_loss_kind_reconnects : forall s0 tr s g c k f, starts s0 -> run true s0 tr = Some s ->
  get_pc s g = PIdle -> closed s = false -> cur s = Some c -> alive s c = true -> terminal k = true ->
  let sid := length (socks s) in
  exists s1 s2 s3,
    step true s (Kill c) = Some (s1, [EKill c]) /\
    krun s1 (call_dies g f k) = Some (s2, [ESockClose c; ERet g TClosed]) /\
    cur s2 = None /\ open_sids s2 = [] /\ count s2 = count s /\ ncfg s2 = ncfg s /\
    krun s2 (call_works g FOk) = Some (s3, [ECfg true; ENew sid; EConnected (S (count s)); ERet g TOk]) /\
    cur s3 = Some sid /\ alive s3 sid = true /\ count s3 = S (count s) /\ ncfg s3 = S (ncfg s) /\
    (forall i sk, nth_error (socks s3) i = Some sk -> s_open sk = true -> i = sid).
Proof.
  intros s0 tr s g c k f H R. exact (loss_of_every_kind_reconnects s g c k f (starts_reachable s0 tr s H R)).
Qed.
Print Assumptions C16_every_loss_kind_reconnects.

(* (hypotheses satisfiable: proof/C16_Loss.v loss_hypotheses_example) *)

(* Close is final: after rc.Close() at any point of any run, whatever happens next, every factory
   socket is closed, configFunc and ConnFactory.New are never called again, the count is frozen, every
   first locked section returns ClosedError without any boundary event, and no call in flight can
   succeed any more. *)
Theorem C16_close_is_final : forall s0 tr s s1 evs, starts s0 -> run true s0 tr = Some s ->
  step true s Close = Some (s1, evs) ->
  forall tr2 s2, run true s1 tr2 = Some s2 ->
  closed s2 = true /\ open_sids s2 = [] /\
  (forall i k, nth_error (socks s2) i = Some k -> s_open k = false /\ 1 <= s_closes k) /\
  ncfg s2 = ncfg s /\ nnew s2 = nnew s /\ count s2 = count s /\ length (socks s2) = length (socks s) /\
  (forall g f s3 e3, step true s2 (Enter g f) = Some (s3, e3) -> e3 = [] /\ get_pc s3 g = PRet TClosed) /\
  (forall g, step true s2 (Do g WOk) = None /\ step true s2 (Do g WStreamLimit) = None).
Proof.
  intros s0 tr s s1 evs H R C. exact (close_is_final s s1 evs (starts_reachable s0 tr s H R) C).
Qed.
Print Assumptions C16_close_is_final.

(* A failing eager start (NewReconnectableClient(..., lazy=false) returns an error and no client)
   leaves no socket open. *)
Theorem C16_failed_eager_start_is_clean : forall f s evs err, f <> FOk ->
  reconnect init0 f = (s, evs, err) ->
  err = fault_ret f /\ err <> None /\ open_sids s = [] /\ cur s = None /\ count s = 0.
Proof. exact eager_failure_clean. Qed.
Print Assumptions C16_failed_eager_start_is_clean.

(* Behaviour before fix 17810d9 (the dead client is dropped without Close): the census is refuted
   by one loss and one reconnect - two sockets open at a quiescent point. *)
Theorem C16_at_most_one_socket_old_refuted :
  exists tr s, run false init0 tr = Some s /\ quiescent s = true /\ open_sids s = [0; 1].
Proof. exact old_refuted. Qed.
Print Assumptions C16_at_most_one_socket_old_refuted.

(* Why Enter, with the whole reconnect() in it, is ONE action above (reconnect.go keeps rc.m from the
   rc.closed / rc.client == nil decisions to the assignment of the new client).  In the variant that
   leaves the mutex while configFunc runs and takes it again before NewClient (model/C16_Split.v):
   (1) a second caller that arrives during the config evaluation also reconnects; both connections
       are built, the later assignment overwrites the earlier client without closing it: two factory
       sockets open at a quiescent point, count 2 for one logical connect, no Close called;
   (2) a Close that arrives during the config evaluation finds no client; the connection is built
       afterwards: a socket is created and stays open after Close.
   The correspondence check (corr/C16_Corr.v group) therefore rejects every boundary log in which
   the events of one locked section are not contiguous. *)
Theorem C16_unlocked_config_refuted :
  (exists s, run2 init2 split_witness_two = Some s /\ incfg s = [] /\ quiescent (base s) = true /\
             open_sids (base s) = [0; 1] /\ count (base s) = 2 /\ nclose (base s) = 0) /\
  (exists s, run2 init2 split_witness_close = Some s /\ incfg s = [] /\ quiescent (base s) = true /\
             closed (base s) = true /\ open_sids (base s) = [0] /\ nnew (base s) = 1).
Proof. exact split_refuted. Qed.
Print Assumptions C16_unlocked_config_refuted.

(* ---- The tie: the acceptor that decides whether a recorded boundary log is a trace of the LTS
   (corr/C16_Corr.v [accepts], which inserts the unobserved sections in a normal form) is SOUND.

   Every accepted log is explained by the weak transition relation of model/C16_Trace.v: each
   observation is one action of the LTS emitting exactly the recorded boundary events (or a check on
   the model state at that point), separated by unobserved Enter / Do / Leave actions that emit
   nothing and, while an rc.Close() is pending, the locked section of a Close that finds no client. *)
Theorem C16_accepted_log_is_weak_trace : forall l, accepts l = true -> is_trace l.
Proof. exact accepts_sound. Qed.
Print Assumptions C16_accepted_log_is_weak_trace.

(* Hence: an accepted log of a constructed client is the visible projection of a strict run of the
   LTS from a start state (so every theorem above that is quantified over `starts s0` and
   `run true s0 tr = Some s` holds of it), with at most one Close action per recorded rc.Close(). *)
Theorem C16_accepted_log_is_run : forall lz evs rest, accepts (OInit lz evs true :: rest) = true ->
  exists s0 tr s, start_of lz evs s0 /\ starts s0 /\ run true s0 tr = Some s /\
                  proj s0 tr = erase rest /\ count_close tr <= count_cbegin rest.
Proof. exact accepted_is_run. Qed.
Print Assumptions C16_accepted_log_is_run.

(* ... an accepted log of a failed eager construction is one failing reconnect() from the initial
   state with exactly the recorded events, nothing left open, and nothing after it. *)
Theorem C16_accepted_failed_start : forall lz evs rest, accepts (OInit lz evs false :: rest) = true ->
  lz = false /\ rest = [] /\
  exists f s t, f <> FOk /\ reconnect init0 f = (s, evs, Some t) /\ open_sids s = [].
Proof. exact accepted_failed_start. Qed.
Print Assumptions C16_accepted_failed_start.

(* ... at every recorded quiescent point that run is in a quiescent state in which exactly the
   recorded sockets are open: none, or the current client's only. *)
Theorem C16_accepted_quiet_point : forall lz evs l1 opens l2,
  accepts (OInit lz evs true :: l1 ++ OQuiet opens :: l2) = true ->
  exists s0 tr s, start_of lz evs s0 /\ starts s0 /\ run true s0 tr = Some s /\ proj s0 tr = erase l1 /\
                  quiescent s = true /\ open_sids s = opens /\
                  (opens = [] \/ exists c, cur s = Some c /\ opens = [c]).
Proof. exact accepted_quiet_point. Qed.
Print Assumptions C16_accepted_quiet_point.

(* ... and the harness monitors, read as predicates on the log alone, hold of every accepted log:
   census (at most one socket open at every quiescent point) and Close is final (once an rc.Close()
   has returned: no config evaluation, factory call or connect report, nothing open at a quiescent
   point, and every call started afterwards returns ClosedError). *)
Theorem C16_accepted_log_monitors : forall l, accepts l = true ->
  census_mon l = true /\ close_final_mon false false [] l = true.
Proof. exact accepted_monitors. Qed.
Print Assumptions C16_accepted_log_monitors.

(* Completeness of the normal-form search is tested, not proved: the log of EVERY run of the LTS
   within the bounds of model/C16_Trace.v [complete_bounded] (1-3 goroutines, up to 15 moves, kills,
   Close calls with the locked section anywhere between begin and return, every fault and outcome)
   is accepted; more than 5000 logs per bound. *)
Theorem C16_acceptor_complete_bounded :
  map (fun r => snd r) complete_bounded = [[]; []; []; []; []] /\
  forallb (fun r => N.leb 5000 (fst r)) complete_bounded = true.
Proof. exact acceptor_complete_bounded. Qed.
Print Assumptions C16_acceptor_complete_bounded.

(* The raw log (one entry per boundary event, tagged with the goroutine that emitted it, interleaved with
   the other observations) is cut into locked sections by corr/C16_Corr.v [group] before it is given to the
   acceptor.  The cut only regroups: the observations keep their order, and for every goroutine (and for
   the caller of rc.Close()) the events of its sections, concatenated, are exactly its events in the raw
   log, in order.  (Whether the cut is where the mutex discipline puts it is then decided by the acceptor:
   a section no action of the LTS emits is rejected, soundly.) *)
Theorem C16_group_only_regroups : forall l, plain (log_obs l) ->
  filter (fun o => negb (is_sec o)) (group l) = log_obs l /\
  forall w, flat_map (sec_evs w) (group l) = actor_events w l.
Proof. exact group_preserves. Qed.
Print Assumptions C16_group_only_regroups.
