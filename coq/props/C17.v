(* C17 - Sniffing is transparent to the proxied flow.
   Property theorems only; every proof is `exact <lemma>` from proof/C17_*.v.
   Oracles (universally quantified in every theorem): the consumer behind the teeReader
   (bufio + http.ReadRequest: any adaptive sequence of read sizes, any Host answer), utls
   (any server-name answer), AES header protection / AEAD / HKDF (any functions), net.ParseIP,
   strconv.Atoi, sort.Slice (any permutation). *)
From Hy Require Import model.C17_Sniff model.C17_Assemble model.C17_Own proof.C17_Own proof.C17_Sniff proof.C17_Quic proof.C17_Misc proof.C17_Addr proof.C17_Assemble.
From Coq Require Import ZArith Permutation.
Local Open Scope N_scope.

(* TCP, transparency: for every script (chunking, zero-length reads, EOF / reset / a fired deadline
   at any position, errors delivered with or without data), every consumer whose first read asks
   for at least 3 bytes (bufio asks for 4096), every SNI oracle and every request address:
   unless an error is returned (the server then closes the stream), the bytes handed back followed
   by the bytes still unread on the stream are exactly the bytes the client sent, in order; an
   error is returned only when the deadline cannot be set or the request address has no port,
   and then nothing is handed back and the address is left alone. *)
Theorem C17_tcp_transparent : forall fuel consumer sni dl_fail s addr o,
  first_read_big consumer ->
  sniff_tcp fuel consumer sni dl_fail s addr = Ok o ->
  (o_err o = false -> o_replay o ++ c17_unread (o_rest o) = c17_unread s) /\
  (o_err o = true -> o_addr o = addr /\ o_replay o = [] /\ (dl_fail = true \/ split_host_port addr = None)).
Proof. exact tcp_transparent. Qed.
Print Assumptions C17_tcp_transparent.

(* TCP, ownership of the replay bytes (model/C17_Own.v).  The server writes the putback to the target
   only after logging and dialling; meanwhile other hooked streams are sniffed.  With the detection
   buffer a fresh heap cell per call (the code as it is), for EVERY history of sniff / write events over
   any number of streams, what is written to stream i's target is the replay of stream i's own call. *)
Theorem C17_tcp_replay_not_written_after_return : forall replay_of evs i b,
  In (i, b) (own_run replay_of false own_init evs) -> b = replay_of i.
Proof. exact replay_stable. Qed.
Print Assumptions C17_tcp_replay_not_written_after_return.

(* ... hence, with C17_tcp_transparent, for every history: the bytes stream i's target is sent followed by
   the bytes still unread on stream i are exactly what stream i's client sent. *)
Theorem C17_tcp_transparent_among_streams :
  forall (fuel : nat -> nat) (consumer : nat -> c17_consumer) (sni : nat -> list byte -> option (list byte))
         (dl_fail : nat -> bool) (s : nat -> c17_script) (addr : nat -> list byte) (o : nat -> tcp_out) evs i b,
  (forall j, first_read_big (consumer j)) ->
  (forall j, sniff_tcp (fuel j) (consumer j) (sni j) (dl_fail j) (s j) (addr j) = Ok (o j)) ->
  In (i, b) (own_run (fun j => o_replay (o j)) false own_init evs) ->
  o_err (o i) = false ->
  b ++ c17_unread (o_rest (o i)) = c17_unread (s i).
Proof. exact replay_stable_transparent. Qed.
Print Assumptions C17_tcp_transparent_among_streams.

(* A variant whose detection buffer comes from a pool shared by all calls and goes back to it on return
   violates exactly this: sniff A, sniff B, write A - A's target is sent B's bytes. *)
Theorem C17_tcp_pooled_buffer_refuted :
  exists replay_of evs i b, In (i, b) (own_run replay_of true own_init evs) /\ b <> replay_of i.
Proof. exact pooled_refuted. Qed.
Print Assumptions C17_tcp_pooled_buffer_refuted.

(* TCP, address: the new address is the old one, or join(h, port of the old one) where h is the
   host part of a non-empty Host the consumer reported on a stream starting with three letters,
   or the non-empty server name the SNI oracle reported on the complete record body (exactly the
   declared length) of a stream starting with a TLS record header - those bytes are part of what
   is handed back. *)
Theorem C17_tcp_rewrite_only_host : forall fuel consumer sni dl_fail s addr o,
  sniff_tcp fuel consumer sni dl_fail s addr = Ok o ->
  o_addr o = addr \/
  exists h ho p, split_host_port addr = Some (ho, p) /\ o_addr o = join_host_port h p /\
    o_err o = false /\
    ((is_http (firstn 3 (c17_unread s)) = true /\
      exists hist host, consumer hist = CStop (Some host) /\ host <> [] /\ h = http_host_part host) \/
     (is_http (firstn 3 (c17_unread s)) = false /\ is_tls (firstn 3 (c17_unread s)) = true /\
      exists hd body, o_replay o = hd ++ body /\ length hd = 5%nat /\
        N.of_nat (length body) = N.lor (N.shiftl (b2n (nth 3 hd x00)) 8) (b2n (nth 4 hd x00)) /\
        sni body = Some h /\ h <> [])).
Proof. exact tcp_rewrite_only_host. Qed.
Print Assumptions C17_tcp_rewrite_only_host.

(* TCP, untouched: unrecognised first bytes, oracles that find nothing, an address without port
   or a failing SetReadDeadline leave the destination exactly as it was. *)
Theorem C17_tcp_untouched : forall fuel consumer sni dl_fail s addr o,
  sniff_tcp fuel consumer sni dl_fail s addr = Ok o ->
  (is_http (firstn 3 (c17_unread s)) = false /\ is_tls (firstn 3 (c17_unread s)) = false) \/
  ((forall hist host, consumer hist <> CStop (Some host)) /\ (forall b, sni b = None)) \/
  split_host_port addr = None \/ dl_fail = true ->
  o_addr o = addr.
Proof. exact tcp_untouched. Qed.
Print Assumptions C17_tcp_untouched.

(* TCP, port: whatever happens, the address still ends in ":" ++ the original port. *)
Theorem C17_tcp_port_kept : forall fuel consumer sni dl_fail s addr o ho p,
  sniff_tcp fuel consumer sni dl_fail s addr = Ok o ->
  split_host_port addr = Some (ho, p) ->
  exists pre, o_addr o = pre ++ ch_colon :: p.
Proof. exact tcp_port_kept. Qed.
Print Assumptions C17_tcp_port_kept.

(* TCP, port (strong form): the new address is join(h, old port), and whenever the sniffed name h
   contains no bracket, net.SplitHostPort of the new address returns exactly (h, old port). *)
Theorem C17_tcp_port_unchanged : forall fuel consumer sni dl_fail s addr o ho p,
  sniff_tcp fuel consumer sni dl_fail s addr = Ok o ->
  split_host_port addr = Some (ho, p) ->
  o_addr o = addr \/
  exists h, o_addr o = join_host_port h p /\
    (has_byte ch_lbr h = false -> has_byte ch_rbr h = false -> split_host_port (o_addr o) = Some (h, p)).
Proof. exact tcp_port_unchanged. Qed.
Print Assumptions C17_tcp_port_unchanged.

(* net.SplitHostPort (net.JoinHostPort h p) = (h, p) for bracket-free h and a port that came out
   of SplitHostPort (used for UDP as well). *)
Theorem C17_split_join : forall a ho p h,
  split_host_port a = Some (ho, p) -> has_byte ch_lbr h = false -> has_byte ch_rbr h = false ->
  split_host_port (join_host_port h p) = Some (h, p).
Proof.
  intros a ho p h Hs Hl Hr. apply split_join; [apply has_false; exact Hl|apply has_false; exact Hr|].
  eapply split_port_clean; eauto.
Qed.
Print Assumptions C17_split_join.

(* TCP never panics (pre[:n], pre[3:], pre[:3+n], pre[3], pre[4], the record-length arithmetic,
   pre[5:], pre[:5+n]) for every script, oracle and address. *)
Theorem C17_tcp_never_panics : forall fuel consumer sni dl_fail s addr,
  exists o, sniff_tcp fuel consumer sni dl_fail s addr = Ok o.
Proof. exact tcp_never_panics. Qed.
Print Assumptions C17_tcp_never_panics.

(* io.ReadFull as modelled never runs out of loop fuel (the out-of-fuel branch is dead). *)
Theorem C17_read_full_fuel : forall fuel k s, (length s < fuel)%nat ->
  c17_read_full_f fuel k s = c17_read_full_f (S fuel) k s.
Proof. exact read_full_fuel. Qed.
Print Assumptions C17_read_full_fuel.

(* UDP: for every crypto oracle, every datagram and every heap, after Sniffer.UDP every buffer
   that existed before the call - in particular the datagram the server forwards next - is
   byte-identical (UnProtect's in-place writes land in the fresh copy only). *)
Theorem C17_udp_packet_unmodified : forall hp aead sni sortf lg h b addr o,
  sniff_udp hp aead sni sortf lg false h b addr = Ok o ->
  forall i, (i < length h)%nat -> heap_get (u_heap o) i = heap_get h i.
Proof. exact udp_packet_unmodified. Qed.
Print Assumptions C17_udp_packet_unmodified.

(* UDP, address: unchanged, or join(name, old port) with name the non-empty server name the
   oracle reports on the CRYPTO payload recovered from this very packet (a ClientHello: first
   byte 1, at least 4 bytes); an error only for an address without port, address untouched. *)
Theorem C17_udp_rewrite_only_sni : forall hp aead sni sortf lg ip h b addr o,
  sniff_udp hp aead sni sortf lg ip h b addr = Ok o ->
  exists h' pl, read_crypto_payload hp aead sortf lg ip h b = Ok (h', pl) /\ u_heap o = h' /\
    ((u_addr o = addr) \/
     exists p name ho port, pl = Some p /\ (4 <= length p)%nat /\ nth 0 p x00 = x01 /\
       sni p = Some name /\ name <> [] /\ split_host_port addr = Some (ho, port) /\
       u_addr o = join_host_port name port /\ u_err o = false) /\
    (u_err o = true -> u_addr o = addr /\ split_host_port addr = None).
Proof. exact sniff_udp_out. Qed.
Print Assumptions C17_udp_rewrite_only_sni.

(* The code before commit 0cd7efd (UnProtect on the caller's slice) did modify the datagram. *)
Theorem C17_udp_in_place_old_refuted :
  exists hp aead sni sortf data addr o,
    sniff_udp hp aead sni sortf false true [data] 0 addr = Ok o /\ heap_get (u_heap o) 0 <> data.
Proof. exact udp_in_place_refuted. Qed.
Print Assumptions C17_udp_in_place_old_refuted.

(* Check: exact characterisation.  True iff the address does not start with '@', splits into
   host and port, is an IP literal unless RewriteDomain is set, the port is a number, and the low
   16 bits of that number (the uint16 conversion in the code) lie in the configured union (nil =
   every port). *)
Theorem C17_check_filter : forall is_ip atoi rw tcp udp isudp addr,
  sniff_check is_ip atoi rw tcp udp isudp addr = true <->
  exists host port n,
    (forall t, addr <> ch_at :: t) /\
    split_host_port addr = Some (host, port) /\
    (rw = true \/ is_ip host = true) /\
    atoi port = Some n /\
    match (if isudp then udp else tcp) with
    | None => True
    | Some u => port_contains u (Z.to_N (n mod 65536)%Z) = true
    end.
Proof. exact check_filter. Qed.
Print Assumptions C17_check_filter.

(* Never-panics (cited by C03): parseLongHeader / ParseInitialHeader on every byte string. *)
Theorem C17_parse_header_never_panics : forall data,
  is_panic (parse_long_header data) = false /\ is_panic (parse_initial_header data) = false.
Proof. exact parse_header_never_panics. Qed.
Print Assumptions C17_parse_header_never_panics.

(* UnProtect's slicing and indexing on every buffer, offset and oracle with a mask of >= 5 bytes
   (AES block = 16) and an AEAD output no longer than its input. *)
Theorem C17_unprotect_never_panics : forall hp aead,
  (forall v d s, (5 <= length (hp v d s))%nat) ->
  (forall v d pn ct ad, (length (snd (aead v d pn ct ad)) <= length ct)%nat) ->
  forall ver dcid h b n off pnMax,
  is_panic (unprotect hp aead false ver dcid h b n off pnMax) = false.
Proof. exact unprotect_never_panics. Qed.
Print Assumptions C17_unprotect_never_panics.

(* extractCryptoFrames: no panic, the loop fuel is never exhausted, offsets are non-negative. *)
Theorem C17_extract_frames_never_panics : forall r,
  match extract_frames (length r) r [] with
  | Ok frs => Forall (fun f => (0 <= fst f)%Z) frs
  | Err e => e <> EOther
  | Panic _ => False
  end.
Proof. exact extract_frames_never_panics. Qed.
Print Assumptions C17_extract_frames_never_panics.

(* assembleCryptoFrames: make(end) and data[frame.Offset:] are in range for every frame list
   with non-negative offsets, whatever permutation sort.Slice produces. *)
Theorem C17_assemble_never_panics : forall sortf, (forall l, Permutation (sortf l) l) ->
  forall frames, Forall (fun f => (0 <= fst f)%Z) frames ->
  is_panic (assemble sortf frames) = false.
Proof. exact assemble_never_panics. Qed.
Print Assumptions C17_assemble_never_panics.

(* assembleCryptoFrames hands on only bytes that are present in the datagram: whatever sort.Slice does, a payload is
   returned either for a single CRYPTO frame (its data), or for several frames that - in the order sort.Slice left them -
   follow one another from the offset of the first, each starting exactly where the one before ends; the payload then is
   those frames' data in that order behind (offset of the first) zero bytes.  No stretch between two frames is ever
   zero-filled, so the ClientHello handed to the server-name parser (C17_udp_rewrite_only_sni) is never one with a hole
   in it.  (A lowest offset above 0 leaves a zero byte where the handshake type would be; Sniffer.UDP then returns early.) *)
Theorem C17_assemble_only_present_bytes : forall sortf frames d, assemble sortf frames = Ok (Some d) ->
  (exists f, frames = [f] /\ d = snd f) \/
  (exists f0 rest, (2 <= length frames)%nat /\ sortf frames = f0 :: rest /\
     (0 <= fst f0)%Z /\ chain (fst f0) (f0 :: rest) /\
     d = repeat x00 (Z.to_nat (fst f0)) ++ frames_data (f0 :: rest)).
Proof. exact assemble_content. Qed.
Print Assumptions C17_assemble_only_present_bytes.

(* ReadCryptoPayload and Sniffer.UDP as a whole never panic, for every datagram. *)
Theorem C17_udp_never_panics : forall hp aead sni sortf,
  (forall v d s, (5 <= length (hp v d s))%nat) ->
  (forall v d pn ct ad, (length (snd (aead v d pn ct ad)) <= length ct)%nat) ->
  (forall l, Permutation (sortf l) l) ->
  forall h b addr,
  is_panic (read_crypto_payload hp aead sortf false false h b) = false /\
  is_panic (sniff_udp hp aead sni sortf false false h b addr) = false.
Proof. exact udp_never_panics. Qed.
Print Assumptions C17_udp_never_panics.

(* the sort used by the executable model satisfies the permutation hypothesis *)
Theorem C17_model_sort_is_permutation : forall l, Permutation (isort_frames l) l.
Proof. exact isort_frames_perm. Qed.
Print Assumptions C17_model_sort_is_permutation.

(* The length check of UnProtect before commit 3d877c6 let a short packet reach the sample slice. *)
Theorem C17_unprotect_legacy_check_old_refuted :
  exists hp aead sortf data, is_panic (read_crypto_payload hp aead sortf true false [data] 0) = true.
Proof. exact unprotect_legacy_check_refuted. Qed.
Print Assumptions C17_unprotect_legacy_check_old_refuted.

(* Why C17_tcp_transparent needs first_read_big: teeReader.Buffer() returns Pre-rest ++ buf. *)
Theorem C17_tcp_small_first_read_refuted :
  exists consumer sni s addr o,
    sniff_tcp 2 consumer sni false s addr = Ok o /\ o_err o = false /\
    o_replay o ++ c17_unread (o_rest o) <> c17_unread s.
Proof. exact tcp_small_first_read_refuted. Qed.
Print Assumptions C17_tcp_small_first_read_refuted.

(* ==== the SERVER side of the clause: what core/server does with the bytes the hook handed back
   (model/C17_Putback.v: the hooked path of handleTCPRequest over the relay LTS of C06 - every interleaving of the two
   copy loops and the teardown, every chunking, every error, logger or fast path).  The hook's own contract (the theorems
   above: replay ++ unread = sent) says the client's stream behind the request is putback ++ (what the Up loop reads). *)
From Hy Require Import gen.ParamsC06 model.C06_Relay model.C17_Putback proof.C17_Putback.

(* For EVERY putback (any length: nothing depends on the size of a copy buffer) and every run in which the writers keep
   the io.Writer contract and the direct write of the putback reported no error: as soon as the relay runs, the target's
   stream is the putback followed by a prefix of what the Up loop took off the client's stream - nothing dropped,
   duplicated, reordered or injected; before that the target has received nothing. *)
Theorem C17_server_putback_then_relay : forall m tr s put,
  hexec (hinit m) tr = Some s -> hwok tr -> hput_quiet tr -> In put (hooks tr) ->
  match hp s with
  | HRelay => htarget tr = put ++ snkb Up (hrel tr) /\ exists rest, srcb Up (hrel tr) = snkb Up (hrel tr) ++ rest
  | _ => htarget tr = []
  end.
Proof. exact putback_then_relay. Qed.
Print Assumptions C17_server_putback_then_relay.

(* ... and all of the stream once the Up direction has read the client's stream to its end and returned nil. *)
Theorem C17_server_putback_then_whole_stream : forall m tr s put,
  hexec (hinit m) tr = Some s -> hwok tr -> hput_quiet tr -> In put (hooks tr) ->
  (pcof (hin s) Up = PRet GNil \/ pcof (hin s) Up = PDone GNil) ->
  hp s = HRelay /\ htarget tr = put ++ srcb Up (hrel tr).
Proof. exact putback_then_whole. Qed.
Print Assumptions C17_server_putback_then_whole_stream.

(* No action of the relay (no Read of the client's stream, no LogTraffic, no Write) happens before the hook has returned
   and a non-empty putback has been handed to the target connection. *)
Theorem C17_server_relay_only_after_putback : forall m pre x post s,
  hexec (hinit m) (pre ++ HARel x :: post) = Some s ->
  exists put, hooks pre = [put] /\ (put <> [] -> exists nw ew, In (HAPutWrite put nw ew) pre).
Proof. exact relay_after_putback. Qed.
Print Assumptions C17_server_relay_only_after_putback.

(* StreamStats.Tx counts the putback and everything handed to LogTraffic for the Up direction. *)
Theorem C17_server_stats_count_putback : forall m tr s put,
  hexec (hinit m) tr = Some s -> hwok tr -> hput_quiet tr -> In put (hooks tr) -> hp s = HRelay ->
  hstats_tx s = u64 (blen put + txsum (hrel tr)).
Proof. exact stats_tx. Qed.
Print Assumptions C17_server_stats_count_putback.

(* hput_quiet is needed: `n, _ := tConn.Write(putback)` drops the error, so after a partial write that reported an error
   the relay goes on and the target's stream is no longer a prefix of what the client sent (writers within the contract). *)
Theorem C17_server_putback_write_error_is_dropped : exists tr s put,
  hexec (hinit Logged) tr = Some s /\ hwok tr /\ hooks tr = [put] /\ hp s = HRelay /\
  ~ exists rest, put ++ srcb Up (hrel tr) = htarget tr ++ rest.
Proof. exact put_write_error_dropped. Qed.
Print Assumptions C17_server_putback_write_error_is_dropped.

(* The putback must not be staged through the copy buffer ("the result of the first read"): for every putback longer
   than the buffer the staged head followed by anything differs from the putback followed by the same. *)
Theorem C17_server_staging_would_truncate : forall put rest,
  CopyBufSize < blen put -> staged_head put ++ rest <> put ++ rest.
Proof. exact staging_truncates. Qed.
Print Assumptions C17_server_staging_would_truncate.

(* Non-vacuity: a hooked connection from request to teardown. *)
Theorem C17_server_example_run : exists s, hexec (hinit Logged) put_run = Some s /\ hp s = HRelay /\ par (hin s) = QDone /\
  hooks put_run = [[x47; x45; x54]] /\ htarget put_run = [x47; x45; x54; x20; x2f] /\ hstats_tx s = 5.
Proof. exact put_run_ok. Qed.
Print Assumptions C17_server_example_run.
