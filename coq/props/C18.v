(* C18 - Local SOCKS5/HTTP inbounds gate on credentials and relay bytes intact.
   Property theorems only; every proof is `exact <lemma>` from proof/C18_*.v.
   Model: model/C18_Inbounds.v (socks5/server.go + txthinking/socks5 readers, http/server.go, proxymux/mux.go). *)
From Hy Require Import model.C18_Inbounds proof.C18_Streams proof.C18_Gate proof.C18_Mux.
From Hy Require Import lib.Harness corr.C18_Corr model.C18_Trace proof.C18_Replay.
From Hy Require Import model.C18_Relay proof.C18_Relay.
From Coq Require Import ZArith.
Local Open Scope N_scope.

(* ---- SOCKS5 ---- *)

(* With AuthFunc configured, for EVERY client byte script (well- or ill-formed, any chunking, zero-length
   reads): an upstream TCP dial or UDP session appears in the server's trace only after an AuthFunc call
   that returned true - and that call is authentic (the function really accepts those credentials). *)
Theorem C18_socks_gate : forall cfg f s,
  sc_auth cfg = Some f ->
  forall pre e post, c18_socks cfg s = pre ++ e :: post -> c18_s_upstream e = true ->
  exists u p, In (SAuth u p true) pre /\ f u p = true.
Proof. exact socks_gate. Qed.
Print Assumptions C18_socks_gate.

(* every AuthFunc event the trace shows carries the function's real verdict *)
Theorem C18_socks_auth_authentic : forall cfg f s u p ok,
  sc_auth cfg = Some f -> In (SAuth u p ok) (c18_socks cfg s) -> ok = f u p.
Proof. exact socks_auth_authentic. Qed.
Print Assumptions C18_socks_auth_authentic.

(* a client whose (well-formed) method list does not contain 0x02 gets 05 FF and the connection is
   closed - nothing else, whatever else it sends and however the bytes are chunked *)
Theorem C18_socks_no_userpass_offer : forall cfg f s (ms tail : list byte),
  sc_auth cfg = Some f ->
  (1 <= length ms <= 255)%nat -> ~ In x02 ms ->
  concat s = x05 :: n2b (N.of_nat (length ms)) :: ms ++ tail ->
  c18_socks cfg s = [SReply [x05; xff]; SClose].
Proof. exact socks_no_userpass_offer. Qed.
Print Assumptions C18_socks_no_userpass_offer.

(* the whole SOCKS5 front end (replies, AuthFunc calls, upstream target, relayed bytes) depends only on
   the bytes the client sent, not on how they were split into reads *)
Theorem C18_socks_chunking : forall cfg s1 s2, concat s1 = concat s2 -> c18_socks cfg s1 = c18_socks cfg s2.
Proof. exact socks_chunking. Qed.
Print Assumptions C18_socks_chunking.

(* ---- HTTP proxy ---- *)

(* With AuthFunc configured, on a connection carrying any number of keep-alive requests, every
   HyClient.TCP (CONNECT or plain request) is preceded by an accepted AuthFunc call made for that
   request: since that call there was no other upstream open and no other AuthFunc call. *)
Theorem C18_http_gate : forall cfg f reqs h s,
  hc_auth cfg = Some f ->
  forall pre a post, c18_http cfg reqs h s = pre ++ HTcp a :: post ->
  exists pre1 u p mid, pre = pre1 ++ HAuth u p true :: mid /\ f u p = true /\
    Forall (fun e => match e with HAuth _ _ _ | HTcp _ => False | _ => True end) mid.
Proof. exact http_gate. Qed.
Print Assumptions C18_http_gate.

(* The gate, request by request, for EVERY method and EVERY form of the request-target.  A request reaches
   the model as net/http parsed it: method, raw target, form (origin / asterisk / absolute / authority),
   URL.Scheme, URL.Host (possibly empty), req.Host.  One turn of dispatch's loop on ANY such request: if
   an upstream is dialled while this request is handled, then this very request carried credentials,
   AuthFunc was called on exactly those and accepted them, that call is the first event of the turn, and
   no other AuthFunc call follows in it. *)
Theorem C18_http_gate_this_request : forall cfg f r tail a,
  hc_auth cfg = Some f ->
  In (HTcp a) (fst (c18_http_one c18_gate_all cfg r tail)) ->
  exists u p ev, c18_basic_creds (hr_pauth r) = Some (u, p) /\ f u p = true /\
                 fst (c18_http_one c18_gate_all cfg r tail) = HAuth u p true :: ev /\
                 (forall u' p' ok', ~ In (HAuth u' p' ok') ev).
Proof. exact http_one_gate. Qed.
Print Assumptions C18_http_gate_this_request.

(* The same with every field of the request spelled out: for all methods, all request-targets, all four
   forms, all schemes, all URL hosts and Host fields (empty ones included), all keep-alive / status /
   framing values and whatever follows on the connection - any dial on the connection from this request
   on implies that the auth function accepted THIS request's Proxy-Authorization. *)
Theorem C18_http_gate_every_form : forall cfg f method uri form scheme uhost host pauth ka st fr t tail a,
  hc_auth cfg = Some f ->
  In (HTcp a) (c18_http_loop cfg (mkHReq method uri form scheme uhost host pauth ka st fr :: t) tail) ->
  c18_auth_ok f pauth = true.
Proof. exact http_gate_every_form. Qed.
Print Assumptions C18_http_gate_every_form.

(* What the forms do behind the gate.  A plain (non-CONNECT) request without a scheme - origin-form "GET /",
   asterisk-form "OPTIONS *" - is never forwarded, with or without credentials, with or without a gate
   (400 from handleRequest) ... *)
Theorem C18_plain_schemeless_never_dials : forall gated cfg r tail a,
  c18_is_connect r = false -> hr_scheme r = [] ->
  ~ In (HTcp a) (fst (c18_http_one gated cfg r tail)).
Proof. exact plain_no_scheme_no_dial. Qed.
Print Assumptions C18_plain_schemeless_never_dials.

(* ... but a CONNECT goes to handleConnect whatever its target is: with an empty URL.Host (origin-form
   "CONNECT /x", an empty target, "?q") an ungated turn dials ":80".  So "URL.Host is empty" does not
   identify requests that cannot reach an upstream; *)
Theorem C18_connect_hostless_dials : forall gated cfg r tail,
  c18_is_connect r = true -> hr_uhost r = [] -> gated r = false ->
  fst (c18_http_one gated cfg r tail) = c18_handle_connect cfg r tail /\
  c18_connect_addr r = [x3a; x38; x30] /\
  In (HTcp [x3a; x38; x30]) (fst (c18_http_one gated cfg r tail)).
Proof. exact connect_hostless_dials. Qed.
Print Assumptions C18_connect_hostless_dials.

(* and a dispatch that applied the credential check only to requests with a non-empty URL.Host would let
   "CONNECT /x" without any Proxy-Authorization through to HyClient.TCP(":80"), where the code as it is
   answers 407 (witness: a request in the shape net/http produces, c18_form_ok). *)
Theorem C18_http_gate_hosted_only_refuted :
  c18_form_ok ex_connect_origin = true /\ hr_pauth ex_connect_origin = None /\
  c18_http_loop_g c18_gate_hosted ex_hcfg [ex_connect_origin] (mkPre [] [])
    = [HTcp [x3a; x38; x30]; HReply 200; HRelay []; HClose] /\
  c18_http_loop ex_hcfg [ex_connect_origin] (mkPre [] []) = [HReply 407; HClose].
Proof. exact hosted_exemption_refuted. Qed.
Print Assumptions C18_http_gate_hosted_only_refuted.

(* a request whose Proxy-Authorization is missing / not "basic " (case-insensitive) / not strict base64 /
   has no ':' / is refused by AuthFunc is answered 407 and the connection is closed; later requests on
   the connection are never looked at *)
Theorem C18_http_reject : forall cfg f r t tail,
  hc_auth cfg = Some f -> c18_auth_ok f (hr_pauth r) = false ->
  c18_http_loop cfg (r :: t) tail =
    (match c18_basic_creds (hr_pauth r) with Some (u, p) => [HAuth u p false] | None => [] end)
    ++ [HReply 407; HClose].
Proof. exact http_reject. Qed.
Print Assumptions C18_http_reject.

(* CONNECT: the upstream receives exactly the bytes that followed the header block (offset h of the
   stream), in order - whichever part of them bufio had already buffered, for every chunking *)
Theorem C18_connect_pipelining : forall cfg r t h s,
  c18_is_connect r = true -> hc_dial_ok cfg = true ->
  (match hc_auth cfg with Some f => c18_auth_ok f (hr_pauth r) = true | None => True end) ->
  (h <= length (concat s))%nat ->
  exists aev, c18_http cfg (r :: t) h s =
              aev ++ [HTcp (c18_connect_addr r); HReply 200; HRelay (skipn h (concat s)); HClose] /\
              Forall (fun e => match e with HAuth _ _ true => True | _ => False end) aev.
Proof. exact connect_pipelining. Qed.
Print Assumptions C18_connect_pipelining.

(* ... and that holds whatever body framing the CONNECT header declares (Content-Length 0 / n / more than
   what follows, Transfer-Encoding: chunked): the declared framing changes nothing in the proxy's trace.
   (C18_connect_pipelining quantifies over r, hence over hr_framing r; this states the independence.) *)
Theorem C18_connect_framing_irrelevant : forall cfg r fr t h s,
  c18_is_connect r = true -> c18_http cfg (c18_set_framing fr r :: t) h s = c18_http cfg (r :: t) h s.
Proof. exact connect_framing_irrelevant. Qed.
Print Assumptions C18_connect_framing_irrelevant.

(* Ownership fact behind it: req.Body of a CONNECT shares the reader with the pipelined bytes and must not
   be read or closed before the hand-over.  A dispatch that closed it (net/http discards the declared body,
   k > 0 bytes) would relay the tail with its first k bytes missing, which is never the tail itself. *)
Theorem C18_connect_body_close_refuted : forall k tail,
  c18_copy_all (c18_pre_discard k tail) = skipn k (c18_pre_remaining tail) /\
  ((0 < k)%nat -> c18_pre_remaining tail <> [] -> c18_copy_all (c18_pre_discard k tail) <> c18_pre_remaining tail).
Proof. exact connect_body_close_truncates. Qed.
Print Assumptions C18_connect_body_close_refuted.

(* cachedConn: for EVERY sequence of Read buffer sizes (zeros included) the bytes read so far followed
   by those still to come are buffered ++ stream *)
Theorem C18_cached_reads_in_order : forall buffered rest sizes out r',
  c18_drain sizes (mkPre buffered rest) = (out, r') ->
  out ++ c18_pre_remaining r' = buffered ++ concat rest.
Proof. exact cached_reads_in_order. Qed.
Print Assumptions C18_cached_reads_in_order.

(* ---- shared SOCKS5/HTTP port ---- *)

(* connWithOneByte{b, Conn: stream}: for every sequence of Read buffer sizes (zeros included, any
   chunking of the stream) the bytes read so far followed by the bytes still to be read are exactly
   b :: stream - the detection byte is replayed first, once, and nothing is lost or reordered. *)
Theorem C18_first_byte_preserved : forall (b : byte) (stream : c18_script) (sizes : list N) out r',
  c18_drain sizes (mkPre [b] stream) = (out, r') ->
  out ++ c18_pre_remaining r' = b :: concat stream.
Proof. exact first_byte_preserved. Qed.
Print Assumptions C18_first_byte_preserved.

(* dispatch's peek + the wrapper, end to end, for EVERY chunking of the client's stream (zero-length reads
   before and after the first byte included): the byte the routing rule sees is the stream's real first
   byte, and for every sequence of Read sizes the handler reads exactly the client's stream - nothing
   inserted in front of it, nothing lost; the peek fails only on a stream that carries no byte at all. *)
Theorem C18_detection_byte_is_first_byte : forall (s : c18_script),
  match c18_mux_peek s with
  | Some (b, s') =>
      concat s = b :: concat s' /\
      forall sizes out r', c18_drain sizes (mkPre [b] s') = (out, r') -> out ++ c18_pre_remaining r' = concat s
  | None => concat s = []
  end.
Proof. exact detection_byte_is_first_byte. Qed.
Print Assumptions C18_detection_byte_is_first_byte.

(* Every run (any interleaving of registration, close, Accept, incoming connections, first bytes and the
   code's own atomic sections; any revision flag): a connection handed to sub-listener s was routed by its
   own ASelect step, at which its first byte was b and the sub-listener registered for b's protocol
   (b = 5: SOCKS, else HTTP) was s; and once handed to s it stays handed to s in every continuation -
   at most one handler, the one chosen by the first byte among those registered at selection time. *)
Theorem C18_exactly_one_handler : forall v acts m c b s,
  c18_mrun v c18_m_init acts = Some m -> c18_get_conn m c = Some (CHanded b s) ->
  (exists acts1 acts2 m1,
      acts = acts1 ++ ASelect c :: acts2 /\ c18_mrun v c18_m_init acts1 = Some m1 /\
      c18_get_conn m1 c = Some (CByte b) /\ c18_slot m1 (c18_is_socks b) = Some s) /\
  (forall more m', c18_mrun v m more = Some m' -> c18_get_conn m' c = Some (CHanded b s)).
Proof. exact exactly_one_handler. Qed.
Print Assumptions C18_exactly_one_handler.

(* Every run of the code as it is now, the shutdown window included: mainLoop never dereferences a nil
   sub-listener; no connection is ever dropped by acceptLoop, leaked by dispatch or hit by a send on a
   closed channel; a connection that has left the mux's hands is handed over or closed; and the steps
   that finish a connection are enabled whenever their guard holds (routing after the first byte;
   closing when the chosen sub-listener is closed; closing a held connection once the mux has shut down). *)
Theorem C18_handed_or_closed : forall acts m,
  c18_mrun c18_now c18_m_init acts = Some m ->
  m_ml m <> MLPanic /\
  forall c x, c18_get_conn m c = Some x ->
    x <> CDropped /\ x <> CLeaked /\ x <> CPanic /\
    (c18_c_terminal x = true -> c18_c_good_end x = true) /\
    (forall b, x = CByte b -> exists m', c18_mstep c18_now m (ASelect c) = Some (m', ONone)) /\
    (forall b s, x = CSel b s -> c18_sub_is_closed m s = true ->
       exists m', c18_mstep c18_now m (ASeesSubClosed c) = Some (m', ONone) /\
                  c18_get_conn m' c = Some CClosed) /\
    (x = CHeld -> m_closed m = true -> m_al m = ALHold c ->
       exists m', c18_mstep c18_now m AAlDrop = Some (m', ONone) /\ c18_get_conn m' c = Some CClosed).
Proof. exact handed_or_closed. Qed.
Print Assumptions C18_handed_or_closed.

(* The same statement is false of the three earlier revisions of mux.go (each repaired by a fix: commit):
   dispatch returning on target.closeChan without Close (before 7856472) *)
Theorem C18_handed_or_closed_old_refuted :
  exists acts m, c18_mrun (mkVer false true true) c18_m_init acts = Some m /\ c18_get_conn m 0 = Some CLeaked.
Proof. exact old_dispatch_leaks. Qed.
Print Assumptions C18_handed_or_closed_old_refuted.

(* acceptLoop returning on l.closeChan without closing the connection it holds (before 2cea45c) *)
Theorem C18_acceptloop_closes_old_refuted :
  exists acts m, c18_mrun (mkVer true false true) c18_m_init acts = Some m /\ c18_get_conn m 0 = Some CDropped.
Proof. exact old_acceptloop_drops. Qed.
Print Assumptions C18_acceptloop_closes_old_refuted.

(* a registration landing between the idle decision and the cleanup: send on closed channel (before c413452) *)
Theorem C18_no_send_on_closed_old_refuted :
  exists acts m, c18_mrun (mkVer true true false) c18_m_init acts = Some m /\ c18_get_conn m 0 = Some CPanic.
Proof. exact old_late_register_panics. Qed.
Print Assumptions C18_no_send_on_closed_old_refuted.

(* ---- The tie of the mux model: the replay that decides whether a recorded mux history agrees with
   the LTS (corr/C18_Corr.v [replay]: apply each stimulus, at a recorded quiescent point run the code's own
   atomic sections until none is enabled, perform the recorded hand-offs, compare the snapshot) is SOUND.

   Every accepted history is a run of c18_mstep (the code as it is now) from the initial state whose
   visible actions - the environment's stimuli and the rendezvous hand-offs - are exactly the recorded
   ones, in order; everything the replay inserts is one of the code's own atomic sections. *)
Theorem C18_accepted_history_is_run : forall l, replay c18_m_init l = true ->
  exists acts m, c18_mrun c18_now c18_m_init acts = Some m /\ filter c18_visible acts = stim_acts l.
Proof. exact replay_sound. Qed.
Print Assumptions C18_accepted_history_is_run.

(* ... and at every recorded quiescent point that run is in a quiescent state (no own section and no
   hand-off enabled) whose connection states, sub-listener counters and base-listener flag are the
   recorded ones.  So C18_exactly_one_handler and C18_handed_or_closed speak about the RECORDED states:
   mainLoop has not panicked; no recorded connection is dropped, leaked or hit by a send on a closed
   channel; a connection recorded as closed is closed, one recorded as handed to sub-listener s is
   handed to s in the model, was routed there by its own first byte among the listeners registered at
   its selection, and stays with s in every continuation. *)
Theorem C18_accepted_history_snapshot : forall l1 hs conns subs bc l2,
  replay c18_m_init (l1 ++ StWait hs conns subs bc :: l2) = true ->
  exists acts m,
    c18_mrun c18_now c18_m_init acts = Some m /\
    filter c18_visible acts = stim_acts (l1 ++ [StWait hs conns subs bc]) /\
    c18_quiet m /\
    map conn_code (m_conns m) = conns /\
    map (fun x => (N.of_nat (sb_errs x), N.of_nat (sb_waiting x))) (m_subs m) = subs /\
    m_base_closed m = bc /\
    m_ml m <> MLPanic /\
    forall c code, nth_error conns c = Some code ->
      exists x, c18_get_conn m c = Some x /\ code = conn_code x /\
        x <> CDropped /\ x <> CLeaked /\ x <> CPanic /\
        (code = 0 -> c18_c_terminal x = false) /\
        (code = 1 -> x = CClosed) /\
        (forall s, code = 2 + N.of_nat s -> exists b, x = CHanded b s) /\
        (forall b s, x = CHanded b s ->
           (exists acts1 acts2 m1,
              acts = acts1 ++ ASelect c :: acts2 /\ c18_mrun c18_now c18_m_init acts1 = Some m1 /\
              c18_get_conn m1 c = Some (CByte b) /\ c18_slot m1 (c18_is_socks b) = Some s) /\
           (forall more m', c18_mrun c18_now m more = Some m' -> c18_get_conn m' c = Some (CHanded b s))).
Proof. exact replay_snapshot. Qed.
Print Assumptions C18_accepted_history_snapshot.

(* ---- relay phase (handleTCP / handleConnect after the dial): model/C18_Relay.v, the two io.Copy loops with
   their buffers explicit, every interleaving, every behaviour of the two conns (any chunking, zero-length
   reads, data together with EOF or with another error, refused and short Writes) ---- *)

(* The two directions are independent byte streams.  Strike every action of the other direction (and the
   parent's Close) from ANY run: what remains is a run, and in it direction d is in the same state, holds the
   same buffer, has taken the same bytes from its source and has handed the same bytes to its sink.  A
   direction's output depends on that direction's input alone. *)
Theorem C18_relay_direction_independent : forall k d tr s,
  rl_run k false rl_init tr = Some s ->
  exists t, rl_run k false rl_init (filter (rl_is_dir d) tr) = Some t /\
            rl_pc_of d t = rl_pc_of d s /\ rl_buf_of false d t = rl_buf_of false d s /\
            rl_src d (filter (rl_is_dir d) tr) = rl_src d tr /\ rl_snk d (filter (rl_is_dir d) tr) = rl_snk d tr.
Proof. exact relay_direction_independent. Qed.
Print Assumptions C18_relay_direction_independent.

(* In every run, in each direction, what the sink accepted is a prefix of what the source handed out: in
   order, nothing replaced, duplicated or invented. *)
Theorem C18_relay_in_order : forall k d tr s,
  rl_run k false rl_init tr = Some s -> exists rest, rl_src d tr = rl_snk d tr ++ rest.
Proof. exact relay_prefix. Qed.
Print Assumptions C18_relay_in_order.

(* ... and nothing is missing whenever io.Copy's loop is back at its Read, or has ended on its source's EOF -
   the bytes that arrived together with the EOF included. *)
Theorem C18_relay_complete : forall d tr s,
  rl_run KIoCopy false rl_init tr = Some s ->
  (rl_pc_of d s = PcRead \/ rl_pc_of d s = PcRet TNil) -> rl_snk d tr = rl_src d tr.
Proof. exact relay_complete. Qed.
Print Assumptions C18_relay_complete.

(* Every Write hands its sink exactly the chunk that the SAME direction's latest Read stored, whatever the
   other direction read or wrote in between (a Write may be in progress while the other direction reads). *)
Theorem C18_relay_write_is_own_read : forall k d pre c nw ew s,
  rl_run k false rl_init (pre ++ [RlWrite d c nw ew]) = Some s ->
  exists bl er, rl_last d pre None = Some (RlRead d bl c er).
Proof. exact relay_write_is_last_read. Qed.
Print Assumptions C18_relay_write_is_own_read.

(* The conns are closed only after one of the loops has left. *)
Theorem C18_relay_close_after_return : forall k sh pre s,
  rl_run k sh rl_init (pre ++ [RlClose]) = Some s ->
  exists s1, rl_run k sh rl_init pre = Some s1 /\ (rl_is_ret (rl_pcU s1) || rl_is_ret (rl_pcD s1) = true).
Proof. exact relay_close_after_return. Qed.
Print Assumptions C18_relay_close_after_return.

(* Both statements are false of neighbouring code.  With ONE buffer handed to both loops
   (io.CopyBuffer(rConn, conn, buf) / io.CopyBuffer(conn, rConn, buf)) there is a run in which the upstream
   is written the upstream's own bytes in place of the client's - and that trace is no run of the code as it is. *)
Theorem C18_relay_shared_buffer_refuted :
  (exists s, rl_run KIoCopy true rl_init ex_shared_run = Some s) /\
  rl_src DUp ex_shared_run = [x01; x02] /\ rl_snk DUp ex_shared_run = [x09; x09] /\
  (~ exists rest, rl_src DUp ex_shared_run = rl_snk DUp ex_shared_run ++ rest) /\
  rl_run KIoCopy false rl_init ex_shared_run = None.
Proof. exact relay_shared_buffer_refuted. Qed.
Print Assumptions C18_relay_shared_buffer_refuted.

(* With a loop that tests the Read error before it forwards (n, err := src.Read(buf); if err != nil { return }),
   bytes that arrive together with io.EOF are dropped while the loop reports a clean end. *)
Theorem C18_relay_errfirst_refuted :
  exists s, rl_run KErrFirst false rl_init ex_errfirst_run = Some s /\ rl_pc_of DUp s = PcRet TNil /\
            rl_src DUp ex_errfirst_run = [x47; x45; x54] /\ rl_snk DUp ex_errfirst_run = [].
Proof. exact relay_errfirst_refuted. Qed.
Print Assumptions C18_relay_errfirst_refuted.
