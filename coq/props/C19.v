(* C19 - Port hopping stays inside the configured port set and leaks no sockets.
   Property theorems only; every proof is `exact <lemma>` from proof/C19_PortUnion.v / proof/C19_Hop.v.

   parse_raw s        the list of ranges as written in the expression s (before Normalize)
   denotes u p        port p lies in one of the listed ranges of u
   step / run         the LTS over the code's atomic sections (model/C19_Hop.v); a run is ANY action
                      list: every interleaving of hops (with any subset of failed listens and any
                      index draws), writes, arrivals, reads, deadline/buffer settings and Close.
   ce                 socket faults: ce k = "Close() of socket k reports an error"; every theorem
                      about step / run holds for EVERY such assignment.
   resolve_hop_addr   ResolveUDPHopAddr (model/C19_Addr.v): split = what net.SplitHostPort returned, resolver =
                      net.ResolveIPAddr (ANY function from hosts to (IP bytes, zone) or failure: IPv4 in 4 or
                      16 bytes, IPv6, zone-scoped, the result of a DNS lookup); addrs = UDPHopAddr.addrs().
   astep / arun       the hop LTS over the address list itself: a socket write carries the whole
                      destination address Addrs[addrIndex] (AOWrite k dst d), not only its port.
   xstep / xrun       the hop LTS together with the receiver goroutines (model/C19_Recv.v): alive x
                      says, per socket, whether its recvLoop is still running; XRecv k r is one turn
                      of socket k's loop, r what the socket's ReadFrom returned.  xreachable: after any
                      action sequence in which sockets report a permanent read error only once closed. *)
From Hy Require Import lib.Res lib.Bytes gen.ParamsC19 model.C19_PortUnion model.C19_Hop model.C19_Recv model.C19_Addr proof.C19_PortUnion proof.C19_Grammar proof.C19_Hop proof.C19_Recv proof.C19_Addr.
From Coq Require Import ZArith List Sorting.Sorted Strings.String.
Import ListNotations.
Local Open Scope N_scope.

(* An accepted expression denotes exactly the union of its listed ports and ranges: Contains and
   Ports of the parsed (normalized) union are that set; Ports lists each port once, ascending;
   the normalized ranges are well-formed, sorted, pairwise disjoint and non-adjacent; the set is
   non-empty and within 0..65535. *)
Theorem C19_denotation : forall s u, parse_raw s = Some u ->
  exists v, parse_port_union s = Some v /\
    (forall p, contains v p = true <-> denotes u p) /\
    (forall p, In p (ports v) <-> denotes u p) /\
    StronglySorted N.lt (ports v) /\ NoDup (ports v) /\
    nf v /\ ports v <> [] /\ (forall p, In p (ports v) -> p <= 65535).
Proof. exact denotation. Qed.
Print Assumptions C19_denotation.

(* ParsePortUnion returns a union exactly when the parsing loop accepts, and then it is the
   normalization of the listed ranges (so C19_denotation covers every accepted expression). *)
Theorem C19_parse_is_normalized_raw : forall s,
  (forall v, parse_port_union s = Some v -> exists u, parse_raw s = Some u /\ v = normalize u) /\
  (parse_port_union s = None <-> parse_raw s = None).
Proof. intros s. split; [exact (parse_port_union_raw s)|exact (parse_none_iff s)]. Qed.
Print Assumptions C19_parse_is_normalized_raw.

(* Normalize on ANY range list (reversed ranges included) keeps the denotation; on well-formed
   ranges its output is in normal form; Ports enumerates the denotation. *)
Theorem C19_normalize : forall u,
  (forall p, contains (normalize u) p = contains u p) /\
  (forall p, In p (ports u) <-> denotes u p) /\
  (Forall wf_range u -> nf (normalize u) /\ StronglySorted N.lt (ports (normalize u))).
Proof.
  intros u. split; [exact (contains_normalize u)|]. split; [exact (ports_in u)|].
  intros H. split; [exact (normalize_nf u H)|exact (ports_sorted _ (normalize_nf u H))].
Qed.
Print Assumptions C19_normalize.

(* The accepted language is exactly: "all", "*", or a non-empty comma-separated list of NUM or
   NUM-NUM where NUM is a non-empty string of ASCII digits (leading zeros allowed) of value
   <= 65535; the listed ranges are those numbers, a reversed pair swapped.  Everything else
   (empty items, signs, spaces, three-part ranges, 65536, ...) is rejected. *)
Theorem C19_grammar : forall s u,
  parse_raw s = Some u <->
  ((s = s_all \/ s = s_star) /\ u = [(0, 65535)]) \/
  (exists items, items <> [] /\ Forall pitem_ok items /\
                 s = join c_comma (map render_item items) /\ u = map item_range items).
Proof. exact parse_grammar. Qed.
Print Assumptions C19_grammar.

(* "all" and "*" denote 0..65535; malformed strings are rejected. *)
Theorem C19_wildcard_and_malformed :
  (forall s, s = bs "all"%string \/ s = bs "*"%string ->
     parse_port_union s = Some [(0, 65535)] /\ forall p, contains [(0, 65535)] p = true <-> p <= 65535) /\
  Forall (fun s => parse_port_union (bs s) = None)
    [""; "1-2-3"; "-5"; "5-"; "-"; ","; "65536"; "+1"; "1,,2"; ",1"; "1,"; " 1"; "1 "; "1_0"; "0x10"; "1e3";
     "all,1"; "ALL"; "**"; "1--2"; "99999999999999999999999999"; "18446744073709551616"; "1-+2"]%string.
Proof. split; [exact wildcard_all|exact malformed_rejected]. Qed.
Print Assumptions C19_wildcard_and_malformed.

(* Every socket write of every run of a hopping conn built from an accepted expression goes to a
   port of the denoted set (the address list is Ports of the parsed union, all with the server's
   IP), is a WriteTo call made while the conn is open, and leaves through the newest socket
   (k = cur = the last socket created), which is open. *)
Theorem C19_writes_in_set : forall e u ps ce r0 s0 acts k port d,
  parse_raw e = Some u -> hop_ports e = Some ps -> init ps true r0 = Ok s0 ->
  In (OSockWrite k port d) (snd (run ps ce s0 acts)) ->
  denotes u port /\
  exists pre post, acts = pre ++ AWrite d :: post /\
    let s := fst (run ps ce s0 pre) in
    closed s = false /\ k = cur s /\ S k = List.length (socks s) /\ sock_open (socks s) k = true /\
    nth_error ps (idx s) = Some port.
Proof.
  intros e u ps ce r0 s0 acts k port d Hr Hp Hi Hin.
  destruct (hop_ports_denotes e u Hr) as (ps' & Hp' & _ & _ & _ & Hd).
  rewrite Hp in Hp'. inversion Hp'; subst ps'.
  destruct (writes_in_set ps ce r0 s0 acts k port d Hi Hin) as [H1 H2].
  split; [now apply Hd|exact H2].
Qed.
Print Assumptions C19_writes_in_set.

(* The "server IP" half.  Whatever the host part resolves to (any resolver: any IP bytes of any
   family, with or without a zone): a hop address with an accepted port expression resolves, its IP
   is the resolved IP, its Ports the denoted set in ascending order without repetition, and addrs()
   is exactly one address (that IP, port, no zone) per port of the set: nothing else, nothing twice.
   A malformed port expression, a host that does not resolve and an unsplittable address are
   rejected. *)
Theorem C19_resolved_address_list : forall host portstr resolver,
  (forall i z u, resolver host = Some (i, z) -> parse_raw portstr = Some u ->
     exists a, resolve_hop_addr (Some (host, portstr)) resolver = inl a /\
       ha_ip a = i /\ ha_portstr a = portstr /\ hop_ports portstr = Some (ha_ports a) /\
       ha_ports a <> [] /\ NoDup (ha_ports a) /\ StronglySorted N.lt (ha_ports a) /\
       (forall p, In p (ha_ports a) <-> denotes u p) /\
       addrs a = map (fun p => mkUA i p []) (ha_ports a) /\
       (forall dst, In dst (addrs a) <-> ua_ip dst = i /\ ua_zone dst = [] /\ denotes u (ua_port dst)) /\
       NoDup (addrs a)) /\
  (forall a, resolve_hop_addr (Some (host, portstr)) resolver = inl a ->
     exists i z v, resolver host = Some (i, z) /\ parse_port_union portstr = Some v /\ a = mkHA i (ports v) portstr) /\
  (resolver host = None -> resolve_hop_addr (Some (host, portstr)) resolver = inr HEResolve) /\
  (forall i z, resolver host = Some (i, z) -> parse_raw portstr = None ->
     resolve_hop_addr (Some (host, portstr)) resolver = inr HEPort) /\
  resolve_hop_addr None resolver = inr HESplit.
Proof.
  intros host portstr resolver.
  split; [intros i z u; exact (resolve_spec host portstr resolver i z u)|].
  split.
  - intros a Ha. destruct (resolve_ok _ _ _ Ha) as (h & p & i & z & v & E & Hr & Hp & ->).
    inversion E; subst. exists i, z, v. repeat split; assumption.
  - split; [|split; [|reflexivity]].
    + intros Hr. unfold resolve_hop_addr. rewrite Hr. reflexivity.
    + intros i z Hr Hp. unfold resolve_hop_addr. rewrite Hr.
      apply parse_none_iff in Hp. rewrite Hp. reflexivity.
Qed.
Print Assumptions C19_resolved_address_list.

(* Every socket write of every run (any interleaving of hops, failed listens, index draws, writes,
   arrivals, reads, setters, Close; any socket faults) of a conn built from a resolved hop address is
   handed the destination (server IP, port, no zone): the IP bytes are the resolved ones (equal in
   the sense of net.IP.Equal in particular), the port lies in the denoted set, and the destination
   is Addrs[addrIndex] of the state the write found.  The run, with destinations reduced to their
   ports, is a run of the port-level LTS, so C19_writes_in_set and every theorem below hold of it. *)
Theorem C19_writes_to_server_ip : forall host portstr resolver i z u a ce r0 s0 acts k dst d,
  resolver host = Some (i, z) -> parse_raw portstr = Some u ->
  resolve_hop_addr (Some (host, portstr)) resolver = inl a ->
  ainit (addrs a) true r0 = Ok s0 ->
  In (AOWrite k dst d) (snd (arun (addrs a) ce s0 acts)) ->
  dst = mkUA i (ua_port dst) [] /\ ip_equal (ua_ip dst) i = true /\ denotes u (ua_port dst) /\
  init (ha_ports a) true r0 = Ok s0 /\
  In (OSockWrite k (ua_port dst) d) (snd (run (ha_ports a) ce s0 acts)) /\
  exists pre post, acts = pre ++ AWrite d :: post /\
    let s := fst (run (ha_ports a) ce s0 pre) in
    closed s = false /\ k = cur s /\ S k = List.length (socks s) /\ sock_open (socks s) k = true /\
    nth_error (addrs a) (idx s) = Some dst.
Proof. exact writes_to_server. Qed.
Print Assumptions C19_writes_to_server_ip.

(* The LTS over the address list and the port-level LTS are the same machine: same states, and the
   same boundary calls once a destination is reduced to its port. *)
Theorem C19_address_lts_refines : forall az ce s l,
  run (map ua_port az) ce s l = (fst (arun az ce s l), map erase (snd (arun az ce s l))).
Proof. intros az ce s l. exact (arun_erase az ce l s). Qed.
Print Assumptions C19_address_lts_refines.

(* Construction: a failed listen gives an error and no socket; with an accepted expression and a
   successful listen the conn starts (no panic) with exactly one open socket. *)
Theorem C19_init : forall e u r0, parse_raw e = Some u ->
  exists ps, hop_ports e = Some ps /\ init ps false r0 = Err EOther /\
  exists s0, init ps true r0 = Ok s0 /\ (forall ce, reachable ps ce s0) /\
             socks s0 = [mkSock true 0] /\ prev s0 = None /\ cur s0 = 0%nat /\ closed s0 = false.
Proof.
  intros e u r0 Hr. destruct (hop_ports_denotes e u Hr) as (ps & Hp & Hne & _).
  exists ps. split; [exact Hp|]. split; [reflexivity|].
  destruct ps as [|p ps]; [congruence|].
  eexists. split; [reflexivity|]. split; [|repeat split].
  intros ce. exists r0, (mkSt None 0 (r0 mod List.length (p :: ps)) false [mkSock true 0] [] 0 0 0 0 0 []), [].
  split; reflexivity.
Qed.
Print Assumptions C19_init.

(* In every reachable state the open sockets are exactly {prev, cur} (none once closed), hence at
   most two; every socket ever created is either open and never closed, or closed exactly once;
   a failed listen changes nothing (prev is not forgotten, nothing is closed). *)
Theorem C19_two_sockets : forall ps ce s, reachable ps ce s ->
  (forall k, sock_open (socks s) k = true <-> closed s = false /\ (k = cur s \/ prev s = Some k)) /\
  (forall l, NoDup l -> (forall k, In k l -> sock_open (socks s) k = true) -> (List.length l <= 2)%nat) /\
  (forall k x, nth_error (socks s) k = Some x ->
     (s_open x = true /\ s_closes x = 0) \/ (s_open x = false /\ s_closes x = 1)) /\
  (forall r, fst (step ps ce s (AHop false r)) = s).
Proof.
  intros ps ce s R. pose proof (reachable_inv ps ce s R) as I.
  split; [intros k; exact (open_iff ps s k I)|].
  split; [intros l; exact (at_most_two ps s l I)|].
  split; [intros k x; exact (closed_once_or_open ps s k x I)|].
  intros r. exact (failed_listen_changes_nothing ps ce s r).
Qed.
Print Assumptions C19_two_sockets.

(* Packets arriving on the previous (or current) socket are still delivered until the next hop:
   the receiver's offer is appended to the queue whenever there is room, a read at the select
   returns the head of the queue, and over whole runs the items accepted into the queue are exactly
   the items returned by reads, in order, followed by what is still queued (FIFO, no loss, no
   duplication).  The next successful hop closes that socket (its arrivals are dropped) while the
   old current socket, now prev, and the new one are open. *)
Theorem C19_prev_still_delivers : forall ps ce s, reachable ps ce s -> closed s = false ->
  (forall k x, (k = cur s \/ prev s = Some k) -> (List.length (queue s) < packetQueueSize)%nat ->
     step ps ce s (AArrive k x) = (with_queue s (queue s ++ [IPkt x]), [])) /\
  (forall rid pick x q, In rid (armed s) -> queue s = x :: q ->
     step ps ce s (AReadSelect rid pick) =
       (with_armed (with_queue s q) (remove_rid rid (armed s)), [ORet (ret_of_item x)])) /\
  (forall p r, prev s = Some p ->
     let s' := fst (step ps ce s (AHop true r)) in
     prev s' = Some (cur s) /\ cur s' = List.length (socks s) /\
     sock_open (socks s') p = false /\ sock_open (socks s') (cur s) = true /\
     sock_open (socks s') (cur s') = true /\
     forall x, step ps ce s' (AArrive p x) = (s', [])) /\
  (forall l, map ret_of_item (queue s) ++ map ret_of_item (accepted ps ce s l) =
             returned (snd (run ps ce s l)) ++ map ret_of_item (queue (fst (run ps ce s l)))).
Proof.
  intros ps ce s R Hc. pose proof (reachable_inv ps ce s R) as I.
  split; [intros k x Hk Hq; exact (arrive_delivers ps ce s k x I Hc Hk Hq)|].
  split; [intros rid pick x q Ha Hq; exact (read_fifo ps ce s rid pick x q Ha Hc Hq)|].
  split; [intros p r Hp; exact (hop_closes_prev ps ce s r p I Hc Hp)|].
  intros l. exact (run_fifo ps ce l s).
Qed.
Print Assumptions C19_prev_still_delivers.

(* The receiver of an open socket never stops.  A socket's receiver goroutine ends by exactly one
   kind of step: a permanent error of that socket's ReadFrom; no other action of any goroutine, no
   state of the queue (full included) and no timeout ends it.  Hence, sockets failing permanently
   only once closed, in every reachable state the receiver of every open socket (prev and cur) is
   running, whatever happened before: a datagram arriving on prev or cur is appended to the queue
   when there is room, and one that meets a full queue is dropped and changes NOTHING (the
   receiver keeps running: an overflow costs only the packets that met it; after the reader has
   drained the queue the first clause applies again).  Every run of the machine with receivers
   is, state by state and boundary call by boundary call, a run of the hop LTS, so every theorem
   above holds of it. *)
Theorem C19_receiver_never_stops : forall ps ce,
  (forall x k a, recv_alive x k = true -> recv_alive (fst (xstep ps ce x a)) k = false -> a = XRecv k RPermErr) /\
  (forall x, xreachable ps ce x ->
     reachable ps ce (base x) /\
     List.length (alive x) = List.length (socks (base x)) /\
     (forall k, sock_open (socks (base x)) k = true -> recv_alive x k = true) /\
     (closed (base x) = false -> forall k p, (k = cur (base x) \/ prev (base x) = Some k) ->
        recv_alive x k = true /\
        ((List.length (queue (base x)) < packetQueueSize)%nat ->
           xstep ps ce x (XRecv k (RData p)) = (mkX (with_queue (base x) (queue (base x) ++ [IPkt p])) (alive x), [])) /\
        (List.length (queue (base x)) = packetQueueSize ->
           xstep ps ce x (XRecv k (RData p)) = (x, [])))) /\
  (forall x l, run ps ce (base x) (proj ps ce x l) = (base (fst (xrun ps ce x l)), snd (xrun ps ce x l))).
Proof.
  intros ps ce. split; [intros x k a; exact (recv_exit_only_on_error ps ce x k a)|]. split.
  - intros x R. split; [exact (xreachable_base ps ce x R)|].
    destruct (xreachable_inv ps ce x R) as [L O]. split; [exact L|]. split; [exact O|].
    intros Hc k p Hk. exact (recv_delivers ps ce x k p R Hc Hk).
  - intros x l. exact (xrun_refines ps ce l x).
Qed.
Print Assumptions C19_receiver_never_stops.

(* Close: afterwards every socket ever created is closed, each exactly once; Close itself closes
   prev (if any) and cur and nothing else, and returns what cur's Close reported.  On a closed
   conn, for ever after and under every further action sequence: hops do not even call
   ListenUDPFunc, no socket is written or closed again, the census does not change, WriteTo and a
   ReadFrom that starts now fail with the closed error, and a second Close is a no-op returning
   nil. *)
Theorem C19_close_final : forall ps ce s, reachable ps ce s ->
  (closed s = false ->
     let s' := fst (step ps ce s AClose) in
     closed s' = true /\ List.length (socks s') = List.length (socks s) /\
     (forall k, (k < List.length (socks s'))%nat -> nth_error (socks s') k = Some (mkSock false 1)) /\
     snd (step ps ce s AClose) =
       out_close_opt ce (prev s) ++ [OSockClose (cur s) (ce (cur s)); ORet (if ce (cur s) then RSockErr else RNil)]) /\
  (closed s = true ->
     (forall k, (k < List.length (socks s))%nat -> nth_error (socks s) k = Some (mkSock false 1)) /\
     (forall ok r, step ps ce s (AHop ok r) = (s, [])) /\
     (forall d, step ps ce s (AWrite d) = (s, [ORet RClosed])) /\
     (forall rid, step ps ce s (AReadBegin rid) = (s, [ORet RClosed])) /\
     step ps ce s AClose = (s, [ORet RNil]) /\
     (forall l, closed (fst (run ps ce s l)) = true /\ socks (fst (run ps ce s l)) = socks s /\
        forall o, In o (snd (run ps ce s l)) ->
          o <> OListen true /\ o <> OListen false /\ (forall k p d, o <> OSockWrite k p d) /\
          forall k e, o <> OSockClose k e)).
Proof.
  intros ps ce s R. pose proof (reachable_inv ps ce s R) as I. split.
  - intros Hc. exact (close_spec ps ce s I Hc).
  - intros Hc. destruct (closed_absorbing ps ce s Hc) as (H1 & H2 & H3 & H4 & _).
    split; [intros k Hk; exact (closed_all_closed ps s k I Hc Hk)|].
    split; [exact H1|]. split; [exact H2|]. split; [exact H3|]. split; [exact H4|].
    intros l. exact (closed_stays ps ce l s Hc).
Qed.
Print Assumptions C19_close_final.

(* Socket faults do not keep Close from closing.  For EVERY assignment ce of "Close() of socket k
   reports an error" (none, prev's, cur's, both, any sockets closed by earlier hops) and every
   reachable state: the assignment influences no state at all, only the recorded results of the
   socket Close calls and the value Close returns (so the same states are reachable under every
   assignment).  Close on an open conn calls Close on prev (if any) and on cur, each once, whatever
   the first call reported; it returns cur's error (prev's is dropped) only after the closed flag is
   set (closeChan closed); afterwards every socket ever created is closed exactly once, and from the
   resulting state: a hop opens nothing (ListenUDPFunc is not called), WriteTo and a new ReadFrom
   fail with the closed error, every ReadFrom that was parked in its select when Close came can
   return (with the closed error if the queue is empty or the select picks closeChan) and is then
   no longer parked, whereas on the open conn with an empty queue it was blocked; a second Close
   returns nil; and under every further action sequence nothing is listened on, written or closed
   again and the census stays as it is. *)
Theorem C19_close_despite_socket_errors : forall ps ce s, reachable ps ce s ->
  (forall ce' l, fst (run ps ce' s l) = fst (run ps ce s l)) /\
  (forall ce', reachable ps ce' s) /\
  (closed s = false ->
     let s' := fst (step ps ce s AClose) in
     snd (step ps ce s AClose) =
       out_close_opt ce (prev s) ++ [OSockClose (cur s) (ce (cur s)); ORet (if ce (cur s) then RSockErr else RNil)] /\
     closed s' = true /\ List.length (socks s') = List.length (socks s) /\
     (forall k, (k < List.length (socks s'))%nat -> nth_error (socks s') k = Some (mkSock false 1)) /\
     (forall ok r, step ps ce s' (AHop ok r) = (s', [])) /\
     (forall d, step ps ce s' (AWrite d) = (s', [ORet RClosed])) /\
     (forall rid, step ps ce s' (AReadBegin rid) = (s', [ORet RClosed])) /\
     (forall rid pick, In rid (armed s) ->
        (queue s = [] -> step ps ce s (AReadSelect rid pick) = (s, [])) /\
        exists s'' r, step ps ce s' (AReadSelect rid pick) = (s'', [ORet r]) /\ ~ In rid (armed s'') /\
                      closed s'' = true /\ socks s'' = socks s' /\
                      (queue s = [] \/ pick = true -> r = RClosed)) /\
     step ps ce s' AClose = (s', [ORet RNil]) /\
     (forall l, closed (fst (run ps ce s' l)) = true /\ socks (fst (run ps ce s' l)) = socks s' /\
        forall o, In o (snd (run ps ce s' l)) ->
          o <> OListen true /\ o <> OListen false /\ (forall k p d, o <> OSockWrite k p d) /\
          forall k e, o <> OSockClose k e)).
Proof.
  intros ps ce s R. pose proof (reachable_inv ps ce s R) as I.
  split; [intros ce' l; exact (run_state_indep ps ce ce' l s)|].
  split; [intros ce'; exact (reachable_indep ps ce ce' s R)|].
  intros Hc. destruct (close_spec_faults ps ce s I Hc) as (H1 & H2 & H3 & H4 & H5 & H6 & I').
  destruct (closed_absorbing ps ce _ H2) as (A1 & A2 & A3 & A4 & _).
  split; [exact H1|]. split; [exact H2|]. split; [exact H3|]. split; [exact H4|].
  split; [exact A1|]. split; [exact A2|]. split; [exact A3|].
  split.
  - intros rid pick Ha. split; [intros Hq; exact (read_blocked ps ce s rid pick Hc Hq)|].
    rewrite <- H5 in Ha. destruct (read_woken ps ce _ rid pick H2 Ha) as (s'' & r & E1 & E2 & E3 & E4 & E5).
    exists s'', r. rewrite H6 in E5. repeat split; assumption.
  - split; [exact A4|]. intros l. exact (closed_stays ps ce l _ H2).
Qed.
Print Assumptions C19_close_despite_socket_errors.

(* Hop interval: (0,0) means the default; one-sided, min > max and min below the minimum are
   rejected; anything accepted satisfies minimum <= min <= max and is unchanged; the next hop
   interval never panics and lies in [min, max] for every value of the random source. *)
Theorem C19_interval :
  (forall mn mx,
     match normalized mn mx with
     | Some (a, b) => (minHopInterval <= a <= b)%Z /\
                      ((mn = 0 /\ mx = 0 /\ a = defaultHopInterval /\ b = defaultHopInterval)%Z \/
                       (mn <> 0 /\ mx <> 0 /\ a = mn /\ b = mx)%Z)
     | None => ((mn = 0 /\ mx <> 0) \/ (mn <> 0 /\ mx = 0) \/
                (mn <> 0 /\ mx <> 0 /\ (mx < mn \/ mn < minHopInterval)))%Z
     end) /\
  (forall a b r, (minHopInterval <= a <= b)%Z -> (b < 2 ^ 63)%Z ->
     exists v, next_interval a b r = Ok v /\ (a <= v <= b)%Z).
Proof. split; [exact normalized_spec|exact next_interval_range]. Qed.
Print Assumptions C19_interval.
