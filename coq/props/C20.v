(* C20 - Hole-punch demux diverts only punch/STUN packets.
   Property theorems only; every proof is `exact <lemma>` from proof/C20_Punch.v.

   H is the hash (an arbitrary function; the code runs H = sha256, lib/Sha256.v); the only thing the
   demultiplexer theorems need from it is that a digest is never empty, which holds for sha256
   (the C20_sha256 theorems below).  is_stun is pion/stun's classification of a datagram as a binding-success
   response with a mapped address (oracle).  `pick` resolves Go's map iteration order.  A state
   `s` is arbitrary: every registry a history can produce is covered, and C20_registry_history
   says which registry a given history produces. *)
From Hy Require Import model.C20_Punch proof.C20_Punch model.C20_Owner proof.C20_Owner.
From Coq Require Import ZArith.
Local Open Scope N_scope.

(* Sentence 1.  One datagram through the ReadFrom loop, in any state and for any resolution of the
   map order: it is withheld iff it is a STUN binding response or (its source is a usable UDP
   address and) it decodes under some currently registered attempt; if it is not withheld it is
   handed over unchanged with its source address and nothing in the state changes; a punch event
   names a registered attempt under which the datagram really decodes; the registry is untouched. *)
Theorem C20_divert_iff : forall H is_stun, (forall x, H x <> []) ->
  forall s p from pick,
  exists s' o, step H is_stun s (ARecv p from pick) = Ok (s', o) /\
    (diverted o = true <->
       is_stun p = true \/ (addr_to_addrport from <> None /\ decodes_some H (d_reg s) p)) /\
    (diverted o = false -> o = OPass p from /\ s' = s) /\
    (forall ev, o = OPunch ev ->
       is_stun p = false /\ Some (e_from ev) = addr_to_addrport from /\
       exists m, In (e_id ev, m) (d_reg s) /\ decode_punch H p m = Ok (e_ty ev, e_pad ev)) /\
    d_reg s' = d_reg s.
Proof. exact divert_iff. Qed.
Print Assumptions C20_divert_iff.

(* ReadFrom as a whole: the datagram it returns is an item of the wrapped conn's stream,
   byte-identical and with its own address, it is neither STUN nor a registered punch packet,
   and every item skipped before it was one of the two. *)
Theorem C20_readfrom_returns_only_foreign : forall H is_stun, (forall x, H x <> []) ->
  forall q s s' q' p from,
  read_from H is_stun s q = Ok (s', q', RPkt p from) ->
  exists pre pick,
    q = pre ++ UPkt p from pick :: q' /\ d_reg s' = d_reg s /\
    is_stun p = false /\ (addr_to_addrport from = None \/ ~ decodes_some H (d_reg s) p) /\
    Forall (fun u => exists p0 f0 k0, u = UPkt p0 f0 k0 /\
                      (is_stun p0 = true \/ (addr_to_addrport f0 <> None /\ decodes_some H (d_reg s) p0))) pre.
Proof. exact read_from_spec. Qed.
Print Assumptions C20_readfrom_returns_only_foreign.

(* Every history (any interleaving of AddPunchAttempt, RemovePunchAttempt, datagrams and event
   consumption; each is one atomic section of the code): the run never fails or panics and the
   registry holds, for every id, the metadata of the last accepted Add not followed by a Remove. *)
Theorem C20_registry_history : forall H is_stun, (forall x, H x <> []) ->
  forall l s id, keys_nodup (d_reg s) ->
  exists s' outs, run H is_stun s l = Ok (s', outs) /\ keys_nodup (d_reg s') /\ length outs = length l /\
                  reg_find id (d_reg s') = binding l id (reg_find id (d_reg s)).
Proof. exact run_registry. Qed.
Print Assumptions C20_registry_history.

(* Last sentence.  After RemovePunchAttempt id (and no later Add of id), whatever else happened
   before and after: id is not registered, and a datagram that decodes under no other registered
   attempt goes to the reader unchanged. *)
Theorem C20_removed_not_diverted : forall H is_stun, (forall x, H x <> []) ->
  forall l1 l2 id p from pick s0,
  keys_nodup (d_reg s0) ->
  (forall id' m, In (AAdd id' m) l2 -> id' <> id) ->
  is_stun p = false ->
  exists s outs, run H is_stun s0 (l1 ++ ARemove id :: l2) = Ok (s, outs) /\
    reg_find id (d_reg s) = None /\
    ((forall id' m ty pad, In (id', m) (d_reg s) -> decode_punch H p m = Ok (ty, pad) -> id' = id) ->
     step H is_stun s (ARecv p from pick) = Ok (s, OPass p from)).
Proof. exact removed_not_diverted. Qed.
Print Assumptions C20_removed_not_diverted.

(* Sentence 2, round trip: both types, every padding length <= MaxPunchPadding, every salt. *)
Theorem C20_codec_roundtrip : forall H ty m padding salt,
  valid_type ty = true -> length salt = punchSaltLen -> (length padding <= MaxPunchPadding)%nat ->
  (exists n k, decode_meta m = Ok (n, k) /\ H (k ++ salt) <> []) ->
  exists pkt, encode_punch H ty m padding salt = Ok pkt /\
              length pkt = (punchMinWireLen + length padding)%nat /\
              decode_punch H pkt m = Ok (ty, length padding).
Proof. exact roundtrip. Qed.
Print Assumptions C20_codec_roundtrip.

(* DecodePunchPacket accepts exactly the packets EncodePunchPacket can produce under the same
   metadata (some salt, some padding of that length, that type). *)
Theorem C20_decode_only_encodings : forall H p m ty pad,
  decode_punch H p m = Ok (ty, pad) <->
  exists salt rest, length salt = punchSaltLen /\ length rest = pad /\ (pad <= MaxPunchPadding)%nat /\
                    (forall n k, decode_meta m = Ok (n, k) -> H (k ++ salt) <> []) /\
                    encode_punch H ty m rest salt = Ok p.
Proof. exact decode_ok_iff. Qed.
Print Assumptions C20_decode_only_encodings.

(* A packet encoded under m that decodes under m': same padding length, the two masked headers
   coincide (so the masks agree on the magic bytes and differ by the header difference on the 25
   header bytes), and when the two masks are equal (in particular: same key) the nonce and the
   type are the same. *)
Theorem C20_decode_only_own_meta : forall H ty m padding salt pkt m' ty' pad',
  encode_punch H ty m padding salt = Ok pkt -> length salt = punchSaltLen ->
  decode_punch H pkt m' = Ok (ty', pad') ->
  exists n k n' k', decode_meta m = Ok (n, k) /\ decode_meta m' = Ok (n', k') /\
    pad' = length padding /\
    xor_cyc (H (k ++ salt)) 0 (hdr ty n) = xor_cyc (H (k' ++ salt)) 0 (hdr ty' n') /\
    zipxor (mstream (H (k ++ salt)) punchHeaderLen) (mstream (H (k' ++ salt)) punchHeaderLen) = zipxor (hdr ty n) (hdr ty' n') /\
    mstream (H (k ++ salt)) (length punchMagic) = mstream (H (k' ++ salt)) (length punchMagic) /\
    (H (k ++ salt) = H (k' ++ salt) -> n' = n /\ ty' = ty).
Proof. exact cross_meta_punch. Qed.
Print Assumptions C20_decode_only_own_meta.

(* ... hence, when the masks of two different keys do not agree on the 8 magic bytes (the
   explicit hypothesis mask_collision_free; it fails with probability 2^-64 per pair for a
   random-looking hash), a packet decodes under m' iff m' denotes the nonce and key it was
   encoded with. *)
Theorem C20_decode_iff_same_meta : forall H ty m padding salt pkt m' n k n' k',
  encode_punch H ty m padding salt = Ok pkt -> length salt = punchSaltLen ->
  (length padding <= MaxPunchPadding)%nat ->
  decode_meta m = Ok (n, k) -> decode_meta m' = Ok (n', k') ->
  mask_collision_free H (k ++ salt) (k' ++ salt) ->
  ((exists r, decode_punch H pkt m' = Ok r) <-> (n', k') = (n, k)).
Proof. exact decode_iff_same_meta. Qed.
Print Assumptions C20_decode_iff_same_meta.

(* Nothing shorter than 33 or longer than 1057 bytes decodes, under any metadata. *)
Theorem C20_length_window : forall H p m,
  (length p < punchMinWireLen \/ punchMaxWireLen < length p)%nat ->
  exists e, decode_punch H p m = Err e.
Proof. exact length_window. Qed.
Print Assumptions C20_length_window.

(* Flipping any single bit of bytes 8..32 (magic, type, nonce) of a packet that decodes makes it
   undecodable under the same metadata - unconditionally. *)
Theorem C20_header_flip : forall H p m ty pad i b,
  decode_punch H p m = Ok (ty, pad) ->
  (punchSaltLen <= i < punchMinWireLen)%nat -> b < 8 ->
  forall r, decode_punch H (flip_at p i b) m <> Ok r.
Proof. exact header_flip. Qed.
Print Assumptions C20_header_flip.

(* Flipping a bit of the salt changes the mask: the packet can still decode only if the masks of
   the two (different) salts agree on the magic bytes - excluded by mask_collision_free. *)
Theorem C20_salt_flip : forall H p m ty pad i b r,
  decode_punch H p m = Ok (ty, pad) -> (i < punchSaltLen)%nat -> b < 8 ->
  decode_punch H (flip_at p i b) m = Ok r ->
  exists n k, decode_meta m = Ok (n, k) /\
    flip_at (firstn punchSaltLen p) i b <> firstn punchSaltLen p /\
    mstream (H (k ++ firstn punchSaltLen p)) (length punchMagic) =
    mstream (H (k ++ flip_at (firstn punchSaltLen p) i b)) (length punchMagic).
Proof. exact salt_flip. Qed.
Print Assumptions C20_salt_flip.

(* DecodePunchPacket never panics, for every byte string and every metadata text (for C03). *)
Theorem C20_decode_never_panics : forall H p m, (forall x, H x <> []) ->
  forall site, decode_punch H p m <> Panic site.
Proof. exact decode_punch_no_panic. Qed.
Print Assumptions C20_decode_never_panics.

(* The instance the code runs.  SHA-256 digests have 32 bytes, so every hypothesis on H above is
   discharged: no panic for any input, round trip for every valid metadata. *)
Theorem C20_sha256_never_panics : forall p m site, decode_punch256 p m <> Panic site.
Proof. exact decode_punch256_no_panic. Qed.
Print Assumptions C20_sha256_never_panics.

Theorem C20_sha256_roundtrip : forall ty m padding salt,
  valid_type ty = true -> length salt = punchSaltLen -> (length padding <= MaxPunchPadding)%nat ->
  is_ok (decode_meta m) = true ->
  exists pkt, encode_punch256 ty m padding salt = Ok pkt /\
              length pkt = (punchMinWireLen + length padding)%nat /\
              decode_punch256 pkt m = Ok (ty, length padding).
Proof. exact roundtrip256. Qed.
Print Assumptions C20_sha256_roundtrip.

Theorem C20_sha256_divert_iff : forall is_stun s p from pick,
  exists s' o, step256 is_stun s (ARecv p from pick) = Ok (s', o) /\
    (diverted o = true <->
       is_stun p = true \/ (addr_to_addrport from <> None /\ decodes_some sha256 (d_reg s) p)) /\
    (diverted o = false -> o = OPass p from /\ s' = s) /\
    (forall ev, o = OPunch ev ->
       is_stun p = false /\ Some (e_from ev) = addr_to_addrport from /\
       exists m, In (e_id ev, m) (d_reg s) /\ decode_punch256 p m = Ok (e_ty ev, e_pad ev)) /\
    d_reg s' = d_reg s.
Proof. exact (fun is_stun => divert_iff sha256 is_stun sha256_nonempty). Qed.
Print Assumptions C20_sha256_divert_iff.

(* ServerPuncher: an event is forwarded only to the channel registered under its own attempt id,
   every other channel is unchanged. *)
Theorem C20_server_routes_by_id : forall H is_stun s s' o,
  sstep H is_stun s SDispatch = Ok (s', o) ->
  d_reg (s_conn s') = d_reg (s_conn s) /\
  match o with
  | SORouted (Some id) =>
      exists ev q ch, d_ev (s_conn s) = ev :: q /\ d_ev (s_conn s') = q /\ id = e_id ev /\
                      att_find id (s_att s) = Some ch /\ att_find id (s_att s') = Some (ch ++ [ev]) /\
                      forall id', id' <> id -> att_find id' (s_att s') = att_find id' (s_att s)
  | SORouted None => s_att s' = s_att s
  | _ => False
  end.
Proof. exact dispatch_routes. Qed.
Print Assumptions C20_server_routes_by_id.

(* removeAttempt id: the entry stored under exactly this id string is gone from both registries;
   every other id - in particular one that differs only in letter case - and both event queues
   are untouched. *)
Theorem C20_server_remove : forall H is_stun s s' o id,
  sstep H is_stun s (SRemove id) = Ok (s', o) ->
  att_find id (s_att s') = None /\ reg_find id (d_reg (s_conn s')) = None /\
  (forall id', id' <> id -> att_find id' (s_att s') = att_find id' (s_att s) /\
                            reg_find id' (d_reg (s_conn s')) = reg_find id' (d_reg (s_conn s))) /\
  d_ev (s_conn s') = d_ev (s_conn s) /\ d_stun (s_conn s') = d_stun (s_conn s).
Proof. exact server_remove. Qed.
Print Assumptions C20_server_remove.

(* addAttempt id m is accepted iff id is non-empty, m is well formed and nothing is registered
   under exactly this string; it is then stored in both registries under exactly this string
   (so the removeAttempt of the same string removes it); a rejected call changes nothing. *)
Theorem C20_server_add_exact : forall H is_stun s id m s' ok,
  sstep H is_stun s (SAdd id m) = Ok (s', SOAdd ok) ->
  (ok = true <-> att_find id (s_att s) = None /\ id <> [] /\ is_ok (decode_meta m) = true) /\
  (ok = true -> att_find id (s_att s') = Some [] /\ reg_find id (d_reg (s_conn s')) = Some m) /\
  (ok = false -> s' = s).
Proof. exact server_add_exact. Qed.
Print Assumptions C20_server_add_exact.

(* The dispatch goroutine leaving on the lifetime context given to NewServerPuncher: neither
   registry and no queue changes (a Respond still in flight keeps its registration and still owns
   its deferred removal). *)
Theorem C20_server_stop : forall H is_stun s s' o,
  sstep H is_stun s SStop = Ok (s', o) ->
  s_conn s' = s_conn s /\ s_att s' = s_att s /\ s_live s' = false.
Proof. exact server_stop. Qed.
Print Assumptions C20_server_stop.

(* The outcome type covers every way a call of Respond can go: from every state and for all
   arguments one of the outcomes is enabled (a validation exit, the duplicate-id exit, or
   registration followed by any of the three exits of the select loop). *)
Theorem C20_server_respond_outcomes : forall s a w,
  exists o, respond_can s a o /\ (forall w', o = RoWait w' -> w' = w).
Proof. exact respond_outcome_total. Qed.
Print Assumptions C20_server_respond_outcomes.

(* Last sentence, for a ServerPuncher.Respond that got as far as registering (respond_trace =
   addAttempt id; anything - datagrams, dispatch, other attempts, the puncher's lifetime context
   being cancelled at any point -; its own receive if it leaves through the event case; the
   deferred removeAttempt id), from any state, for any arguments and whichever exit of the select
   it takes: the run never fails; once Respond has returned, id is in neither registry, the conn's
   table is the table without id, a datagram that decodes under no other registered attempt (a late
   or retransmitted punch packet of the finished attempt) is handed to the reader unchanged and
   changes nothing, and the same id can be registered again. *)
Theorem C20_server_respond_removes : forall H is_stun, (forall x, H x <> []) ->
  forall s0 a w mid, keys_nodup (d_reg (s_conn s0)) ->
  exists s outs, srun H is_stun s0 (respond_trace a (RoWait w) mid) = Ok (s, outs) /\
    att_find (ra_id a) (s_att s) = None /\ reg_find (ra_id a) (d_reg (s_conn s)) = None /\
    reg_remove (ra_id a) (d_reg (s_conn s)) = d_reg (s_conn s) /\
    (forall p from pick, is_stun p = false ->
       (forall id' m' ty pad, In (id', m') (d_reg (s_conn s)) -> decode_punch H p m' = Ok (ty, pad) -> id' = ra_id a) ->
       sstep H is_stun s (SConn (ARecv p from pick)) = Ok (s, SOConn (OPass p from))) /\
    (forall m', ra_id a <> [] -> is_ok (decode_meta m') = true ->
       exists s', sstep H is_stun s (SAdd (ra_id a) m') = Ok (s', SOAdd true)).
Proof. exact respond_removes. Qed.
Print Assumptions C20_server_respond_removes.

(* ... and for EVERY outcome of Respond (each validation exit: empty id, malformed metadata, no
   compatible peer address, negative timeout, non-positive interval; the duplicate-id exit; success,
   timeout, cancellation of the caller's context; the puncher's context cancelled at any point, SStop
   anywhere in `mid` or before the call).  The exits before the registration and the duplicate exit
   leave the state exactly as it was: nothing is registered and nothing is removed - the attempt of
   the Respond already in flight under that id stays registered.  For every outcome, if the id was
   not in use before the call or Respond registered it, then after Respond has returned the id is
   in neither registry, the conn's table equals the table without it, late packets of the attempt
   that decode under no other registered attempt reach the reader unchanged, and the id can be
   registered again. *)
Theorem C20_server_respond_done : forall H is_stun, (forall x, H x <> []) ->
  forall s0 a o mid, keys_nodup (d_reg (s_conn s0)) -> respond_can s0 a o ->
  exists s outs, srun H is_stun s0 (respond_trace a o mid) = Ok (s, outs) /\
    (match o with RoWait _ => True | _ => s = s0 end) /\
    ((match o with
      | RoWait _ => True
      | _ => att_find (ra_id a) (s_att s0) = None /\ reg_find (ra_id a) (d_reg (s_conn s0)) = None
      end) ->
     att_find (ra_id a) (s_att s) = None /\ reg_find (ra_id a) (d_reg (s_conn s)) = None /\
     reg_remove (ra_id a) (d_reg (s_conn s)) = d_reg (s_conn s) /\
     (forall p from pick, is_stun p = false ->
        (forall id' m' ty pad, In (id', m') (d_reg (s_conn s)) -> decode_punch H p m' = Ok (ty, pad) -> id' = ra_id a) ->
        sstep H is_stun s (SConn (ARecv p from pick)) = Ok (s, SOConn (OPass p from))) /\
     (forall m', ra_id a <> [] -> is_ok (decode_meta m') = true ->
        exists s', sstep H is_stun s (SAdd (ra_id a) m') = Ok (s', SOAdd true))).
Proof. exact respond_done. Qed.
Print Assumptions C20_server_respond_done.

(* ---------------- socket ownership (model/C20_Owner.v) ----------------
   "Every other packet reaches QUIC" is a statement about the socket, not about one call of
   PunchPacketConn.ReadFrom: the kernel gives each datagram to exactly one caller of ReadFrom.
   ostate = the socket's receive queue + the PunchPacketConn + what QUIC's ReadFrom has returned
   (o_quic) + what went to anybody else (o_else) + the socket's read deadline + the phase of the
   server runtime that owns the socket (app/cmd/server.go). *)

(* One QUIC-side read of a non-empty socket, in any state: the head of the queue leaves it; it is
   withheld iff it is a STUN binding response or decodes under a registered attempt (usable
   source); otherwise QUIC gets exactly that datagram and the conn is unchanged; nobody else gets
   anything, the deadline and the error count are untouched. *)
Theorem C20_owner_quic_read : forall H is_stun, (forall x, H x <> []) ->
  forall s g q pick, o_sock s = g :: q ->
  exists s' o, ostep H is_stun s (ORead RQuic pick) = Ok (s', OOQuic o) /\
    o_sock s' = q /\ o_else s' = o_else s /\ o_dl s' = o_dl s /\ o_qerr s' = o_qerr s /\ o_ph s' = o_ph s /\
    d_reg (o_d s') = d_reg (o_d s) /\
    (diverted o = true <->
       is_stun (g_bytes g) = true \/ (addr_to_addrport (g_from g) <> None /\ decodes_some H (d_reg (o_d s)) (g_bytes g))) /\
    (diverted o = false -> o_quic s' = o_quic s ++ [g] /\ o_d s' = o_d s) /\
    (diverted o = true -> o_quic s' = o_quic s).
Proof. exact read_quic_spec. Qed.
Print Assumptions C20_owner_quic_read.

(* A single reader.  Every history - datagrams arriving, QUIC reading, attempts registered and
   removed, events consumed, the hand-over, time passing, in any order - in which QUIC is the only
   party that reads the socket or touches its read deadline, from any state; ms = any table that
   contains the metadata of every attempt registered at the start or during the history.  The run
   never fails; the datagrams that left the socket are a prefix `consumed` of queue ++ arrivals; what
   QUIC received (`del`) is a subsequence of them (in order, none twice, byte-identical with their
   source address); every consumed datagram that is neither STUN nor decodable under anything in ms
   was delivered - the two filtered lists are EQUAL; nothing went to anybody else; the deadline is
   as it was and, if none was armed, no QUIC-side read failed. *)
Theorem C20_single_reader_delivers : forall H is_stun, (forall x, H x <> []) ->
  forall l s ms,
  forallb quic_only l = true ->
  (forall id m, In (id, m) (d_reg (o_d s)) -> In m ms) ->
  (forall m, In m (added l) -> In m ms) ->
  exists s' outs consumed del,
    orun H is_stun s l = Ok (s', outs) /\
    o_sock s ++ arrivals l = consumed ++ o_sock s' /\
    o_quic s' = o_quic s ++ del /\ subseq del consumed /\
    filter (foreign H is_stun ms) del = filter (foreign H is_stun ms) consumed /\
    o_else s' = o_else s /\ o_dl s' = o_dl s /\ (o_dl s = false -> o_qerr s' = o_qerr s) /\
    (forall id m, In (id, m) (d_reg (o_d s')) -> In m ms).
Proof. exact single_reader_delivers. Qed.
Print Assumptions C20_single_reader_delivers.

(* Two readers: the statement is false as soon as anybody else reads the socket.  QUIC serves,
   three QUIC-like datagrams arrive, a discovery on the socket itself (realm.Discover) takes the
   second one: it is foreign, it left the socket, QUIC never gets it. *)
Theorem C20_two_readers_refuted :
  exists l s' outs,
    orun sha256 no_stun (o_init 0) l = Ok (s', outs) /\ o_sock s' = [] /\
    Forall (fun a => match a with ORead r _ => r = RQuic \/ r = RDirect | _ => True end) l /\
    exists g, In g (arrivals l) /\ foreign sha256 no_stun (added l) g = true /\
              ~ In g (o_quic s') /\ In g (o_else s').
Proof. exact two_readers_refuted. Qed.
Print Assumptions C20_two_readers_refuted.

(* ... and the read deadline is one per socket: armed by anybody else, its expiry fails a QUIC-side
   read although QUIC is the only one who reads. *)
Theorem C20_foreign_deadline_refuted :
  exists l s' outs,
    orun sha256 no_stun (o_init 0) l = Ok (s', outs) /\ (0 < o_qerr s')%nat /\
    forallb quic_only (filter (fun a => match a with OSetDeadline _ _ => false | _ => true end) l) = true.
Proof. exact foreign_deadline_refuted. Qed.
Print Assumptions C20_foreign_deadline_refuted.

(* The runtime of app/cmd/server.go as written (site_how: the startup discovery reads the socket
   itself, the refresh before a re-registration and the per-connect refresh receive from
   STUNEvents()): in every well-formed history, once QUIC serves it is the only reader. *)
Theorem C20_runtime_single_reader : forall h,
  rt_wf PServing h = true -> forallb quic_only (rt_trace site_how h) = true.
Proof. exact rt_serving_quic_only. Qed.
Print Assumptions C20_runtime_single_reader.

(* Hence, for every well-formed history of the runtime - startup (discovery alone on the socket,
   any number of loop iterations, whatever arrives meanwhile), the hand-over to QUIC, then in any
   order and any number of times: lost sessions with re-registration, per-connect refreshes,
   datagrams arriving, QUIC reading, punch attempts registered and removed, time passing: at the
   hand-over QUIC has received nothing; from then on what QUIC's ReadFrom returned is a subsequence
   of what left the socket, every datagram that left the socket and is neither STUN nor decodable
   under any metadata ever registered was returned to QUIC (equal filtered lists: exactly once, in
   order), nothing went to anybody else, and no QUIC-side read failed. *)
Theorem C20_runtime_delivers : forall H is_stun, (forall x, H x <> []) ->
  forall pre post cap ms,
  rt_wf PStartup (pre ++ RtServe :: post) = true ->
  (forall m, In m (added (rt_trace site_how (pre ++ RtServe :: post))) -> In m ms) ->
  exists s1 outs1 s2 outs2 consumed,
    orun H is_stun (o_init cap) (rt_trace site_how (pre ++ [RtServe])) = Ok (s1, outs1) /\
    orun H is_stun s1 (rt_trace site_how post) = Ok (s2, outs2) /\
    o_quic s1 = [] /\
    o_sock s1 ++ arrivals (rt_trace site_how post) = consumed ++ o_sock s2 /\
    subseq (o_quic s2) consumed /\
    filter (foreign H is_stun ms) (o_quic s2) = filter (foreign H is_stun ms) consumed /\
    o_else s2 = o_else s1 /\ o_qerr s2 = 0%nat.
Proof. exact runtime_delivers. Qed.
Print Assumptions C20_runtime_delivers.

(* The same runtime with the refresh before a re-registration run on the socket itself
   (refreshAddrsDirect in registerWithBackoff): refuted by a well-formed history in which a foreign
   datagram that arrives while QUIC serves is taken by the discovery. *)
Theorem C20_runtime_direct_reregister_refuted :
  exists pre post s2 outs,
    rt_wf PStartup (pre ++ RtServe :: post) = true /\
    orun sha256 no_stun (o_init 0) (rt_trace site_how_direct_reregister (pre ++ RtServe :: post)) = Ok (s2, outs) /\
    o_sock s2 = [] /\
    exists g, In g (arrivals (rt_trace site_how_direct_reregister post)) /\
              foreign sha256 no_stun [] g = true /\ ~ In g (o_quic s2) /\ In g (o_else s2).
Proof. exact runtime_direct_reregister_refuted. Qed.
Print Assumptions C20_runtime_direct_reregister_refuted.
