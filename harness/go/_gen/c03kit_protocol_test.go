//go:build verif

package protocol

// C03 kit (instantiated per package from harness/go/c03/kit_test.go.tmpl): crash-freedom
// harness shared by every package of the property's file list.
//
// An entry point (c03EP) is run under recover() on input SEQUENCES (a stateless decoder gets
// sequences of length one) generated here from a seed:
//   (i)   boundary corpora: every length 0..40 of zero / 0xff / counting bytes, plus the entry
//         point's own boundary list (declared-length fields at 0, 1, limit-1, limit, limit+1,
//         2^14, 2^30, 2^62-1 in every varint width, i.e. non-minimal encodings included);
//   (ii)  valid frames produced by the package's own encoders, then mutated: truncated at every
//         position, extended, every header byte flipped three ways, spliced with another frame;
//   (iii) random bytes.
// Stateful receivers additionally get sequences assembled from those datagrams (permuted,
// duplicated, interleaved, junk inserted).  Every slice handed to the code has cap == len and
// is a fresh copy.  A job reports the panics (entry point, input hex, message); ok=false iff
// any input panicked.

import (
	"encoding/json"
	"fmt"
	"os"
	"runtime/debug"
	"sort"
	"strings"
	"testing"
	"time"
)

// ---------------------------------------------------------------- rng (splitmix64)
type c03Rng struct{ s uint64 }

func (r *c03Rng) next() uint64 {
	r.s += 0x9e3779b97f4a7c15
	z := r.s
	z = (z ^ (z >> 30)) * 0xbf58476d1ce4e5b9
	z = (z ^ (z >> 27)) * 0x94d049bb133111eb
	return z ^ (z >> 31)
}
func (r *c03Rng) intn(n int) int {
	if n <= 1 {
		return 0
	}
	return int(r.next() % uint64(n))
}
func (r *c03Rng) bytes(n int) []byte {
	b := make([]byte, n)
	for i := range b {
		b[i] = byte(r.next())
	}
	return b
}
func (r *c03Rng) pick(xs []int) int { return xs[r.intn(len(xs))] }

// exact-capacity fresh copy
func c03Exact(b []byte) []byte {
	out := make([]byte, len(b))
	copy(out, b)
	return out[:len(b):len(b)]
}

func c03ExactSeq(seq [][]byte) [][]byte {
	out := make([][]byte, len(seq))
	for i, b := range seq {
		out[i] = c03Exact(b)
	}
	return out
}

// QUIC varint of v in the given width (1,2,4,8), not necessarily minimal
func c03VarintW(v uint64, w int) []byte {
	switch w {
	case 1:
		return []byte{byte(v) & 0x3f}
	case 2:
		return []byte{byte(v>>8)&0x3f | 0x40, byte(v)}
	case 4:
		return []byte{byte(v>>24)&0x3f | 0x80, byte(v >> 16), byte(v >> 8), byte(v)}
	}
	return []byte{byte(v>>56)&0x3f | 0xc0, byte(v >> 48), byte(v >> 40), byte(v >> 32), byte(v >> 24), byte(v >> 16), byte(v >> 8), byte(v)}
}

// the declared-length values of the property text around a limit; every width that can hold them
func c03LenValues(limit uint64) []uint64 {
	vs := []uint64{0, 1, 2, 63, 64, 16383, 16384, 1 << 30, 1<<30 - 1, 1<<62 - 1, 1 << 61}
	if limit > 0 {
		vs = append(vs, limit-1, limit, limit+1)
	}
	return vs
}

func c03Varints(limit uint64) [][]byte {
	var out [][]byte
	for _, v := range c03LenValues(limit) {
		for _, w := range []int{1, 2, 4, 8} {
			if w == 1 && v > 63 || w == 2 && v > 16383 || w == 4 && v > 1<<30-1 {
				continue
			}
			out = append(out, c03VarintW(v, w))
		}
	}
	return out
}

func c03Cat(parts ...[]byte) []byte {
	var out []byte
	for _, p := range parts {
		out = append(out, p...)
	}
	return out
}

func c03Fill(n int, b byte) []byte {
	out := make([]byte, n)
	for i := range out {
		out[i] = b
	}
	return out
}

// ---------------------------------------------------------------- entry points
type c03EP struct {
	name     string
	stateful bool
	hdr      int                                   // header bytes to flip (default 24)
	valid    func(r *c03Rng) [][]byte              // one valid frame / the datagrams of one valid message
	boundary func() [][][]byte                     // decoder-specific boundary sequences
	run      func(seq [][]byte) string             // feeds a fresh instance; returns a result class
	facts    func(seq [][]byte) map[string]any     // optional: facts about a failing input (fingerprints)
}

var c03EPs []*c03EP

func c03Register(ep *c03EP) { c03EPs = append(c03EPs, ep) }

func c03Find(name string) *c03EP {
	for _, e := range c03EPs {
		if e.name == name {
			return e
		}
	}
	return nil
}

// singletons -> sequences
func c03One(bs ...[]byte) [][][]byte {
	out := make([][][]byte, len(bs))
	for i, b := range bs {
		out[i] = [][]byte{b}
	}
	return out
}

func c03GenericLengths() [][]byte {
	var out [][]byte
	for n := 0; n <= 40; n++ {
		out = append(out, c03Fill(n, 0), c03Fill(n, 0xff))
		c := make([]byte, n)
		for i := range c {
			c[i] = byte(i)
		}
		out = append(out, c)
	}
	return out
}

// mutations of one datagram
func c03Mutations(r *c03Rng, b []byte, other []byte, hdr int, budget int) [][]byte {
	var out [][]byte
	// truncate at every position (sampled when long)
	step := 1
	if len(b) > 96 {
		step = len(b)/96 + 1
	}
	for i := 0; i < len(b); i += step {
		out = append(out, b[:i])
	}
	if len(b) > 0 {
		out = append(out, b[:len(b)-1])
	}
	// extend
	out = append(out, c03Cat(b, []byte{0}), c03Cat(b, r.bytes(7)), c03Cat(b, b), c03Cat(b, c03Fill(1500, 0xaa)))
	// flip every header byte three ways
	if hdr == 0 {
		hdr = 24
	}
	for i := 0; i < len(b) && i < hdr; i++ {
		for _, x := range []byte{0x01, 0x80, 0xff} {
			m := append([]byte(nil), b...)
			m[i] ^= x
			out = append(out, m)
		}
	}
	// splice
	if len(other) > 0 && len(b) > 0 {
		for k := 0; k < 4; k++ {
			i, j := r.intn(len(b)+1), r.intn(len(other)+1)
			out = append(out, c03Cat(b[:i], other[j:]))
		}
	}
	// random byte edits
	for k := 0; k < 6 && len(b) > 0; k++ {
		m := append([]byte(nil), b...)
		for e := 0; e <= r.intn(3); e++ {
			m[r.intn(len(m))] = byte(r.next())
		}
		out = append(out, m)
	}
	if budget > 0 && len(out) > budget {
		// keep a deterministic sample
		keep := make([][]byte, 0, budget)
		for i := 0; i < budget; i++ {
			keep = append(keep, out[(i*len(out))/budget])
		}
		out = keep
	}
	return out
}

func c03Random(r *c03Rng) []byte {
	switch r.intn(10) {
	case 0:
		return r.bytes(r.intn(2200))
	case 1, 2:
		return r.bytes(r.intn(200))
	default:
		return r.bytes(r.intn(48))
	}
}

// c03Inputs builds n input sequences for an entry point.
func c03Inputs(ep *c03EP, r *c03Rng, n int) (seqs [][][]byte, kinds []string) {
	add := func(kind string, s [][]byte) {
		seqs = append(seqs, s)
		kinds = append(kinds, kind)
	}
	var pool [][]byte // single datagrams, for the sequences of stateful receivers
	for _, b := range c03GenericLengths() {
		add("len", [][]byte{b})
		pool = append(pool, b)
	}
	if ep.boundary != nil {
		for _, s := range ep.boundary() {
			add("boundary", s)
			pool = append(pool, s...)
		}
	}
	var valids [][][]byte
	if ep.valid != nil {
		nv := n / 60
		if nv < 6 {
			nv = 6
		}
		for i := 0; i < nv; i++ {
			v := ep.valid(r)
			valids = append(valids, v)
			add("valid", v)
		}
		budget := (n * 55 / 100) / len(valids)
		if budget < 40 {
			budget = 40
		}
		for i, v := range valids {
			other := valids[(i+1)%len(valids)]
			if len(v) == 0 {
				continue
			}
			k := r.intn(len(v))
			var ob []byte
			if len(other) > 0 {
				ob = other[r.intn(len(other))]
			}
			for _, m := range c03Mutations(r, v[k], ob, ep.hdr, budget) {
				if ep.stateful {
					s := make([][]byte, len(v))
					copy(s, v)
					s[k] = m
					add("mutated", s)
				} else {
					add("mutated", [][]byte{m})
				}
				pool = append(pool, m)
			}
			pool = append(pool, v...)
		}
	}
	if ep.stateful {
		// sequences: permutations, duplicates, interleavings, junk
		ns := n / 4
		for i := 0; i < ns; i++ {
			var s [][]byte
			switch r.intn(4) {
			case 0: // random draw from the pool
				for k := 0; k <= r.intn(40); k++ {
					s = append(s, pool[r.intn(len(pool))])
				}
			case 1: // one valid message permuted with duplicates and junk
				if len(valids) > 0 {
					v := valids[r.intn(len(valids))]
					for _, j := range c03Perm(r, len(v)) {
						s = append(s, v[j])
						if r.intn(4) == 0 {
							s = append(s, v[r.intn(len(v))])
						}
						if r.intn(4) == 0 {
							s = append(s, pool[r.intn(len(pool))])
						}
					}
				}
			case 2: // two or three valid messages interleaved
				if len(valids) > 0 {
					var all [][]byte
					for k := 0; k < 2+r.intn(2); k++ {
						all = append(all, valids[r.intn(len(valids))]...)
					}
					for _, j := range c03Perm(r, len(all)) {
						s = append(s, all[j])
					}
				}
			default: // long runs of near-valid datagrams
				for k := 0; k < 60+r.intn(200); k++ {
					s = append(s, pool[r.intn(len(pool))])
				}
			}
			add("sequence", s)
		}
	}
	for len(seqs) < n {
		if ep.stateful {
			var s [][]byte
			for k := 0; k <= r.intn(12); k++ {
				s = append(s, c03Random(r))
			}
			add("random", s)
		} else {
			add("random", [][]byte{c03Random(r)})
		}
	}
	return seqs, kinds
}

func c03Perm(r *c03Rng, n int) []int {
	p := make([]int, n)
	for i := range p {
		p[i] = i
	}
	for i := n - 1; i > 0; i-- {
		j := r.intn(i + 1)
		p[i], p[j] = p[j], p[i]
	}
	return p
}

// ---------------------------------------------------------------- running
type c03Panic struct {
	Ep    string         `json:"ep"`
	Seq   []string       `json:"seq"`
	Msg   string         `json:"msg"`
	Kind  string         `json:"kind"`
	Facts map[string]any `json:"facts,omitempty"`
	Stack string         `json:"stack,omitempty"`
}

var c03Trace *os.File

func c03Try(ep *c03EP, seq [][]byte) (class string, panicked bool, msg string, stack string) {
	if c03Trace != nil {
		hs := make([]string, len(seq))
		for i, b := range seq {
			hs[i] = vHex(b)
		}
		c03Trace.WriteString(ep.name + " " + strings.Join(hs, ",") + "\n")
	}
	defer func() {
		if r := recover(); r != nil {
			panicked = true
			msg = fmt.Sprint(r)
			st := string(debug.Stack())
			// keep the frames below the runtime's panic machinery
			if i := strings.Index(st, "panic("); i >= 0 {
				st = st[i:]
			}
			if len(st) > 1500 {
				st = st[:1500]
			}
			stack = st
			class = "panic"
		}
	}()
	class = ep.run(c03ExactSeq(seq))
	return
}

func c03HexSeq(seq [][]byte) []string {
	out := make([]string, len(seq))
	for i, b := range seq {
		out[i] = vHex(b)
	}
	return out
}

type c03Job struct {
	K    string   `json:"k"` // fuzz | one | anything else: package-specific model case
	Ep   string   `json:"ep"`
	Seed uint64   `json:"seed"`
	N    int      `json:"n"`
	Seq  []string `json:"seq"`
}

func c03RunFuzz(j c03Job, res map[string]any) {
	ep := c03Find(j.Ep)
	if ep == nil {
		res["ok"] = false
		res["why"] = "unknown entry point " + j.Ep
		return
	}
	t0 := time.Now()
	r := &c03Rng{s: j.Seed*0x9e3779b97f4a7c15 + uint64(len(j.Ep))*7919}
	for _, c := range []byte(j.Ep) {
		r.s = r.s*131 + uint64(c)
	}
	seqs, kinds := c03Inputs(ep, r, j.N)
	classes := map[string]int{}
	kindsN := map[string]int{}
	var panics []c03Panic
	npanic := 0
	datagrams := 0
	for i, s := range seqs {
		datagrams += len(s)
		kindsN[kinds[i]]++
		class, p, msg, stack := c03Try(ep, s)
		classes[class]++
		if p {
			npanic++
			if len(panics) < 8 {
				// minimise a sequence: shortest failing prefix, then drop leading datagrams
				ms := c03Minimise(ep, s)
				pn := c03Panic{Ep: ep.name, Seq: c03HexSeq(ms), Msg: msg, Kind: kinds[i], Stack: stack}
				if ep.facts != nil {
					pn.Facts = ep.facts(ms)
				}
				panics = append(panics, pn)
			}
		}
	}
	res["ep"] = ep.name
	res["n"] = len(seqs)
	res["datagrams"] = datagrams
	res["classes"] = classes
	res["kinds"] = kindsN
	res["npanic"] = npanic
	res["panics"] = panics
	res["ms"] = time.Since(t0).Milliseconds()
	res["ok"] = npanic == 0
	res["why"] = ""
	if npanic > 0 {
		res["why"] = fmt.Sprintf("panic in %s on %d input(s); first: %s (input %s)", ep.name, npanic, panics[0].Msg, strings.Join(panics[0].Seq, ","))
	}
}

func c03Minimise(ep *c03EP, s [][]byte) [][]byte {
	if len(s) <= 1 {
		return s
	}
	fails := func(x [][]byte) bool { _, p, _, _ := c03Try(ep, x); return p }
	// shortest failing prefix
	lo := s
	for n := 1; n <= len(s); n++ {
		if fails(s[:n]) {
			lo = s[:n]
			break
		}
	}
	// drop datagrams one at a time while it still fails
	for i := 0; i < len(lo)-1 && len(lo) > 1; {
		cand := append(append([][]byte(nil), lo[:i]...), lo[i+1:]...)
		if fails(cand) {
			lo = cand
		} else {
			i++
		}
	}
	return lo
}

func c03RunOne(j c03Job, res map[string]any) {
	ep := c03Find(j.Ep)
	if ep == nil {
		res["ok"] = false
		res["why"] = "unknown entry point " + j.Ep
		return
	}
	seq := make([][]byte, len(j.Seq))
	for i, h := range j.Seq {
		seq[i] = vUnhex(h)
	}
	class, p, msg, stack := c03Try(ep, seq)
	res["ep"] = ep.name
	res["class"] = class
	res["ok"] = !p
	res["why"] = ""
	if p {
		res["why"] = "panic in " + ep.name + ": " + msg
		res["stack"] = stack
		pn := c03Panic{Ep: ep.name, Seq: j.Seq, Msg: msg, Kind: "replay"}
		if ep.facts != nil {
			pn.Facts = ep.facts(seq)
		}
		res["panics"] = []c03Panic{pn}
		res["npanic"] = 1
	}
}

// c03Main is the body of every package's TestVerifC03.  model handles the package-specific
// model-comparison cases (nil when the package has none).
func c03Main(t *testing.T, model func(kind string, raw json.RawMessage, res map[string]any) bool) {
	if p := os.Getenv("VERIF_TRACE"); p != "" {
		f, err := os.OpenFile(p, os.O_CREATE|os.O_WRONLY|os.O_TRUNC, 0o644)
		if err != nil {
			t.Fatal(err)
		}
		c03Trace = f
		defer f.Close()
	}
	out := vOpenOut(t, "VERIF_OUT")
	defer out.Close()
	for i, raw := range vReadCases(t) {
		var j c03Job
		if err := json.Unmarshal(raw, &j); err != nil {
			t.Fatal(err)
		}
		res := map[string]any{"i": i, "k": j.K}
		switch j.K {
		case "fuzz":
			c03RunFuzz(j, res)
		case "one":
			c03RunOne(j, res)
		case "list":
			names := []string{}
			for _, e := range c03EPs {
				names = append(names, e.name)
			}
			sort.Strings(names)
			res["eps"] = names
			res["ok"] = true
			res["why"] = ""
		default:
			if model == nil || !model(j.K, raw, res) {
				t.Fatalf("unknown case kind %q", j.K)
			}
		}
		out.Emit(res)
		out.w.Flush()
	}
}

// ---------------------------------------------------------------- scripted io.Reader
// reads deliver the given bytes cut as the mode says, then the final error
//   mode 0: everything in one Read; 1: one byte per Read; 2: pseudo-random cuts with zero-length
//   reads in between; 3: data and the final error together in the last Read
type c03Reader struct {
	data  []byte
	mode  int
	fin   error
	seed  uint64
	calls int
}

func (r *c03Reader) Read(p []byte) (int, error) {
	r.calls++
	if len(p) == 0 {
		return 0, nil
	}
	if len(r.data) == 0 {
		return 0, r.fin
	}
	n := len(r.data)
	switch r.mode {
	case 1:
		n = 1
	case 2:
		r.seed = r.seed*6364136223846793005 + 1442695040888963407
		k := int(r.seed>>33) % 5
		if k == 0 && r.calls%3 != 0 {
			return 0, nil
		}
		n = k + 1
	}
	if n > len(r.data) {
		n = len(r.data)
	}
	if n > len(p) {
		n = len(p)
	}
	copy(p, r.data[:n])
	r.data = r.data[n:]
	if r.mode == 3 && len(r.data) == 0 {
		return n, r.fin
	}
	return n, nil
}
