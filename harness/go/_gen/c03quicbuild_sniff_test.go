//go:build verif

package sniff

// C03: an independent QUIC Initial sealer (standard library + x/crypto only) used to produce
// VALID client Initial packets that the harness then mutates.

import (
	"crypto/aes"
	"crypto/cipher"
	"crypto/sha256"
	"encoding/binary"
	"io"

	"golang.org/x/crypto/hkdf"
)

var (
	c03SaltV1 = []byte{0x38, 0x76, 0x2c, 0xf7, 0xf5, 0x59, 0x34, 0xb3, 0x4d, 0x17, 0x9a, 0xe6, 0xa4, 0xc8, 0x0c, 0xad, 0xcc, 0xbb, 0x7f, 0x0a}
	c03SaltV2 = []byte{0x0d, 0xed, 0xe3, 0xde, 0xf7, 0x00, 0xa6, 0xdb, 0x81, 0x93, 0x81, 0xbe, 0x6e, 0x26, 0x9d, 0xcb, 0xf9, 0xbd, 0x2e, 0xd9}
)

func c03ExpandLabel(secret []byte, label string, n int) []byte {
	var b []byte
	b = append(b, byte(n>>8), byte(n))
	b = append(b, byte(6+len(label)))
	b = append(b, "tls13 "...)
	b = append(b, label...)
	b = append(b, 0)
	out := make([]byte, n)
	if _, err := io.ReadFull(hkdf.Expand(sha256.New, secret, b), out); err != nil {
		panic(err)
	}
	return out
}

// a minimal TLS ClientHello carrying the given server name
func c03ClientHello(sni string) []byte {
	ext := []byte{0x00, 0x00}
	sn := []byte{0x00}
	sn = binary.BigEndian.AppendUint16(sn, uint16(len(sni)))
	sn = append(sn, sni...)
	lst := binary.BigEndian.AppendUint16(nil, uint16(len(sn)))
	lst = append(lst, sn...)
	ext = binary.BigEndian.AppendUint16(ext, uint16(len(lst)))
	ext = append(ext, lst...)
	body := []byte{0x03, 0x03}
	body = append(body, make([]byte, 32)...)
	body = append(body, 0x00)                   // session id
	body = append(body, 0x00, 0x02, 0x13, 0x01) // cipher suites
	body = append(body, 0x01, 0x00)             // compression
	body = binary.BigEndian.AppendUint16(body, uint16(len(ext)))
	body = append(body, ext...)
	out := []byte{0x01, byte(len(body) >> 16), byte(len(body) >> 8), byte(len(body))}
	return append(out, body...)
}

type c03QB struct {
	ver     uint32
	dcid    []byte
	scid    []byte
	token   []byte
	pnLen   int
	frames  []byte // plaintext payload
	lenW    int    // width of the Length varint
	lenAdd  int    // lie about the length
	first   int    // -1: derive
	noLong  bool   // clear the long-header bit
}

func c03BuildInitial(q *c03QB) []byte {
	pnLen := q.pnLen
	if pnLen < 1 || pnLen > 4 {
		pnLen = 2
	}
	typ := 0
	salt, kl, il, hl := c03SaltV1, "quic key", "quic iv", "quic hp"
	if q.ver == 0x6b3343cf {
		typ = 1
		salt, kl, il, hl = c03SaltV2, "quicv2 key", "quicv2 iv", "quicv2 hp"
	}
	first := 0xc0 | typ<<4 | (pnLen - 1)
	if q.noLong {
		first &^= 0x80
	}
	hdr := []byte{byte(first)}
	hdr = binary.BigEndian.AppendUint32(hdr, q.ver)
	hdr = append(hdr, byte(len(q.dcid)))
	hdr = append(hdr, q.dcid...)
	hdr = append(hdr, byte(len(q.scid)))
	hdr = append(hdr, q.scid...)
	hdr = append(hdr, c03VarintW(uint64(len(q.token)), 1+3*boolInt(len(q.token) > 63))...)
	hdr = append(hdr, q.token...)
	lw := q.lenW
	if lw == 0 {
		lw = 2
	}
	hdr = append(hdr, c03VarintW(uint64(pnLen+len(q.frames)+16+q.lenAdd), lw)...)
	pnOff := len(hdr)
	pn := 2
	for i := pnLen - 1; i >= 0; i-- {
		hdr = append(hdr, byte(pn>>(8*uint(i))))
	}
	initial := hkdf.Extract(sha256.New, q.dcid, salt)
	cs := c03ExpandLabel(initial, "client in", 32)
	blk, _ := aes.NewCipher(c03ExpandLabel(cs, kl, 16))
	aead, _ := cipher.NewGCM(blk)
	hp, _ := aes.NewCipher(c03ExpandLabel(cs, hl, 16))
	iv := c03ExpandLabel(cs, il, 12)
	nonce := make([]byte, 12)
	binary.BigEndian.PutUint64(nonce[4:], uint64(pn))
	for i := range nonce {
		nonce[i] ^= iv[i]
	}
	ct := aead.Seal(nil, nonce, q.frames, hdr)
	pkt := append(append([]byte(nil), hdr...), ct...)
	if len(pkt) >= pnOff+20 {
		mask := make([]byte, 16)
		hp.Encrypt(mask, pkt[pnOff+4:pnOff+20])
		if pkt[0]&0x80 != 0 {
			pkt[0] ^= mask[0] & 0x0f
		} else {
			pkt[0] ^= mask[0] & 0x1f
		}
		for i := 0; i < pnLen; i++ {
			pkt[pnOff+i] ^= mask[1+i]
		}
	}
	return pkt
}

func boolInt(b bool) int {
	if b {
		return 1
	}
	return 0
}

// crypto frame(s) carrying data, optionally split / reordered / overlapping / with huge offsets
func c03CryptoFrames(r *c03Rng, data []byte) []byte {
	var pt []byte
	fr := func(off uint64, d []byte, lieLen int64) {
		pt = append(pt, 0x06)
		w := r.pick([]int{1, 2, 4, 8})
		if m := boolIntW(off); m > w {
			w = m
		}
		pt = append(pt, c03VarintW(off, w)...)
		l := uint64(int64(len(d)) + lieLen)
		pt = append(pt, c03VarintW(l, 8)...)
		pt = append(pt, d...)
	}
	switch r.intn(6) {
	case 0:
		fr(0, data, 0)
	case 1: // split in two, reversed
		h := len(data) / 2
		fr(uint64(h), data[h:], 0)
		pt = append(pt, 0x01, 0x00, 0x00)
		fr(0, data[:h], 0)
	case 2: // three pieces with padding and pings
		a, b := len(data)/3, 2*len(data)/3
		fr(0, data[:a], 0)
		pt = append(pt, make([]byte, r.intn(30))...)
		fr(uint64(b), data[b:], 0)
		fr(uint64(a), data[a:b], 0)
	case 3: // huge offset
		fr(0, data, 0)
		fr(r.pick64([]uint64{262144, 262145, 1 << 30, 1<<62 - 1, 1 << 61}), []byte{1, 2, 3}, 0)
	case 4: // lying length
		fr(0, data, int64(r.pick([]int{-1, 1, 262144, 262145, 1 << 30})))
	default:
		fr(0, data, 0)
		pt = append(pt, byte(r.pick([]int{0x02, 0x1c, 0x07, 0xff})))
	}
	return pt
}

func boolIntW(v uint64) int {
	switch {
	case v > 1<<30-1:
		return 8
	case v > 16383:
		return 4
	case v > 63:
		return 2
	}
	return 1
}

func (r *c03Rng) pick64(xs []uint64) uint64 { return xs[r.intn(len(xs))] }

func c03ValidInitial(r *c03Rng) []byte {
	q := &c03QB{ver: uint32(r.pick64([]uint64{1, 1, 1, 0x6b3343cf})), dcid: r.bytes(r.pick([]int{0, 1, 8, 8, 20, 255})),
		scid: r.bytes(r.pick([]int{0, 8, 20})), token: r.bytes(r.pick([]int{0, 0, 5, 70})), pnLen: 1 + r.intn(4),
		lenW: r.pick([]int{1, 2, 2, 4, 8})}
	ch := c03ClientHello("example-" + string('a'+byte(r.intn(26))) + ".test")
	q.frames = c03CryptoFrames(r, ch)
	if q.lenW == 1 && q.pnLen+len(q.frames)+16 > 63 {
		q.lenW = 2
	}
	if r.intn(8) == 0 {
		q.lenAdd = r.pick([]int{-1, 1, -20, 1000})
	}
	if r.intn(10) == 0 {
		q.noLong = true
	}
	return c03BuildInitial(q)
}
