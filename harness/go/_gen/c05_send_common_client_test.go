//go:build verif

package client

// C05 send-path harness, shared by core/client (udpConn.Send) and core/server
// (udpSessionEntry.receiveLoop -> sendMessageAutoFrag).  Instantiated per package by vlib/props/C05.py.
//
// A case is a HISTORY of messages sent on one UDP session through a fake datagram channel whose
// behaviour is scripted per SendMessage call: "limit L" (what quic.Conn.SendDatagram does with a
// MaxDatagramPayloadSize of L: accept <= L, refuse > L with DatagramTooLargeError{L}) or "fail"
// (any other error).  The limit varies over the history (constant, growing, shrinking, oscillating,
// changing in the middle of one Send).  Everything the fake channel accepts is parsed from the wire
// and fed to a real frag.Defragger (the far side).
//
// Output per case: the raw call trace of every step (for the comparison with the Coq model
// model/C05_Send.v) and the property verdict evaluated on the implementation alone.

import (
	"bytes"
	"encoding/json"
	"errors"
	"strconv"

	"github.com/apernet/quic-go"

	"github.com/apernet/hysteria/core/v2/internal/frag"
	"github.com/apernet/hysteria/core/v2/internal/protocol"
)

type c05sStep struct {
	Al   int      `json:"al"`
	Aa   uint64   `json:"aa"`
	Ab   uint64   `json:"ab"`
	Dl   int      `json:"dl"`
	Da   uint64   `json:"da"`
	Db   uint64   `json:"db"`
	Resp [][2]int `json:"resp"` // per SendMessage call of this step: [0,L] = limit L, [1,_] = other error; last one repeats
}

type c05sCase struct {
	K     string     `json:"k"`
	Side  string     `json:"side"`
	Sid   uint32     `json:"sid"`
	Steps []c05sStep `json:"steps"`
}

const (
	c05sAccept   = 0
	c05sDrop     = 1 // larger than the send buffer: Serialize < 0, silently dropped, nil
	c05sTooLarge = 2
	c05sFail     = 3
)

var errC05sOther = errors.New("c05: scripted connection error")

type c05sCall struct {
	msg  protocol.UDPMessage // deep copy
	n    int                 // Serialize result
	out  int
	lim  int
	blen int // len(buf) handed in by the sender
}

// c05sIO is the fake datagram channel (the SendMessage half of udpIO) plus the far side.
type c05sIO struct {
	resp  [][2]int // script of the current step
	calls []c05sCall
	far   *frag.Defragger
	emits []*protocol.UDPMessage // far-side emissions during the current step
	bad   string                 // harness-level problem (far side cannot parse)
	block chan struct{}          // ReceiveMessage blocks on it
	blen  int                    // len(buf) of the last call (the sender's buffer; MaxUDPSize in the code)
}

func (io *c05sIO) begin(resp [][2]int) {
	io.resp = resp
	io.calls = nil
	io.emits = nil
}

func (io *c05sIO) SendMessage(buf []byte, m *protocol.UDPMessage) error {
	idx := len(io.calls)
	r := io.resp[len(io.resp)-1]
	if idx < len(io.resp) {
		r = io.resp[idx]
	}
	c := c05sCall{msg: *m, blen: len(buf)}
	io.blen = len(buf)
	c.msg.Data = append([]byte(nil), m.Data...)
	n := m.Serialize(buf)
	c.n = n
	var err error
	switch {
	case n < 0:
		c.out = c05sDrop
	case r[0] == 1:
		c.out = c05sFail
		err = errC05sOther
	case n > r[1]:
		c.out, c.lim = c05sTooLarge, r[1]
		err = &quic.DatagramTooLargeError{MaxDatagramPayloadSize: int64(r[1])}
	default:
		c.out = c05sAccept
		wire := append([]byte(nil), buf[:n]...)
		pm, perr := protocol.ParseUDPMessage(wire[:n:n])
		if perr != nil {
			if io.bad == "" {
				io.bad = "far side cannot parse an accepted datagram: " + perr.Error()
			}
		} else if o := io.far.Feed(pm); o != nil {
			io.emits = append(io.emits, o)
		}
	}
	io.calls = append(io.calls, c)
	return err
}

func (io *c05sIO) ReceiveMessage() (*protocol.UDPMessage, error) {
	<-io.block
	return nil, errC05sOther
}

func c05sSum(m *protocol.UDPMessage) []int64 {
	return []int64{
		int64(m.SessionID), int64(m.PacketID), int64(m.FragID), int64(m.FragCount),
		int64(len(m.Addr)), int64(vDigest([]byte(m.Addr))), int64(len(m.Data)), int64(vDigest(m.Data)),
	}
}

const (
	c05sRetNil      = 0
	c05sRetTooLarge = 1
	c05sRetOther    = 2
)

func c05sRet(err error) (int, int) {
	if err == nil {
		return c05sRetNil, 0
	}
	var tl *quic.DatagramTooLargeError
	if errors.As(err, &tl) {
		return c05sRetTooLarge, int(tl.MaxDatagramPayloadSize)
	}
	return c05sRetOther, 0
}

// c05sJudge evaluates the property on one step of the history (implementation alone):
//   - the message is first handed to the channel WHOLE and unchanged (fragmentation happens only after
//     the channel refused it as too large);
//   - after a refusal with limit L: the rest of the calls are fragments of this message, one common packet
//     id in 1..65535, ids 0.., one count <= 255, non-empty payloads concatenating to the payload, every one
//     <= L on the wire - L being the limit reported for THIS message, not an older one; the sender stops at
//     the first error and returns it, otherwise sends all of them and returns nil; nothing is sent iff the
//     message cannot be split into <= 255 fitting fragments;
//   - the far side (a real Defragger fed with what the channel accepted) emits the message, byte-identical,
//     exactly when the whole message or all its fragments were accepted, and nothing else; when the limit
//     is constant during the step this is exactly "the message fits the limit whole or in <= 255 fragments".
func c05sJudge(sid uint32, st c05sStep, addr string, data []byte, calls []c05sCall, emits []*protocol.UDPMessage,
	ret, retL int, prevPid *int, prevCnt *int,
) (bool, string, int) {
	// severity 2 = the statement itself (a fragment does not fit / a message that fits is lost / far side got
	// something else); 1 = the send-path mechanism (whole first, ids, stop at first error, return value)
	ok, why, sev := true, "", 0
	fail := func(v int, s string) {
		if ok || v > sev {
			ok, why, sev = false, s, v
		}
	}
	wholeMsg := &protocol.UDPMessage{SessionID: sid, FragID: 0, FragCount: 1, Addr: addr, Data: data}
	isMsg := func(m *protocol.UDPMessage) bool {
		return m.SessionID == sid && m.Addr == addr && bytes.Equal(m.Data, data) && m.FragID == 0 && m.FragCount == 1
	}
	allAccepted := false
	collide := false
	blen := protocol.MaxUDPSize
	if len(calls) > 0 {
		blen = calls[0].blen
	}
	firstWhole := len(calls) > 0 && isMsg(&calls[0].msg)
	if len(calls) == 0 {
		fail(1, "message was not handed to the datagram channel at all (no whole attempt)")
	} else if !firstWhole {
		c := &calls[0].msg
		fail(1, "first SendMessage call of the step is not the whole message (frag "+strconv.Itoa(int(c.FragID))+"/"+
			strconv.Itoa(int(c.FragCount))+", "+strconv.Itoa(len(c.Data))+" of "+strconv.Itoa(len(data))+
			" payload bytes): fragmented without a DatagramTooLargeError for this message")
		for i := range calls {
			if calls[i].out == c05sTooLarge && calls[i].msg.FragCount > 1 {
				fail(2, "fragment "+strconv.Itoa(int(calls[i].msg.FragID))+"/"+strconv.Itoa(int(calls[i].msg.FragCount))+" is "+
					strconv.Itoa(calls[i].n)+" bytes on the wire, the datagram limit in force is "+strconv.Itoa(calls[i].lim)+
					": split against a limit that was not reported for this message")
			}
		}
		*prevPid, *prevCnt = int(c.PacketID), int(c.FragCount)
	} else {
		switch calls[0].out {
		case c05sAccept, c05sDrop:
			if len(calls) != 1 {
				fail(1, "more datagrams sent after the whole message was taken by the channel")
			}
			if ret != c05sRetNil {
				fail(1, "send returned an error although the channel returned nil")
			}
			allAccepted = calls[0].out == c05sAccept
		case c05sFail:
			if len(calls) != 1 {
				fail(1, "more datagrams sent after a non-size error")
			}
			if ret != c05sRetOther {
				fail(1, "connection error not returned to the caller")
			}
		case c05sTooLarge:
			L := calls[0].lim
			budget := L - wholeMsg.HeaderSize()
			want := 0
			if budget > 0 {
				want = (len(data) + budget - 1) / budget
				if want > 255 {
					want = 0
				}
			}
			fr := calls[1:]
			if want == 0 {
				if len(fr) != 0 {
					fail(2, "message that cannot be split into <= 255 fitting fragments was not discarded")
				}
				if ret != c05sRetNil {
					fail(1, "discard must be silent (nil)")
				}
				break
			}
			if len(fr) == 0 {
				fail(2, "message discarded although it fits in "+strconv.Itoa(want)+" fragments of the reported limit "+strconv.Itoa(L))
				break
			}
			pid := fr[0].msg.PacketID
			cnt := int(fr[0].msg.FragCount)
			if pid == 0 {
				fail(1, "fragments carry packet id 0 (must be a fresh id in 1..65535)")
			}
			if cnt < 2 || cnt > 255 {
				fail(2, "fragment count out of range")
			}
			var cat []byte
			stopped := false
			for i := range fr {
				f := &fr[i]
				if stopped {
					fail(1, "sender went on after the channel returned an error")
				}
				if f.msg.SessionID != sid || f.msg.Addr != addr || f.msg.PacketID != pid {
					fail(2, "fragment header differs from the message")
				}
				if int(f.msg.FragID) != i || int(f.msg.FragCount) != cnt {
					fail(2, "fragment id/count wrong")
				}
				if len(f.msg.Data) == 0 {
					fail(2, "empty fragment")
				}
				if f.msg.Size() > L {
					fail(2, "fragment of "+strconv.Itoa(f.msg.Size())+" bytes exceeds the limit "+strconv.Itoa(L)+
						" reported by the refusal of this message (split against another limit)")
				}
				cat = append(cat, f.msg.Data...)
				if f.out == c05sTooLarge || f.out == c05sFail {
					stopped = true // (a silent drop returns nil: the sender cannot know)
				}
			}
			if !bytes.HasPrefix(data, cat) {
				fail(2, "fragments do not concatenate to (a prefix of) the payload")
			}
			last := fr[len(fr)-1]
			if last.out == c05sTooLarge || last.out == c05sFail {
				if last.out == c05sTooLarge && (ret != c05sRetTooLarge || retL != last.lim) {
					fail(1, "error of a refused fragment not returned to the caller")
				}
				if last.out == c05sFail && ret != c05sRetOther {
					fail(1, "connection error on a fragment not returned to the caller")
				}
			} else {
				if len(fr) != cnt || !bytes.Equal(cat, data) {
					fail(2, "not all fragments were sent although the channel took every one")
				}
				if ret != c05sRetNil {
					fail(1, "send returned an error although the channel took every fragment")
				}
				allAccepted = true
				for i := range fr {
					if fr[i].out != c05sAccept {
						allAccepted = false
					}
				}
			}
			if *prevPid == int(pid) && *prevCnt == cnt {
				collide = true // same random id and count as the previous fragmented message: far side may ignore it (hypothesis of the property)
			}
			*prevPid, *prevCnt = int(pid), cnt
		}
	}
	// far side
	for _, e := range emits {
		if !isMsg(e) {
			fail(2, "far side reassembled a message that was not sent ("+strconv.Itoa(len(e.Data))+" bytes)")
		}
	}
	if len(emits) > 1 {
		fail(2, "far side emitted the message more than once")
	}
	if !collide {
		if firstWhole {
			if allAccepted && len(emits) != 1 {
				fail(2, "far side did not reassemble a message whose datagrams were all accepted")
			}
			if !allAccepted && len(emits) != 0 {
				fail(2, "far side emitted a message that was not completely delivered")
			}
		}
		// limit constant during the step: delivered exactly when it can fit
		constant := true
		for _, r := range st.Resp {
			if r != st.Resp[0] {
				constant = false
			}
		}
		if constant && st.Resp[0][0] == 0 {
			L := st.Resp[0][1]
			size := wholeMsg.Size()
			budget := L - wholeMsg.HeaderSize()
			fitsLimit := size <= L || (budget > 0 && len(data) <= 255*budget)
			// (a message larger than the sender's buffer is silently dropped by the code as it is; delivering it
			// intact would not break the property, so only the model comparison pins that case)
			if size <= blen && fitsLimit && len(emits) != 1 {
				fail(2, "message of "+strconv.Itoa(size)+" bytes that fits the limit "+strconv.Itoa(L)+
					" (whole or in <= 255 fragments) was not delivered to the far side")
			}
			if !fitsLimit && len(emits) != 0 {
				fail(2, "message that cannot fit the limit in <= 255 fragments was delivered")
			}
		}
	}
	return ok, why, sev
}

// c05sRun drives one case. send(step index, data, addr) performs one send on the implementation and
// returns its error; it is called with the fake channel already switched to the step's script.
func c05sRun(raw json.RawMessage, io *c05sIO, send func(i int, data []byte, addr string) error, res map[string]any) {
	var c c05sCase
	if err := json.Unmarshal(raw, &c); err != nil {
		panic(err)
	}
	ok, why, sev := true, "", 0
	steps := make([]map[string]any, 0, len(c.Steps))
	prevPid, prevCnt := -1, -1
	pids := map[uint16]int{}
	nfrag := 0
	for i, st := range c.Steps {
		addr := string(vGenData(st.Aa, st.Ab, st.Al))
		data := vGenData(st.Da, st.Db, st.Dl)
		io.begin(st.Resp)
		var err error
		p, pmsg := vCatch(func() { err = send(i, append([]byte(nil), data...), addr) })
		ret, retL := c05sRet(err)
		calls := make([][]int64, 0, len(io.calls))
		for j := range io.calls {
			k := &io.calls[j]
			calls = append(calls, append(c05sSum(&k.msg), int64(k.n), int64(k.out), int64(k.lim)))
		}
		emits := make([][]int64, 0, len(io.emits))
		for _, e := range io.emits {
			emits = append(emits, c05sSum(e))
		}
		so := map[string]any{"calls": calls, "ret": ret, "retL": retL, "emits": emits, "panic": p}
		steps = append(steps, so)
		if p {
			if sev < 3 {
				ok, why, sev = false, "step "+strconv.Itoa(i)+": panic in the send path: "+pmsg, 3
			}
			continue
		}
		if len(io.calls) >= 2 {
			pids[io.calls[1].msg.PacketID]++
			nfrag++
		}
		sok, swhy, ssev := c05sJudge(c.Sid, st, addr, data, io.calls, io.emits, ret, retL, &prevPid, &prevCnt)
		if !sok && (ok || ssev > sev) {
			ok, why, sev = false, "step "+strconv.Itoa(i)+" (limit "+strconv.Itoa(st.Resp[0][1])+", "+strconv.Itoa(len(data))+" bytes): "+swhy, ssev
		}
	}
	if nfrag >= 6 && len(pids) == 1 && ok {
		ok, why = false, "every fragmented message of the history carries the same packet id (not fresh)"
	}
	if io.bad != "" && ok {
		ok, why = false, io.bad
	}
	res["steps"] = steps
	res["buf"] = io.blen
	res["ok"] = ok
	res["why"] = why
}
