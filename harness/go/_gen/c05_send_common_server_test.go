//go:build verif

package server

// C05 send-path harness, shared by core/client (udpConn.Send) and core/server
// (udpSessionEntry.receiveLoop -> sendMessageAutoFrag).  Instantiated per package by vlib/props/C05.py.
//
// A case is a HISTORY of messages sent on one UDP session through a fake datagram channel whose
// behaviour is scripted per SendMessage call: "limit L" (what quic.Conn.SendDatagram does with a
// MaxDatagramPayloadSize of L: accept <= L, refuse > L with DatagramTooLargeError{L}) or "fail"
// (any other error).  The limit varies over the history (constant, growing, shrinking, oscillating,
// changing in the middle of one Send).  Everything the fake channel accepts is parsed from the wire
// and fed to a real frag.Defragger (the far side).
//
// Output per case: the raw call trace of every step (for the comparison with the Coq model
// model/C05_Send.v) and the property verdict evaluated on the implementation alone.

import (
	"bytes"
	"encoding/json"
	"errors"
	"strconv"

	"github.com/apernet/quic-go"

	"github.com/apernet/hysteria/core/v2/internal/frag"
	"github.com/apernet/hysteria/core/v2/internal/protocol"
)

type c05sStep struct {
	Al   int      `json:"al"`
	Aa   uint64   `json:"aa"`
	Ab   uint64   `json:"ab"`
	Dl   int      `json:"dl"`
	Da   uint64   `json:"da"`
	Db   uint64   `json:"db"`
	Resp [][2]int `json:"resp"` // per SendMessage call of this step: [0,L] = limit L, [1,_] = other error; last one repeats
}

type c05sCase struct {
	K     string     `json:"k"`
	Side  string     `json:"side"`
	Sid   uint32     `json:"sid"`
	Steps []c05sStep `json:"steps"`
}

const (
	c05sAccept   = 0
	c05sDrop     = 1 // larger than the send buffer: Serialize < 0, silently dropped, nil
	c05sTooLarge = 2
	c05sFail     = 3
)

var errC05sOther = errors.New("c05: scripted connection error")

type c05sCall struct {
	msg  protocol.UDPMessage // deep copy
	n    int                 // Serialize result
	out  int
	lim  int
	blen int // len(buf) handed in by the sender
}

// c05sIO is the fake datagram channel (the SendMessage half of udpIO) plus the far side.
type c05sIO struct {
	resp  [][2]int // script of the current step
	calls []c05sCall
	far   *frag.Defragger
	emits []*protocol.UDPMessage // far-side emissions during the current step
	bad   string                 // harness-level problem (far side cannot parse)
	block chan struct{}          // ReceiveMessage blocks on it
	blen  int                    // len(buf) of the last call (the sender's buffer; MaxUDPSize in the code)
	long  *c05lRun               // non-nil: long-operation mode (c05lRun below), nothing is recorded per call
}

func (io *c05sIO) begin(resp [][2]int) {
	io.resp = resp
	io.calls = nil
	io.emits = nil
}

func (io *c05sIO) SendMessage(buf []byte, m *protocol.UDPMessage) error {
	if io.long != nil {
		return io.long.sendMessage(buf, m)
	}
	idx := len(io.calls)
	r := io.resp[len(io.resp)-1]
	if idx < len(io.resp) {
		r = io.resp[idx]
	}
	c := c05sCall{msg: *m, blen: len(buf)}
	io.blen = len(buf)
	c.msg.Data = append([]byte(nil), m.Data...)
	n := m.Serialize(buf)
	c.n = n
	var err error
	switch {
	case n < 0:
		c.out = c05sDrop
	case r[0] == 1:
		c.out = c05sFail
		err = errC05sOther
	case n > r[1]:
		c.out, c.lim = c05sTooLarge, r[1]
		err = &quic.DatagramTooLargeError{MaxDatagramPayloadSize: int64(r[1])}
	default:
		c.out = c05sAccept
		wire := append([]byte(nil), buf[:n]...)
		pm, perr := protocol.ParseUDPMessage(wire[:n:n])
		if perr != nil {
			if io.bad == "" {
				io.bad = "far side cannot parse an accepted datagram: " + perr.Error()
			}
		} else if o := io.far.Feed(pm); o != nil {
			io.emits = append(io.emits, o)
		}
	}
	io.calls = append(io.calls, c)
	return err
}

func (io *c05sIO) ReceiveMessage() (*protocol.UDPMessage, error) {
	<-io.block
	return nil, errC05sOther
}

func c05sSum(m *protocol.UDPMessage) []int64 {
	return []int64{
		int64(m.SessionID), int64(m.PacketID), int64(m.FragID), int64(m.FragCount),
		int64(len(m.Addr)), int64(vDigest([]byte(m.Addr))), int64(len(m.Data)), int64(vDigest(m.Data)),
	}
}

const (
	c05sRetNil      = 0
	c05sRetTooLarge = 1
	c05sRetOther    = 2
)

func c05sRet(err error) (int, int) {
	if err == nil {
		return c05sRetNil, 0
	}
	var tl *quic.DatagramTooLargeError
	if errors.As(err, &tl) {
		return c05sRetTooLarge, int(tl.MaxDatagramPayloadSize)
	}
	return c05sRetOther, 0
}

// c05sJudge evaluates the property on one step of the history (implementation alone):
//   - the message is first handed to the channel WHOLE and unchanged (fragmentation happens only after
//     the channel refused it as too large);
//   - after a refusal with limit L: the rest of the calls are fragments of this message, one common packet
//     id in 1..65535, ids 0.., one count <= 255, non-empty payloads concatenating to the payload, every one
//     <= L on the wire - L being the limit reported for THIS message, not an older one; the sender stops at
//     the first error and returns it, otherwise sends all of them and returns nil; nothing is sent iff the
//     message cannot be split into <= 255 fitting fragments;
//   - the far side (a real Defragger fed with what the channel accepted) emits the message, byte-identical,
//     exactly when the whole message or all its fragments were accepted, and nothing else; when the limit
//     is constant during the step this is exactly "the message fits the limit whole or in <= 255 fragments".
func c05sJudge(sid uint32, st c05sStep, addr string, data []byte, calls []c05sCall, emits []*protocol.UDPMessage,
	ret, retL int, prevPid *int, prevCnt *int,
) (bool, string, int) {
	// severity 2 = the statement itself (a fragment does not fit / a message that fits is lost / far side got
	// something else); 1 = the send-path mechanism (whole first, ids, stop at first error, return value)
	ok, why, sev := true, "", 0
	fail := func(v int, s string) {
		if ok || v > sev {
			ok, why, sev = false, s, v
		}
	}
	wholeMsg := &protocol.UDPMessage{SessionID: sid, FragID: 0, FragCount: 1, Addr: addr, Data: data}
	isMsg := func(m *protocol.UDPMessage) bool {
		return m.SessionID == sid && m.Addr == addr && bytes.Equal(m.Data, data) && m.FragID == 0 && m.FragCount == 1
	}
	allAccepted := false
	collide := false
	blen := protocol.MaxUDPSize
	if len(calls) > 0 {
		blen = calls[0].blen
	}
	firstWhole := len(calls) > 0 && isMsg(&calls[0].msg)
	if len(calls) == 0 {
		fail(1, "message was not handed to the datagram channel at all (no whole attempt)")
	} else if !firstWhole {
		c := &calls[0].msg
		fail(1, "first SendMessage call of the step is not the whole message (frag "+strconv.Itoa(int(c.FragID))+"/"+
			strconv.Itoa(int(c.FragCount))+", "+strconv.Itoa(len(c.Data))+" of "+strconv.Itoa(len(data))+
			" payload bytes): fragmented without a DatagramTooLargeError for this message")
		for i := range calls {
			if calls[i].out == c05sTooLarge && calls[i].msg.FragCount > 1 {
				fail(2, "fragment "+strconv.Itoa(int(calls[i].msg.FragID))+"/"+strconv.Itoa(int(calls[i].msg.FragCount))+" is "+
					strconv.Itoa(calls[i].n)+" bytes on the wire, the datagram limit in force is "+strconv.Itoa(calls[i].lim)+
					": split against a limit that was not reported for this message")
			}
		}
		*prevPid, *prevCnt = int(c.PacketID), int(c.FragCount)
	} else {
		switch calls[0].out {
		case c05sAccept, c05sDrop:
			if len(calls) != 1 {
				fail(1, "more datagrams sent after the whole message was taken by the channel")
			}
			if ret != c05sRetNil {
				fail(1, "send returned an error although the channel returned nil")
			}
			allAccepted = calls[0].out == c05sAccept
		case c05sFail:
			if len(calls) != 1 {
				fail(1, "more datagrams sent after a non-size error")
			}
			if ret != c05sRetOther {
				fail(1, "connection error not returned to the caller")
			}
		case c05sTooLarge:
			L := calls[0].lim
			budget := L - wholeMsg.HeaderSize()
			want := 0
			if budget > 0 {
				want = (len(data) + budget - 1) / budget
				if want > 255 {
					want = 0
				}
			}
			fr := calls[1:]
			if want == 0 {
				if len(fr) != 0 {
					fail(2, "message that cannot be split into <= 255 fitting fragments was not discarded")
				}
				if ret != c05sRetNil {
					fail(1, "discard must be silent (nil)")
				}
				break
			}
			if len(fr) == 0 {
				fail(2, "message discarded although it fits in "+strconv.Itoa(want)+" fragments of the reported limit "+strconv.Itoa(L))
				break
			}
			pid := fr[0].msg.PacketID
			cnt := int(fr[0].msg.FragCount)
			if pid == 0 {
				fail(1, "fragments carry packet id 0 (must be a fresh id in 1..65535)")
			}
			if cnt < 2 || cnt > 255 {
				fail(2, "fragment count out of range")
			}
			var cat []byte
			stopped := false
			for i := range fr {
				f := &fr[i]
				if stopped {
					fail(1, "sender went on after the channel returned an error")
				}
				if f.msg.SessionID != sid || f.msg.Addr != addr || f.msg.PacketID != pid {
					fail(2, "fragment header differs from the message")
				}
				if int(f.msg.FragID) != i || int(f.msg.FragCount) != cnt {
					fail(2, "fragment id/count wrong")
				}
				if len(f.msg.Data) == 0 {
					fail(2, "empty fragment")
				}
				if f.msg.Size() > L {
					fail(2, "fragment of "+strconv.Itoa(f.msg.Size())+" bytes exceeds the limit "+strconv.Itoa(L)+
						" reported by the refusal of this message (split against another limit)")
				}
				cat = append(cat, f.msg.Data...)
				if f.out == c05sTooLarge || f.out == c05sFail {
					stopped = true // (a silent drop returns nil: the sender cannot know)
				}
			}
			if !bytes.HasPrefix(data, cat) {
				fail(2, "fragments do not concatenate to (a prefix of) the payload")
			}
			last := fr[len(fr)-1]
			if last.out == c05sTooLarge || last.out == c05sFail {
				if last.out == c05sTooLarge && (ret != c05sRetTooLarge || retL != last.lim) {
					fail(1, "error of a refused fragment not returned to the caller")
				}
				if last.out == c05sFail && ret != c05sRetOther {
					fail(1, "connection error on a fragment not returned to the caller")
				}
			} else {
				if len(fr) != cnt || !bytes.Equal(cat, data) {
					fail(2, "not all fragments were sent although the channel took every one")
				}
				if ret != c05sRetNil {
					fail(1, "send returned an error although the channel took every fragment")
				}
				allAccepted = true
				for i := range fr {
					if fr[i].out != c05sAccept {
						allAccepted = false
					}
				}
			}
			if *prevPid == int(pid) && *prevCnt == cnt {
				collide = true // same random id and count as the previous fragmented message: far side may ignore it (hypothesis of the property)
			}
			*prevPid, *prevCnt = int(pid), cnt
		}
	}
	// far side
	for _, e := range emits {
		if !isMsg(e) {
			fail(2, "far side reassembled a message that was not sent ("+strconv.Itoa(len(e.Data))+" bytes)")
		}
	}
	if len(emits) > 1 {
		fail(2, "far side emitted the message more than once")
	}
	if !collide {
		if firstWhole {
			if allAccepted && len(emits) != 1 {
				fail(2, "far side did not reassemble a message whose datagrams were all accepted")
			}
			if !allAccepted && len(emits) != 0 {
				fail(2, "far side emitted a message that was not completely delivered")
			}
		}
		// limit constant during the step: delivered exactly when it can fit
		constant := true
		for _, r := range st.Resp {
			if r != st.Resp[0] {
				constant = false
			}
		}
		if constant && st.Resp[0][0] == 0 {
			L := st.Resp[0][1]
			size := wholeMsg.Size()
			budget := L - wholeMsg.HeaderSize()
			fitsLimit := size <= L || (budget > 0 && len(data) <= 255*budget)
			// (a message larger than the sender's buffer is silently dropped by the code as it is; delivering it
			// intact would not break the property, so only the model comparison pins that case)
			if size <= blen && fitsLimit && len(emits) != 1 {
				fail(2, "message of "+strconv.Itoa(size)+" bytes that fits the limit "+strconv.Itoa(L)+
					" (whole or in <= 255 fragments) was not delivered to the far side")
			}
			if !fitsLimit && len(emits) != 0 {
				fail(2, "message that cannot fit the limit in <= 255 fragments was delivered")
			}
		}
	}
	return ok, why, sev
}

// c05sRun drives one case. send(step index, data, addr) performs one send on the implementation and
// returns its error; it is called with the fake channel already switched to the step's script.
func c05sRun(raw json.RawMessage, io *c05sIO, send func(i int, data []byte, addr string) error, res map[string]any) {
	var c c05sCase
	if err := json.Unmarshal(raw, &c); err != nil {
		panic(err)
	}
	ok, why, sev := true, "", 0
	steps := make([]map[string]any, 0, len(c.Steps))
	prevPid, prevCnt := -1, -1
	pids := map[uint16]int{}
	nfrag := 0
	for i, st := range c.Steps {
		addr := string(vGenData(st.Aa, st.Ab, st.Al))
		data := vGenData(st.Da, st.Db, st.Dl)
		io.begin(st.Resp)
		var err error
		p, pmsg := vCatch(func() { err = send(i, append([]byte(nil), data...), addr) })
		ret, retL := c05sRet(err)
		calls := make([][]int64, 0, len(io.calls))
		for j := range io.calls {
			k := &io.calls[j]
			calls = append(calls, append(c05sSum(&k.msg), int64(k.n), int64(k.out), int64(k.lim)))
		}
		emits := make([][]int64, 0, len(io.emits))
		for _, e := range io.emits {
			emits = append(emits, c05sSum(e))
		}
		so := map[string]any{"calls": calls, "ret": ret, "retL": retL, "emits": emits, "panic": p}
		steps = append(steps, so)
		if p {
			if sev < 3 {
				ok, why, sev = false, "step "+strconv.Itoa(i)+": panic in the send path: "+pmsg, 3
			}
			continue
		}
		if len(io.calls) >= 2 {
			pids[io.calls[1].msg.PacketID]++
			nfrag++
		}
		sok, swhy, ssev := c05sJudge(c.Sid, st, addr, data, io.calls, io.emits, ret, retL, &prevPid, &prevCnt)
		if !sok && (ok || ssev > sev) {
			ok, why, sev = false, "step "+strconv.Itoa(i)+" (limit "+strconv.Itoa(st.Resp[0][1])+", "+strconv.Itoa(len(data))+" bytes): "+swhy, ssev
		}
	}
	if nfrag >= 6 && len(pids) == 1 && ok {
		ok, why = false, "every fragmented message of the history carries the same packet id (not fresh)"
	}
	if io.bad != "" && ok {
		ok, why = false, io.bad
	}
	res["steps"] = steps
	res["buf"] = io.blen
	res["ok"] = ok
	res["why"] = why
}

// ---------------------------------------------------------------------------------------------------
// Long operation: ONE history of more than 65536 fragmented sends through the real send path.
//
// Every message is tiny and is refused whole (limit L below its size), so every send draws a packet id.
// Nothing is recorded per call; per send the mechanism is checked on the fly (whole first, refusal, then
// exactly the fragments 0..cnt-1 of one id, concatenating to the payload, each <= L; a lossless far-side
// Defragger returns the message once, byte-identical) and the packet id is appended to the id sequence.
//
// Verdict on the id sequence (implementation alone).  The property's "distinct packet ids of messages in
// flight" is what the id generator has to provide; with the horizon W (at most W fragmented messages of one
// session in flight / reorderable at a time) it reads: among any W consecutive fragmented messages of a
// session no two carry the same id, and the id is never 0.  The code on this tree draws the id at random
// (uniform on 1..65535), so an honest repeat has probability 1/65535 per pair and over > 65536 sends some
// repeats within the horizon are EXPECTED (about (W-1)*n/65535 of them).  The verdict therefore is:
//
//   (z)  an id 0 on a fragment: always a violation (probability 0 for the honest code);
//   (r)  for some lag d < W the number X_d of positions i with id[i] == id[i+d] reaches thr: for independent
//        uniform ids the indicators of one lag are mutually independent (id[i+d] is fresh with respect to
//        everything before it), X_d ~ Binomial(n-d, 1/65535), so P(X_d >= thr) <= (n/65535)^thr / thr! and the
//        union over the W-1 lags stays below the bound the generator (vlib/props/C05.py long_thr) asked for;
//   (d)  the id sequence is CYCLIC (some period P: id[i] == id[i-P] for >= 90% of the positions i >= P, at
//        least 256 of them - for independent uniform ids the probability of that is below 2^-3000), i.e. the
//        ids come from a deterministic generator that has gone round at least once inside this history, and
//        the sequence has a repeat within the horizon: this repeat is not chance, it recurs on every cycle.
//
// For the demonstration the same fragments also go through a second Defragger behind a channel that loses
// complementary fragments (message i keeps only fragment i mod cnt): no message is ever complete there, and
// every payload that Defragger returns was never sent (reported as "chimeras"; informational for honest
// random ids - expected about n/65535 - and part of the replay when (d) fires).

type c05lCase struct {
	K      string `json:"k"`
	Side   string `json:"side"`
	Sid    uint32 `json:"sid"`
	N      int    `json:"n"`
	W      int    `json:"w"`
	Thr    int    `json:"thr"`
	L      int    `json:"lim"`
	Al     int    `json:"al"`
	Aa     uint64 `json:"aa"`
	Ab     uint64 `json:"ab"`
	Dls    []int  `json:"dls"` // payload sizes, cycled
	Da     uint64 `json:"da"`
	Db     uint64 `json:"db"`
	Sample int    `json:"sample"`
}

type c05lRun struct {
	sid  uint32
	lim  int
	addr string
	data []byte // payload of the current send
	// per send
	ncall   int
	pid     uint16
	cnt     int
	next    int
	cat     []byte
	emitted int
	bad     string // first mechanism problem of the whole history
	step    int
	far     *frag.Defragger // lossless
	lossy   *frag.Defragger // complementary loss
	chim    int
	chimAt  int
	chimLen int
}

func (r *c05lRun) fail(s string) {
	if r.bad == "" {
		r.bad = "send " + strconv.Itoa(r.step) + ": " + s
	}
}

func (r *c05lRun) sendMessage(buf []byte, m *protocol.UDPMessage) error {
	idx := r.ncall
	r.ncall++
	n := m.Serialize(buf)
	if n < 0 {
		r.fail("message does not fit the send buffer")
		return nil
	}
	if idx == 0 {
		if m.SessionID != r.sid || m.Addr != r.addr || !bytes.Equal(m.Data, r.data) || m.FragID != 0 || m.FragCount != 1 {
			r.fail("first SendMessage call is not the whole message")
		}
		if n > r.lim {
			return &quic.DatagramTooLargeError{MaxDatagramPayloadSize: int64(r.lim)}
		}
		r.fail("harness: the message fits the limit whole")
		return nil
	}
	if idx == 1 {
		r.pid, r.cnt = m.PacketID, int(m.FragCount)
	}
	if m.SessionID != r.sid || m.Addr != r.addr || m.PacketID != r.pid || int(m.FragCount) != r.cnt || int(m.FragID) != r.next {
		r.fail("fragment header wrong (session/address/packet id/count/fragment id)")
	}
	r.next++
	if n > r.lim {
		r.fail("fragment of " + strconv.Itoa(n) + " bytes exceeds the limit " + strconv.Itoa(r.lim))
	}
	if len(m.Data) == 0 {
		r.fail("empty fragment")
	}
	r.cat = append(r.cat, m.Data...)
	// far side, over the wire
	wire := append([]byte(nil), buf[:n]...)
	pm, perr := protocol.ParseUDPMessage(wire)
	if perr != nil {
		r.fail("far side cannot parse an accepted datagram")
		return nil
	}
	pm2 := *pm
	if o := r.far.Feed(pm); o != nil {
		r.emitted++
		if o.SessionID != r.sid || o.Addr != r.addr || !bytes.Equal(o.Data, r.data) {
			r.fail("far side reassembled a message that was not sent")
		}
	}
	if r.cnt > 0 && int(pm2.FragID) == r.step%r.cnt {
		if o := r.lossy.Feed(&pm2); o != nil {
			// no message ever has all its fragments delivered on this channel
			if r.chim == 0 {
				r.chimAt, r.chimLen = r.step, len(o.Data)
			}
			r.chim++
		}
	}
	return nil
}

// c05lBinomTail: upper bound (n*p)^t/t! of P(Binomial(n,p) >= t), p = 1/65535
func c05lBinomTail(n, t int) float64 {
	x := 1.0
	for k := 1; k <= t; k++ {
		x *= float64(n) / 65535.0 / float64(k)
	}
	return x
}

func c05sRunLong(raw json.RawMessage, io *c05sIO, send func(i int, data []byte, addr string) error, res map[string]any) {
	var c c05lCase
	if err := json.Unmarshal(raw, &c); err != nil {
		panic(err)
	}
	run := &c05lRun{sid: c.Sid, lim: c.L, far: &frag.Defragger{}, lossy: &frag.Defragger{}}
	io.long = run
	run.addr = string(vGenData(c.Aa, c.Ab, c.Al))
	ids := make([]uint16, 0, c.N)
	cnts := make([]uint8, 0, c.N)
	lostByRepeat := 0
	panicked := ""
	for i := 0; i < c.N; i++ {
		dl := c.Dls[i%len(c.Dls)]
		run.data = vGenData(c.Da+uint64(i), c.Db+uint64(i>>8), dl)
		run.step, run.ncall, run.next, run.cnt, run.pid, run.emitted = i, 0, 0, 0, 0, 0
		run.cat = run.cat[:0]
		var err error
		p, pmsg := vCatch(func() { err = send(i, append([]byte(nil), run.data...), run.addr) })
		if p {
			panicked = "send " + strconv.Itoa(i) + ": panic in the send path: " + pmsg
			break
		}
		if err != nil {
			run.fail("send returned an error although the channel took every fragment")
		}
		if run.ncall < 3 {
			run.fail("message was not fragmented after the too-large refusal (" + strconv.Itoa(run.ncall) + " calls)")
			break
		}
		if run.next != run.cnt || !bytes.Equal(run.cat, run.data) {
			run.fail("fragments do not concatenate to the payload / not all were sent")
		}
		repeat := len(ids) > 0 && ids[len(ids)-1] == run.pid && int(cnts[len(cnts)-1]) == run.cnt
		if run.emitted != 1 {
			if repeat && run.emitted == 0 {
				lostByRepeat++ // same id and count as the message before: the far side ignores it (hypothesis of the property)
			} else {
				run.fail("lossless far side returned the message " + strconv.Itoa(run.emitted) + " times")
			}
		}
		ids = append(ids, run.pid)
		cnts = append(cnts, uint8(run.cnt))
	}
	io.long = nil
	n := len(ids)
	W := c.W
	// --- id statistics
	zeros, firstZero := 0, -1
	lags := make([]int, W) // lags[d] = #{i : ids[i] == ids[i+d]}, 1 <= d < W
	firstI, firstJ := -1, -1
	for i := 0; i < n; i++ {
		if ids[i] == 0 {
			if zeros == 0 {
				firstZero = i
			}
			zeros++
		}
		for d := 1; d < W && i+d < n; d++ {
			if ids[i] == ids[i+d] {
				lags[d]++
				if firstI < 0 || i+d < firstJ {
					firstI, firstJ = i, i+d
				}
			}
		}
	}
	win, maxLag, maxLagD := 0, 0, 0
	for d := 1; d < W; d++ {
		win += lags[d]
		if lags[d] > maxLag {
			maxLag, maxLagD = lags[d], d
		}
	}
	// cyclic? distance to the previous occurrence of the same id
	prev := make(map[uint16]int, 65536)
	dist := make(map[int]int)
	for i := 0; i < n; i++ {
		if j, ok := prev[ids[i]]; ok {
			dist[i-j]++
		}
		prev[ids[i]] = i
	}
	period, periodHits := 0, 0
	for p, h := range dist {
		if n-p >= 256 && 10*h >= 9*(n-p) && (period == 0 || p < period) {
			period, periodHits = p, h
		}
	}
	// sample of the sequence: around the first repeat within the horizon, else the head
	lo, hi := 0, c.Sample
	if firstI >= 0 {
		lo, hi = firstI-4, firstJ+5
	}
	if lo < 0 {
		lo = 0
	}
	if hi > n {
		hi = n
	}
	sample := make([]int, 0, hi-lo)
	for i := lo; i < hi; i++ {
		sample = append(sample, int(ids[i]))
	}
	idb := make([]byte, 0, 2*n)
	for _, x := range ids {
		idb = append(idb, byte(x>>8), byte(x))
	}
	lagsOut := lags[1:]
	res["n"], res["w"], res["zeros"], res["lags"], res["win"] = n, W, zeros, lagsOut, win
	res["period"], res["period_hits"] = period, periodHits
	res["sample"], res["sample_at"] = sample, lo
	res["first_repeat"] = []int{firstI, firstJ}
	res["ids_digest"] = vDigest(idb)
	res["chimeras"], res["lost_by_repeat"] = run.chim, lostByRepeat
	res["fa_bound"] = float64(W-1) * c05lBinomTail(n, c.Thr)
	ok, why := true, ""
	switch {
	case panicked != "":
		ok, why = false, panicked
	case run.bad != "":
		ok, why = false, run.bad
	case n != c.N:
		ok, why = false, "history ended early"
	case zeros > 0:
		ok, why = false, "fragmented message "+strconv.Itoa(firstZero)+" of the history carries packet id 0 (the id of unfragmented messages); "+
			strconv.Itoa(zeros)+" of "+strconv.Itoa(n)
	case maxLag >= c.Thr:
		ok, why = false, "packet ids are not fresh: "+strconv.Itoa(maxLag)+" of "+strconv.Itoa(n)+" fragmented messages carry the same id as the message "+
			strconv.Itoa(maxLagD)+" send(s) earlier (uniform random ids reach "+strconv.Itoa(c.Thr)+" with probability < 1e-9); first: sends "+
			strconv.Itoa(firstI)+" and "+strconv.Itoa(firstJ)+" both carry id "+strconv.Itoa(int(ids[firstI]))
	case period > 0 && win > 0:
		ok, why = false, "packet ids come from a cyclic generator (the id sequence repeats with period "+strconv.Itoa(period)+", "+
			strconv.Itoa(periodHits)+" of "+strconv.Itoa(n-period)+" positions) and sends "+strconv.Itoa(firstI)+" and "+strconv.Itoa(firstJ)+
			" of one session, "+strconv.Itoa(firstJ-firstI)+" apart (horizon "+strconv.Itoa(W)+"), both carry packet id "+strconv.Itoa(int(ids[firstI]))+
			": a repeat that recurs every cycle, not a chance collision"
		if run.chim > 0 {
			why += "; with complementary fragment loss the far side's Defragger returned " + strconv.Itoa(run.chim) +
				" payload(s) that were never sent (first at send " + strconv.Itoa(run.chimAt) + ", " + strconv.Itoa(run.chimLen) + " bytes)"
		}
	}
	res["ok"] = ok
	res["why"] = why
}
