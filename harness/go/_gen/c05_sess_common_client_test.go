//go:build verif

package client

// C05, reassembly as seen THROUGH the session managers (case kind "sess"), shared by core/server
// (udpSessionManager.Run -> feed -> udpSessionEntry.Feed) and core/client (udpSessionManager.run -> feed ->
// udpConn.Receive).  Instantiated per package by vlib/props/C05.py.
//
// A case is an ARRIVAL SCHEDULE on one connection: messages of several sessions, each split against its
// datagram limit by the real FragUDPMessage, and a list of operations
//   [0, j, x]  fragment x of message j arrives (serialized and parsed again, as the receive loop gets it)
//   [1, d]     d ms pass without traffic (server: the idle sweeper runs on the fake clock)
//   [2, s]     client: session s is closed        [3]  client: a session is opened (NewUDP)
// Messages that open a session (no entry yet, or the entry was removed by the idle timeout) arrive in every
// order with duplicates; fragments of several sessions are interleaved (also with EQUAL packet id and count).
//
// The verdict is evaluated on the implementation alone against a reference written here (not the code's
// Defragger): per session ONE slot holding the message in progress and the set of fragment indices seen.
//   (S) everything delivered to a session is byte-identical (address, payload) to a message sent to THAT session;
//   (C) a message is delivered, at the arrival that completes it, when all its fragments arrived with no fragment
//       of another packet id IN THAT SESSION in between and the session was not removed in between (whatever the
//       other sessions did meanwhile) - in particular when its first fragment to arrive is not fragment 0 and the
//       session did not exist yet.
// Raw output (deliveries with their position, table size after every operation) goes to the Coq model
// model/C05_Sess.v (a map session -> one-slot reassembler).

import (
	"bytes"
	"fmt"
	"testing"
	"testing/synctest"
	"time"

	"github.com/apernet/hysteria/core/v2/internal/frag"
	"github.com/apernet/hysteria/core/v2/internal/protocol"
)

type c05mMsg struct {
	Sid uint32 `json:"sid"`
	Pid uint16 `json:"pid"`
	Al  int    `json:"al"`
	Aa  uint64 `json:"aa"`
	Ab  uint64 `json:"ab"`
	Dl  int    `json:"dl"`
	Da  uint64 `json:"da"`
	Db  uint64 `json:"db"`
	Max int    `json:"max"`
}

type c05mCase struct {
	K       string    `json:"k"`
	Side    string    `json:"side"`
	Timeout int64     `json:"timeout"` // server: idle timeout, ms
	Off     int64     `json:"off"`     // fake-clock time of the first operation, ms after the manager started
	Msgs    []c05mMsg `json:"msgs"`
	Ops     [][]int64 `json:"ops"`
}

type c05mDeliv struct {
	pos  int
	sid  uint32
	addr string
	data []byte
}

func (m c05mMsg) build() *protocol.UDPMessage {
	return &protocol.UDPMessage{
		SessionID: m.Sid, PacketID: m.Pid, FragID: 0, FragCount: 1,
		Addr: string(vGenData(m.Aa, m.Ab, m.Al)), Data: vGenData(m.Da, m.Db, m.Dl),
	}
}

// the messages and their fragments (real splitter)
func c05mBuild(c *c05mCase) (origs []*protocol.UDPMessage, frags [][]protocol.UDPMessage) {
	for _, mc := range c.Msgs {
		origs = append(origs, mc.build())
		frags = append(frags, frag.FragUDPMessage(mc.build(), mc.Max))
	}
	return
}

// c05mWire: what the receive loop hands to the session manager for this datagram: a message parsed from its own
// buffer (nil when it does not parse: the loop skips it).
func c05mWire(f *protocol.UDPMessage) *protocol.UDPMessage {
	buf := make([]byte, f.Size())
	n := f.Serialize(buf)
	if n < 0 {
		return nil
	}
	pm, err := protocol.ParseUDPMessage(buf[:n:n])
	if err != nil {
		return nil
	}
	return pm
}

// c05mArrival resolves operation [0, j, x]; nil: nothing arrives
func c05mArrival(frags [][]protocol.UDPMessage, op []int64) *protocol.UDPMessage {
	if len(op) != 3 || op[1] < 0 || int(op[1]) >= len(frags) {
		return nil
	}
	fs := frags[op[1]]
	if len(fs) == 0 {
		return nil
	}
	f := fs[int(op[2])%len(fs)]
	return c05mWire(&f)
}

type c05mSlot struct {
	cur  int // message in progress, -1 none
	got  map[int]bool
	last int64
}

// c05mJudge: the reference and the verdict; also writes the raw output.
func c05mJudge(c *c05mCase, server bool, ivMs int64, origs []*protocol.UDPMessage, frags [][]protocol.UDPMessage,
	delivs []c05mDeliv, cnts []int, res map[string]any) {
	emits := [][]uint64{}
	for _, d := range delivs {
		emits = append(emits, []uint64{uint64(d.pos), uint64(d.sid), uint64(len(d.addr)), vDigest([]byte(d.addr)),
			uint64(len(d.data)), vDigest(d.data)})
	}
	res["emits"] = emits
	res["cnts"] = cnts
	res["iv"] = ivMs
	ok, why := true, ""
	fail := func(s string) {
		if ok {
			ok, why = false, s
		}
	}
	// hypothesis of the property: packet ids of the messages of ONE session are distinct
	inHyp := true
	for i := range c.Msgs {
		for j := 0; j < i; j++ {
			if c.Msgs[i].Sid == c.Msgs[j].Sid && c.Msgs[i].Pid == c.Msgs[j].Pid && len(frags[i]) > 1 && len(frags[j]) > 1 {
				inHyp = false
			}
		}
	}
	res["in_hyp"] = inHyp
	// (S) soundness, per session
	for _, d := range delivs {
		found := false
		for _, og := range origs {
			if og.SessionID == d.sid && og.Addr == d.addr && bytes.Equal(og.Data, d.data) {
				found = true
			}
		}
		if !found && inHyp {
			fail(fmt.Sprintf("session %d was handed a datagram (operation %d, address of %d bytes, payload of %d bytes) that is not "+
				"byte-identical to any message sent to that session", d.sid, d.pos, len(d.addr), len(d.data)))
		}
	}
	// (C) completeness against the reference
	type exp struct {
		pos int
		sid uint32
		j   int
		how string
	}
	var exps []exp
	slots := map[uint32]*c05mSlot{}
	vague := map[uint32]bool{}
	now := c.Off
	next := uint32(1)
	nvague := 0
	for pos, op := range c.Ops {
		if len(op) == 0 {
			continue
		}
		switch op[0] {
		case 0:
			f := c05mArrival(frags, op)
			if f == nil {
				continue
			}
			j := int(op[1])
			sid := f.SessionID
			s := slots[sid]
			opening := false
			if s == nil {
				if !server {
					continue // client: unknown session, ignored
				}
				s = &c05mSlot{cur: -1}
				slots[sid] = s
				opening = true
			}
			s.last = now
			n := len(frags[j])
			if n <= 1 {
				if !vague[sid] {
					exps = append(exps, exp{pos, sid, j, "arrived whole"})
				}
				continue
			}
			x := int(op[2]) % n
			if s.cur != j {
				s.cur, s.got = j, map[int]bool{x: true}
				if opening && x != 0 {
					res["opened_by_later_fragment"] = true
				}
			} else if !s.got[x] {
				s.got[x] = true
				if len(s.got) == n && !vague[sid] {
					exps = append(exps, exp{pos, sid, j, fmt.Sprintf("all %d fragments arrived, none of another packet id of that session in between", n)})
				}
			}
		case 1:
			if len(op) < 2 {
				continue
			}
			d := op[1]
			now += d
			if !server {
				continue
			}
			for sid, s := range slots {
				idle := now - s.last
				switch {
				case idle <= c.Timeout:
					// every tick so far saw it idle for at most the timeout: it stays
				case d >= ivMs && idle-ivMs >= c.Timeout:
					delete(slots, sid) // some tick saw it idle for longer than the timeout: removed with its state
				default:
					// depends on where the ticks fall: nothing is demanded of this session any more
					if !vague[sid] {
						nvague++
					}
					vague[sid] = true
					delete(slots, sid)
				}
			}
		case 2:
			if len(op) >= 2 {
				delete(slots, uint32(op[1]))
			}
		case 3:
			slots[next] = &c05mSlot{cur: -1}
			next++
		}
	}
	res["vague"] = nvague
	res["expected"] = len(exps)
	if inHyp {
		for _, e := range exps {
			found := false
			for _, d := range delivs {
				if d.pos == e.pos && d.sid == e.sid && d.addr == origs[e.j].Addr && bytes.Equal(d.data, origs[e.j].Data) {
					found = true
				}
			}
			if !found {
				fail(fmt.Sprintf("message %d of session %d (packet id %d, %d fragment(s)): %s by operation %d, but it was not delivered there",
					e.j, e.sid, c.Msgs[e.j].Pid, len(frags[e.j]), e.how, e.pos))
			}
		}
	}
	res["ok"] = ok
	res["why"] = why
}

const c05mHangLimit = 240 * time.Second

// c05mGuarded runs one history in a bubble under a real-time limit (a goroutine waiting for a sync.Mutex is not
// durably blocked, so a stuck history would otherwise sit there until go test's own timeout).
func c05mGuarded(t *testing.T, res map[string]any, f func(res map[string]any)) map[string]any {
	type fin struct {
		p   bool
		msg string
	}
	ch := make(chan fin, 1)
	go func() {
		p, msg := vCatch(func() { synctest.Test(t, func(t *testing.T) { f(res) }) })
		ch <- fin{p, msg}
	}()
	lim := time.NewTimer(c05mHangLimit)
	defer lim.Stop()
	select {
	case r := <-ch:
		if r.p {
			res["ok"] = false
			res["panic"] = true
			res["why"] = "panic / goroutine left behind: " + r.msg
		}
		return res
	case <-lim.C:
		return map[string]any{"i": res["i"], "k": "sess", "ok": false, "hang": true,
			"why": fmt.Sprintf("the history did not finish within %v of real time", c05mHangLimit)}
	}
}
