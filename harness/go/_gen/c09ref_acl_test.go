//go:build verif

package acl

// C09: the case record types and the reference evaluator shared by the C09 harnesses of package outbounds and of
// package acl (generated per package from c09/c09ref_test.go.tmpl by vlib/props/C09.py).

import (
	"net"
	"net/netip"
	"strings"
)

type c09Rule struct {
	Ob   string `json:"ob"`
	Addr string `json:"addr"`
	PP   string `json:"pp"`
	Hj   string `json:"hj"`
}

type c09Host struct {
	N  string `json:"n"`
	V4 string `json:"v4"` // hex, "" = nil
	V6 string `json:"v6"`
	// engx only: the ResolveInfo in front of the engine: 0 = nil, 1 = {IPv4, IPv6} without error, 2 = {IPv4, IPv6, Err != nil}
	E int `json:"e"`
}

func c09IP(h string) net.IP {
	if h == "" {
		return nil
	}
	return net.IP(vUnhex(h))
}

// ---------------------------------------------------------------- reference evaluator
// Written from the ACL documentation (rule = outbound(address[, proto/port[, hijack]]); address is
// a single IP, a CIDR, a domain (no subdomains), a wildcard domain where '*' stands for any run of
// characters, suffix:domain (the domain and all its subdomains), or all / *; names compare without
// regard to case or trailing dots; proto is tcp, udp or *, port a number, a range a-b or *; rules are
// tried top to bottom and the first one that matches decides; no match = default outbound).

type c09RefRule struct {
	ob     int
	kind   string // all exact suffix wild ip cidr
	pat    string
	addr   netip.Addr
	pfx    netip.Prefix
	proto  int // 0 both 1 tcp 2 udp
	lo, hi int
	hij    net.IP
}

func c09RefNorm(s string) string {
	b := []byte(s)
	for i, ch := range b {
		if ch >= 'A' && ch <= 'Z' {
			b[i] = ch + 32
		}
	}
	n := len(b)
	for n > 0 && b[n-1] == '.' {
		n--
	}
	return string(b[:n])
}

func c09Num(s string) (int, bool) {
	if s == "" || len(s) > 7 {
		return 0, false
	}
	v := 0
	for _, ch := range []byte(s) {
		if ch < '0' || ch > '9' {
			return 0, false
		}
		v = v*10 + int(ch-'0')
	}
	return v, v <= 65535
}

// understood=false: the reference does not know this (undocumented) form and gives no verdict.
func c09RefCompile(r c09Rule, obs map[string]int) (rr c09RefRule, understood bool) {
	ob, ok := obs[strings.ToLower(r.Ob)]
	if !ok {
		return rr, false
	}
	rr.ob = ob
	a := c09RefNorm(r.Addr)
	switch {
	case a == "all" || a == "*":
		rr.kind = "all"
	case strings.HasPrefix(a, "geoip:") || strings.HasPrefix(a, "geosite:"):
		return rr, false
	case strings.HasPrefix(a, "suffix:"):
		rr.kind, rr.pat = "suffix", a[7:]
		if rr.pat == "" {
			return rr, false
		}
	case strings.Contains(a, "/"):
		j := strings.IndexByte(a, '/')
		ad, err := netip.ParseAddr(a[:j])
		bits, okb := c09Num(a[j+1:])
		if err != nil || !okb || ad.Zone() != "" {
			return rr, false
		}
		if ad.Is4In6() && bits >= 96 {
			ad, bits = ad.Unmap(), bits-96
		}
		if bits > ad.BitLen() {
			return rr, false
		}
		rr.kind, rr.pfx = "cidr", netip.PrefixFrom(ad, bits).Masked()
	default:
		if ad, err := netip.ParseAddr(a); err == nil && ad.Zone() == "" {
			rr.kind, rr.addr = "ip", ad.Unmap()
		} else if strings.Contains(a, "*") {
			rr.kind, rr.pat = "wild", a
		} else {
			rr.kind, rr.pat = "exact", a
		}
	}
	// proto/port
	pp := strings.ToLower(r.PP)
	rr.lo, rr.hi = 0, 65535
	prs, pos := pp, "*"
	if j := strings.IndexByte(pp, '/'); j >= 0 {
		prs, pos = pp[:j], pp[j+1:]
	}
	switch prs {
	case "", "*":
		if prs == "" && pp != "" {
			return rr, false
		}
		rr.proto = 0
	case "tcp":
		rr.proto = 1
	case "udp":
		rr.proto = 2
	default:
		return rr, false
	}
	if pos != "*" {
		if j := strings.IndexByte(pos, '-'); j >= 0 {
			lo, ok1 := c09Num(pos[:j])
			hi, ok2 := c09Num(pos[j+1:])
			if !ok1 || !ok2 || lo > hi {
				return rr, false
			}
			rr.lo, rr.hi = lo, hi
		} else {
			p, ok1 := c09Num(pos)
			if !ok1 {
				return rr, false
			}
			rr.lo, rr.hi = p, p
		}
	}
	if r.Hj != "" {
		ad, err := netip.ParseAddr(r.Hj)
		if err != nil || ad.Zone() != "" {
			return rr, false
		}
		b := ad.As16()
		rr.hij = net.IP(b[:])
	}
	return rr, true
}

// iterative glob: '*' = any run of bytes (also empty, also across dots)
func c09Glob(pat, s string) bool {
	p, i, star, mark := 0, 0, -1, 0
	for i < len(s) {
		if p < len(pat) && pat[p] == '*' {
			star, mark = p, i
			p++
		} else if p < len(pat) && pat[p] == s[i] {
			p++
			i++
		} else if star >= 0 {
			mark++
			i = mark
			p = star + 1
		} else {
			return false
		}
	}
	for p < len(pat) && pat[p] == '*' {
		p++
	}
	return p == len(pat)
}

func c09Addrs(h c09Host) []netip.Addr {
	var out []netip.Addr
	for _, x := range []string{h.V4, h.V6} {
		if ad, ok := netip.AddrFromSlice(vUnhex(x)); ok {
			out = append(out, ad.Unmap())
		}
	}
	return out
}

func (rr *c09RefRule) match(h c09Host, proto, port int) bool {
	if rr.proto != 0 && rr.proto != proto {
		return false
	}
	if port < rr.lo || port > rr.hi {
		return false
	}
	name := c09RefNorm(h.N)
	switch rr.kind {
	case "all":
		return true
	case "exact":
		return name == rr.pat
	case "suffix":
		if name == rr.pat {
			return true
		}
		k := len(name) - len(rr.pat)
		return k >= 1 && name[k-1] == '.' && name[k:] == rr.pat
	case "wild":
		return c09Glob(rr.pat, name)
	case "ip":
		for _, ad := range c09Addrs(h) {
			if ad == rr.addr {
				return true
			}
		}
	case "cidr":
		for _, ad := range c09Addrs(h) {
			if ad.BitLen() == rr.pfx.Addr().BitLen() && rr.pfx.Contains(ad) {
				return true
			}
		}
	}
	return false
}

func c09RefEval(rules []c09RefRule, h c09Host, proto, port int) (int, net.IP) {
	for i := range rules {
		if rules[i].match(h, proto, port) {
			return rules[i].ob, rules[i].hij
		}
	}
	return 0, nil
}

