//go:build verif

package http

// C18 harness, RELAY phase (generated per package from c18/c18_relay_common_test.go.tmpl): the two copy
// loops an inbound starts after the upstream was dialled, driven on connections that are NOT kernel
// sockets - a scripted client conn and a scripted upstream conn, inside a testing/synctest bubble.
//
// A side's read script is a list of items; an item's bytes are handed out by as many Read calls as the
// caller's buffer needs (a 1-byte item is a 1-byte read, an item larger than the buffer is a huge read),
// an empty item is a Read returning (0, nil), and an item may carry an error (io.EOF or another one)
// that is returned TOGETHER with its last bytes.  An item / a Write call may wait for named events of
// the other direction (the k-th read item of a side delivered, the j-th Write call of a side entered /
// finished), so that a Write is in progress while the opposite direction delivers data; a stalled Write
// looks at its argument only when it resumes, as a flow-controlled stream does.  Every Read / Write /
// Close on the two conns is logged with one global sequence number.
//
// Verdict, on the implementation alone: in each direction the bytes offered to the sink are the bytes
// taken from the source, in order, nothing replaced, duplicated or skipped; bytes taken from a source are
// missing at the sink only if the sink refused a Write; the conns are closed only after a direction ended.

import (
	"bytes"
	"encoding/json"
	"errors"
	"io"
	"net"
	"strconv"
	"sync"
	"testing"
	"testing/synctest"
	"time"

	"github.com/apernet/hysteria/core/v2/client"
)

type c18RItem struct {
	Hex  string   `json:"hex"`
	GD   []uint64 `json:"gd"`   // a, b, n: vGenData(a, b, n) instead of hex
	Err  string   `json:"err"`  // "" / "eof" / "err": returned with the last bytes of the item
	Wait []string `json:"wait"` // events that must have happened before the item is handed out
	data []byte
	ok   bool // gate passed
}

type c18RWItem struct {
	Wait []string `json:"wait"`
	N    int      `json:"n"` // -1: take everything; k >= 0: take min(k, len(p)) bytes and fail
}

type c18RCase struct {
	K     string      `json:"k"`
	Inb   string      `json:"inb"`  // rmux only: "socks" / "http"
	Auth  bool        `json:"auth"` // credentials configured (the script presents them)
	User  string      `json:"user"`
	Pass  string      `json:"pass"`
	Tail  int         `json:"tail"` // length of the negotiation / header part of the client's stream
	CR    []*c18RItem `json:"cr"`   // client -> server: header part ++ payload
	UR    []*c18RItem `json:"ur"`   // upstream -> server
	CW    []c18RWItem `json:"cw"`   // behaviour of the j-th relay-phase Write on the client conn
	UW    []c18RWItem `json:"uw"`   // behaviour of the j-th Write on the upstream conn
	CHold bool        `json:"chold"` // client: at the end of the script Read blocks (until closed / hang-up)
	UHold bool        `json:"uhold"`
	Peer  string      `json:"peer"`
}

type c18RWorld struct {
	mu      sync.Mutex
	cond    *sync.Cond
	seq     int
	ev      []map[string]any
	fired   map[string]bool
	force   bool // the environment stopped waiting: all gates are open
	upEnter bool // the upstream conn has seen a Read call: the relay loops run
	dials   int
}

func c18RNewWorld() *c18RWorld {
	w := &c18RWorld{fired: map[string]bool{}}
	w.cond = sync.NewCond(&w.mu)
	return w
}

// callers hold w.mu
func (w *c18RWorld) log(e map[string]any) {
	e["q"] = w.seq
	w.seq++
	w.ev = append(w.ev, e)
}

func (w *c18RWorld) fire(name string) {
	w.fired[name] = true
	w.cond.Broadcast()
}

func (w *c18RWorld) open(names []string) bool {
	if w.force {
		return true
	}
	for _, n := range names {
		if !w.fired[n] {
			return false
		}
	}
	return true
}

var c18RErrScripted = errors.New("scripted failure")

type c18RConn struct {
	w      *c18RWorld
	side   string // "c" (local client) / "u" (upstream)
	items  []*c18RItem
	ri     int
	roff   int
	ended  error // the script ended with an error: further Reads repeat it
	hold   bool
	hup    bool // the peer hung up: Reads at the end of the script return io.EOF
	ws     []c18RWItem
	wi     int
	closed bool
	closes int
	peer   net.IP
}

func c18RErrName(err error) string {
	switch err {
	case nil:
		return ""
	case io.EOF:
		return "eof"
	case net.ErrClosed:
		return "closed"
	}
	return "err"
}

func (c *c18RConn) Read(p []byte) (int, error) {
	w := c.w
	w.mu.Lock()
	defer w.mu.Unlock()
	if c.side == "u" && !w.upEnter {
		w.upEnter = true
		w.log(map[string]any{"s": "u", "op": "enter"})
	}
	ret := func(n int, err error) (int, error) {
		w.log(map[string]any{"s": c.side, "op": "r", "bl": len(p), "d": vHex(p[:n]), "e": c18RErrName(err)})
		return n, err
	}
	for {
		if c.closed {
			return ret(0, net.ErrClosed)
		}
		if c.ended != nil {
			return ret(0, c.ended)
		}
		if c.ri >= len(c.items) {
			if !c.hold || c.hup {
				c.ended = io.EOF
				return ret(0, io.EOF)
			}
			w.cond.Wait()
			continue
		}
		it := c.items[c.ri]
		if !it.ok {
			if !w.open(it.Wait) {
				w.cond.Wait()
				continue
			}
			it.ok = true
		}
		n := copy(p, it.data[c.roff:])
		c.roff += n
		var err error
		if c.roff == len(it.data) {
			switch it.Err {
			case "eof":
				err = io.EOF
			case "err":
				err = c18RErrScripted
			}
			c.ended = err
			w.fire(c.side + "r" + strconv.Itoa(c.ri))
			c.ri++
			c.roff = 0
		}
		return ret(n, err)
	}
}

func (c *c18RConn) Write(p []byte) (int, error) {
	w := c.w
	w.mu.Lock()
	defer w.mu.Unlock()
	if c.side == "c" && !w.upEnter {
		// the inbound's own replies (method selection, 200 / RepSuccess): written before the loops start
		if c.closed {
			return 0, net.ErrClosed
		}
		w.log(map[string]any{"s": "c", "op": "reply", "d": vHex(p)})
		return len(p), nil
	}
	j := c.wi
	c.wi++
	it := c18RWItem{N: -1}
	if j < len(c.ws) {
		it = c.ws[j]
	}
	w.fire(c.side + "w" + strconv.Itoa(j) + "e")
	for !c.closed && !w.open(it.Wait) {
		w.cond.Wait()
	}
	// only now is the argument looked at
	n, err := len(p), error(nil)
	if c.closed {
		n, err = 0, net.ErrClosed
	} else if it.N >= 0 {
		n, err = min(it.N, len(p)), c18RErrScripted
	}
	w.log(map[string]any{"s": c.side, "op": "w", "d": vHex(p), "n": n, "e": c18RErrName(err)})
	w.fire(c.side + "w" + strconv.Itoa(j))
	return n, err
}

func (c *c18RConn) Close() error {
	w := c.w
	w.mu.Lock()
	defer w.mu.Unlock()
	c.closes++
	if !c.closed {
		c.closed = true
		w.log(map[string]any{"s": c.side, "op": "close"})
	}
	w.cond.Broadcast()
	return nil
}

func (c *c18RConn) LocalAddr() net.Addr { return &net.TCPAddr{IP: net.IPv4(127, 0, 0, 1), Port: 1080} }
func (c *c18RConn) RemoteAddr() net.Addr {
	if c.peer != nil {
		return &net.TCPAddr{IP: c.peer, Port: 40000}
	}
	return &net.TCPAddr{IP: net.IPv4(127, 0, 0, 1), Port: 40000}
}
func (c *c18RConn) SetDeadline(t time.Time) error      { return nil }
func (c *c18RConn) SetReadDeadline(t time.Time) error  { return nil }
func (c *c18RConn) SetWriteDeadline(t time.Time) error { return nil }

type c18RHy struct {
	w  *c18RWorld
	up *c18RConn
}

func (m *c18RHy) TCP(addr string) (net.Conn, error) {
	m.w.mu.Lock()
	defer m.w.mu.Unlock()
	m.w.log(map[string]any{"s": "h", "op": "tcp", "addr": vHex([]byte(addr))})
	m.w.dials++
	if m.w.dials > 1 {
		return nil, errors.New("second dial")
	}
	return m.up, nil
}
func (m *c18RHy) UDP() (client.HyUDPConn, error) {
	m.w.mu.Lock()
	defer m.w.mu.Unlock()
	m.w.log(map[string]any{"s": "h", "op": "udp"})
	return nil, errors.New("no udp")
}
func (m *c18RHy) Close() error { return nil }

// a listener that hands out one conn and then blocks until it is closed: the inbound under test is started
// through its exported Serve
type c18ROneListener struct {
	ch     chan net.Conn
	closed chan struct{}
	once   sync.Once
}

func c18RListen(conn net.Conn) *c18ROneListener {
	l := &c18ROneListener{ch: make(chan net.Conn, 1), closed: make(chan struct{})}
	l.ch <- conn
	return l
}

func (l *c18ROneListener) Accept() (net.Conn, error) {
	select {
	case c := <-l.ch:
		return c, nil
	case <-l.closed:
		return nil, net.ErrClosed
	}
}
func (l *c18ROneListener) Close() error   { l.once.Do(func() { close(l.closed) }); return nil }
func (l *c18ROneListener) Addr() net.Addr { return &net.TCPAddr{IP: net.IPv4(127, 0, 0, 1), Port: 1080} }

func c18RDecode(items []*c18RItem) {
	for _, it := range items {
		if len(it.GD) == 3 {
			it.data = vGenData(it.GD[0], it.GD[1], int(it.GD[2]))
		} else {
			it.data = vUnhex(it.Hex)
		}
	}
}

// c18RelayCase runs one case inside a synctest bubble.  serve starts the inbound under test on the
// client conn with the given HyClient and AuthFunc (nil: none) and returns a function that stops what
// it started.  The inbound is done when it has closed the client conn.
func c18RelayCase(t *testing.T, raw json.RawMessage, res map[string]any,
	serve func(c c18RCase, conn net.Conn, hy client.Client, auth func(u, p string) bool) (stop func())) {
	var c c18RCase
	if err := json.Unmarshal(raw, &c); err != nil {
		t.Fatal(err)
	}
	synctest.Test(t, func(t *testing.T) {
		c18RDecode(c.CR)
		c18RDecode(c.UR)
		w := c18RNewWorld()
		cli := &c18RConn{w: w, side: "c", items: c.CR, ws: c.CW, hold: c.CHold, peer: net.ParseIP(c.Peer)}
		up := &c18RConn{w: w, side: "u", items: c.UR, ws: c.UW, hold: c.UHold}
		hy := &c18RHy{w: w, up: up}
		var auth func(u, p string) bool
		if c.Auth {
			user, pass := string(vUnhex(c.User)), string(vUnhex(c.Pass))
			auth = func(u, p string) bool {
				ok := u == user && p == pass
				w.mu.Lock()
				w.log(map[string]any{"s": "h", "op": "auth", "ok": ok})
				w.mu.Unlock()
				return ok
			}
		}
		var pmsg string
		var stop func()
		if p, msg := vCatch(func() { stop = serve(c, cli, hy, auth) }); p {
			pmsg = msg
		}
		hang := false
		for round := 0; pmsg == ""; round++ {
			synctest.Wait()
			w.mu.Lock()
			fin := cli.closed
			if !fin {
				switch round {
				case 0: // everything is blocked: the environment stops waiting for its events
					w.force = true
				case 1: // the local client hangs up
					cli.hup = true
				case 2: // the upstream ends
					up.hup = true
				default:
					hang = true
				}
				w.cond.Broadcast()
			}
			w.mu.Unlock()
			if fin || hang {
				break
			}
		}
		synctest.Wait()
		w.mu.Lock()
		nev := len(w.ev)
		cCloses, uCloses := cli.closes, up.closes
		w.mu.Unlock()
		// let whatever is still blocked on the conns go, so that the bubble can end
		_ = cli.Close()
		_ = up.Close()
		if stop != nil {
			stop()
		}
		synctest.Wait()
		w.mu.Lock()
		ev := append([]map[string]any(nil), w.ev[:nev]...)
		w.mu.Unlock()
		res["ev"] = ev
		res["tail"] = c.Tail
		if pmsg != "" {
			res["panic"] = true
			res["ok"] = false
			res["why"] = "panic: " + pmsg
			return
		}
		if hang {
			res["hang"] = true
			res["ok"] = false
			res["why"] = "the inbound did not close the client connection after both sides had ended"
			return
		}
		ok, why := c18RVerdict(c, ev, cCloses, uCloses)
		res["ok"] = ok
		res["why"] = why
	})
}

// one direction: the bytes the source handed out, the Write calls on the sink
func c18RDirection(name string, taken []byte, writes []map[string]any) (bool, string) {
	off := 0
	refused := false
	for k, e := range writes {
		p := vUnhex(e["d"].(string))
		n := e["n"].(int)
		if refused {
			return false, name + ": Write call " + strconv.Itoa(k) + " after the sink had refused a Write"
		}
		if off+len(p) > len(taken) || !bytes.Equal(p, taken[off:off+len(p)]) {
			return false, name + ": Write call " + strconv.Itoa(k) + " offers bytes that are not the next bytes taken from the source (at offset " +
				strconv.Itoa(off) + " of the direction's stream): replaced, reordered, duplicated or invented"
		}
		off += n
		if n < len(p) || e["e"].(string) != "" {
			refused = true
		}
	}
	if off < len(taken) && !refused {
		return false, name + ": " + strconv.Itoa(len(taken)-off) + " byte(s) taken from the source (the last ones of its stream) were never offered to the sink although no Write was refused"
	}
	return true, ""
}

func c18RVerdict(c c18RCase, ev []map[string]any, cCloses, uCloses int) (bool, string) {
	var cAll, uTaken []byte
	var uWrites, cWrites []map[string]any
	dialled, accepted := false, false
	ended := false      // a direction has ended (a Read reported an error, a Write was refused)
	firstClose := false // a conn was closed before any direction had ended
	for _, e := range ev {
		s, op := e["s"].(string), e["op"].(string)
		switch {
		case op == "auth":
			accepted = accepted || e["ok"] == true
		case op == "tcp" || op == "udp":
			dialled = true
			if c.Auth && !accepted {
				return false, "upstream opened before any accepted credentials"
			}
		case op == "r":
			d := vUnhex(e["d"].(string))
			if s == "c" {
				cAll = append(cAll, d...)
			} else {
				uTaken = append(uTaken, d...)
			}
			if dialled && e["e"].(string) != "" {
				ended = true
			}
		case op == "w":
			if s == "u" {
				uWrites = append(uWrites, e)
			} else {
				cWrites = append(cWrites, e)
			}
			if e["e"].(string) != "" || e["n"].(int) < len(e["d"].(string))/2 {
				ended = true
			}
		case op == "close":
			if dialled && !ended {
				firstClose = true
			}
		}
	}
	if !dialled {
		return false, "harness: the scripted negotiation / CONNECT header did not lead to an upstream dial"
	}
	if len(cAll) < c.Tail {
		return false, "harness: upstream dialled before the header part of the stream was consumed"
	}
	if ok, why := c18RDirection("client->upstream", cAll[c.Tail:], uWrites); !ok {
		return false, why
	}
	if ok, why := c18RDirection("upstream->client", uTaken, cWrites); !ok {
		return false, why
	}
	if firstClose {
		return false, "a connection was closed although neither direction had ended (no Read error, no refused Write)"
	}
	if cCloses != 1 {
		return false, "client connection closed " + strconv.Itoa(cCloses) + " times"
	}
	if uCloses < 1 {
		return false, "upstream connection never closed"
	}
	return true, ""
}
