//go:build verif

package brutal

// Shared helpers of the /verif Go harnesses (generated per package from util_test.go.tmpl).

import (
	"bufio"
	"encoding/hex"
	"encoding/json"
	"fmt"
	"os"
	"regexp"
	"sync"
	"testing"
)

type vCase = map[string]any

func vReadCases(t *testing.T) []json.RawMessage {
	p := os.Getenv("VERIF_IN")
	if p == "" {
		t.Fatal("VERIF_IN not set")
	}
	f, err := os.Open(p)
	if err != nil {
		t.Fatal(err)
	}
	defer f.Close()
	var out []json.RawMessage
	sc := bufio.NewScanner(f)
	sc.Buffer(make([]byte, 1<<20), 1<<28)
	for sc.Scan() {
		b := append([]byte(nil), sc.Bytes()...)
		if len(b) > 0 {
			out = append(out, b)
		}
	}
	return out
}

type vWriter struct {
	f *os.File
	w *bufio.Writer
}

func vOpenOut(t *testing.T, envName string) *vWriter {
	p := os.Getenv(envName)
	if p == "" {
		t.Fatal(envName + " not set")
	}
	f, err := os.Create(p)
	if err != nil {
		t.Fatal(err)
	}
	return &vWriter{f: f, w: bufio.NewWriterSize(f, 1<<20)}
}

func (w *vWriter) Emit(v any) {
	b, err := json.Marshal(v)
	if err != nil {
		panic(err)
	}
	w.w.Write(b)
	w.w.WriteByte('\n')
}

func (w *vWriter) Close() {
	w.w.Flush()
	w.f.Close()
}

func vDigest(b []byte) uint64 {
	var h uint64
	for _, c := range b {
		h = (h*131 + uint64(c) + 1) % 4294967291
	}
	return h
}

func vGenData(a, b uint64, n int) []byte {
	out := make([]byte, n)
	for i := range out {
		out[i] = byte((a*uint64(i) + b) % 256)
	}
	return out
}

func vHex(b []byte) string { return hex.EncodeToString(b) }

func vUnhex(s string) []byte {
	b, err := hex.DecodeString(s)
	if err != nil {
		panic(err)
	}
	// cap == len, as the properties require for peer-controlled slices
	out := make([]byte, len(b))
	copy(out, b)
	return out[:len(b):len(b)]
}

// vCatch runs f and reports whether it panicked.
func vCatch(f func()) (panicked bool, msg string) {
	defer func() {
		if r := recover(); r != nil {
			panicked = true
			msg = fmt.Sprint(r)
		}
	}()
	f()
	return false, ""
}

func vParams(t *testing.T, kv [][3]string) {
	p := os.Getenv("VERIF_PARAMS")
	if p == "" {
		return
	}
	b, _ := json.Marshal(kv)
	if err := os.WriteFile(p, b, 0o644); err != nil {
		t.Fatal(err)
	}
}


// vCanonNames maps identifiers that the tree under check renamed back to the names the harness and the model know.
// The driver sets VERIF_RENAMES (JSON: new name -> old name) only when it had to re-bind the harness after a rename of
// unexported identifiers; otherwise s is returned unchanged.  Use it on function names and stack dumps read at run time.
var (
	vRenOnce sync.Once
	vRen     map[string]string
	vRenRx   = regexp.MustCompile(`[A-Za-z_][A-Za-z0-9_]*`)
)

func vCanonNames(s string) string {
	vRenOnce.Do(func() {
		if j := os.Getenv("VERIF_RENAMES"); j != "" {
			_ = json.Unmarshal([]byte(j), &vRen)
		}
	})
	if len(vRen) == 0 {
		return s
	}
	return vRenRx.ReplaceAllStringFunc(s, func(id string) string {
		if o, ok := vRen[id]; ok {
			return o
		}
		return id
	})
}
