//go:build verif

package integration_tests

// C01 harness: generated histories on k <= 3 raw connections against one real server.
// Output per history: the boundary log and the property's own verdict computed on that log.

import (
	"bytes"
	"encoding/json"
	"fmt"
	"os"
	"runtime"
	"runtime/debug"
	"strconv"
	"sync"
	"sync/atomic"
	"testing"
	"time"

	"github.com/apernet/hysteria/core/v2/internal/protocol"
)

type vAct struct {
	C    int      `json:"c"`
	A    string   `json:"a"` // auth | req | tcp | udp | burst | close | revoke | grant | open
	Req  vReqSpec `json:"req"`
	Ft   int64    `json:"ft"`
	Addr string   `json:"addr"`
	Cred string   `json:"cred"` // revoke / grant: the credential whose standing with the authenticator changes now
	// burst: these auth requests are sent concurrently on the same connection
	Burst []vReqSpec `json:"burst"`
	// open: connection C is dialled NOW (a connection that has an `open` step is not dialled when the history starts):
	// a new connection accepted by a server that has served - and may have seen the end of - other connections.
	// From (optional): dial from the local socket of that connection, which the history has closed before.
	From *int `json:"from"`
}

type vHist struct {
	K     string `json:"k"`
	Cfg   vCfg   `json:"cfg"`
	NConn int    `json:"nconn"`
	Par   bool   `json:"par"`
	Acts  []vAct `json:"acts"`
	// Pol: credentials whose verdict depends on the presenting connection / the attempt number / tx / time
	Pol map[string]*vPol `json:"pol"`
	// Gmp1: the history is run in the serial phase of the test, alone in the process, with GOMAXPROCS(1) and the
	// collector off: goroutines of the server run one at a time and per-P / per-cycle caches of the runtime
	// (sync.Pool) behave reproducibly.  Other histories run six at a time under the default scheduling.
	Gmp1 bool `json:"gmp1"`
}

type vHistOut struct {
	I   int      `json:"i"`
	Log []vEntry `json:"log"`
	OK  bool     `json:"ok"`
	Why string   `json:"why"`
	Err string   `json:"err,omitempty"`
}

func (cl *vClient) perform(a vAct) {
	if cl.closed.Load() {
		return
	}
	switch a.A {
	case "auth", "req":
		_, _, _, _ = cl.doReq(a.Req, false)
	case "tcp":
		cl.doStream(a.Ft, a.Addr)
		cl.barrier()
	case "udp":
		cl.doDgram(a.Addr)
		cl.barrier()
	case "burst":
		var wg sync.WaitGroup
		for _, rs := range a.Burst {
			wg.Add(1)
			go func(rs vReqSpec) {
				defer wg.Done()
				_, _, _, _ = cl.doReq(rs, false)
			}(rs)
		}
		wg.Wait()
	case "close":
		cl.doClose()
	case "revoke":
		cl.e.setRevoked(a.Cred, true)
	case "grant":
		cl.e.setRevoked(a.Cred, false)
	}
}

// vRun is one history in progress: the connections dialled so far (connection index -> client).
type vRun struct {
	e   *vEnv
	mu  sync.Mutex
	cls []*vClient
	err string
}

func (r *vRun) get(c int) *vClient {
	r.mu.Lock()
	defer r.mu.Unlock()
	if c < 0 || c >= len(r.cls) {
		return nil
	}
	return r.cls[c]
}

func (r *vRun) live() int {
	r.mu.Lock()
	defer r.mu.Unlock()
	n := 0
	for _, cl := range r.cls {
		if cl != nil && !cl.closed.Load() {
			n++
		}
	}
	return n
}

// vServing counts the goroutines of this process that are inside (*serverImpl).handleClient: one per QUIC connection
// some server of the process is still serving (the function returns when the connection has ended and everything
// handleClient does at the end of a connection has been done).
func vServing() int {
	buf := make([]byte, 1<<20)
	for {
		n := runtime.Stack(buf, true)
		if n < len(buf) {
			buf = buf[:n]
			break
		}
		buf = make([]byte, 2*len(buf))
	}
	return bytes.Count([]byte(vCanonNames(string(buf))), []byte(").handleClient("))
}

var vSerialPhase bool // set while the serial (GOMAXPROCS(1)) histories run: nothing else of the harness is running

// open dials connection a.C now.  Before it, the server is given time to finish the connections the history has closed
// (ServeQUICConn returning, the tail of handleClient and whatever else the server does when a connection ends): a
// fixed pause and, when this history is alone in the process, until no more handleClient goroutines are left than the
// history has live connections.
func (r *vRun) open(a vAct) {
	if a.C < 0 || a.C >= len(r.cls) || r.get(a.C) != nil {
		return
	}
	time.Sleep(20 * time.Millisecond)
	if vSerialPhase {
		deadline := time.Now().Add(3 * time.Second)
		for vServing() > r.live() && time.Now().Before(deadline) {
			time.Sleep(5 * time.Millisecond)
		}
		runtime.Gosched()
	}
	var cl *vClient
	var err error
	if old := (*vClient)(nil); a.From != nil {
		if old = r.get(*a.From); old != nil && old.closed.Load() {
			cl, err = vDialFrom(r.e, a.C, old)
		}
	}
	if cl == nil && err == nil {
		cl, err = vDial(r.e, a.C)
	}
	if err != nil {
		r.mu.Lock()
		r.err = "dial (open step of connection " + strconv.Itoa(a.C) + "): " + err.Error()
		r.mu.Unlock()
		return
	}
	r.mu.Lock()
	r.cls[a.C] = cl
	r.mu.Unlock()
}

func (r *vRun) perform(a vAct) {
	if a.A == "open" {
		r.open(a)
		return
	}
	if cl := r.get(a.C); cl != nil {
		cl.perform(a)
	}
}

func vRunHistory(h vHist) (out vHistOut) {
	defer func() {
		if r := recover(); r != nil {
			out.Err = fmt.Sprint("harness panic: ", r)
		}
	}()
	e, err := vStartServer(h.Cfg, h.Pol)
	if err != nil {
		out.Err = "server: " + err.Error()
		return
	}
	defer e.stop()
	r := &vRun{e: e, cls: make([]*vClient, h.NConn)}
	defer func() {
		for _, cl := range r.cls {
			if cl != nil {
				cl.shutdown()
			}
		}
	}()
	late := map[int]bool{}
	for _, a := range h.Acts {
		if a.A == "open" {
			late[a.C] = true
		}
	}
	for c := 0; c < h.NConn; c++ {
		if late[c] {
			continue
		}
		cl, derr := vDial(e, c)
		if derr != nil {
			out.Err = "dial: " + derr.Error()
			return
		}
		r.cls[c] = cl
	}
	if h.Par {
		var wg sync.WaitGroup
		for c := 0; c < h.NConn; c++ {
			wg.Add(1)
			go func(c int) {
				defer wg.Done()
				for _, a := range h.Acts {
					if a.C == c {
						r.perform(a)
					}
				}
			}(c)
		}
		wg.Wait()
	} else {
		for _, a := range h.Acts {
			r.perform(a)
		}
	}
	// let asynchronous server goroutines (session manager, disconnect logging) settle
	time.Sleep(25 * time.Millisecond)
	out.Log = e.snapshot()
	out.Err = r.err
	out.OK, out.Why = vVerdictC01(h, out.Log)
	return
}

// vVerdictC01 is the property's own predicate on the boundary log (no model involved).
func vVerdictC01(h vHist, log []vEntry) (bool, string) {
	// accepted[c]: the authenticator was called FOR CONNECTION c (remote address of c) and that call returned an
	// accepting verdict.  A verdict obtained on another connection - same credential string or not - never counts.
	accepted := map[int]bool{}
	acceptedAt := map[int]int{} // seq of the accepting verdict
	closedC := map[int]bool{}
	// online / connect events are counted per CONNECTION (an id may be empty or shared by several connections; the
	// connection of an online entry is the one vAttributeOnline matched it to)
	onT := map[int]int{}
	onF := map[int]int{}
	conn := map[int]int{}
	idOf := map[int]string{}
	pendingStream := map[string]bool{}
	inCall := map[int]bool{}
	// inflight[c]: the requests the client has sent on c that have not been answered yet (a request whose round trip
	// failed at transport level stays: the server may still be working on it)
	inflight := map[int]map[int]vEntry{}
	opened := map[int]bool{}
	for _, x := range log {
		switch x.K {
		case "open":
			// a NEW connection (the history may have seen any number of other connections come, be accepted and go):
			// it starts with nothing - whatever the verdicts on earlier connections were
			if opened[x.C] || accepted[x.C] || closedC[x.C] {
				return false, fmt.Sprintf("seq %d: harness inconsistency: connection index %d used twice", x.S, x.C)
			}
			opened[x.C] = true
		case "req":
			if inflight[x.C] == nil {
				inflight[x.C] = map[int]vEntry{}
			}
			inflight[x.C][x.Rid] = x
		case "authcall":
			// the authenticator is consulted for the authentication request only: POST, authority exactly
			// protocol.URLHost, path exactly protocol.URLPath (x.AF, computed by the client from what it sent), and
			// with the credentials of that request
			found := false
			for _, r := range inflight[x.C] {
				if r.AF && r.Auth == x.Auth {
					found = true
				}
			}
			if !found && x.C >= 0 {
				return false, fmt.Sprintf("seq %d: authenticator consulted (credentials %q) for connection %d on which no authentication request "+
					"with these credentials is in flight%s", x.S, x.Auth, x.C, vInflight(inflight[x.C]))
			}
			if inCall[x.C] {
				return false, fmt.Sprintf("seq %d: two requests of connection %d are inside Authenticate at once (authMutex)", x.S, x.C)
			}
			inCall[x.C] = true
			if x.C < 0 {
				return false, fmt.Sprintf("seq %d: authenticator called for an unknown connection", x.S)
			}
			if accepted[x.C] {
				return false, fmt.Sprintf("seq %d: authenticator re-evaluated on already authenticated connection %d", x.S, x.C)
			}
		case "authret":
			if !inCall[x.C] {
				return false, fmt.Sprintf("seq %d: harness inconsistency: verdict without a call on connection %d", x.S, x.C)
			}
			inCall[x.C] = false
			if x.OK {
				accepted[x.C] = true
				acceptedAt[x.C] = x.S
				idOf[x.C] = x.ID
			}
		case "outtcp", "outudp", "checkudp", "relay", "udpwrite", "evtcp", "evudp", "dgramreply":
			if !accepted[x.C] {
				return false, fmt.Sprintf("seq %d: %s %q for connection %d before any accepted authentication on that connection%s", x.S, x.K, x.Addr, x.C, vElsewhere(log, x, accepted))
			}
			if (x.K == "evtcp" || x.K == "evudp") && idOf[x.C] != x.ID {
				return false, fmt.Sprintf("seq %d: %s on connection %d reported for id %q, the connection was accepted as %q", x.S, x.K, x.C, x.ID, idOf[x.C])
			}
		case "stream":
			pendingStream[strconv.Itoa(x.C)+"/"+x.Addr] = accepted[x.C] && x.Ft == protocol.FrameTypeTCPRequest && !closedC[x.C]
		case "streamres":
			if x.N > 0 && !accepted[x.C] {
				return false, fmt.Sprintf("seq %d: %d reply bytes on a proxy stream of unauthenticated connection %d", x.S, x.N, x.C)
			}
			if pendingStream[strconv.Itoa(x.C)+"/"+x.Addr] && x.N == 0 {
				return false, fmt.Sprintf("seq %d: proxy stream on authenticated connection %d got no reply (access revoked?) res=%s", x.S, x.C, x.Res)
			}
		case "resp":
			rq, known := inflight[x.C][x.Rid]
			if x.Status >= 0 {
				delete(inflight[x.C], x.Rid)
			}
			if x.Status == protocol.StatusAuthOK && !accepted[x.C] {
				return false, fmt.Sprintf("seq %d: status 233 on connection %d although no Authenticate call made for that connection has returned an accepting verdict%s", x.S, x.C, vElsewhere(log, x, accepted))
			}
			if known && !rq.AF && x.Status == protocol.StatusAuthOK {
				return false, fmt.Sprintf("seq %d: %s %q %q on connection %d is not the authentication request and was answered 233", x.S, rq.M, rq.H, rq.P, x.C)
			}
			if known && !rq.AF && x.Status >= 0 && x.OSt >= 0 && x.Status != x.OSt {
				return false, fmt.Sprintf("seq %d: %s %q %q on connection %d is not the authentication request and was answered %d, the masquerade handler alone answers %d",
					x.S, rq.M, rq.H, rq.P, x.C, x.Status, x.OSt)
			}
		case "online":
			if x.OK {
				onT[x.C]++
			} else {
				onF[x.C]++
			}
			if !accepted[x.C] || idOf[x.C] != x.ID {
				return false, fmt.Sprintf("seq %d: online state %v for id %q that was not accepted on connection %d%s", x.S, x.OK, x.ID, x.C, vElsewhere(log, x, accepted))
			}
			if !x.OK && !closedC[x.C] {
				return false, fmt.Sprintf("seq %d: offline logged for %q before the connection closed", x.S, x.ID)
			}
		case "connect":
			conn[x.C]++
			if !accepted[x.C] || idOf[x.C] != x.ID {
				return false, fmt.Sprintf("seq %d: connect event for id %q on connection %d, for which no Authenticate call has returned that id with an accepting verdict%s", x.S, x.ID, x.C, vElsewhere(log, x, accepted))
			}
		case "disconnect":
			if !accepted[x.C] || idOf[x.C] != x.ID || !closedC[x.C] {
				return false, fmt.Sprintf("seq %d: disconnect event for id %q on connection %d (accepted=%v closed=%v)", x.S, x.ID, x.C, accepted[x.C], closedC[x.C])
			}
		case "close":
			closedC[x.C] = true
		}
	}
	// sticky: every auth request sent after the accepting verdict on a connection is answered 233
	reqs := map[string]vEntry{}
	for _, x := range log {
		if x.K == "req" {
			reqs[strconv.Itoa(x.C)+"/"+strconv.Itoa(x.Rid)] = x
		}
		if x.K == "resp" {
			r := reqs[strconv.Itoa(x.C)+"/"+strconv.Itoa(x.Rid)]
			isAuth := r.M == "POST" && r.H == protocol.URLHost && r.P == protocol.URLPath
			if isAuth && accepted[x.C] && r.S > acceptedAt[x.C] && x.Status != protocol.StatusAuthOK {
				return false, fmt.Sprintf("seq %d: auth request on authenticated connection %d answered %d (revoked or re-evaluated)", x.S, x.C, x.Status)
			}
		}
	}
	for c, id := range idOf {
		if onT[c] != 1 || conn[c] != 1 {
			return false, fmt.Sprintf("connection %d id %q: online(true) x%d, connect x%d (want exactly one each)", c, id, onT[c], conn[c])
		}
		want := 0
		if closedC[c] {
			want = 1
		}
		if onF[c] != want {
			return false, fmt.Sprintf("connection %d id %q: online(false) x%d, want %d", c, id, onF[c], want)
		}
	}
	for _, x := range log {
		if x.K == "resp" && x.Status < 0 {
			return true, "note: a request failed at transport level: seq " + strconv.Itoa(x.S)
		}
	}
	return true, ""
}

func vInflight(m map[int]vEntry) string {
	s := ""
	for _, r := range m {
		s += fmt.Sprintf(" (in flight: %s %q %q)", r.M, r.H, r.P)
	}
	return s
}

// vElsewhere names, for the diagnosis only, the other connections that had been accepted when entry x was logged.
func vElsewhere(log []vEntry, x vEntry, accepted map[int]bool) string {
	s := ""
	for c := 0; c < 16; c++ {
		if accepted[c] && c != x.C {
			s += fmt.Sprintf(" (connection %d had been accepted)", c)
		}
	}
	return s
}

func TestVerifC01(t *testing.T) {
	raw := vReadCases(t)
	w := vOpenOut(t, "VERIF_OUT")
	defer w.Close()
	vEmitParams(t)
	outs := make([]vHistOut, len(raw))
	par := 6
	if s := os.Getenv("VERIF_PAR"); s != "" {
		par, _ = strconv.Atoi(s)
	}
	sem := make(chan struct{}, par)
	var wg sync.WaitGroup
	hs := make([]vHist, len(raw))
	for i, r := range raw {
		if err := json.Unmarshal(r, &hs[i]); err != nil {
			t.Fatal(err)
		}
	}
	// a history that does not come to an end is a finding with that history as the failing input (a server or client
	// wedged by what the history did), not a harness failure: each one runs under a generous real-time limit
	var hangs atomic.Int32
	run1 := func(i int) {
		limit := 180 * time.Second
		if hangs.Load() >= 2 {
			limit = 20 * time.Second
		}
		done := make(chan vHistOut, 1)
		go func() { done <- vRunHistory(hs[i]) }()
		var o vHistOut
		select {
		case o = <-done:
		case <-time.After(limit):
			hangs.Add(1)
			o = vHistOut{Log: []vEntry{}, OK: false, Why: fmt.Sprintf("the history did not come to an end within %v of real time: "+
				"the server or one of its clients is wedged by what this history did", limit)}
		}
		o.I = i
		if o.Err != "" {
			o.OK = false
			o.Why = "harness error: " + o.Err
		}
		outs[i] = o
	}
	for i := range hs {
		if hs[i].Gmp1 {
			continue
		}
		wg.Add(1)
		sem <- struct{}{}
		go func(i int) {
			defer wg.Done()
			defer func() { <-sem }()
			run1(i)
		}(i)
	}
	wg.Wait()
	// serial phase: one history at a time, one P, collector off (memory: a few histories' worth)
	func() {
		time.Sleep(50 * time.Millisecond)
		defer runtime.GOMAXPROCS(runtime.GOMAXPROCS(1))
		defer debug.SetGCPercent(debug.SetGCPercent(-1))
		vSerialPhase = true
		defer func() { vSerialPhase = false }()
		for i := range hs {
			if hs[i].Gmp1 {
				run1(i)
				runtime.GC() // between two histories (each has a server of its own): the collector is off while one runs
			}
		}
	}()
	for _, o := range outs {
		w.Emit(o)
	}
}
