//go:build verif

package integration_tests

// Shared environment of the C01 / C02 harnesses: a real server.NewServer on a loopback UDP socket,
// raw quic-go / http3 clients, and recording fakes for Authenticator, Outbound, EventLogger,
// TrafficLogger and the masquerade handler.  Every fake and every client step appends to ONE
// boundary log under ONE mutex with ONE sequence number, so the log is a linearisation that is
// consistent with the real-time order of the boundary calls.

import (
	"bytes"
	"context"
	"crypto/tls"
	"errors"
	"fmt"
	"io"
	"net"
	"net/http"
	"net/http/httptest"
	"net/url"
	"sort"
	"strconv"
	"strings"
	"sync"
	"sync/atomic"
	"testing"
	"time"

	"github.com/apernet/quic-go"
	"github.com/apernet/quic-go/http3"
	"github.com/apernet/quic-go/quicvarint"

	"github.com/apernet/hysteria/core/v2/internal/protocol"
	"github.com/apernet/hysteria/core/v2/server"
)

// ---------------------------------------------------------------- boundary log

type vEntry struct {
	S      int         `json:"s"`
	C      int         `json:"c"`
	K      string      `json:"k"`
	Rid    int         `json:"rid,omitempty"`
	M      string      `json:"m,omitempty"`
	H      string      `json:"h,omitempty"`
	P      string      `json:"p,omitempty"`
	Auth   string      `json:"auth,omitempty"`
	CCRX   string      `json:"ccrx,omitempty"`
	Rx     string      `json:"rx,omitempty"` // decimal uint64 (kept as a string: > 2^53 must survive JSON)
	OK     bool        `json:"ok,omitempty"`
	ID     string      `json:"id,omitempty"`
	Status int         `json:"status,omitempty"`
	Hdr    [][2]string `json:"hdr,omitempty"`
	Body   string      `json:"body,omitempty"` // hex
	Addr   string      `json:"addr,omitempty"`
	N      int         `json:"n,omitempty"`
	Ft     int64       `json:"ft,omitempty"`
	Res    string      `json:"res,omitempty"`
	Err    string      `json:"err,omitempty"`
	Bar    bool        `json:"bar,omitempty"`
	Head   bool        `json:"head,omitempty"`
	AF     bool        `json:"af,omitempty"` // req: the request has the auth form (method, host and path as the code compares them)
	OSt    int         `json:"ost,omitempty"` // oracle: the masquerade handler alone on a recorder
	OHdr   [][2]string `json:"ohdr,omitempty"`
	OBody  string      `json:"obody,omitempty"`
}

type vCfg struct {
	UDP      bool   `json:"udp"`
	Masq     int    `json:"masq"` // 0 = no handler (plain 404), 1 = custom handler A, 2 = custom handler B
	IgnoreBW bool   `json:"ignbw"`
	MaxTx    uint64 `json:"maxtx"`
	MaxRx    uint64 `json:"maxrx"`
}

type vEnv struct {
	mu      sync.Mutex
	cond    *sync.Cond
	log     []vEntry
	addrs   map[string]int
	cfg     vCfg
	srv     server.Server
	srvAddr net.Addr
	handler http.Handler
	// authenticator state (under mu)
	pol   map[string]*vPol // per-credential policy; credentials without one: accepted iff they start with "good"
	calls map[string]int   // Authenticate calls so far, per credential string (server-wide)
	gate  chan struct{}    // credentials containing "hold" block inside Authenticate until this is closed
}

// vPol makes the authenticator's verdict for ONE credential string a function of the calling connection
// (the remote address), of how often the credential has been presented to the authenticator, of the
// announced bandwidth and of time (revoked / granted by the history between two attempts) - as a real
// authenticator's is (Authenticate(addr, auth, tx); user databases change).
type vPol struct {
	Conns   []int  `json:"conns"`   // accepted only when presented by one of these connections (null: any)
	Skip    int    `json:"skip"`    // the first Skip presentations are rejected
	Max     int    `json:"max"`     // then at most Max presentations are accepted (0: no limit)
	MaxTx   uint64 `json:"maxtx"`   // accepted only with tx <= MaxTx (0: no limit)
	Revoked bool   `json:"revoked"` // currently revoked (toggled by the history's revoke / grant steps)
	// IDHex: the client id returned with an accepting verdict, as hex of its exact bytes (null: the default id, which
	// names the credential and the connection).  Authenticate(addr, auth, tx) may legally answer (true, id) with ANY
	// id: the EMPTY string (the http / command authenticators of extras pass a backend's answer through), an id that
	// several connections share (one user, many devices), a very long one, one with odd bytes, one that looks like
	// another connection's id.  Nothing about the id may decide whether a connection counts as authenticated.
	IDHex *string `json:"idhex"`
}

func (p *vPol) accepts(c int, n int, tx uint64) bool {
	if p.Revoked || n <= p.Skip || (p.Max > 0 && n > p.Skip+p.Max) || (p.MaxTx > 0 && tx > p.MaxTx) {
		return false
	}
	if p.Conns != nil {
		for _, k := range p.Conns {
			if k == c {
				return true
			}
		}
		return false
	}
	return true
}

// setRevoked is the history step "the credential is revoked / granted now" (time passing between attempts).
func (e *vEnv) setRevoked(cred string, revoked bool) {
	e.mu.Lock()
	if e.pol == nil {
		e.pol = map[string]*vPol{}
	}
	p := e.pol[cred]
	if p == nil {
		p = &vPol{}
		e.pol[cred] = p
	}
	p.Revoked = revoked
	e.mu.Unlock()
	e.add(vEntry{C: -1, K: "pol", Auth: cred, OK: !revoked})
}

// release lets every Authenticate call that is held (and every later one) return.
func (e *vEnv) release() {
	e.mu.Lock()
	select {
	case <-e.gate:
	default:
		close(e.gate)
	}
	e.mu.Unlock()
}

func (e *vEnv) add(x vEntry) {
	e.mu.Lock()
	x.S = len(e.log)
	e.log = append(e.log, x)
	e.cond.Broadcast()
	e.mu.Unlock()
}

func (e *vEnv) connOf(a net.Addr) int {
	if a == nil {
		return -1
	}
	return e.connOfStr(a.String())
}

func (e *vEnv) connOfStr(a string) int {
	e.mu.Lock()
	defer e.mu.Unlock()
	if c, ok := e.addrs[a]; ok {
		return c
	}
	return -1
}

// waitFor blocks until pred holds on the log (evaluated under the lock) or the timeout passes.
func (e *vEnv) waitFor(d time.Duration, pred func([]vEntry) bool) bool {
	deadline := time.Now().Add(d)
	t := time.AfterFunc(d, func() { e.mu.Lock(); e.cond.Broadcast(); e.mu.Unlock() })
	defer t.Stop()
	e.mu.Lock()
	defer e.mu.Unlock()
	for !pred(e.log) {
		if time.Now().After(deadline) {
			return false
		}
		e.cond.Wait()
	}
	return true
}

func (e *vEnv) snapshot() []vEntry {
	e.mu.Lock()
	defer e.mu.Unlock()
	l := append([]vEntry(nil), e.log...)
	vAttributeOnline(l)
	return l
}

// connection tag carried inside credentials / ids / target addresses: "c<k>-..."
func vTagConn(s string) int {
	i := strings.Index(s, "c")
	for i >= 0 && i < len(s) {
		j := i + 1
		for j < len(s) && s[j] >= '0' && s[j] <= '9' {
			j++
		}
		if j > i+1 && j < len(s) && s[j] == '-' {
			n, _ := strconv.Atoi(s[i+1 : j])
			return n
		}
		k := strings.Index(s[i+1:], "c")
		if k < 0 {
			break
		}
		i = i + 1 + k
	}
	return -1
}

// ---------------------------------------------------------------- fakes

type vAuth struct{ e *vEnv }

func (a *vAuth) Authenticate(addr net.Addr, auth string, tx uint64) (bool, string) {
	c := a.e.connOf(addr)
	a.e.mu.Lock()
	a.e.calls[auth]++
	n := a.e.calls[auth]
	gate := a.e.gate
	a.e.mu.Unlock()
	a.e.add(vEntry{C: c, K: "authcall", Auth: auth, Rx: strconv.FormatUint(tx, 10)})
	if strings.Contains(auth, "slow") {
		time.Sleep(2 * time.Millisecond) // a slow authentication backend: widens the window of concurrent attempts
	}
	if strings.Contains(auth, "hold") {
		// a backend that has not answered yet: the harness decides when it does
		select {
		case <-gate:
		case <-time.After(15 * time.Second):
			a.e.add(vEntry{C: c, K: "holdtimeout", Auth: auth})
		}
	}
	// the verdict is taken when the backend answers (revocation in the meantime counts)
	a.e.mu.Lock()
	p := a.e.pol[auth]
	var ok bool
	if p != nil {
		ok = p.accepts(c, n, tx)
	} else {
		ok = strings.HasPrefix(auth, "good")
	}
	a.e.mu.Unlock()
	id := ""
	if ok {
		id = "id/" + auth
		if p != nil {
			id = "id/c" + strconv.Itoa(c) + "-" + auth // one credential, several connections: the id names the connection
			if p.IDHex != nil {
				id = string(vUnhex(*p.IDHex)) // the policy dictates the id (possibly empty / shared / long / odd bytes)
			}
		}
	}
	a.e.add(vEntry{C: c, K: "authret", OK: ok, ID: id})
	return ok, id
}

type vOutbound struct{ e *vEnv }

type vEchoConn struct {
	net.Conn
	e    *vEnv
	c    int
	addr string
}

func (o *vOutbound) TCP(reqAddr string) (net.Conn, error) {
	c := vTagConn(reqAddr)
	o.e.add(vEntry{C: c, K: "outtcp", Addr: reqAddr})
	if strings.Contains(reqAddr, "fail") {
		return nil, errors.New("refused")
	}
	a, b := net.Pipe()
	go func() {
		// the "target": logs what it is given (relay towards the target) and echoes it
		buf := make([]byte, 4096)
		for {
			n, err := b.Read(buf)
			if n > 0 {
				o.e.add(vEntry{C: c, K: "relay", Addr: reqAddr, N: n})
				if _, werr := b.Write(buf[:n]); werr != nil {
					return
				}
			}
			if err != nil {
				_ = b.Close()
				return
			}
		}
	}()
	return a, nil
}

type vUDPConn struct {
	e      *vEnv
	c      int
	ch     chan [2]string
	closed chan struct{}
	once   sync.Once
}

func (u *vUDPConn) ReadFrom(b []byte) (int, string, error) {
	select {
	case m := <-u.ch:
		n := copy(b, m[0])
		return n, m[1], nil
	case <-u.closed:
		return 0, "", net.ErrClosed
	}
}

func (u *vUDPConn) WriteTo(b []byte, addr string) (int, error) {
	u.e.add(vEntry{C: u.c, K: "udpwrite", Addr: addr, N: len(b)})
	select {
	case u.ch <- [2]string{string(b), addr}:
	default:
	}
	return len(b), nil
}

func (u *vUDPConn) Close() error {
	u.once.Do(func() { close(u.closed) })
	return nil
}

func (o *vOutbound) UDP(reqAddr string) (server.UDPConn, error) {
	c := vTagConn(reqAddr)
	o.e.add(vEntry{C: c, K: "outudp", Addr: reqAddr})
	return &vUDPConn{e: o.e, c: c, ch: make(chan [2]string, 16), closed: make(chan struct{})}, nil
}

func (o *vOutbound) CheckUDP(reqAddr string) error {
	o.e.add(vEntry{C: vTagConn(reqAddr), K: "checkudp", Addr: reqAddr})
	return nil
}

type vEvents struct{ e *vEnv }

func (l *vEvents) Connect(addr net.Addr, id string, tx uint64) {
	l.e.add(vEntry{C: l.e.connOf(addr), K: "connect", ID: id, Rx: strconv.FormatUint(tx, 10)})
}

func (l *vEvents) Disconnect(addr net.Addr, id string, err error) {
	l.e.add(vEntry{C: l.e.connOf(addr), K: "disconnect", ID: id})
}

func (l *vEvents) TCPRequest(addr net.Addr, id, reqAddr string) {
	l.e.add(vEntry{C: l.e.connOf(addr), K: "evtcp", ID: id, Addr: reqAddr})
}
func (l *vEvents) TCPError(addr net.Addr, id, reqAddr string, err error) {}
func (l *vEvents) UDPRequest(addr net.Addr, id string, sessionID uint32, reqAddr string) {
	l.e.add(vEntry{C: l.e.connOf(addr), K: "evudp", ID: id, Addr: reqAddr})
}
func (l *vEvents) UDPError(addr net.Addr, id string, sessionID uint32, err error) {}

type vTraffic struct{ e *vEnv }

func (t *vTraffic) LogTraffic(id string, tx, rx uint64) bool { return true }
func (t *vTraffic) LogOnlineState(id string, online bool) {
	// LogOnlineState is not told the connection; the id need not name it (ids may be empty or shared between
	// connections): the entry is attributed to a connection by vAttributeOnline when the log is read.
	t.e.add(vEntry{C: -1, K: "online", ID: id, OK: online})
}

// vAttributeOnline gives every `online` entry of a log its connection.  The code calls LogOnlineState(id, true) between the
// return of the Authenticate call that accepted the connection and EventLogger.Connect(addr, id, ..) for it, and
// LogOnlineState(id, false) before EventLogger.Disconnect(addr, id, ..); both neighbours carry the connection (address).
// An online(b) entry with id X is therefore matched to a connection c that has been accepted with id X before it and has
// no online(b) entry since; among several such connections (one id on several connections, driven concurrently) the one
// whose next unmatched connect / disconnect entry comes first (earliest-deadline matching of points to intervals: finds a
// consistent attribution whenever one exists).  No such connection: the old rule (a connection tag inside the id), else -1.
func vAttributeOnline(log []vEntry) {
	lastAcc := map[int]int{}
	accID := map[int]string{}
	onDone := map[int]bool{}
	offDone := map[int]bool{}
	closed := map[int]bool{}
	used := map[int]bool{}
	for i := range log {
		x := &log[i]
		switch x.K {
		case "authret":
			if x.OK {
				lastAcc[x.C] = i
				accID[x.C] = x.ID
				onDone[x.C] = false
			}
		case "close":
			closed[x.C] = true
		case "online":
			want := "connect"
			if !x.OK {
				want = "disconnect"
			}
			best, bestAt, bestNxt, bestOpen := -1, -1, -1, false
			for c, j := range lastAcc {
				if accID[c] != x.ID || (x.OK && onDone[c]) || (!x.OK && offDone[c]) {
					continue
				}
				nxt := len(log)
				for k := i + 1; k < len(log); k++ {
					if log[k].K == want && log[k].C == c && log[k].ID == x.ID && !used[k] {
						nxt = k
						break
					}
				}
				open := !x.OK && !closed[c] // an offline entry belongs to a connection that has been closed, if there is one
				better := best < 0 || (bestOpen && !open) || (bestOpen == open && (nxt < bestNxt || (nxt == bestNxt && (j > bestAt || (j == bestAt && c < best)))))
				if better {
					best, bestAt, bestNxt, bestOpen = c, j, nxt, open
				}
			}
			if best < 0 {
				x.C = vTagConn(x.ID)
				continue
			}
			x.C = best
			if bestNxt < len(log) {
				used[bestNxt] = true
			}
			if x.OK {
				onDone[best] = true
			} else {
				offDone[best] = true
			}
		}
	}
}
func (t *vTraffic) TraceStream(stream server.HyStream, stats *server.StreamStats) {}
func (t *vTraffic) UntraceStream(stream server.HyStream)                          {}

// ---------------------------------------------------------------- masquerade handlers (deterministic functions of the request)

func vMix(s string) uint32 {
	var h uint32 = 2166136261
	for i := 0; i < len(s); i++ {
		h = (h ^ uint32(s[i])) * 16777619
	}
	return h
}

// vMasqCore is the handler logic WITHOUT logging; the oracle mounts exactly this on a recorder.
func vMasqCore(kind int) http.Handler {
	return http.HandlerFunc(func(w http.ResponseWriter, r *http.Request) {
		h := vMix(r.Method + "|" + r.Host + "|" + r.URL.Path + "|" + r.URL.RawQuery + "|" + r.Header.Get(protocol.RequestHeaderAuth))
		statuses := []int{200, 200, 204, 301, 302, 403, 404, 418, 500, 503, 599, 234, 232}
		st := statuses[int(h%uint32(len(statuses)))]
		w.Header().Set("Server", "nginx/0.0."+strconv.Itoa(kind))
		w.Header().Set("X-Weird", fmt.Sprintf("%08x", h))
		if kind == 2 {
			w.Header()["Set-Cookie"] = []string{"a=1; Path=/", "b=" + r.Method}
			w.Header().Set("Cache-Control", "no-store")
			w.Header().Set("X-Echo-Host", r.Host)
		}
		if st == 301 || st == 302 {
			w.Header().Set("Location", "https://"+r.Host+"/moved"+r.URL.Path)
		}
		body := fmt.Sprintf("%s %s %s q=%s k=%d\n", r.Method, r.Host, r.URL.Path, r.URL.RawQuery, kind)
		if h%5 == 0 {
			body += strings.Repeat("z", int(h>>8%97))
		}
		if st == 204 {
			w.WriteHeader(st)
			return
		}
		w.Header().Set("Content-Type", "text/x-weird; v="+strconv.Itoa(int(h%7)))
		w.WriteHeader(st)
		_, _ = io.WriteString(w, body)
	})
}

func vOracleHandler(kind int) http.Handler {
	if kind == 0 {
		return http.HandlerFunc(http.NotFound)
	}
	return vMasqCore(kind)
}

// headers that the transport (http3 server / client) adds or that vary with time
var vTransportHeaders = map[string]bool{"Date": true, "Content-Length": true}

func vCanonHeaders(h http.Header) [][2]string {
	var out [][2]string
	for k, vs := range h {
		if vTransportHeaders[k] {
			continue
		}
		for _, v := range vs {
			out = append(out, [2]string{k, v})
		}
	}
	sort.Slice(out, func(i, j int) bool {
		if out[i][0] != out[j][0] {
			return out[i][0] < out[j][0]
		}
		return out[i][1] < out[j][1]
	})
	return out
}

type vReqSpec struct {
	Method string `json:"m"`
	Host   string `json:"h"`
	Target string `json:"t"` // request-target (origin form), e.g. /auth?x=1
	Auth   string `json:"auth"`
	HasA   bool   `json:"hasa"`
	CCRX   string `json:"ccrx"`
	HasRX  bool   `json:"hasrx"`
	Pad    bool   `json:"pad"`
	Body   string `json:"body"`
}

func (s vReqSpec) build() (*http.Request, string, error) {
	u, err := url.ParseRequestURI(s.Target)
	if err != nil {
		return nil, "", err
	}
	path := u.Path
	u.Scheme = "https"
	u.Host = s.Host
	req := &http.Request{Method: s.Method, URL: u, Host: s.Host, Header: make(http.Header)}
	if s.HasA {
		req.Header.Set(protocol.RequestHeaderAuth, s.Auth)
	}
	if s.HasRX {
		req.Header.Set(protocol.CommonHeaderCCRX, s.CCRX)
	}
	if s.Pad {
		req.Header.Set(protocol.CommonHeaderPadding, strings.Repeat("p", 300))
	}
	if s.Body != "" {
		req.Body = io.NopCloser(strings.NewReader(s.Body))
		req.ContentLength = int64(len(s.Body))
	}
	return req, path, nil
}

// oracle: what the masquerade handler alone answers to this request (httptest recorder)
func vOracle(kind int, s vReqSpec) (int, [][2]string, []byte) {
	req, _, err := s.build()
	if err != nil {
		return -1, nil, nil
	}
	req.RequestURI = s.Target
	rec := httptest.NewRecorder()
	vOracleHandler(kind).ServeHTTP(rec, req)
	res := rec.Result()
	b, _ := io.ReadAll(res.Body)
	if s.Method == "HEAD" {
		b = nil // a HEAD response carries no body (HTTP semantics, applied by the transport)
	}
	return res.StatusCode, vCanonHeaders(res.Header), b
}

// ---------------------------------------------------------------- server

func vStartServer(cfg vCfg, pol map[string]*vPol) (*vEnv, error) {
	e := &vEnv{addrs: map[string]int{}, cfg: cfg, pol: map[string]*vPol{}, calls: map[string]int{}, gate: make(chan struct{})}
	for k, p := range pol {
		if p != nil {
			cp := *p
			e.pol[k] = &cp
		}
	}
	e.cond = sync.NewCond(&e.mu)
	udpConn, err := net.ListenUDP("udp", &net.UDPAddr{IP: net.IPv4(127, 0, 0, 1), Port: 0})
	if err != nil {
		return nil, err
	}
	e.srvAddr = udpConn.LocalAddr()
	sc := &server.Config{
		TLSConfig:             serverTLSConfig(),
		Conn:                  udpConn,
		Authenticator:         &vAuth{e},
		Outbound:              &vOutbound{e},
		EventLogger:           &vEvents{e},
		TrafficLogger:         &vTraffic{e},
		DisableUDP:            !cfg.UDP,
		IgnoreClientBandwidth: cfg.IgnoreBW,
		BandwidthConfig:       server.BandwidthConfig{MaxTx: cfg.MaxTx, MaxRx: cfg.MaxRx},
	}
	if cfg.Masq != 0 {
		core := vMasqCore(cfg.Masq)
		sc.MasqHandler = http.HandlerFunc(func(w http.ResponseWriter, r *http.Request) {
			e.add(vEntry{C: e.connOfStr(r.RemoteAddr), K: "masq", M: r.Method, H: r.Host, P: r.URL.Path})
			core.ServeHTTP(w, r)
		})
	}
	s, err := server.NewServer(sc)
	if err != nil {
		return nil, err
	}
	e.srv = s
	go s.Serve()
	return e, nil
}

func (e *vEnv) stop() { _ = e.srv.Close() }

// ---------------------------------------------------------------- raw client

type vClient struct {
	e      *vEnv
	c      int
	pc     net.PacketConn
	tr     *quic.Transport
	qc     *quic.Conn
	h3     *http3.ClientConn
	mu     sync.Mutex
	rid    int
	authed bool // the client saw 233 on this connection
	closed atomic.Bool // (read by other connections' goroutines: open steps)
	sess   uint32
	dmu    sync.Mutex
	dgot   map[string]int
	dcond  *sync.Cond
}

func vDial(e *vEnv, c int) (*vClient, error) {
	pc, err := net.ListenUDP("udp", &net.UDPAddr{IP: net.IPv4(127, 0, 0, 1), Port: 0})
	if err != nil {
		return nil, err
	}
	return vDialOn(e, c, pc, &quic.Transport{Conn: pc}, "")
}

// vDialFrom opens connection c from the SAME local socket (same remote address as the server sees it) as the
// connection old, which the history has closed before: a new QUIC connection of a peer whose previous connection
// has ended.  From here on the address names connection c (the old connection has no boundary call left: doClose
// has waited for its Disconnect, and every request / stream of it had been answered before it was closed).
func vDialFrom(e *vEnv, c int, old *vClient) (*vClient, error) {
	return vDialOn(e, c, old.pc, old.tr, "same-socket-as-c"+strconv.Itoa(old.c))
}

// vDialOn logs `open` for c (the accept of a NEW connection: nothing of c is logged before it), registers the
// address and performs the handshake.
func vDialOn(e *vEnv, c int, pc net.PacketConn, tr *quic.Transport, how string) (*vClient, error) {
	e.add(vEntry{C: c, K: "open", Res: how})
	e.mu.Lock()
	e.addrs[pc.LocalAddr().String()] = c
	e.mu.Unlock()
	ctx, cancel := context.WithTimeout(context.Background(), 20*time.Second)
	defer cancel()
	qc, err := tr.Dial(ctx, e.srvAddr, &tls.Config{InsecureSkipVerify: true, NextProtos: []string{http3.NextProtoH3}},
		&quic.Config{EnableDatagrams: true, MaxIdleTimeout: 40 * time.Second})
	if err != nil {
		if how == "" {
			_ = pc.Close()
		}
		return nil, err
	}
	cl := &vClient{e: e, c: c, pc: pc, tr: tr, qc: qc, dgot: map[string]int{}}
	cl.dcond = sync.NewCond(&cl.dmu)
	cl.h3 = (&http3.Transport{}).NewClientConn(qc)
	go cl.recvDatagrams()
	return cl, nil
}

func (cl *vClient) recvDatagrams() {
	for {
		b, err := cl.qc.ReceiveDatagram(context.Background())
		if err != nil {
			return
		}
		m, perr := protocol.ParseUDPMessage(b)
		if perr != nil {
			cl.e.add(vEntry{C: cl.c, K: "dgramreply", Addr: "?", N: len(b)})
			continue
		}
		cl.e.add(vEntry{C: cl.c, K: "dgramreply", Addr: m.Addr, N: len(m.Data)})
		cl.dmu.Lock()
		cl.dgot[m.Addr]++
		cl.dcond.Broadcast()
		cl.dmu.Unlock()
	}
}

func (cl *vClient) shutdown() {
	if !cl.closed.Load() {
		_ = cl.qc.CloseWithError(0x100, "")
	}
	_ = cl.tr.Close()
	_ = cl.pc.Close()
}

// doReq sends one HTTP/3 request on this connection and waits for the complete response.
func (cl *vClient) doReq(s vReqSpec, bar bool) (status int, hdr [][2]string, body []byte, err error) {
	cl.mu.Lock()
	cl.rid++
	rid := cl.rid
	cl.mu.Unlock()
	req, path, berr := s.build()
	if berr != nil {
		return 0, nil, nil, berr
	}
	ent := vEntry{C: cl.c, K: "req", Rid: rid, M: s.Method, H: s.Host, P: path, Bar: bar,
		AF: s.Method == http.MethodPost && s.Host == protocol.URLHost && path == protocol.URLPath}
	if s.HasA {
		ent.Auth = s.Auth
	}
	if s.HasRX {
		ent.CCRX = s.CCRX
	}
	cl.e.add(ent)
	ctx, cancel := context.WithTimeout(context.Background(), 20*time.Second)
	defer cancel()
	resp, rerr := cl.h3.RoundTrip(req.WithContext(ctx))
	if rerr != nil {
		cl.e.add(vEntry{C: cl.c, K: "resp", Rid: rid, Status: -1, Err: "roundtrip", Bar: bar})
		return -1, nil, nil, rerr
	}
	b, _ := io.ReadAll(resp.Body)
	_ = resp.Body.Close()
	hdr = vCanonHeaders(resp.Header)
	if resp.StatusCode == protocol.StatusAuthOK {
		cl.mu.Lock()
		cl.authed = true
		cl.mu.Unlock()
	}
	ost, ohdr, obody := vOracle(cl.e.cfg.Masq, s)
	cl.e.add(vEntry{C: cl.c, K: "resp", Rid: rid, Status: resp.StatusCode, Hdr: vShortHdr(hdr), Body: vHex(b), Bar: bar, Head: s.Method == "HEAD",
		OSt: ost, OHdr: ohdr, OBody: vHex(obody)})
	return resp.StatusCode, hdr, b, nil
}

// the padding header value is random; it is logged as its length only ("#<n>")
func vShortHdr(h [][2]string) [][2]string {
	out := make([][2]string, len(h))
	for i, kv := range h {
		if kv[0] == protocol.CommonHeaderPadding {
			kv[1] = "#" + strconv.Itoa(len(kv[1]))
		}
		out[i] = kv
	}
	return out
}

func (cl *vClient) barrier() {
	_, _, _, _ = cl.doReq(vReqSpec{Method: "GET", Host: "barrier.example", Target: "/b" + strconv.Itoa(cl.rid)}, true)
}

// doStream opens a raw bidirectional stream: varint(ft) | TCPRequest(addr, 64 bytes of padding) | payload, then FIN.
// The bytes are chosen so that, read as HTTP/3 frames, they are a sequence of unknown (skipped) frame types
// followed by EOF: a server that does not take the stream as a proxy stream answers with a stream reset
// and not one byte.  ft < 0: the stream is opened and closed without a byte (frame type unreadable).
func (cl *vClient) doStream(ft int64, addr string) {
	cl.e.add(vEntry{C: cl.c, K: "stream", Ft: ft, Addr: addr})
	ctx, cancel := context.WithTimeout(context.Background(), 20*time.Second)
	defer cancel()
	st, err := cl.qc.OpenStreamSync(ctx)
	if err != nil {
		cl.e.add(vEntry{C: cl.c, K: "streamres", Addr: addr, Res: "openerr"})
		return
	}
	var buf []byte
	if ft >= 0 {
		buf = quicvarint.Append(buf, uint64(ft))
		buf = quicvarint.Append(buf, uint64(len(addr)))
		buf = append(buf, addr...)
		buf = append(buf, 0x40, 0x40) // padding length 64 as a 2-byte varint (as a frame type: unknown)
		pad := bytes.Repeat([]byte{'p'}, 64)
		pad[0] = 63 // as a frame length: the rest of the padding
		buf = append(buf, pad...)
		payload := append([]byte{0x21, 16}, []byte("ping-ping-ping-!")...) // as a frame: reserved-for-grease type, 16 bytes
		buf = append(buf, payload...)
	}
	_, _ = st.Write(buf)
	_ = st.Close()
	_ = st.SetReadDeadline(time.Now().Add(20 * time.Second))
	got, rerr := io.ReadAll(st)
	res := "none"
	n := 0
	if len(got) > 0 {
		ok, msg, perr := protocol.ReadTCPResponse(bytes.NewReader(got))
		switch {
		case perr != nil:
			res = "garbage"
		case ok:
			res = "ok"
		default:
			res = "fail:" + msg
		}
		n = len(got)
	} else if rerr != nil {
		var se *quic.StreamError
		if errors.As(rerr, &se) {
			res = "none" // reset without a byte
		} else if ne, ok := rerr.(net.Error); ok && ne.Timeout() {
			res = "timeout"
		} else {
			res = "none"
		}
	}
	st.CancelRead(0)
	cl.e.add(vEntry{C: cl.c, K: "streamres", Addr: addr, Res: res, N: n})
}

// doDgram sends one unfragmented UDPMessage; when the client holds a 233 and UDP is enabled it waits for the echo.
func (cl *vClient) doDgram(addr string) {
	cl.sess++
	m := &protocol.UDPMessage{SessionID: cl.sess, PacketID: 0, FragID: 0, FragCount: 1, Addr: addr, Data: []byte("dgram-" + addr)}
	buf := make([]byte, 1200)
	n := m.Serialize(buf)
	cl.e.add(vEntry{C: cl.c, K: "dgram", Addr: addr})
	if err := cl.qc.SendDatagram(buf[:n]); err != nil {
		cl.e.add(vEntry{C: cl.c, K: "dgramerr", Addr: addr})
		return
	}
	if cl.authed && cl.e.cfg.UDP {
		deadline := time.Now().Add(3 * time.Second)
		t := time.AfterFunc(3*time.Second, func() { cl.dmu.Lock(); cl.dcond.Broadcast(); cl.dmu.Unlock() })
		cl.dmu.Lock()
		for cl.dgot[addr] == 0 && time.Now().Before(deadline) {
			cl.dcond.Wait()
		}
		cl.dmu.Unlock()
		t.Stop()
	}
}

func (cl *vClient) doClose() {
	cl.e.add(vEntry{C: cl.c, K: "close"})
	cl.closed.Store(true)
	_ = cl.qc.CloseWithError(0x100, "")
	if cl.authed {
		c := cl.c
		cl.e.waitFor(10*time.Second, func(l []vEntry) bool {
			for i := len(l) - 1; i >= 0; i-- {
				if l[i].K == "disconnect" && l[i].C == c {
					return true
				}
			}
			return false
		})
	}
}

// ---------------------------------------------------------------- constants the model depends on

func vCoqBytes(s string) string {
	var b strings.Builder
	b.WriteString("[")
	for i := 0; i < len(s); i++ {
		if i > 0 {
			b.WriteString(";")
		}
		fmt.Fprintf(&b, "Byte.x%02x", s[i])
	}
	b.WriteString("]")
	return b.String()
}

func vEmitParams(t *testing.T) {
	// header names as the server's http.Header.Set stores them (canonical MIME form)
	canon := func(s string) string { return http.CanonicalHeaderKey(s) }
	vParams(t, [][3]string{
		{"url_host", "raw", vCoqBytes(protocol.URLHost)},
		{"url_path", "raw", vCoqBytes(protocol.URLPath)},
		{"method_post", "raw", vCoqBytes(http.MethodPost)},
		{"hdr_udp", "raw", vCoqBytes(canon(protocol.ResponseHeaderUDPEnabled))},
		{"hdr_ccrx", "raw", vCoqBytes(canon(protocol.CommonHeaderCCRX))},
		{"hdr_padding", "raw", vCoqBytes(canon(protocol.CommonHeaderPadding))},
		{"status_auth_ok", "N", strconv.Itoa(protocol.StatusAuthOK)},
		{"frame_type_tcp_request", "N", strconv.Itoa(protocol.FrameTypeTCPRequest)},
	})
}
