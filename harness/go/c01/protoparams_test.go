//go:build verif

package protocol

// Constants of package protocol that the C01/C02 model depends on and that are not exported.

import (
	"strconv"
	"testing"
)

func TestVerifC01Proto(t *testing.T) {
	vParams(t, [][3]string{
		{"auth_resp_pad_min", "N", strconv.Itoa(authResponsePadding.Min)},
		{"auth_resp_pad_max", "N", strconv.Itoa(authResponsePadding.Max)},
	})
}
