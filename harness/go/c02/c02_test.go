//go:build verif

package integration_tests

// C02 harness: request sequences (near-misses of POST hysteria /auth, rejected credentials, the odd accepted
// one in between) over real HTTP/3 to a real server configured with (0) no masquerade handler or (1,2) custom
// handlers; every response is compared with what the same handler answers on an httptest recorder.

import (
	"encoding/json"
	"fmt"
	"os"
	"strconv"
	"strings"
	"sync"
	"testing"
	"time"

	"github.com/apernet/hysteria/core/v2/internal/protocol"
)

type vC02Case struct {
	K    string     `json:"k"`
	Cfg  vCfg       `json:"cfg"`
	Reqs []vReqSpec `json:"reqs"`
	// Probe: after the requests, one raw 0x401 stream and one datagram (the connection may or may not be authenticated)
	Probe bool `json:"probe"`
	// K == "gate" (c02gate_test.go): Reqs are sent first, then First (an auth request whose Authenticate call is held by the
	// harness), Win arrives while it is held, then the release, then Post.
	First *vReqSpec `json:"first"`
	Win   []vWinOp  `json:"win"`
	Post  []vWinOp  `json:"post"`
	// K == "big" (c02big_test.go): Xh[i] = generated header fields added to Reqs[i] (large header blocks)
	Xh [][]vHdrGen `json:"xh"`
}

type vC02Res struct {
	Rid    int         `json:"rid"`
	M      string      `json:"m"`
	H      string      `json:"h"`
	P      string      `json:"p"`
	Auth   string      `json:"auth"`
	CCRX   string      `json:"ccrx"`
	St     int         `json:"st"`
	Hdr    [][2]string `json:"hdr"`
	Body   string      `json:"body"`
	OSt    int         `json:"ost"`
	OHdr   [][2]string `json:"ohdr"`
	OBody  string      `json:"obody"`
	Called bool        `json:"called"`          // the authenticator was consulted for this request
	CAuth  string      `json:"cauth,omitempty"` // ... with these credentials
	CRx    string      `json:"crx,omitempty"`   // ... and this tx
	Acc    bool        `json:"acc"`             // ... and accepted
	ID     string      `json:"id,omitempty"`
	Was    bool        `json:"was"` // the connection was already authenticated when the request was sent
	Saw    string      `json:"saw"` // what the custom masquerade handler saw (method|host|path), "" if not invoked / not observable
	Err    string      `json:"err,omitempty"`
	Skip   bool        `json:"skip,omitempty"` // request could not be built by the client library (not sent)
	// K == "abort" (c02abort_test.go)
	Out   string `json:"out,omitempty"`   // resp | abort | noresp | notsent: what the client got within the bound
	OOut  string `json:"oout,omitempty"`  // resp | abort: what the masquerade handler alone does with this request
	OSent bool   `json:"osent,omitempty"` // ... it aborts after having flushed OSt / OHdr / OBody
	Fault string `json:"fault,omitempty"` // the callback that failed while this request was served (from the boundary log)
	// K == "big" (c02big_test.go)
	Fsz int `json:"fsz,omitempty"` // size of the request's field section (RFC 9114 4.2.2)
	Hn  int `json:"hn,omitempty"`  // number of header fields (pseudo-header fields included)
}

type vC02Out struct {
	I       int       `json:"i"`
	Rs      []vC02Res `json:"rs"`
	Stream  string    `json:"stream,omitempty"`
	StreamN int       `json:"streamn"`
	DReply  int       `json:"dreply"`
	OutCall int       `json:"outcall"`
	Authed  bool      `json:"authed"`
	Log     []vEntry  `json:"log"`
	OK      bool      `json:"ok"`
	Why     string    `json:"why"`
	Err     string    `json:"err,omitempty"`
}

func vHdrEq(a, b [][2]string) bool {
	if len(a) != len(b) {
		return false
	}
	for i := range a {
		if a[i] != b[i] {
			return false
		}
	}
	return true
}

func vRunC02(cs vC02Case) (out vC02Out) {
	defer func() {
		if r := recover(); r != nil {
			out.Err = fmt.Sprint("harness panic: ", r)
		}
	}()
	e, err := vStartServer(cs.Cfg, nil)
	if err != nil {
		out.Err = "server: " + err.Error()
		return
	}
	defer e.stop()
	cl, err := vDial(e, 0)
	if err != nil {
		out.Err = "dial: " + err.Error()
		return
	}
	defer cl.shutdown()
	out.OK = true
	fail := func(s string) {
		if out.OK {
			out.OK = false
			out.Why = s
		}
	}
	accepted := false
	for i, s := range cs.Reqs {
		r := vC02Res{Rid: i + 1, M: s.Method, H: s.Host, Was: accepted}
		if s.HasA {
			r.Auth = s.Auth
		}
		if s.HasRX {
			r.CCRX = s.CCRX
		}
		_, path, berr := s.build()
		if berr != nil {
			r.Skip = true
			r.Err = "build"
			out.Rs = append(out.Rs, r)
			cl.rid++
			continue
		}
		r.P = path
		from := len(e.snapshot())
		st, hdr, body, rerr := cl.doReq(s, false)
		if rerr != nil {
			r.Skip = true
			r.Err = "roundtrip: " + rerr.Error()
			out.Rs = append(out.Rs, r)
			continue
		}
		r.St, r.Hdr, r.Body = st, vShortHdr(hdr), vHex(body)
		ost, ohdr, obody := vOracle(cs.Cfg.Masq, s)
		r.OSt, r.OHdr, r.OBody = ost, ohdr, vHex(obody)
		for _, x := range e.snapshot()[from:] {
			switch x.K {
			case "authcall":
				r.Called = true
				r.CAuth = x.Auth
				r.CRx = x.Rx
			case "authret":
				r.Acc = x.OK
				r.ID = x.ID
			case "masq":
				r.Saw = x.M + "|" + x.H + "|" + x.P
			}
		}
		if r.Acc {
			accepted = true
		}
		isAuthForm := s.Method == "POST" && s.Host == protocol.URLHost && path == protocol.URLPath
		what0 := fmt.Sprintf("request #%d %s %q %q", i+1, s.Method, s.Host, s.Target)
		if !isAuthForm && r.Called {
			fail(what0 + ": authenticator consulted for a request that is not POST hysteria /auth")
		}
		exempt := isAuthForm && (r.Acc || r.Was)
		if !exempt {
			// the property's own predicate for this request
			what := fmt.Sprintf("request #%d %s %q %q", i+1, s.Method, s.Host, s.Target)
			if st == protocol.StatusAuthOK {
				fail(what + ": status 233 without an accepted authentication")
			}
			for _, kv := range hdr {
				if strings.HasPrefix(strings.ToLower(kv[0]), "hysteria-") {
					fail(what + ": Hysteria-specific response header " + kv[0])
				}
			}
			if st != ost {
				fail(fmt.Sprintf("%s: status %d, the masquerade handler alone answers %d", what, st, ost))
			}
			if !vHdrEq(hdr, ohdr) {
				fail(fmt.Sprintf("%s: headers %v, the masquerade handler alone answers %v", what, hdr, ohdr))
			}
			if s.Method != "HEAD" && string(body) != string(obody) {
				fail(fmt.Sprintf("%s: body %q, the masquerade handler alone answers %q", what, body, obody))
			}
			if cs.Cfg.Masq != 0 && r.Saw != s.Method+"|"+s.Host+"|"+path {
				fail(fmt.Sprintf("%s: the masquerade handler saw %q", what, r.Saw))
			}
		}
		out.Rs = append(out.Rs, r)
	}
	out.Authed = accepted
	defer func() { out.Log = e.snapshot() }()
	if cs.Probe {
		from := len(e.snapshot())
		cl.doStream(protocol.FrameTypeTCPRequest, "c0-probe-echo:80")
		cl.doDgram("c0-probeu:53")
		cl.barrier()
		if !accepted {
			time.Sleep(10 * time.Millisecond)
		}
		for _, x := range e.snapshot()[from:] {
			switch x.K {
			case "streamres":
				out.Stream = x.Res
				out.StreamN = x.N
			case "dgramreply":
				out.DReply++
			case "outtcp", "outudp", "relay", "udpwrite":
				out.OutCall++
			}
		}
		if !accepted {
			if out.StreamN > 0 {
				fail(fmt.Sprintf("unauthenticated proxy stream drew %d reply bytes (%s)", out.StreamN, out.Stream))
			}
			if out.DReply > 0 {
				fail("unauthenticated datagram drew a reply")
			}
			if out.OutCall > 0 {
				fail("outbound / relay call for an unauthenticated connection")
			}
		}
	}
	return
}

func TestVerifC02(t *testing.T) {
	raw := vReadCases(t)
	w := vOpenOut(t, "VERIF_OUT")
	defer w.Close()
	vEmitParams(t)
	outs := make([]vC02Out, len(raw))
	par := 6
	if s := os.Getenv("VERIF_PAR"); s != "" {
		par, _ = strconv.Atoi(s)
	}
	sem := make(chan struct{}, par)
	var wg sync.WaitGroup
	for i, r := range raw {
		var cs vC02Case
		if err := json.Unmarshal(r, &cs); err != nil {
			t.Fatal(err)
		}
		wg.Add(1)
		sem <- struct{}{}
		go func(i int, cs vC02Case) {
			defer wg.Done()
			defer func() { <-sem }()
			var o vC02Out
			if cs.K == "gate" {
				o = vRunC02Gate(cs)
			} else if cs.K == "abort" {
				o = vRunC02Abort(cs)
			} else if cs.K == "big" {
				o = vRunC02Big(cs)
			} else {
				o = vRunC02(cs)
			}
			o.I = i
			if o.Err != "" {
				o.OK = false
				o.Why = "harness error: " + o.Err
			}
			outs[i] = o
		}(i, cs)
	}
	wg.Wait()
	for _, o := range outs {
		w.Emit(o)
	}
}
