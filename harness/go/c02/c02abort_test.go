//go:build verif

package integration_tests

// C02 harness, third kind of case ("abort"): ONE connection (one h3sHandler) on which some requests end
// ABNORMALLY inside a user callback that ServeHTTP calls:
//   - the masquerade handler aborts its response: panic(http.ErrAbortHandler) before or after it has flushed
//     part of the response (what httputil.ReverseProxy does when its upstream dies), panics with some other
//     value, or takes the HTTP/3 stream over (http3.HTTPStreamer) and finishes / resets it itself;
//   - Authenticator.Authenticate panics;
//   - TrafficLogger.LogOnlineState / EventLogger.Connect panic after an accepting verdict.
// The HTTP/3 server recovers such a panic and resets the request's stream; the connection lives on and
// further requests arrive on it: auth requests with rejected / accepted credentials, requests that are not
// auth requests, more faults.
//
// Verdict (on the implementation alone), request by request:
//   - every request gets an outcome within a real-time bound.  "No response at all" is a violation (the
//     masquerade handler alone answers at once), confirmed by a liveness request on the same connection
//     that IS answered while the request under judgement stays unanswered;
//   - a request whose callback did not fail and that is not an accepted auth request gets exactly the
//     response the masquerade handler alone gives on an httptest recorder (status, headers, body), no 233,
//     no Hysteria-* header;
//   - a request whose masquerade handler aborted shows the client nothing more than what the handler alone
//     had flushed before it aborted (same status and headers, a prefix of the body, never a clean end).
// Which callback failed is taken from the boundary log (every fake logs `fault` before it panics).

import (
	"context"
	"errors"
	"fmt"
	"io"
	"net"
	"net/http"
	"net/http/httptest"
	"strconv"
	"strings"
	"sync"
	"time"

	"github.com/apernet/quic-go"
	"github.com/apernet/quic-go/http3"

	"github.com/apernet/hysteria/core/v2/internal/protocol"
	"github.com/apernet/hysteria/core/v2/server"
)

// ---------------------------------------------------------------- fakes that fail on request

type vXAuth struct{ vAuth }

func (a *vXAuth) Authenticate(addr net.Addr, auth string, tx uint64) (bool, string) {
	if strings.Contains(auth, "apanic") {
		c := a.e.connOf(addr)
		a.e.add(vEntry{C: c, K: "authcall", Auth: auth, Rx: strconv.FormatUint(tx, 10)})
		a.e.add(vEntry{C: c, K: "fault", Res: "auth", Auth: auth})
		if strings.Contains(auth, "apanicv") {
			panic("authentication backend: nil map write")
		}
		panic(http.ErrAbortHandler)
	}
	return a.vAuth.Authenticate(addr, auth, tx)
}

type vXTraffic struct{ vTraffic }

func (t *vXTraffic) LogOnlineState(id string, online bool) {
	t.vTraffic.LogOnlineState(id, online)
	if online && strings.Contains(id, "lpanicx") {
		t.e.add(vEntry{C: vTagConn(id), K: "fault", Res: "online", ID: id})
		panic(errors.New("traffic logger: stats backend gone"))
	}
}

type vXEvents struct{ vEvents }

func (l *vXEvents) Connect(addr net.Addr, id string, tx uint64) {
	l.vEvents.Connect(addr, id, tx)
	if strings.Contains(id, "lpanicy") {
		l.e.add(vEntry{C: l.e.connOf(addr), K: "fault", Res: "connect", ID: id})
		panic(http.ErrAbortHandler)
	}
}

// vXFault: the fault the masquerade handler is asked for by the request itself (query parameter vf), so that the
// handler stays a deterministic function of the request and the oracle can mount the very same handler.
func vXFault(r *http.Request) string { return r.URL.Query().Get("vf") }

func vXPartial(w http.ResponseWriter, r *http.Request, st int) []byte {
	w.Header().Set("Server", "nginx/0.0.9")
	w.Header().Set("X-Weird", "partial-"+r.Method)
	w.Header().Set("Content-Type", "text/x-weird; v=9")
	w.WriteHeader(st)
	return []byte("partial " + r.Method + " " + r.Host + " " + r.URL.Path + " upstream said: ")
}

// vXMasqCore: the masquerade handler of the abort histories, WITHOUT logging (the oracle mounts exactly this).
func vXMasqCore(kind int) http.Handler {
	base := vOracleHandler(kind)
	return http.HandlerFunc(func(w http.ResponseWriter, r *http.Request) {
		switch f := vXFault(r); f {
		case "abort0": // upstream refused after the proxy decided to abort: nothing written
			panic(http.ErrAbortHandler)
		case "panicv": // a bug in the handler
			var m map[string]int
			m[r.Host] = 1
		case "aborth", "panich": // headers and part of the body are out, then the upstream dies
			st := 200
			if f == "panich" {
				st = 502
			}
			b := vXPartial(w, r, st)
			_, _ = w.Write(b)
			if fl, ok := w.(http.Flusher); ok {
				fl.Flush()
			}
			if f == "aborth" {
				panic(http.ErrAbortHandler)
			}
			panic(errors.New("masquerade upstream: unexpected EOF"))
		case "panicw": // the whole response is written (buffered, not flushed), then the handler panics
			base.ServeHTTP(w, r)
			panic(fmt.Errorf("masquerade access log: disk full"))
		case "hijack", "hijackabort": // the handler takes the HTTP/3 stream over and ends it itself
			st := 203
			b := vXPartial(w, r, st)
			if hs, ok := w.(http3.HTTPStreamer); ok {
				str := hs.HTTPStream() // flushes the header
				if r.Method != http.MethodHead {
					_, _ = str.Write(b)
				}
				if f == "hijackabort" {
					str.CancelWrite(quic.StreamErrorCode(http3.ErrCodeInternalError))
					str.CancelRead(quic.StreamErrorCode(http3.ErrCodeInternalError))
					return
				}
				str.CancelRead(quic.StreamErrorCode(http3.ErrCodeNoError))
				_ = str.Close()
				return
			}
			// on a plain recorder: the same bytes; the reset is an abort
			_, _ = w.Write(b)
			if fl, ok := w.(http.Flusher); ok {
				fl.Flush()
			}
			if f == "hijackabort" {
				panic(http.ErrAbortHandler)
			}
		default:
			base.ServeHTTP(w, r)
		}
	})
}

type vXOracleRes struct {
	Aborted bool // the handler alone aborts this response
	Sent    bool // ... after it had flushed status, headers and Body
	St      int
	Hdr     [][2]string
	Body    []byte
}

// vXOracle: the masquerade handler alone, on an httptest recorder.
func vXOracle(kind int, s vReqSpec) (o vXOracleRes) {
	req, _, err := s.build()
	if err != nil {
		return vXOracleRes{St: -1}
	}
	req.RequestURI = s.Target
	rec := httptest.NewRecorder()
	func() {
		defer func() {
			if p := recover(); p != nil {
				o.Aborted = true
			}
		}()
		vXMasqCore(kind).ServeHTTP(rec, req)
	}()
	if o.Aborted && !rec.Flushed {
		return
	}
	res := rec.Result()
	b, _ := io.ReadAll(res.Body)
	if s.Method == "HEAD" {
		b = nil
	}
	o.Sent = o.Aborted
	o.St, o.Hdr, o.Body = res.StatusCode, vCanonHeaders(res.Header), b
	return
}

func vStartServerX(cfg vCfg) (*vEnv, error) {
	e := &vEnv{addrs: map[string]int{}, cfg: cfg, pol: map[string]*vPol{}, calls: map[string]int{}, gate: make(chan struct{})}
	e.cond = sync.NewCond(&e.mu)
	udpConn, err := net.ListenUDP("udp", &net.UDPAddr{IP: net.IPv4(127, 0, 0, 1), Port: 0})
	if err != nil {
		return nil, err
	}
	e.srvAddr = udpConn.LocalAddr()
	core := vXMasqCore(cfg.Masq)
	sc := &server.Config{
		TLSConfig:             serverTLSConfig(),
		Conn:                  udpConn,
		Authenticator:         &vXAuth{vAuth{e}},
		Outbound:              &vOutbound{e},
		EventLogger:           &vXEvents{vEvents{e}},
		TrafficLogger:         &vXTraffic{vTraffic{e}},
		DisableUDP:            !cfg.UDP,
		IgnoreClientBandwidth: cfg.IgnoreBW,
		BandwidthConfig:       server.BandwidthConfig{MaxTx: cfg.MaxTx, MaxRx: cfg.MaxRx},
		MasqHandler: http.HandlerFunc(func(w http.ResponseWriter, r *http.Request) {
			c := e.connOfStr(r.RemoteAddr)
			e.add(vEntry{C: c, K: "masq", M: r.Method, H: r.Host, P: r.URL.Path})
			if f := vXFault(r); f != "" && f != "hijack" {
				e.add(vEntry{C: c, K: "fault", Res: "masq:" + f})
			}
			core.ServeHTTP(w, r)
		}),
	}
	s, err := server.NewServer(sc)
	if err != nil {
		return nil, err
	}
	e.srv = s
	go s.Serve()
	return e, nil
}

// ---------------------------------------------------------------- client: one request with a real-time bound

type vXGot struct {
	Out  string // resp (complete) | abort (reset, nothing or part of a response received) | noresp (nothing final within the bound)
	Have bool   // status and headers were received
	St   int
	Hdr  [][2]string
	Body []byte
}

func (cl *vClient) doReqX(s vReqSpec, bar bool, bound time.Duration) (rid int, g vXGot) {
	cl.mu.Lock()
	cl.rid++
	rid = cl.rid
	cl.mu.Unlock()
	req, path, berr := s.build()
	if berr != nil {
		g.Out = "build"
		return
	}
	ent := vEntry{C: cl.c, K: "req", Rid: rid, M: s.Method, H: s.Host, P: path, Bar: bar,
		AF: s.Method == http.MethodPost && s.Host == protocol.URLHost && path == protocol.URLPath}
	if s.HasA {
		ent.Auth = s.Auth
	}
	if s.HasRX {
		ent.CCRX = s.CCRX
	}
	cl.e.add(ent)
	ctx, cancel := context.WithTimeout(context.Background(), bound)
	defer cancel()
	resp, rerr := cl.h3.RoundTrip(req.WithContext(ctx))
	if rerr != nil {
		g.Out = "abort"
		if ctx.Err() != nil {
			g.Out = "noresp"
		}
	} else {
		b, berr := io.ReadAll(resp.Body)
		_ = resp.Body.Close()
		g.Have, g.St, g.Hdr, g.Body = true, resp.StatusCode, vCanonHeaders(resp.Header), b
		switch {
		case berr == nil:
			g.Out = "resp"
		case ctx.Err() != nil:
			g.Out = "noresp"
		default:
			g.Out = "abort"
		}
		if resp.StatusCode == protocol.StatusAuthOK {
			cl.mu.Lock()
			cl.authed = true
			cl.mu.Unlock()
		}
	}
	x := vEntry{C: cl.c, K: "xresp", Rid: rid, Res: g.Out, Bar: bar, Head: s.Method == "HEAD", Status: -1}
	if g.Have {
		x.Status, x.Hdr, x.Body, x.N = g.St, vShortHdr(g.Hdr), vHex(g.Body), 1
	}
	// the oracle travels with the outcome (Err: resp | abort | abort-sent)
	o := vXOracle(cl.e.cfg.Masq, s)
	x.Err, x.OSt, x.OHdr, x.OBody = "resp", o.St, o.Hdr, vHex(o.Body)
	if o.Aborted {
		x.Err = "abort"
		if o.Sent {
			x.Err = "abort-sent"
		}
	}
	cl.e.add(x)
	return
}

// ---------------------------------------------------------------- one history

const (
	vXBound      = 8 * time.Second        // "no response": nothing final for this long on a loopback connection
	vXBoundAgain = 1500 * time.Millisecond // once a request of the history has been confirmed unanswered
	vXMaxHangs   = 2
)

func vRunC02Abort(cs vC02Case) (out vC02Out) {
	defer func() {
		if r := recover(); r != nil {
			out.Err = fmt.Sprint("harness panic: ", r)
		}
	}()
	e, err := vStartServerX(cs.Cfg)
	if err != nil {
		out.Err = "server: " + err.Error()
		return
	}
	defer e.stop()
	cl, err := vDial(e, 0)
	if err != nil {
		out.Err = "dial: " + err.Error()
		return
	}
	defer cl.shutdown()
	out.OK = true
	fail := func(s string) {
		if out.OK {
			out.OK = false
			out.Why = s
		}
	}
	defer func() { out.Log = e.snapshot() }()
	accepted := false
	logfault := false // a logger panicked after an accepting verdict: the UDP session manager is never started
	hangs := 0
	nlive := 0
	for i, s := range cs.Reqs {
		r := vC02Res{Rid: i + 1, M: s.Method, H: s.Host, Was: accepted}
		if s.HasA {
			r.Auth = s.Auth
		}
		if s.HasRX {
			r.CCRX = s.CCRX
		}
		_, path, berr := s.build()
		if berr != nil {
			r.Skip, r.Err = true, "build"
			out.Rs = append(out.Rs, r)
			continue
		}
		r.P = path
		isAuthForm := s.Method == "POST" && s.Host == protocol.URLHost && path == protocol.URLPath
		what := fmt.Sprintf("request #%d %s %q %q (credentials %q)", i+1, s.Method, s.Host, s.Target, r.Auth)
		o := vXOracle(cs.Cfg.Masq, s)
		r.OSt, r.OHdr, r.OBody = o.St, o.Hdr, vHex(o.Body)
		r.OOut = "resp"
		if o.Aborted {
			r.OOut = "abort"
			r.OSent = o.Sent
		}
		if hangs >= vXMaxHangs && isAuthForm {
			// the verdict is already "violated" several times over; do not spend the bound again
			r.Skip, r.Err, r.Out = true, "not sent: auth requests on this connection are no longer answered", "notsent"
			out.Rs = append(out.Rs, r)
			continue
		}
		bound := vXBound
		if hangs > 0 {
			bound = vXBoundAgain
		}
		from := len(e.snapshot())
		_, g := cl.doReqX(s, false, bound)
		r.Out = g.Out
		if g.Have {
			r.St, r.Hdr, r.Body = g.St, vShortHdr(g.Hdr), vHex(g.Body)
		}
		for _, x := range e.snapshot()[from:] {
			switch x.K {
			case "authcall":
				r.Called, r.CAuth, r.CRx = true, x.Auth, x.Rx
			case "authret":
				r.Acc, r.ID = x.OK, x.ID
			case "masq":
				r.Saw = x.M + "|" + x.H + "|" + x.P
			case "fault":
				r.Fault = x.Res
				if x.Res == "online" || x.Res == "connect" {
					logfault = true
				}
			}
		}
		if r.Acc {
			accepted = true
		}
		if !isAuthForm && r.Called {
			fail(what + ": authenticator consulted for a request that is not POST hysteria /auth")
		}
		exempt := isAuthForm && (r.Acc || r.Was)
		describe := func() string {
			if o.Aborted {
				if o.Sent {
					return fmt.Sprintf("aborts after status %d and %d body bytes", o.St, len(o.Body))
				}
				return "aborts without a byte"
			}
			return fmt.Sprintf("answers %d", o.St)
		}
		// (1) an outcome within the bound, whatever the request
		if g.Out == "noresp" {
			nlive++
			_, lg := cl.doReqX(vReqSpec{Method: "GET", Host: "alive.example", Target: "/alive" + strconv.Itoa(nlive)}, true, vXBound)
			hangs++
			if lg.Out == "resp" {
				fail(fmt.Sprintf("%s: NO response within %v although the connection is alive (a later GET on it was answered %d); "+
					"the masquerade handler alone %s", what, bound, lg.St, describe()))
			} else {
				fail(fmt.Sprintf("%s: NO response within %v and the connection stopped answering (liveness GET: %s); "+
					"the masquerade handler alone %s", what, bound, lg.Out, describe()))
			}
			out.Rs = append(out.Rs, r)
			continue
		}
		// (2) never a Hysteria marker without an accepted authentication
		if !exempt && g.Have {
			if g.St == protocol.StatusAuthOK {
				fail(what + ": status 233 without an accepted authentication")
			}
			for _, kv := range g.Hdr {
				if strings.HasPrefix(strings.ToLower(kv[0]), "hysteria-") {
					fail(what + ": Hysteria-specific response header " + kv[0])
				}
			}
		}
		hdrShort := vShortHdr(g.Hdr)
		switch {
		case exempt:
			// an accepted auth request / a repeat on the authenticated connection: 233, or an abort when a logger panicked
			if g.Out == "resp" && g.St != protocol.StatusAuthOK {
				fail(fmt.Sprintf("%s: accepted, but the response is %d", what, g.St))
			}
			if g.Out == "abort" && !strings.HasPrefix(r.Fault, "online") && !strings.HasPrefix(r.Fault, "connect") {
				fail(what + ": accepted, no callback failed, but the response was aborted")
			}
		case r.Fault == "auth":
			// Authenticate panicked: neither accepted nor rejected; nothing of a response may have been produced
			if g.Have {
				fail(fmt.Sprintf("%s: the authenticator panicked, yet a response (status %d) was produced", what, g.St))
			}
			if r.Saw != "" {
				fail(what + ": the authenticator panicked, yet the masquerade handler was called")
			}
		case o.Aborted:
			// the handler alone aborts this response: nothing beyond what it had flushed
			if r.Saw != s.Method+"|"+s.Host+"|"+path {
				fail(fmt.Sprintf("%s: the masquerade handler saw %q", what, r.Saw))
			}
			if g.Out == "resp" && !(s.Method == "HEAD" && o.Sent) { // (a HEAD response ends with its headers)
				fail(fmt.Sprintf("%s: a complete response (status %d, %d body bytes); the masquerade handler alone %s", what, g.St, len(g.Body), describe()))
			}
			if g.Have {
				if !o.Sent {
					fail(fmt.Sprintf("%s: status %d received; the masquerade handler alone %s", what, g.St, describe()))
				} else {
					if g.St != o.St {
						fail(fmt.Sprintf("%s: status %d, the masquerade handler alone %s", what, g.St, describe()))
					}
					if !vHdrEq(hdrShort, o.Hdr) {
						fail(fmt.Sprintf("%s: headers %v, the masquerade handler alone sends %v before it aborts", what, hdrShort, o.Hdr))
					}
					if s.Method != "HEAD" && !strings.HasPrefix(string(o.Body), string(g.Body)) {
						fail(fmt.Sprintf("%s: body %q is not a prefix of what the masquerade handler alone sends before it aborts (%q)", what, g.Body, o.Body))
					}
				}
			}
		default:
			// exactly the handler's response
			if g.Out != "resp" {
				fail(fmt.Sprintf("%s: the response was aborted (headers received: %v); the masquerade handler alone %s", what, g.Have, describe()))
				break
			}
			if g.St != o.St {
				fail(fmt.Sprintf("%s: status %d, the masquerade handler alone answers %d", what, g.St, o.St))
			}
			if !vHdrEq(hdrShort, o.Hdr) {
				fail(fmt.Sprintf("%s: headers %v, the masquerade handler alone answers %v", what, hdrShort, o.Hdr))
			}
			if s.Method != "HEAD" && string(g.Body) != string(o.Body) {
				fail(fmt.Sprintf("%s: body %q, the masquerade handler alone answers %q", what, g.Body, o.Body))
			}
			if r.Saw != s.Method+"|"+s.Host+"|"+path {
				fail(fmt.Sprintf("%s: the masquerade handler saw %q", what, r.Saw))
			}
			if r.Fault != "" {
				fail(fmt.Sprintf("%s: harness inconsistency: fault %q logged for a request the handler alone answers", what, r.Fault))
			}
		}
		out.Rs = append(out.Rs, r)
	}
	out.Authed = accepted
	if cs.Probe && hangs == 0 {
		from := len(e.snapshot())
		cl.doStream(protocol.FrameTypeTCPRequest, "c0-probe-echo:80")
		if !logfault {
			cl.doDgram("c0-probeu:53")
		}
		_, _ = cl.doReqX(vReqSpec{Method: "GET", Host: "barrier.example", Target: "/bx"}, true, vXBound)
		if !accepted {
			time.Sleep(10 * time.Millisecond)
		}
		for _, x := range e.snapshot()[from:] {
			switch x.K {
			case "streamres":
				out.Stream = x.Res
				out.StreamN = x.N
			case "dgramreply":
				out.DReply++
			case "outtcp", "outudp", "relay", "udpwrite":
				out.OutCall++
			}
		}
		if !accepted {
			if out.StreamN > 0 {
				fail(fmt.Sprintf("unauthenticated proxy stream drew %d reply bytes (%s)", out.StreamN, out.Stream))
			}
			if out.DReply > 0 {
				fail("unauthenticated datagram drew a reply")
			}
			if out.OutCall > 0 {
				fail("outbound / relay call for an unauthenticated connection")
			}
		}
	}
	return
}
