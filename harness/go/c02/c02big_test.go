//go:build verif

package integration_tests

// C02 harness, fourth kind of case ("big"): ONE connection, sequential requests, two dimensions the other kinds
// do not reach:
//
//   (1) the SIZE of the request's header block.  "Every header set" includes header sets that are large but
//       ordinary for a web server of the net/http family (http.DefaultMaxHeaderBytes = 1 MiB): one header value
//       of 8..64 KiB (a Cookie, an Authorization-like token, the client's own Hysteria-Padding), hundreds of
//       header fields, one field name with many values, up to several hundred KiB in total - on requests that
//       are not auth requests and on auth requests whose credentials are rejected.  The masquerade handler of
//       these histories answers with a digest of ALL request header fields it was given (count, bytes, SHA-256),
//       so a header set that is dropped, truncated, re-ordered within a field name or answered by somebody
//       else than the handler is visible in the response.
//   (2) the connection STATE: after an auth request has been accepted on the connection, requests that are not
//       auth requests - in particular near misses of it: another method to hysteria/auth, another host, another
//       path, carrying credentials that would be accepted - arrive BETWEEN repeats of the auth request.  Only
//       POST + host + path is special, in every state of the connection.
//
// Verdict (on the implementation alone), request by request: a request that is not an accepted auth request /
// a repeat of the auth request on the authenticated connection gets a complete response within a real-time
// bound, which is exactly what the same handler answers on an httptest recorder to the same request (status,
// headers minus Date/Content-Length, body), is not 233, carries no Hysteria-* header, and the handler saw
// exactly this request; the authenticator is consulted only for POST hysteria /auth.

import (
	"context"
	"crypto/sha256"
	"fmt"
	"io"
	"net"
	"net/http"
	"net/http/httptest"
	"sort"
	"strconv"
	"strings"
	"sync"
	"time"

	"github.com/apernet/hysteria/core/v2/internal/protocol"
	"github.com/apernet/hysteria/core/v2/server"
)

// vHdrGen describes header fields of a request compactly (a case may carry several hundred KiB of them).
type vHdrGen struct {
	Name string `json:"n"`    // field name; with Cnt > 1 and !Same the names are Name-0, Name-1, ...
	Cnt  int    `json:"cnt"`  // number of fields
	Same bool   `json:"same"` // Cnt values of ONE field name (a multi-valued field)
	Kind string `json:"kind"` // gd: pseudo-random token characters | rep: one character repeated (compresses well) | cookie: k0=<hex>; k1=<hex>; ...
	A    uint64 `json:"a"`
	B    uint64 `json:"b"`
	Len  int    `json:"len"` // bytes per value
}

const vTokenChars = "abcdefghijklmnopqrstuvwxyzABCDEFGHIJKLMNOPQRSTUVWXYZ0123456789-_"

func (g vHdrGen) value(i int) string {
	switch g.Kind {
	case "rep":
		return strings.Repeat(string(vTokenChars[int(g.A)%len(vTokenChars)]), g.Len)
	case "cookie":
		var sb strings.Builder
		for k := 0; sb.Len() < g.Len; k++ {
			if k > 0 {
				sb.WriteString("; ")
			}
			fmt.Fprintf(&sb, "k%d=%x", k, vGenData(g.A+uint64(k), g.B+uint64(i), 12))
		}
		return sb.String()
	default:
		raw := vGenData(g.A, g.B+uint64(i)*7, g.Len)
		out := make([]byte, len(raw))
		for j, c := range raw {
			out[j] = vTokenChars[(int(c)+j/251)%len(vTokenChars)]
		}
		return string(out)
	}
}

// vBigBuild: the request of s with the generated header fields added; fsz = the size of its field section as
// RFC 9114 4.2.2 counts it (name + value + 32 per field, pseudo-header fields included), nf = number of fields.
func vBigBuild(s vReqSpec, xh []vHdrGen) (req *http.Request, path string, fsz, nf int, err error) {
	req, path, err = s.build()
	if err != nil {
		return
	}
	// what the HTTP/3 client library would add by itself is fixed here, so that the handler alone sees the same fields
	req.Header.Set("User-Agent", "Mozilla/5.0 (X11; Linux x86_64; rv:128.0) Gecko/20100101 Firefox/128.0")
	req.Header.Set("Accept-Encoding", "gzip, deflate, br")
	for _, g := range xh {
		n := g.Cnt
		if n < 1 {
			n = 1
		}
		for i := 0; i < n; i++ {
			name := g.Name
			if n > 1 && !g.Same {
				name += "-" + strconv.Itoa(i)
			}
			if g.Same {
				req.Header.Add(name, g.value(i))
			} else {
				req.Header.Set(name, g.value(i))
			}
		}
	}
	fsz = len(":method") + len(s.Method) + 32 + len(":scheme") + len("https") + 32 + len(":authority") + len(s.Host) + 32 +
		len(":path") + len(s.Target) + 32
	nf = 4
	for k, vs := range req.Header {
		for _, v := range vs {
			fsz += len(k) + len(v) + 32
			nf++
		}
	}
	if s.Body != "" {
		fsz += len("content-length") + len(strconv.Itoa(len(s.Body))) + 32
		nf++
	}
	return
}

// vHDigest: what the masquerade handler of these histories says about the header fields it was given.
func vHDigest(h http.Header) string {
	var kv []string
	n, b := 0, 0
	for k, vs := range h {
		if k == "Content-Length" {
			continue // (a transport-level field: the recorder's request has none)
		}
		for i, v := range vs {
			kv = append(kv, strings.ToLower(k)+"\x00"+strconv.Itoa(i)+"\x00"+v)
			n++
			b += len(k) + len(v)
		}
	}
	sort.Strings(kv)
	hh := sha256.New()
	for _, x := range kv {
		_, _ = io.WriteString(hh, x)
		_, _ = hh.Write([]byte{1})
	}
	return fmt.Sprintf("n=%d b=%d d=%x", n, b, hh.Sum(nil)[:10])
}

// vHMasqCore: the handler logic WITHOUT logging; the oracle mounts exactly this on a recorder.
// kind 0: no handler is configured (the server's own http.NotFound).
func vHMasqCore(kind int) http.Handler {
	if kind == 0 {
		return http.HandlerFunc(http.NotFound)
	}
	base := vMasqCore(kind)
	return http.HandlerFunc(func(w http.ResponseWriter, r *http.Request) {
		w.Header().Set("X-Req-Fields", vHDigest(r.Header))
		if c := r.Header.Get("Cookie"); c != "" {
			w.Header().Set("X-Cookie-Len", strconv.Itoa(len(c)))
		}
		base.ServeHTTP(w, r)
	})
}

func vHOracle(kind int, s vReqSpec, xh []vHdrGen) (int, [][2]string, []byte) {
	req, _, _, _, err := vBigBuild(s, xh)
	if err != nil {
		return -1, nil, nil
	}
	req.RequestURI = s.Target
	rec := httptest.NewRecorder()
	vHMasqCore(kind).ServeHTTP(rec, req)
	res := rec.Result()
	b, _ := io.ReadAll(res.Body)
	if s.Method == "HEAD" {
		b = nil
	}
	return res.StatusCode, vCanonHeaders(res.Header), b
}

func vStartServerH(cfg vCfg) (*vEnv, error) {
	e := &vEnv{addrs: map[string]int{}, cfg: cfg, pol: map[string]*vPol{}, calls: map[string]int{}, gate: make(chan struct{})}
	e.cond = sync.NewCond(&e.mu)
	udpConn, err := net.ListenUDP("udp", &net.UDPAddr{IP: net.IPv4(127, 0, 0, 1), Port: 0})
	if err != nil {
		return nil, err
	}
	e.srvAddr = udpConn.LocalAddr()
	sc := &server.Config{
		TLSConfig:             serverTLSConfig(),
		Conn:                  udpConn,
		Authenticator:         &vAuth{e},
		Outbound:              &vOutbound{e},
		EventLogger:           &vEvents{e},
		TrafficLogger:         &vTraffic{e},
		DisableUDP:            !cfg.UDP,
		IgnoreClientBandwidth: cfg.IgnoreBW,
		BandwidthConfig:       server.BandwidthConfig{MaxTx: cfg.MaxTx, MaxRx: cfg.MaxRx},
	}
	if cfg.Masq != 0 {
		core := vHMasqCore(cfg.Masq)
		sc.MasqHandler = http.HandlerFunc(func(w http.ResponseWriter, r *http.Request) {
			e.add(vEntry{C: e.connOfStr(r.RemoteAddr), K: "masq", M: r.Method, H: r.Host, P: r.URL.Path})
			core.ServeHTTP(w, r)
		})
	}
	s, err := server.NewServer(sc)
	if err != nil {
		return nil, err
	}
	e.srv = s
	go s.Serve()
	return e, nil
}

// doReqH sends one request with generated header fields and waits (bounded) for the complete response.
// Boundary log: `req` (N = field section size) and `resp` (with the oracle) as doReq writes them.
func (cl *vClient) doReqH(s vReqSpec, xh []vHdrGen, bar bool, bound time.Duration) (g vXGot, fsz, nf int) {
	cl.mu.Lock()
	cl.rid++
	rid := cl.rid
	cl.mu.Unlock()
	req, path, fsz, nf, berr := vBigBuild(s, xh)
	if berr != nil {
		g.Out = "build"
		return
	}
	ent := vEntry{C: cl.c, K: "req", Rid: rid, M: s.Method, H: s.Host, P: path, Bar: bar, N: fsz,
		AF: s.Method == http.MethodPost && s.Host == protocol.URLHost && path == protocol.URLPath}
	if s.HasA {
		ent.Auth = s.Auth
	}
	if s.HasRX {
		ent.CCRX = s.CCRX
	}
	cl.e.add(ent)
	ctx, cancel := context.WithTimeout(context.Background(), bound)
	defer cancel()
	resp, rerr := cl.h3.RoundTrip(req.WithContext(ctx))
	if rerr != nil {
		g.Out = "abort"
		if ctx.Err() != nil {
			g.Out = "noresp"
		}
	} else {
		b, berr := io.ReadAll(resp.Body)
		_ = resp.Body.Close()
		g.Have, g.St, g.Hdr, g.Body = true, resp.StatusCode, vCanonHeaders(resp.Header), b
		switch {
		case berr == nil:
			g.Out = "resp"
		case ctx.Err() != nil:
			g.Out = "noresp"
		default:
			g.Out = "abort"
		}
		if resp.StatusCode == protocol.StatusAuthOK {
			cl.mu.Lock()
			cl.authed = true
			cl.mu.Unlock()
		}
	}
	ost, ohdr, obody := vHOracle(cl.e.cfg.Masq, s, xh)
	x := vEntry{C: cl.c, K: "resp", Rid: rid, Status: -1, Bar: bar, Head: s.Method == "HEAD", OSt: ost, OHdr: ohdr, OBody: vHex(obody)}
	if g.Out == "resp" {
		x.Status, x.Hdr, x.Body = g.St, vShortHdr(g.Hdr), vHex(g.Body)
	} else {
		x.Err = g.Out
	}
	cl.e.add(x)
	return
}

const vHBound = 25 * time.Second

func vRunC02Big(cs vC02Case) (out vC02Out) {
	defer func() {
		if r := recover(); r != nil {
			out.Err = fmt.Sprint("harness panic: ", r)
		}
	}()
	e, err := vStartServerH(cs.Cfg)
	if err != nil {
		out.Err = "server: " + err.Error()
		return
	}
	defer e.stop()
	cl, err := vDial(e, 0)
	if err != nil {
		out.Err = "dial: " + err.Error()
		return
	}
	defer cl.shutdown()
	out.OK = true
	fail := func(s string) {
		if out.OK {
			out.OK = false
			out.Why = s
		}
	}
	defer func() { out.Log = e.snapshot() }()
	accepted := false
	dead := 0
	for i, s := range cs.Reqs {
		var xh []vHdrGen
		if i < len(cs.Xh) {
			xh = cs.Xh[i]
		}
		r := vC02Res{Rid: i + 1, M: s.Method, H: s.Host, Was: accepted}
		if s.HasA {
			r.Auth = s.Auth
		}
		if s.HasRX {
			r.CCRX = s.CCRX
		}
		_, path, fsz, nf, berr := vBigBuild(s, xh)
		if berr != nil {
			r.Skip, r.Err = true, "build"
			out.Rs = append(out.Rs, r)
			cl.rid++
			continue
		}
		r.P, r.Fsz, r.Hn = path, fsz, nf
		if dead >= 2 {
			r.Skip, r.Err, r.Out = true, "not sent: the connection no longer answers", "notsent"
			out.Rs = append(out.Rs, r)
			continue
		}
		ost, ohdr, obody := vHOracle(cs.Cfg.Masq, s, xh)
		r.OSt, r.OHdr, r.OBody = ost, ohdr, vHex(obody)
		from := len(e.snapshot())
		g, _, _ := cl.doReqH(s, xh, false, vHBound)
		r.Out = g.Out
		if g.Have {
			r.St, r.Hdr, r.Body = g.St, vShortHdr(g.Hdr), vHex(g.Body)
		}
		for _, x := range e.snapshot()[from:] {
			switch x.K {
			case "authcall":
				r.Called, r.CAuth, r.CRx = true, x.Auth, x.Rx
			case "authret":
				r.Acc, r.ID = x.OK, x.ID
			case "masq":
				r.Saw = x.M + "|" + x.H + "|" + x.P
			}
		}
		if r.Acc {
			accepted = true
		}
		isAuthForm := s.Method == "POST" && s.Host == protocol.URLHost && path == protocol.URLPath
		state := "no authentication accepted on this connection"
		if r.Was {
			state = "AFTER an accepted authentication on this connection"
		}
		kind := "not an auth request"
		if isAuthForm {
			kind = "auth request"
		}
		what := fmt.Sprintf("request #%d %s %q %q (%s; %d header fields, field section %d bytes; %s)", i+1, s.Method, s.Host, s.Target, kind, nf, fsz, state)
		if !isAuthForm && r.Called {
			fail(what + ": authenticator consulted for a request that is not POST hysteria /auth")
		}
		exempt := isAuthForm && (r.Acc || r.Was)
		if g.Out != "resp" {
			dead++
			if exempt {
				fail(fmt.Sprintf("%s: no complete response within %v (%s)", what, vHBound, g.Out))
			} else {
				fail(fmt.Sprintf("%s: no complete response within %v (%s; status received: %v %d); the masquerade handler alone answers %d",
					what, vHBound, g.Out, g.Have, g.St, ost))
			}
			out.Rs = append(out.Rs, r)
			continue
		}
		hdr := vShortHdr(g.Hdr)
		if exempt {
			if g.St != protocol.StatusAuthOK {
				fail(fmt.Sprintf("%s: accepted, but the response is %d", what, g.St))
			}
		} else {
			if g.St == protocol.StatusAuthOK {
				fail(what + ": status 233, although this request is not an accepted auth request")
			}
			for _, kv := range g.Hdr {
				if strings.HasPrefix(strings.ToLower(kv[0]), "hysteria-") {
					fail(what + ": Hysteria-specific response header " + kv[0])
				}
			}
			if g.St != ost {
				fail(fmt.Sprintf("%s: status %d, the masquerade handler alone answers %d", what, g.St, ost))
			}
			if !vHdrEq(hdr, ohdr) {
				fail(fmt.Sprintf("%s: headers %v, the masquerade handler alone answers %v", what, hdr, ohdr))
			}
			if s.Method != "HEAD" && string(g.Body) != string(obody) {
				fail(fmt.Sprintf("%s: body %q, the masquerade handler alone answers %q", what, g.Body, obody))
			}
			if cs.Cfg.Masq != 0 && r.Saw != s.Method+"|"+s.Host+"|"+path {
				fail(fmt.Sprintf("%s: the masquerade handler saw %q", what, r.Saw))
			}
		}
		out.Rs = append(out.Rs, r)
	}
	out.Authed = accepted
	if cs.Probe && dead == 0 {
		from := len(e.snapshot())
		cl.doStream(protocol.FrameTypeTCPRequest, "c0-probe-echo:80")
		cl.doDgram("c0-probeu:53")
		_, _, _ = cl.doReqH(vReqSpec{Method: "GET", Host: "barrier.example", Target: "/bh"}, nil, true, vHBound)
		if !accepted {
			time.Sleep(10 * time.Millisecond)
		}
		for _, x := range e.snapshot()[from:] {
			switch x.K {
			case "streamres":
				out.Stream = x.Res
				out.StreamN = x.N
			case "dgramreply":
				out.DReply++
			case "outtcp", "outudp", "relay", "udpwrite":
				out.OutCall++
			}
		}
		if !accepted {
			if out.StreamN > 0 {
				fail(fmt.Sprintf("unauthenticated proxy stream drew %d reply bytes (%s)", out.StreamN, out.Stream))
			}
			if out.DReply > 0 {
				fail("unauthenticated datagram drew a reply")
			}
			if out.OutCall > 0 {
				fail("outbound / relay call for an unauthenticated connection")
			}
		}
	}
	return
}
