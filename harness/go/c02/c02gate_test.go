//go:build verif

package integration_tests

// C02 harness, second kind of case ("gate"): ONE connection on which an auth request is inside
// Authenticator.Authenticate and the authenticator has not answered yet (a slow backend; here: a fake that
// blocks until the harness releases it).  While it is undecided, nothing has been accepted on the
// connection, so everything that arrives in that window - further auth requests with junk credentials,
// requests that are not auth requests, raw 0x401 streams, datagrams - must see the masquerade web server
// only.  Then the harness releases the authenticator (which accepts or rejects), waits for everything in
// flight, and goes on sequentially.
//
// The verdict is computed on the boundary log alone (the log is a linearisation consistent with real time:
// the authenticator logs its verdict BEFORE it returns it to the server, a client logs a response AFTER it
// has received it):
//   - a response logged while no Authenticate call on the connection has returned an accepting verdict is
//     exactly what the masquerade handler alone answers to that request (status, headers, body), is not 233
//     and carries no Hysteria-* header;
//   - a request that does not have the auth form gets the masquerade's response whenever it is sent;
//   - no reply byte on a proxy stream, no datagram reply, no outbound / relay call before an accepting verdict.

import (
	"fmt"
	"strconv"
	"strings"
	"sync"
	"time"

	"github.com/apernet/hysteria/core/v2/internal/protocol"
)

type vWinOp struct {
	A    string   `json:"a"` // req (awaited) | auth (auth request, sent and NOT awaited inside the window) | tcp | udp
	Req  vReqSpec `json:"req"`
	Ft   int64    `json:"ft"`
	Addr string   `json:"addr"`
}

func vIsAuthForm(s vReqSpec) bool {
	_, path, err := s.build()
	return err == nil && s.Method == "POST" && s.Host == protocol.URLHost && path == protocol.URLPath
}

func vRunC02Gate(cs vC02Case) (out vC02Out) {
	defer func() {
		if r := recover(); r != nil {
			out.Err = fmt.Sprint("harness panic: ", r)
		}
	}()
	if cs.First == nil || !vIsAuthForm(*cs.First) || !strings.Contains(cs.First.Auth, "hold") {
		out.Err = "gate case without a held auth request"
		return
	}
	e, err := vStartServer(cs.Cfg, nil)
	if err != nil {
		out.Err = "server: " + err.Error()
		return
	}
	defer e.stop()
	defer e.release()
	cl, err := vDial(e, 0)
	if err != nil {
		out.Err = "dial: " + err.Error()
		return
	}
	defer cl.shutdown()
	nbar := 0
	barrier := func() {
		nbar++
		_, _, _, _ = cl.doReq(vReqSpec{Method: "GET", Host: "barrier.example", Target: "/w" + strconv.Itoa(nbar)}, true)
	}
	var wg sync.WaitGroup
	async := func(s vReqSpec) {
		wg.Add(1)
		go func() {
			defer wg.Done()
			_, _, _, _ = cl.doReq(s, false)
		}()
	}
	seq := func(ops []vWinOp, window bool) {
		for _, op := range ops {
			switch op.A {
			case "req", "auth":
				if _, _, berr := op.Req.build(); berr != nil {
					continue
				}
				if window && (op.A == "auth" || vIsAuthForm(op.Req)) {
					async(op.Req) // on the unchanged code it waits for authMutex until the release
					time.Sleep(300 * time.Microsecond)
				} else {
					_, _, _, _ = cl.doReq(op.Req, false)
				}
			case "tcp":
				cl.doStream(op.Ft, op.Addr)
				if !window {
					barrier()
				}
			case "udp":
				cl.doDgram(op.Addr)
				if !window {
					barrier()
				}
			}
		}
	}
	// before the window: plain sequential requests
	for _, s := range cs.Reqs {
		if _, _, berr := s.build(); berr == nil {
			_, _, _, _ = cl.doReq(s, false)
		}
	}
	// the held auth request
	first := *cs.First
	async(first)
	held := e.waitFor(5*time.Second, func(l []vEntry) bool {
		for i := len(l) - 1; i >= 0; i-- {
			if l[i].K == "authcall" && l[i].Auth == first.Auth {
				return true
			}
		}
		return false
	})
	e.add(vEntry{C: 0, K: "window", OK: held})
	// the window
	seq(cs.Win, true)
	barrier()
	time.Sleep(3 * time.Millisecond)
	e.add(vEntry{C: 0, K: "release"})
	e.release()
	wg.Wait()
	// after it
	seq(cs.Post, false)
	if cs.Probe {
		cl.doStream(protocol.FrameTypeTCPRequest, "c0-probe-echo:80")
		cl.doDgram("c0-probeu:53")
		barrier()
	}
	time.Sleep(10 * time.Millisecond)
	out.Log = e.snapshot()
	out.OK, out.Why, out.Rs, out.Authed = vVerdictC02Gate(cs.Cfg, out.Log)
	for _, x := range out.Log {
		switch x.K {
		case "streamres":
			if x.Addr == "c0-probe-echo:80" {
				out.Stream, out.StreamN = x.Res, x.N
			}
		case "dgramreply":
			out.DReply++
		case "outtcp", "outudp", "relay", "udpwrite":
			out.OutCall++
		}
	}
	if !held && out.OK {
		out.OK, out.Why = false, "harness error: the held auth request never reached the authenticator"
	}
	return
}

// vVerdictC02Gate: the property's predicate on one connection's boundary log, requests possibly in flight concurrently.
func vVerdictC02Gate(cfg vCfg, log []vEntry) (ok bool, why string, rs []vC02Res, authed bool) {
	ok = true
	fail := func(s string) {
		if ok {
			ok, why = false, s
		}
	}
	type inflight struct {
		req      vEntry
		res      *vC02Res
		answered bool
	}
	var reqs []*inflight
	byRid := map[int]*inflight{}
	accepted := false // an Authenticate call on this connection has returned an accepting verdict
	var inCall, lastCall *inflight
	for _, x := range log {
		if x.C != 0 && x.K != "pol" {
			fail(fmt.Sprintf("seq %d: %s attributed to connection %d (the history has one connection)", x.S, x.K, x.C))
			continue
		}
		switch x.K {
		case "req":
			// (the harness's own ordering requests, Bar, are judged like any other request that is not an auth request)
			f := &inflight{req: x, res: &vC02Res{Rid: x.Rid, M: x.M, H: x.H, P: x.P, Auth: x.Auth, CCRX: x.CCRX}}
			reqs = append(reqs, f)
			byRid[x.Rid] = f
		case "authcall":
			// whose call: the oldest auth-form request in flight that presents these credentials and has not been put to the authenticator
			var who *inflight
			for _, f := range reqs {
				if !f.answered && f.req.AF && !f.res.Called && f.req.Auth == x.Auth {
					who = f
					break
				}
			}
			if who == nil {
				fail(fmt.Sprintf("seq %d: authenticator consulted (credentials %q) but no request of the auth form presenting them is in flight", x.S, x.Auth))
				inCall = nil
				continue
			}
			who.res.Called, who.res.CAuth, who.res.CRx, who.res.Was = true, x.Auth, x.Rx, accepted
			inCall = who
		case "authret":
			if inCall != nil {
				inCall.res.Acc, inCall.res.ID = x.OK, x.ID
			}
			lastCall, inCall = inCall, nil
			if x.OK {
				accepted = true
			}
		case "holdtimeout":
			fail("harness error: a held Authenticate call was never released")
		case "masq":
			same := func(f *inflight) bool {
				return !f.answered && f.res.Saw == "" && f.req.M == x.M && f.req.H == x.H && f.req.P == x.P
			}
			if lastCall != nil && same(lastCall) {
				// a rejected auth request is handed to the handler by the ServeHTTP that holds authMutex
				lastCall.res.Saw = x.M + "|" + x.H + "|" + x.P
				continue
			}
			for _, f := range reqs {
				if same(f) {
					f.res.Saw = x.M + "|" + x.H + "|" + x.P
					break
				}
			}
		case "resp":
			f := byRid[x.Rid]
			if f == nil {
				fail(fmt.Sprintf("seq %d: harness inconsistency: response without a request", x.S))
				continue
			}
			f.answered = true
			r := f.res
			if x.Status < 0 {
				r.Skip, r.Err = true, "roundtrip"
				continue
			}
			r.St, r.Hdr, r.Body, r.OSt, r.OHdr, r.OBody = x.Status, x.Hdr, x.Body, x.OSt, x.OHdr, x.OBody
			if !r.Called {
				r.Was = accepted
			}
			what := fmt.Sprintf("seq %d: request #%d %s %q %q", x.S, x.Rid, f.req.M, f.req.H, f.req.P)
			if !f.req.AF && r.Called {
				fail(what + ": authenticator consulted for a request that is not POST hysteria /auth")
			}
			exempt := f.req.AF && accepted
			if exempt {
				continue
			}
			when := "a request that is not an auth request"
			if !accepted {
				when = "no Authenticate call on this connection has returned an accepting verdict"
			}
			if x.Status == protocol.StatusAuthOK {
				fail(fmt.Sprintf("%s: status 233 (%s)", what, when))
			}
			for _, kv := range x.Hdr {
				if strings.HasPrefix(strings.ToLower(kv[0]), "hysteria-") {
					fail(fmt.Sprintf("%s: Hysteria-specific response header %s (%s)", what, kv[0], when))
				}
			}
			if x.Status != x.OSt {
				fail(fmt.Sprintf("%s: status %d, the masquerade handler alone answers %d (%s)", what, x.Status, x.OSt, when))
			}
			if !vHdrEq(x.Hdr, x.OHdr) {
				fail(fmt.Sprintf("%s: headers %v, the masquerade handler alone answers %v (%s)", what, x.Hdr, x.OHdr, when))
			}
			if !x.Head && x.Body != x.OBody {
				fail(fmt.Sprintf("%s: body %s, the masquerade handler alone answers %s (%s)", what, x.Body, x.OBody, when))
			}
			if cfg.Masq != 0 && r.Saw != f.req.M+"|"+f.req.H+"|"+f.req.P {
				fail(fmt.Sprintf("%s: the masquerade handler saw %q", what, r.Saw))
			}
		case "streamres":
			if x.N > 0 && !accepted {
				fail(fmt.Sprintf("seq %d: proxy stream %q drew %d reply bytes (%s) although no Authenticate call on this connection has returned an accepting verdict", x.S, x.Addr, x.N, x.Res))
			}
		case "outtcp", "outudp", "checkudp", "relay", "udpwrite", "evtcp", "evudp", "dgramreply":
			if !accepted {
				fail(fmt.Sprintf("seq %d: %s %q although no Authenticate call on this connection has returned an accepting verdict", x.S, x.K, x.Addr))
			}
		}
	}
	for _, f := range reqs {
		if !f.answered {
			f.res.Skip, f.res.Err = true, "unanswered"
		}
		if !f.req.Bar {
			rs = append(rs, *f.res)
		}
	}
	return ok, why, rs, accepted
}
