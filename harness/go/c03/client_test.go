//go:build verif

package client

// C03 harness, core/client: the datagram receive path of the client (udpIOImpl.ReceiveMessage's
// parse-or-skip loop replicated - its Conn is a concrete *quic.Conn; udpSessionManager.feed,
// NewUDP, close, closeCleanup, udpConn.Receive are the real code).

import (
	"encoding/json"
	"io"
	"strconv"
	"testing"

	"github.com/apernet/hysteria/core/v2/internal/frag"
	"github.com/apernet/hysteria/core/v2/internal/protocol"
)

type c03CIO struct{}

func (c03CIO) ReceiveMessage() (*protocol.UDPMessage, error)       { select {} }
func (c03CIO) SendMessage(b []byte, m *protocol.UDPMessage) error { return nil }

func c03NewMgr() *udpSessionManager {
	// newUDPSessionManager without its `go m.run()`: the harness plays the receive loop
	return &udpSessionManager{io: c03CIO{}, m: make(map[uint32]*udpConn), nextID: 1}
}

func c03SerC(m *protocol.UDPMessage) []byte {
	buf := make([]byte, m.Size())
	return buf[:m.Serialize(buf)]
}

func init() {
	c03Register(&c03EP{
		name:     "client.udpSessionManager.feed+Receive",
		stateful: true,
		hdr:      12,
		valid: func(r *c03Rng) [][]byte {
			al := r.pick([]int{1, 3, 63, 64})
			n := r.pick([]int{1, 1, 2, 3, 8, 40, 255})
			sid := uint32(1 + r.intn(3))
			pid := uint16(1 + r.intn(3))
			m := &protocol.UDPMessage{SessionID: sid, PacketID: pid, FragCount: 1, Addr: string(r.bytes(al)), Data: r.bytes(n * 3)}
			if n == 1 {
				return [][]byte{c03SerC(m)}
			}
			var out [][]byte
			for _, f := range frag.FragUDPMessage(m, m.HeaderSize()+3) {
				f := f
				out = append(out, c03SerC(&f))
			}
			return out
		},
		run: func(seq [][]byte) string {
			m := c03NewMgr()
			var conns []*udpConn
			for i := 0; i < 3; i++ {
				c, _ := m.NewUDP()
				conns = append(conns, c.(*udpConn))
			}
			got := 0
			// one reader goroutine per conn, as an application would have; its panics are forwarded
			type rres struct {
				n   int
				pan any
			}
			done := make(chan rres, len(conns))
			for _, c := range conns {
				c := c
				go func() {
					n := 0
					defer func() { done <- rres{n, recover()} }()
					for {
						_, _, err := c.Receive()
						if err != nil {
							return
						}
						n++
					}
				}()
			}
			for i, b := range seq {
				msg, err := protocol.ParseUDPMessage(b)
				if err != nil {
					continue
				}
				m.feed(msg)
				if (i+len(b))%37 == 11 {
					_ = conns[i%3].Close()
				}
				if (i+len(b))%41 == 13 {
					if c, err := m.NewUDP(); err == nil {
						_ = c
					}
				}
			}
			m.closeCleanup()
			for _, c := range conns {
				_ = c.Close()
			}
			for range conns {
				r := <-done
				if r.pan != nil {
					panic(r.pan)
				}
				got += r.n
			}
			if _, err := m.NewUDP(); err == nil {
				panic("NewUDP succeeded after closeCleanup")
			}
			if got > 0 {
				return "received"
			}
			return "nothing"
		},
	})
}

// ---------------------------------------------------------------- model comparison (gap a)
type c03CliAct struct {
	A   string `json:"a"`
	Hex string `json:"hex"`
	H   int    `json:"h"`
}

func c03Cli(raw json.RawMessage, res map[string]any) {
	var c struct {
		Acts []c03CliAct `json:"acts"`
	}
	if err := json.Unmarshal(raw, &c); err != nil {
		panic(err)
	}
	m := c03NewMgr()
	var conns []*udpConn
	outs := [][]any{}
	p, msg := vCatch(func() {
		for _, a := range c.Acts {
			switch a.A {
			case "dgram":
				if m.closed {
					outs = append(outs, []any{"none"})
					continue
				}
				pm, err := protocol.ParseUDPMessage(vUnhex(a.Hex))
				if err != nil {
					outs = append(outs, []any{"dropped"})
					continue
				}
				before := map[int]int{}
				for h, cn := range conns {
					before[h] = len(cn.ReceiveCh)
				}
				m.feed(pm)
				row := []any{"dropped"}
				for h, cn := range conns {
					if len(cn.ReceiveCh) > before[h] {
						row = []any{"queued", h}
					}
				}
				outs = append(outs, row)
			case "open":
				cn, err := m.NewUDP()
				if err != nil {
					outs = append(outs, []any{"refused"})
					continue
				}
				conns = append(conns, cn.(*udpConn))
				outs = append(outs, []any{"opened", len(conns) - 1, cn.(*udpConn).ID})
			case "close":
				if a.H < len(conns) {
					_ = conns[a.H].Close()
				}
				outs = append(outs, []any{"none"})
			case "receive":
				if a.H >= len(conns) {
					outs = append(outs, []any{"none"})
					continue
				}
				cn := conns[a.H]
				if cn.Closed {
					// a closed channel still hands out what was queued; it cannot be refilled, so the
					// queue is moved aside and one loop iteration is played per action
					for len(cn.ReceiveCh) > 0 {
						c03Pending[cn] = append(c03Pending[cn], <-cn.ReceiveCh)
					}
					if len(c03Pending[cn]) == 0 {
						if _, _, err := cn.Receive(); err != io.EOF {
							panic("Receive on a closed conn did not return io.EOF")
						}
						outs = append(outs, []any{"eof"})
						continue
					}
					head := c03Pending[cn][0]
					c03Pending[cn] = c03Pending[cn][1:]
					if df := cn.D.Feed(head); df != nil {
						outs = append(outs, []any{"data", len(df.Addr), vDigest([]byte(df.Addr)), len(df.Data), vDigest(df.Data)})
					} else {
						outs = append(outs, []any{"more"})
					}
					continue
				}
				if len(cn.ReceiveCh) == 0 {
					outs = append(outs, []any{"blocked"})
					continue
				}
				// peek the head of the channel (no concurrent access here): Receive returns at once
				// for an unfragmented message; for a fragment one loop iteration is played
				// (msg := <-ReceiveCh; D.Feed(msg)) because the real loop would block for more
				var q []*protocol.UDPMessage
				for len(cn.ReceiveCh) > 0 {
					q = append(q, <-cn.ReceiveCh)
				}
				refill := func(ms []*protocol.UDPMessage) {
					for _, x := range ms {
						cn.ReceiveCh <- x
					}
				}
				if q[0].FragCount <= 1 {
					refill(q)
					d, ad, err := cn.Receive()
					if err != nil {
						panic("Receive failed: " + err.Error())
					}
					outs = append(outs, []any{"data", len(ad), vDigest([]byte(ad)), len(d), vDigest(d)})
				} else {
					df := cn.D.Feed(q[0])
					refill(q[1:])
					if df != nil {
						outs = append(outs, []any{"data", len(df.Addr), vDigest([]byte(df.Addr)), len(df.Data), vDigest(df.Data)})
					} else {
						outs = append(outs, []any{"more"})
					}
				}
			case "recverr":
				if !m.closed {
					m.closeCleanup()
				}
				outs = append(outs, []any{"none"})
			}
		}
	})
	res["outs"] = outs
	res["panic"] = p
	res["ok"] = !p
	res["why"] = ""
	if p {
		res["why"] = "panic in the client UDP receive path: " + msg
	}
}

var c03Pending = map[*udpConn][]*protocol.UDPMessage{}

func TestVerifC03(t *testing.T) {
	vParams(t, [][3]string{{"cl_udpMessageChanSize", "N", strconv.Itoa(udpMessageChanSize)}})
	c03Main(t, func(kind string, raw json.RawMessage, res map[string]any) bool {
		if kind == "cli" {
			c03Cli(raw, res)
			return true
		}
		return false
	})
}
