//go:build verif

package frag

// C03 harness, core/internal/frag: Defragger.Feed on sequences of parsed datagrams (attacker-chosen
// packet ids, fragment ids and counts) and FragUDPMessage on the reply path's degrees of freedom
// (address length, payload length, quic-go's size limit).

import (
	"encoding/binary"
	"testing"

	"github.com/apernet/hysteria/core/v2/internal/protocol"
)

func c03Ser(m *protocol.UDPMessage) []byte {
	buf := make([]byte, m.Size())
	n := m.Serialize(buf)
	return buf[:n]
}

// input of the FragUDPMessage entry point: int16 maxSize | uint16 addrLen | uint16 dataLen
func c03FragArgs(b []byte) (maxSize, al, dl int) {
	var x [6]byte
	copy(x[:], b)
	maxSize = int(int16(binary.BigEndian.Uint16(x[0:])))
	al = int(binary.BigEndian.Uint16(x[2:])) % 2100
	dl = int(binary.BigEndian.Uint16(x[4:]))
	return
}

func c03FragIn(maxSize, al, dl int) []byte {
	b := make([]byte, 6)
	binary.BigEndian.PutUint16(b[0:], uint16(int16(maxSize)))
	binary.BigEndian.PutUint16(b[2:], uint16(al))
	binary.BigEndian.PutUint16(b[4:], uint16(dl))
	return b
}

func c03HdrSize(al int) int {
	m := protocol.UDPMessage{Addr: string(make([]byte, al))}
	return m.HeaderSize()
}

func init() {
	c03Register(&c03EP{
		name:     "Defragger.Feed",
		stateful: true,
		hdr:      12,
		valid: func(r *c03Rng) [][]byte {
			al := r.pick([]int{1, 3, 63, 64})
			n := r.pick([]int{1, 2, 3, 5, 8, 40, 255})
			budget := 1 + r.intn(9)
			dl := budget*n - r.intn(budget)
			if dl < 1 {
				dl = 1
			}
			m := &protocol.UDPMessage{SessionID: uint32(r.intn(3)), PacketID: uint16(1 + r.intn(3)), FragCount: 1,
				Addr: string(r.bytes(al)), Data: r.bytes(dl)}
			var out [][]byte
			for _, f := range FragUDPMessage(m, c03HdrSize(al)+budget) {
				f := f
				out = append(out, c03Ser(&f))
			}
			return out
		},
		boundary: func() [][][]byte {
			// every (fragID, fragCount) pair around the interesting values, same and differing packet ids
			var out [][][]byte
			vals := []byte{0, 1, 2, 3, 127, 128, 254, 255}
			mk := func(pid uint16, id, cnt byte) []byte {
				return c03Ser(&protocol.UDPMessage{SessionID: 1, PacketID: pid, FragID: id, FragCount: cnt, Addr: "a", Data: []byte{id}})
			}
			for _, c1 := range vals {
				for _, i1 := range vals {
					for _, c2 := range vals {
						out = append(out, [][]byte{mk(7, i1, c1), mk(7, 0, c2), mk(7, c2-1, c2), mk(8, i1, c2), mk(7, i1, c1)})
					}
				}
			}
			// a full 255-fragment message, in order and reversed, then once more
			var full, rev [][]byte
			for i := 0; i < 255; i++ {
				full = append(full, mk(9, byte(i), 255))
			}
			for i := 254; i >= 0; i-- {
				rev = append(rev, mk(9, byte(i), 255))
			}
			out = append(out, full, rev, append(append([][]byte(nil), full...), full...))
			return out
		},
		run: func(seq [][]byte) string {
			d := &Defragger{}
			emitted := 0
			for _, b := range seq {
				m, err := protocol.ParseUDPMessage(b)
				if err != nil {
					continue
				}
				if r := d.Feed(m); r != nil {
					emitted++
					_ = r.Size()
				}
			}
			if emitted > 0 {
				return "emitted"
			}
			return "nothing"
		},
	})
	c03Register(&c03EP{
		name: "FragUDPMessage",
		valid: func(r *c03Rng) [][]byte {
			al := r.pick([]int{1, 63, 64, 255, 2048})
			budget := 1 + r.intn(40)
			return [][]byte{c03FragIn(c03HdrSize(al)+budget, al, 1+r.intn(60000))}
		},
		boundary: func() [][][]byte {
			var out [][]byte
			for _, al := range []int{1, 63, 64, 255, 2048} {
				h := c03HdrSize(al)
				for _, budget := range []int{1, 2, 7, 100, 256, 257} {
					for _, dl := range []int{0, 1, budget - 1, budget, budget + 1, 254*budget + 1, 255 * budget, 255*budget + 1, 256 * budget, 256*budget + 1, 300 * budget, 511 * budget, 512*budget + 1, 65535} {
						if dl >= 0 && dl <= 65535 {
							out = append(out, c03FragIn(h+budget, al, dl))
						}
					}
				}
				for _, mx := range []int{-32768, -1, 0, 1, h - 1, h, h + 1} {
					out = append(out, c03FragIn(mx, al, 50))
				}
			}
			return c03One(out...)
		},
		run: func(seq [][]byte) string {
			maxSize, al, dl := c03FragArgs(seq[0])
			m := &protocol.UDPMessage{SessionID: 1, PacketID: 0, FragID: 0, FragCount: 1, Addr: string(make([]byte, al)), Data: make([]byte, dl)}
			fs := FragUDPMessage(m, maxSize)
			buf := make([]byte, protocol.MaxUDPSize)
			for i := range fs {
				_ = fs[i].Serialize(buf)
			}
			switch {
			case len(fs) == 0:
				return "discard"
			case len(fs) == 1:
				return "whole"
			}
			return "split"
		},
		facts: func(seq [][]byte) map[string]any {
			maxSize, al, dl := c03FragArgs(seq[0])
			budget := maxSize - c03HdrSize(al)
			cnt := 0
			if budget > 0 {
				cnt = (dl + budget - 1) / budget
			}
			return map[string]any{"max": maxSize, "al": al, "dl": dl, "budget": budget, "count": cnt}
		},
	})
}

func TestVerifC03(t *testing.T) {
	c03Main(t, nil)
}
