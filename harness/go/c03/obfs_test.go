//go:build verif

package obfs

// C03 harness, extras/obfs: Salamander Obfuscate/Deobfuscate with every buffer relation, the obfs
// conn's ReadFrom drop-and-retry loop, Gecko decodeFrame and the Gecko receiver (ReadFrom ->
// decodeFrame -> acceptChunk, eviction, per-source cap) both on raw frames and through the full
// Salamander+Gecko stack.

import (
	"encoding/json"
	"errors"
	"net"
	"testing"
	"time"
)

// ---- model-comparison cases for the Gecko receiver ("gk"): a sequence of inner datagrams (source, bytes) is fed to a
// real geckoPacketConn through a scripted inner conn; ReadFrom is called with a buffer of rbuf bytes until the script is
// exhausted.  Reported: for every packet ReadFrom returned, the index of the datagram whose arrival completed it, its
// source, its length and digest.  The driver compares with run_p of coq/model/C03_Gecko.v (the transcription with every
// panic site and every make() explicit), which must not reach a Panic site and must keep every allocation in its cap.
type c03GkPkt struct {
	Src int      `json:"src"`
	Hex string   `json:"hex"`
	G   []uint64 `json:"g"` // optional tail: byte i = a*i+b mod 256, n bytes
}

type c03GkCase struct {
	K    string     `json:"k"`
	Rbuf int        `json:"rbuf"`
	Pkts []c03GkPkt `json:"pkts"`
}

func c03GkRun(raw json.RawMessage, res map[string]any) {
	var c c03GkCase
	if err := json.Unmarshal(raw, &c); err != nil {
		panic(err)
	}
	pc := &c03PC{}
	for _, k := range c.Pkts {
		b := vUnhex(k.Hex)
		if len(k.G) == 3 {
			b = append(b, vGenData(k.G[0], k.G[1], int(k.G[2]))...)
		}
		pc.in = append(pc.in, c03Pkt{data: c03Exact(b), from: &net.UDPAddr{IP: net.IPv4(10, 9, byte(k.Src>>8), byte(k.Src)), Port: 4000 + k.Src}})
	}
	total := len(pc.in)
	outs := [][]uint64{}
	ok, why := true, ""
	panicked, msg := vCatch(func() {
		g := newGeckoPacketConn(pc, 64, 1200)
		defer g.Close()
		for {
			p := make([]byte, c.Rbuf)
			n, addr, err := g.ReadFrom(p)
			if err != nil {
				return
			}
			if n > len(p) {
				ok, why = false, "ReadFrom returned n > len(p)"
				return
			}
			ua := addr.(*net.UDPAddr)
			outs = append(outs, []uint64{uint64(total - len(pc.in) - 1), uint64(ua.Port - 4000), uint64(n), vDigest(p[:n])})
		}
	})
	if panicked {
		ok, why = false, "panic: "+msg
		res["panic"] = true
	}
	res["outs"] = outs
	res["ok"], res["why"] = ok, why
}

type c03Pkt struct {
	data []byte
	from net.Addr
	err  error
}

// in-memory net.PacketConn: ReadFrom hands out the scripted datagrams (truncated to len(p), as a
// UDP socket does), then an error
type c03PC struct {
	in   []c03Pkt
	sent [][]byte
}

func (c *c03PC) ReadFrom(p []byte) (int, net.Addr, error) {
	if len(c.in) == 0 {
		return 0, nil, errors.New("script exhausted")
	}
	k := c.in[0]
	c.in = c.in[1:]
	if k.err != nil {
		return copy(p, k.data), k.from, k.err
	}
	return copy(p, k.data), k.from, nil
}
func (c *c03PC) WriteTo(p []byte, a net.Addr) (int, error) {
	c.sent = append(c.sent, append([]byte(nil), p...))
	return len(p), nil
}
func (c *c03PC) Close() error                       { return nil }
func (c *c03PC) LocalAddr() net.Addr                { return &net.UDPAddr{IP: net.IPv4(127, 0, 0, 1), Port: 1} }
func (c *c03PC) SetDeadline(t time.Time) error      { return nil }
func (c *c03PC) SetReadDeadline(t time.Time) error  { return nil }
func (c *c03PC) SetWriteDeadline(t time.Time) error { return nil }

func c03Src(i int) net.Addr { return &net.UDPAddr{IP: net.IPv4(10, 0, 0, byte(i%12)), Port: 1000 + i%12} }

var c03PSK = []byte("c03-pre-shared-key")

func c03Obf(p []byte) []byte {
	ob, _ := newSalamanderObfuscator(c03PSK)
	out := make([]byte, len(p)+smSaltLen)
	n := ob.Obfuscate(p, out)
	return out[:n]
}

// the datagrams a Gecko sender emits for one long-header packet (plaintext frames, no Salamander)
func c03GeckoFrames(r *c03Rng, plain bool) [][]byte {
	pc := &c03PC{}
	var g net.PacketConn
	if plain {
		g = newGeckoPacketConn(pc, 64, 1200)
	} else {
		var err error
		g, err = WrapPacketConnGecko(pc, GeckoOptions{Password: c03PSK, MinPacketSize: 64, MaxPacketSize: 1200})
		if err != nil {
			panic(err)
		}
	}
	defer g.Close()
	p := r.bytes(r.pick([]int{1, 7, 8, 9, 100, 1200, 1500}))
	p[0] |= 0x80
	if r.intn(6) == 0 {
		p[0] &^= 0x80 // short header: passes through
	}
	_, _ = g.WriteTo(p, c03Src(0))
	return pc.sent
}

func c03ReadAll(conn net.PacketConn, sizes []int) int {
	got := 0
	for i := 0; ; i++ {
		p := make([]byte, sizes[i%len(sizes)])
		n, _, err := conn.ReadFrom(p)
		if err != nil {
			return got
		}
		if n > len(p) {
			panic("ReadFrom returned n > len(p)")
		}
		got++
	}
}

func c03Script(seq [][]byte) []c03Pkt {
	var in []c03Pkt
	for i, b := range seq {
		// one source for the whole sequence (so that fragments meet) or many sources (caps, eviction)
		src := c03Src(len(seq))
		if len(seq)%2 == 1 {
			src = c03Src(i/3 + len(b))
		}
		k := c03Pkt{data: b, from: src}
		if len(b)%29 == 7 {
			k.err = errors.New("icmp")
		}
		in = append(in, k)
	}
	return in
}

func init() {
	c03Register(&c03EP{
		name:  "obfs.salamander.Deobfuscate",
		valid: func(r *c03Rng) [][]byte { return [][]byte{c03Obf(r.bytes(r.pick([]int{1, 2, 31, 32, 33, 64, 1200, 2040})))} },
		run: func(seq [][]byte) string {
			ob, _ := newSalamanderObfuscator(c03PSK)
			cls := "drop"
			n0 := len(seq[0])
			for _, osz := range []int{0, 1, n0 - 9, n0 - 8, n0 - 7, n0, n0 + 8, 2048} {
				if osz < 0 {
					continue
				}
				out := make([]byte, osz)
				if n := ob.Deobfuscate(c03Exact(seq[0]), out); n > 0 {
					cls = "ok"
					if n > osz {
						panic("Deobfuscate returned more than the out buffer holds")
					}
				}
				out2 := make([]byte, osz)
				if n := ob.Obfuscate(c03Exact(seq[0]), out2); n > osz {
					panic("Obfuscate returned more than the out buffer holds")
				}
			}
			return cls
		},
	})
	c03Register(&c03EP{
		name:     "obfs.obfsPacketConn.ReadFrom",
		stateful: true,
		valid: func(r *c03Rng) [][]byte {
			var out [][]byte
			for i := 0; i <= r.intn(4); i++ {
				out = append(out, c03Obf(r.bytes(r.pick([]int{1, 20, 1200, 2040, 2041, 3000}))))
			}
			return out
		},
		run: func(seq [][]byte) string {
			conn, err := WrapPacketConnSalamander(&c03PC{in: c03Script(seq)}, c03PSK)
			if err != nil {
				panic(err)
			}
			if c03ReadAll(conn, []int{2048, 1500, 0, 1, 8, 9, 4096}) > 0 {
				return "surfaced"
			}
			return "nothing"
		},
	})
	c03Register(&c03EP{
		name: "obfs.gecko.decodeFrame",
		hdr:  8,
		valid: func(r *c03Rng) [][]byte {
			fs := c03GeckoFrames(r, true)
			return [][]byte{fs[r.intn(len(fs))]}
		},
		boundary: func() [][][]byte {
			var out [][]byte
			for _, b2 := range []byte{0x00, 0x01, 0x02, 0x12, 0x22, 0x08, 0x78, 0x88, 0x09, 0xff, 0xf8} {
				for _, pad := range []int{0, 1, 2, 3, 2042, 2043, 2044, 65535} {
					for _, have := range []int{0, 1, pad - 1, pad, pad + 1} {
						if have >= 0 && have <= 3000 {
							out = append(out, c03Cat([]byte{0x80, 7, b2, byte(pad >> 8), byte(pad)}, c03Fill(have, 9)))
						}
					}
				}
			}
			return c03One(out...)
		},
		run: func(seq [][]byte) string {
			h, pl, err := decodeFrame(seq[0])
			if err != nil {
				return "err"
			}
			if h.chunkIdx >= h.totalChunks || h.totalChunks > geckoMaxFragmentChunks || len(pl) > len(seq[0]) {
				panic("decodeFrame accepted an out-of-range header")
			}
			return "ok"
		},
	})
	geckoRun := func(plain bool) func(seq [][]byte) string {
		return func(seq [][]byte) string {
			pc := &c03PC{in: c03Script(seq)}
			var g net.PacketConn
			if plain {
				g = newGeckoPacketConn(pc, 64, 1200)
			} else {
				g, _ = WrapPacketConnGecko(pc, GeckoOptions{Password: c03PSK, MinPacketSize: 64, MaxPacketSize: 1200})
			}
			defer g.Close()
			got := c03ReadAll(g, []int{2048, 1500, 0, 1, 4096})
			var gg *geckoPacketConn
			if plain {
				gg = g.(*geckoPacketConn)
			}
			if gg != nil {
				gg.gcExpired(time.Now().Add(time.Hour))
				if len(gg.reassembly) != 0 || len(gg.perSource) != 0 {
					panic("gecko receiver state not empty after expiry")
				}
			}
			if got > 0 {
				return "surfaced"
			}
			return "nothing"
		}
	}
	c03Register(&c03EP{
		name:     "obfs.geckoPacketConn.ReadFrom(frames)",
		stateful: true,
		hdr:      8,
		valid:    func(r *c03Rng) [][]byte { return c03GeckoFrames(r, true) },
		boundary: func() [][][]byte {
			// more than 8 pending messages from one source, and all 256 message ids
			var many [][]byte
			for id := 0; id < 256; id++ {
				many = append(many, []byte{0x80, byte(id), 0x02, 0, 0, 1})
			}
			var same [][]byte
			for i := 0; i < 30; i++ {
				same = append(same, []byte{0x80, 1, byte(i%8)<<4 | 8, 0, 0, byte(i)}, []byte{0x80, 1, byte(i%3)<<4 | 3, 0, 0, byte(i)})
			}
			return [][][]byte{many, same}
		},
		run: geckoRun(true),
	})
	c03Register(&c03EP{
		name:     "obfs.WrapPacketConnGecko.ReadFrom(stack)",
		stateful: true,
		valid:    func(r *c03Rng) [][]byte { return c03GeckoFrames(r, false) },
		run:      geckoRun(false),
	})
}

func TestVerifC03(t *testing.T) {
	c03Main(t, func(kind string, raw json.RawMessage, res map[string]any) bool {
		if kind != "gk" {
			return false
		}
		c03GkRun(raw, res)
		return true
	})
}
