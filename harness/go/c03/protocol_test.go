//go:build verif

package protocol

// C03 harness, core/internal/protocol: ParseUDPMessage (+ Serialize of what it accepts),
// ReadTCPRequest, ReadTCPResponse on scripted readers.

import (
	"bytes"
	"errors"
	"io"
	"testing"
)

func c03ErrClass(err error) string {
	if err == nil {
		return "ok"
	}
	if errors.Is(err, io.EOF) || errors.Is(err, io.ErrUnexpectedEOF) {
		return "eof"
	}
	return "invalid"
}

func c03ValidUDP(r *c03Rng) []byte {
	al := r.pick([]int{1, 2, 5, 63, 64, 300, 2047, 2048})
	dl := r.pick([]int{1, 2, 10, 100, 1200})
	m := &UDPMessage{SessionID: uint32(r.next()), PacketID: uint16(r.next()), FragID: uint8(r.next()), FragCount: uint8(r.next()),
		Addr: string(r.bytes(al)), Data: r.bytes(dl)}
	buf := make([]byte, m.Size())
	n := m.Serialize(buf)
	return buf[:n]
}

func c03LenBoundaries(prefix []byte, limit uint64, tails []int) [][]byte {
	var out [][]byte
	for _, v := range c03Varints(limit) {
		for _, tl := range tails {
			out = append(out, c03Cat(prefix, v, c03Fill(tl, 0x61)))
		}
	}
	return out
}

func init() {
	c03Register(&c03EP{
		name:  "ParseUDPMessage",
		valid: func(r *c03Rng) [][]byte { return [][]byte{c03ValidUDP(r)} },
		boundary: func() [][][]byte {
			hdr := []byte{0, 0, 0, 1, 0, 2, 0, 1}
			return c03One(c03LenBoundaries(hdr, MaxMessageLength, []int{0, 1, 2, 2047, 2048, 2049, 2050})...)
		},
		run: func(seq [][]byte) string {
			m, err := ParseUDPMessage(seq[0])
			if err != nil {
				return c03ErrClass(err)
			}
			// what was accepted must serialize again into any buffer without panicking
			for _, sz := range []int{m.Size(), m.Size() - 1, 0, 7, 8, 9, m.HeaderSize(), MaxUDPSize} {
				if sz < 0 {
					continue
				}
				buf := make([]byte, sz)
				n := m.Serialize(buf)
				if sz >= m.Size() && !bytes.Equal(buf[:n], seq[0]) && len(seq[0]) == m.Size() {
					// non-minimal address length encodings re-serialize minimally: only lengths must agree
					if n > len(seq[0]) {
						panic("Serialize produced more bytes than were parsed")
					}
				}
			}
			return "ok"
		},
	})
	readerModes := func(b []byte, f func(r io.Reader) error) string {
		cls := ""
		for mode := 0; mode < 4; mode++ {
			for _, fin := range []error{io.EOF, errors.New("reset")} {
				err := f(&c03Reader{data: append([]byte(nil), b...), mode: mode, fin: fin, seed: uint64(len(b)) + 77})
				if mode == 0 && fin == io.EOF {
					cls = c03ErrClass(err)
				}
			}
		}
		return cls
	}
	c03Register(&c03EP{
		name: "ReadTCPRequest",
		valid: func(r *c03Rng) [][]byte {
			var w bytes.Buffer
			_ = WriteTCPRequest(&w, string(r.bytes(r.pick([]int{1, 10, 63, 64, 2048}))))
			return [][]byte{w.Bytes()[2:]} // after the 0x401 frame type, as the server calls it
		},
		boundary: func() [][][]byte {
			var out [][]byte
			out = append(out, c03LenBoundaries(nil, MaxAddressLength, []int{0, 1, 2047, 2048, 2049})...)
			// valid address, padding length boundaries
			out = append(out, c03LenBoundaries([]byte{3, 'a', ':', '1'}, MaxPaddingLength, []int{0, 1, 4095, 4096, 4097})...)
			return c03One(out...)
		},
		run: func(seq [][]byte) string {
			return readerModes(seq[0], func(r io.Reader) error { _, err := ReadTCPRequest(r); return err })
		},
	})
	c03Register(&c03EP{
		name: "ReadTCPResponse",
		valid: func(r *c03Rng) [][]byte {
			var w bytes.Buffer
			_ = WriteTCPResponse(&w, r.intn(2) == 0, string(r.bytes(r.pick([]int{0, 1, 10, 2048}))))
			return [][]byte{w.Bytes()}
		},
		boundary: func() [][][]byte {
			var out [][]byte
			for _, st := range []byte{0, 1, 2, 0xff} {
				out = append(out, c03LenBoundaries([]byte{st}, MaxMessageLength, []int{0, 1, 2047, 2048, 2049})...)
			}
			out = append(out, c03LenBoundaries([]byte{0, 2, 'o', 'k'}, MaxPaddingLength, []int{0, 1, 4095, 4096, 4097})...)
			return c03One(out...)
		},
		run: func(seq [][]byte) string {
			return readerModes(seq[0], func(r io.Reader) error { _, _, err := ReadTCPResponse(r); return err })
		},
	})
}

func TestVerifC03(t *testing.T) {
	c03Main(t, nil)
}
