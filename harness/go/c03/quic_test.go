//go:build verif

package quic

// C03 harness, extras/sniff/internal/quic: ParseInitialHeader, ReadCryptoPayload,
// PacketProtector.UnProtect (any offset), extractCryptoFrames, assembleCryptoFrames.

import (
	"bytes"
	"encoding/binary"
	"testing"
)

func c03HeaderBoundaries() [][]byte {
	var out [][]byte
	for _, first := range []byte{0xc0, 0xc3, 0xd0, 0x40, 0x00, 0xff, 0x80} {
		for _, ver := range []uint32{0, 1, 0x6b3343cf, 0xffffffff} {
			base := []byte{first}
			base = binary.BigEndian.AppendUint32(base, ver)
			for _, dl := range []int{0, 1, 8, 20, 21, 255} {
				for _, have := range []int{0, dl - 1, dl} {
					if have < 0 {
						continue
					}
					h := c03Cat(base, []byte{byte(dl)}, c03Fill(have, 0x11))
					out = append(out, h)
					if have == dl {
						h2 := c03Cat(h, []byte{0})
						// token length boundaries, then length boundaries
						for _, tv := range c03Varints(0) {
							out = append(out, c03Cat(h2, tv), c03Cat(h2, tv, c03Fill(3, 0x22)))
						}
						for _, lv := range c03Varints(0) {
							out = append(out, c03Cat(h2, []byte{0}, lv), c03Cat(h2, []byte{0}, lv, c03Fill(19, 0x33)), c03Cat(h2, []byte{0}, lv, c03Fill(40, 0x33)))
						}
					}
				}
			}
		}
	}
	return out
}

// input of the UnProtect entry point: int16 pnOffset | packet
func c03UnprotectArgs(b []byte) (int64, []byte) {
	if len(b) < 2 {
		return 0, b
	}
	off := int64(int16(binary.BigEndian.Uint16(b)))
	if off < 0 {
		off = -off % 64
	}
	return off, b[2:]
}

// input of assembleCryptoFrames: records of uint62 offset | uint16 length
func c03FramesFrom(b []byte) []cryptoFrame {
	var fs []cryptoFrame
	for len(b) >= 10 && len(fs) < 40 {
		// offsets are what extractCryptoFrames can produce: a QUIC varint, 0 .. 2^62-1
		off := int64(binary.BigEndian.Uint64(b) & (1<<62 - 1))
		l := int(binary.BigEndian.Uint16(b[8:])) % 3000
		fs = append(fs, cryptoFrame{Offset: off, Data: make([]byte, l)})
		b = b[10:]
	}
	return fs
}

func c03FrameRec(off int64, l int) []byte {
	b := binary.BigEndian.AppendUint64(nil, uint64(off))
	return binary.BigEndian.AppendUint16(b, uint16(l))
}

func c03ShortFacts(pkt []byte) map[string]any {
	f := map[string]any{"len": len(pkt)}
	if hdr, off, err := ParseInitialHeader(append([]byte(nil), pkt...)); err == nil {
		f["offset"] = off
		f["length"] = hdr.Length
		f["long"] = len(pkt) > 0 && pkt[0]&0x80 != 0
		f["short_for_sample"] = off+hdr.Length < off+4+16
	}
	return f
}

func init() {
	c03Register(&c03EP{
		name:     "quic.ParseInitialHeader",
		hdr:      48,
		valid:    func(r *c03Rng) [][]byte { return [][]byte{c03ValidInitial(r)} },
		boundary: func() [][][]byte { return c03One(c03HeaderBoundaries()...) },
		run: func(seq [][]byte) string {
			h, n, err := ParseInitialHeader(seq[0])
			if err != nil {
				return "err"
			}
			if n < 0 || n > int64(len(seq[0])) || h.Length < 0 {
				panic("ParseInitialHeader returned an offset/length out of range")
			}
			return "ok"
		},
	})
	c03Register(&c03EP{
		name:     "quic.ReadCryptoPayload",
		hdr:      48,
		valid:    func(r *c03Rng) [][]byte { return [][]byte{c03ValidInitial(r)} },
		boundary: func() [][][]byte {
			out := c03HeaderBoundaries()
			// the defect of the pinned tree: no long-header bit, tiny Length
			out = append(out, []byte{0x40, 0, 0, 0, 1, 0, 0, 0, 1, 0xaa})
			for _, l := range []int{1, 2, 4, 15, 16, 19, 20, 21} {
				for _, first := range []byte{0x40, 0x43, 0xc0, 0xc3} {
					out = append(out, c03Cat([]byte{first, 0, 0, 0, 1, 0, 0, 0}, c03VarintW(uint64(l), 1), c03Fill(l, 0xaa)))
				}
			}
			return c03One(out...)
		},
		run: func(seq [][]byte) string {
			orig := append([]byte(nil), seq[0]...)
			pl, err := ReadCryptoPayload(seq[0])
			if !bytes.Equal(orig, seq[0]) {
				panic("ReadCryptoPayload modified the caller's packet")
			}
			if err != nil {
				return "err"
			}
			_ = pl
			return "ok"
		},
		facts: func(seq [][]byte) map[string]any { return c03ShortFacts(seq[0]) },
	})
	c03Register(&c03EP{
		name:  "quic.UnProtect",
		hdr:   48,
		valid: func(r *c03Rng) [][]byte {
			p := c03ValidInitial(r)
			_, off, err := ParseInitialHeader(append([]byte(nil), p...))
			if err != nil {
				off = int64(r.intn(40))
			}
			return [][]byte{c03Cat(binary.BigEndian.AppendUint16(nil, uint16(off)), p)}
		},
		boundary: func() [][][]byte {
			var out [][]byte
			for off := 0; off <= 24; off++ {
				for _, l := range []int{0, 1, off, off + 1, off + 4, off + 19, off + 20, off + 21, off + 36, off + 37} {
					for _, first := range []byte{0x00, 0x43, 0xc0, 0xc3} {
						p := c03Fill(l, 0x5a)
						if l > 0 {
							p[0] = first
						}
						out = append(out, c03Cat(binary.BigEndian.AppendUint16(nil, uint16(off)), p))
					}
				}
			}
			return c03One(out...)
		},
		run: func(seq [][]byte) string {
			off, pkt := c03UnprotectArgs(seq[0])
			secret := make([]byte, 32)
			key, err := NewInitialProtectionKey(secret, V1)
			if err != nil {
				return "nokey"
			}
			pkt = c03Exact(pkt)
			if _, err := NewPacketProtector(key).UnProtect(pkt, off, 2); err != nil {
				return "err"
			}
			return "ok"
		},
		facts: func(seq [][]byte) map[string]any {
			off, pkt := c03UnprotectArgs(seq[0])
			return map[string]any{"len": len(pkt), "offset": off, "short_for_sample": int64(len(pkt)) < off+4+16,
				"long": len(pkt) > 0 && pkt[0]&0x80 != 0}
		},
	})
	c03Register(&c03EP{
		name: "quic.extractCryptoFrames",
		valid: func(r *c03Rng) [][]byte {
			return [][]byte{c03CryptoFrames(r, c03ClientHello("a.test"))}
		},
		boundary: func() [][][]byte {
			var out [][]byte
			for _, ov := range c03Varints(0) {
				for _, lv := range c03Varints(262144) {
					out = append(out, c03Cat([]byte{6}, ov, lv), c03Cat([]byte{6}, ov, lv, c03Fill(5, 1)), c03Cat([]byte{0, 1, 6}, ov, lv, c03Fill(70, 1)))
				}
			}
			return c03One(out...)
		},
		run: func(seq [][]byte) string {
			frs, err := extractCryptoFrames(bytes.NewReader(seq[0]))
			if err != nil {
				return "err"
			}
			if d := assembleCryptoFrames(frs); d == nil {
				return "noassemble"
			}
			return "ok"
		},
	})
	c03Register(&c03EP{
		name: "quic.assembleCryptoFrames",
		valid: func(r *c03Rng) [][]byte {
			var b []byte
			off := int64(0)
			for i := 0; i <= r.intn(5); i++ {
				l := r.intn(500)
				b = append(b, c03FrameRec(off, l)...)
				off += int64(l)
			}
			return [][]byte{b}
		},
		boundary: func() [][][]byte {
			var out [][]byte
			big := []int64{-1 << 63, -1, 0, 1, 262143, 262144, 262145, 1<<62 - 1, 1<<63 - 1, 1<<63 - 100}
			for _, a := range big {
				for _, l := range []int{0, 1, 100, 2999} {
					out = append(out, c03FrameRec(a, l), c03Cat(c03FrameRec(a, l), c03FrameRec(a+int64(l), 5)), c03Cat(c03FrameRec(0, 10), c03FrameRec(a, l)))
				}
			}
			return c03One(out...)
		},
		run: func(seq [][]byte) string {
			if d := assembleCryptoFrames(c03FramesFrom(seq[0])); d == nil {
				return "nil"
			}
			return "ok"
		},
	})
}

func TestVerifC03(t *testing.T) {
	c03Main(t, nil)
}
