//go:build verif

package realm

// C03 harness, extras/realm: DecodePunchPacket, PunchPacketConn.ReadFrom (demultiplexer with
// registered attempts, datagrams from UDP and non-UDP sources), parseSTUNBindingResponse and the
// receive loop of Discover.

import (
	"context"
	"encoding/hex"
	"encoding/json"
	"errors"
	"net"
	"sort"
	"testing"
	"time"

	"github.com/pion/stun/v3"
)

type c03Timeout struct{}

func (c03Timeout) Error() string   { return "i/o timeout" }
func (c03Timeout) Timeout() bool   { return true }
func (c03Timeout) Temporary() bool { return true }

type c03RPkt struct {
	data []byte
	from net.Addr
	err  error
}

type c03RPC struct {
	in    []c03RPkt
	txid  []byte
	final error
}

var c03TxPlaceholder = []byte{0xee, 0xee, 0xee, 0xee, 0xee, 0xee, 0xee, 0xee, 0xee, 0xee, 0xee, 0xee}

func (c *c03RPC) ReadFrom(p []byte) (int, net.Addr, error) {
	if len(c.in) == 0 {
		if c.final != nil {
			return 0, nil, c.final
		}
		return 0, nil, c03Timeout{}
	}
	k := c.in[0]
	c.in = c.in[1:]
	if k.err != nil {
		return 0, k.from, k.err
	}
	d := append([]byte(nil), k.data...)
	if len(d) >= 20 && c.txid != nil && string(d[8:20]) == string(c03TxPlaceholder) {
		copy(d[8:20], c.txid)
	}
	return copy(p, d), k.from, nil
}
func (c *c03RPC) WriteTo(p []byte, a net.Addr) (int, error) {
	if len(p) >= 20 {
		c.txid = append([]byte(nil), p[8:20]...)
	}
	return len(p), nil
}
func (c *c03RPC) Close() error                       { return nil }
func (c *c03RPC) LocalAddr() net.Addr                { return &net.UDPAddr{IP: net.IPv4zero, Port: 1} }
func (c *c03RPC) SetDeadline(t time.Time) error      { return nil }
func (c *c03RPC) SetReadDeadline(t time.Time) error  { return nil }
func (c *c03RPC) SetWriteDeadline(t time.Time) error { return nil }

type c03Resolver struct{}

func (c03Resolver) LookupIPAddr(_ context.Context, host string) ([]net.IPAddr, error) {
	return []net.IPAddr{{IP: net.IPv4(10, 9, 9, 9)}}, nil
}

type c03OtherAddr struct{}

func (c03OtherAddr) Network() string { return "other" }
func (c03OtherAddr) String() string  { return "other" }

func c03Metas() []PunchMetadata {
	var ms []PunchMetadata
	for i := 0; i < 3; i++ {
		n := make([]byte, PunchNonceSize)
		k := make([]byte, PunchObfsKeySize)
		for j := range n {
			n[j] = byte(i*17 + j)
		}
		for j := range k {
			k[j] = byte(i*31 + j*3)
		}
		ms = append(ms, PunchMetadata{Nonce: hex.EncodeToString(n), Obfs: hex.EncodeToString(k)})
	}
	return ms
}

func c03StunMsg(r *c03Rng, tid [stun.TransactionIDSize]byte) []byte {
	setters := []stun.Setter{stun.NewTransactionIDSetter(tid)}
	switch r.intn(5) {
	case 0:
		setters = append(setters, stun.BindingRequest)
	case 1:
		setters = append(setters, stun.BindingError)
	default:
		setters = append(setters, stun.BindingSuccess)
	}
	ip4 := net.IPv4(byte(r.next()), byte(r.next()), byte(r.next()), byte(r.next()))
	ip6 := net.IP(r.bytes(16))
	switch r.intn(6) {
	case 0:
		setters = append(setters, &stun.XORMappedAddress{IP: ip4, Port: r.intn(70000)})
	case 1:
		setters = append(setters, &stun.XORMappedAddress{IP: ip6, Port: r.intn(70000)})
	case 2:
		setters = append(setters, &stun.MappedAddress{IP: ip4, Port: r.intn(70000)})
	case 3:
		setters = append(setters, &stun.MappedAddress{IP: ip6, Port: 0})
	case 4:
		setters = append(setters, stun.NewSoftware("c03"))
	}
	if r.intn(3) == 0 {
		setters = append(setters, stun.Fingerprint)
	}
	m, err := stun.Build(setters...)
	if err != nil {
		return []byte{0, 1, 0, 0, 0x21, 0x12, 0xa4, 0x42}
	}
	return append([]byte(nil), m.Raw...)
}

func c03StunBoundaries() [][]byte {
	var out [][]byte
	hdr := func(typ uint16, l int) []byte {
		b := []byte{byte(typ >> 8), byte(typ), byte(l >> 8), byte(l), 0x21, 0x12, 0xa4, 0x42}
		return append(b, c03TxPlaceholder...)
	}
	for _, typ := range []uint16{0x0101, 0x0001, 0x0111, 0xffff} {
		for _, l := range []int{0, 1, 3, 4, 8, 12, 20, 24, 65535} {
			for _, have := range []int{0, 4, l - 1, l, l + 1} {
				if have >= 0 && have <= 1600 {
					out = append(out, c03Cat(hdr(typ, l), c03Fill(have, 0)))
				}
			}
		}
		// attribute length boundaries for (XOR-)MAPPED-ADDRESS
		for _, at := range []uint16{0x0001, 0x0020} {
			for _, al := range []int{0, 1, 4, 7, 8, 9, 19, 20, 21, 65535} {
				for _, fam := range []byte{0, 1, 2, 3} {
					body := c03Cat([]byte{byte(at >> 8), byte(at), byte(al >> 8), byte(al), 0, fam, 0x12, 0x34}, c03Fill(16, 7))
					for _, cut := range []int{4, 8, 12, len(body)} {
						out = append(out, c03Cat(hdr(typ, cut), body[:cut]))
					}
				}
			}
		}
	}
	return out
}

func init() {
	metas := c03Metas()
	c03Register(&c03EP{
		name: "realm.DecodePunchPacket",
		hdr:  40,
		valid: func(r *c03Rng) [][]byte {
			p, err := EncodePunchPacket(PunchPacketType(1+r.intn(2)), metas[r.intn(len(metas))])
			if err != nil {
				panic(err)
			}
			return [][]byte{p}
		},
		boundary: func() [][][]byte {
			var out [][]byte
			for _, n := range []int{punchMinWireLen - 1, punchMinWireLen, punchMinWireLen + 1, punchMaxWireLen - 1, punchMaxWireLen, punchMaxWireLen + 1, 1500, 2048} {
				out = append(out, c03Fill(n, 0), c03Fill(n, 0xff))
			}
			return c03One(out...)
		},
		run: func(seq [][]byte) string {
			cls := "err"
			bad := []PunchMetadata{{}, {Nonce: "zz", Obfs: "zz"}, {Nonce: metas[0].Nonce, Obfs: "00"}, {Nonce: metas[0].Nonce + "00", Obfs: metas[0].Obfs}}
			for _, m := range append(append([]PunchMetadata(nil), metas...), bad...) {
				if pk, err := DecodePunchPacket(c03Exact(seq[0]), m); err == nil {
					cls = "ok"
					if pk.PaddingLength < 0 || pk.PaddingLength > MaxPunchPadding {
						panic("DecodePunchPacket accepted a padding length out of range")
					}
				}
			}
			return cls
		},
	})
	c03Register(&c03EP{
		name:     "realm.PunchPacketConn.ReadFrom",
		stateful: true,
		hdr:      40,
		valid: func(r *c03Rng) [][]byte {
			var out [][]byte
			for i := 0; i <= r.intn(4); i++ {
				if r.intn(3) == 0 {
					out = append(out, c03StunMsg(r, stun.NewTransactionID()))
				} else {
					p, _ := EncodePunchPacket(PunchPacketType(1+r.intn(2)), metas[r.intn(len(metas))])
					out = append(out, p)
				}
			}
			return out
		},
		boundary: func() [][][]byte { return c03One(c03StunBoundaries()...) },
		run: func(seq [][]byte) string {
			var in []c03RPkt
			for i, b := range seq {
				var from net.Addr = &net.UDPAddr{IP: net.IPv4(10, 0, 0, byte(i)), Port: 1 + i%5}
				switch (len(b) + i) % 9 {
				case 0:
					from = c03OtherAddr{}
				case 1:
					from = &net.UDPAddr{IP: net.IP{1, 2, 3}, Port: 5}
				case 2:
					from = &net.UDPAddr{IP: net.ParseIP("::ffff:10.0.0.1"), Port: 70000}
				case 3:
					from = &net.UDPAddr{Port: 0}
				case 4:
					from = nil
				}
				in = append(in, c03RPkt{data: b, from: from})
			}
			c, err := NewPunchPacketConn(&c03RPC{in: in, final: errors.New("closed")}, 4)
			if err != nil {
				panic(err)
			}
			_ = c.AddPunchAttempt("a0", metas[0])
			_ = c.AddPunchAttempt("a1", metas[1])
			_ = c.AddPunchAttempt("bad", PunchMetadata{Nonce: "x"})
			passed := 0
			for i := 0; ; i++ {
				p := make([]byte, []int{2048, 1500, 64, 33, 0}[i%5])
				n, _, err := c.ReadFrom(p)
				if err != nil {
					break
				}
				if n > len(p) {
					panic("ReadFrom returned n > len(p)")
				}
				passed++
				if i%3 == 1 {
					c.RemovePunchAttempt("a1")
				}
				if i%3 == 2 {
					_ = c.AddPunchAttempt("a1", metas[2])
				}
			}
			// drain the event channels the way the consumers do
			for len(c.Events()) > 0 {
				ev := <-c.Events()
				_ = ev.Packet.PaddingLength
			}
			for len(c.STUNEvents()) > 0 {
				ev := <-c.STUNEvents()
				_ = ev.Message.TransactionID
			}
			if passed > 0 {
				return "passed"
			}
			return "diverted-all"
		},
	})
	c03Register(&c03EP{
		name:     "realm.parseSTUNBindingResponse",
		hdr:      40,
		valid:    func(r *c03Rng) [][]byte { return [][]byte{c03StunMsg(r, stun.NewTransactionID())} },
		boundary: func() [][][]byte { return c03One(c03StunBoundaries()...) },
		run: func(seq [][]byte) string {
			msg, addr, err := parseSTUNBindingResponse(seq[0])
			if err != nil {
				return "err"
			}
			_ = msg.TransactionID
			if !addr.IsValid() || addr.Port() == 0 {
				panic("parseSTUNBindingResponse accepted an invalid address")
			}
			return "ok"
		},
	})
	c03Register(&c03EP{
		name:     "realm.Discover",
		stateful: true,
		hdr:      40,
		valid: func(r *c03Rng) [][]byte {
			var tid [stun.TransactionIDSize]byte
			copy(tid[:], c03TxPlaceholder)
			var out [][]byte
			for i := 0; i <= r.intn(3); i++ {
				if r.intn(4) == 0 {
					out = append(out, c03StunMsg(r, stun.NewTransactionID()))
				} else {
					out = append(out, c03StunMsg(r, tid))
				}
			}
			return out
		},
		boundary: func() [][][]byte { return c03One(c03StunBoundaries()...) },
		run: func(seq [][]byte) string {
			var in []c03RPkt
			for _, b := range seq {
				in = append(in, c03RPkt{data: b, from: &net.UDPAddr{IP: net.IPv4(10, 9, 9, 9), Port: 3478}})
			}
			addrs, err := Discover(context.Background(), &c03RPC{in: in}, STUNConfig{Servers: []string{"10.9.9.9"}, Resolver: c03Resolver{}, Timeout: 5 * time.Second})
			if err != nil {
				return "err"
			}
			for _, a := range addrs {
				if !a.IsValid() {
					panic("Discover returned an invalid address")
				}
			}
			return "ok"
		},
	})
}

// ---------------------------------------------------------------- model comparison (gap c)
func c03IPPort(raw json.RawMessage, res map[string]any) {
	var c struct {
		IP   string `json:"ip"`
		Port int    `json:"port"`
	}
	if err := json.Unmarshal(raw, &c); err != nil {
		panic(err)
	}
	p, msg := vCatch(func() {
		ap, err := netIPPortToAddrPort(net.IP(vUnhex(c.IP)), c.Port)
		if err != nil {
			res["r"] = "err"
			return
		}
		res["r"] = "ok"
		res["ip"] = vHex(ap.Addr().AsSlice())
		res["port"] = int(ap.Port())
	})
	res["panic"] = p
	res["ok"] = !p
	res["why"] = ""
	if p {
		res["why"] = "panic in netIPPortToAddrPort: " + msg
	}
}

// Discover over a scripted conn; the oracle answers (what pion reports for each packet) are
// computed here by calling pion separately and handed to the model
func c03Disc(raw json.RawMessage, res map[string]any) {
	var c struct {
		Items []struct {
			T    string `json:"t"`
			IP   string `json:"ip"`
			Port int    `json:"port"`
			Hex  string `json:"hex"`
		} `json:"items"`
	}
	if err := json.Unmarshal(raw, &c); err != nil {
		panic(err)
	}
	var own, other [stun.TransactionIDSize]byte
	copy(own[:], c03TxPlaceholder)
	for i := range other {
		other[i] = byte(0xa0 + i)
	}
	var in []c03RPkt
	oracle := [][]any{}
	for _, it := range c.Items {
		from := &net.UDPAddr{IP: net.IPv4(10, 9, 9, 9), Port: 3478}
		var pkt []byte
		tid := own
		switch it.T {
		case "timeout":
			in = append(in, c03RPkt{err: c03Timeout{}, from: from})
			oracle = append(oracle, []any{"timeout"})
			continue
		case "fail":
			in = append(in, c03RPkt{err: errors.New("refused"), from: from})
			oracle = append(oracle, []any{"fail"})
			continue
		case "raw":
			pkt = vUnhex(it.Hex)
		default:
			typ := stun.BindingSuccess
			if it.T == "req-xor" {
				typ = stun.BindingRequest
			}
			if len(it.T) > 6 && it.T[:6] == "other-" {
				tid = other
			}
			setters := []stun.Setter{stun.NewTransactionIDSetter(tid), typ}
			ip := net.IP(vUnhex(it.IP))
			switch it.T {
			case "xor", "other-xor", "req-xor":
				setters = append(setters, &stun.XORMappedAddress{IP: ip, Port: it.Port})
			case "mapped", "other-mapped":
				setters = append(setters, &stun.MappedAddress{IP: ip, Port: it.Port})
			case "both":
				setters = append(setters, &stun.XORMappedAddress{IP: ip, Port: it.Port}, &stun.MappedAddress{IP: net.IPv4(9, 9, 9, 9), Port: 9})
			}
			m, err := stun.Build(setters...)
			if err != nil {
				pkt = []byte{1, 1, 0, 0}
			} else {
				pkt = append([]byte(nil), m.Raw...)
			}
		}
		in = append(in, c03RPkt{data: pkt, from: from})
		oracle = append(oracle, []any{"pkt"})
	}
	pc := &c03RPC{in: append([]c03RPkt(nil), in...)}
	p, msg := vCatch(func() {
		addrs, err := Discover(context.Background(), pc, STUNConfig{Servers: []string{"10.9.9.9"}, Resolver: c03Resolver{}, Timeout: 5 * time.Second})
		out := [][]any{}
		for _, a := range addrs {
			out = append(out, []any{vHex(a.Addr().AsSlice()), int(a.Port())})
		}
		sort.Slice(out, func(i, j int) bool { return out[i][0].(string) < out[j][0].(string) })
		res["addrs"] = out
		res["err"] = err != nil
		res["errinval"] = err != nil && errors.Is(err, ErrInvalidSTUNConfig)
	})
	// the oracle: pion's view of every packet AS DELIVERED (the request's transaction id, known
	// only after Discover has sent it, substituted for the placeholder)
	var real [stun.TransactionIDSize]byte
	copy(real[:], pc.txid)
	for i, k := range in {
		if k.err != nil {
			continue
		}
		pkt := append([]byte(nil), k.data...)
		if len(pkt) >= 20 && string(pkt[8:20]) == string(c03TxPlaceholder) {
			copy(pkt[8:20], pc.txid)
		}
		row := []any{"pkt"}
		m := stun.New()
		if err := stun.Decode(pkt, m); err != nil {
			row = append(row, false)
		} else {
			row = append(row, true, m.Type == stun.BindingSuccess, m.TransactionID == real)
			var x stun.XORMappedAddress
			if err := x.GetFrom(m); err == nil {
				row = append(row, []any{vHex(x.IP), x.Port})
			} else {
				row = append(row, nil)
			}
			var ma stun.MappedAddress
			if err := ma.GetFrom(m); err == nil {
				row = append(row, []any{vHex(ma.IP), ma.Port})
			} else {
				row = append(row, nil)
			}
		}
		oracle[i] = row
	}
	res["oracle"] = oracle
	res["panic"] = p
	res["ok"] = !p
	res["why"] = ""
	if p {
		res["why"] = "panic in Discover: " + msg
	}
}

func TestVerifC03(t *testing.T) {
	c03Main(t, func(kind string, raw json.RawMessage, res map[string]any) bool {
		switch kind {
		case "ipport":
			c03IPPort(raw, res)
		case "disc":
			c03Disc(raw, res)
		default:
			return false
		}
		return true
	})
}
