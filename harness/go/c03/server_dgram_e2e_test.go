//go:build verif

package server

// C03 harness, end to end through the REAL udpIOImpl.ReceiveMessage / SendMessage loops of core/server and
// core/client (the in-package harnesses replicate those two loops because udpIOImpl.Conn is a concrete *quic.Conn):
//
//   "dgsrv": a real server (NewServer + Serve) on loopback.  A raw quic-go / http3 client authenticates and then
//            sends hostile datagram payloads straight into the server's ReceiveDatagram: every length 0..40, the
//            boundary corpus of the UDP message decoder, valid messages and fragments mutated (truncated, extended,
//            header bytes flipped, spliced), random bytes - whatever fits a QUIC datagram.  After every batch a valid
//            message to the echo outbound must come back on the SAME connection (the ReceiveMessage loop, the session
//            manager and the SendMessage path of that connection are alive), and at the end a second, real
//            client.NewClient must connect and get a UDP echo through the same server.
//   "dgcli": the mirror image: a raw http3 / quic-go server authenticates a real client.NewClient and then sends the
//            same hostile payloads into the client's ReceiveDatagram; after every batch a message the application
//            sends through the client's UDP session must be answered (the raw server answers valid messages), i.e. the
//            client's ReceiveMessage loop and session manager are alive.
// A panic in any goroutine of the code kills the test binary; the driver then reports the crash with the case.

import (
	"context"
	"crypto/ecdsa"
	"crypto/elliptic"
	crand "crypto/rand"
	"crypto/tls"
	"crypto/x509"
	"crypto/x509/pkix"
	"encoding/json"
	"errors"
	"fmt"
	"math/big"
	"net"
	"net/http"
	"net/url"
	"sync"
	"time"

	"github.com/apernet/hysteria/core/v2/client"
	"github.com/apernet/hysteria/core/v2/internal/protocol"
	"github.com/apernet/quic-go"
	"github.com/apernet/quic-go/http3"
)

type c03DgCase struct {
	K      string `json:"k"`
	Seed   uint64 `json:"seed"`
	N      int    `json:"n"`      // hostile datagrams
	Batch  int    `json:"batch"`  // a liveness probe after every Batch hostile datagrams
	Logger bool   `json:"logger"` // dgsrv: a TrafficLogger is configured
}

var (
	c03CertOnce sync.Once
	c03Cert     tls.Certificate
)

func c03TLS() tls.Certificate {
	c03CertOnce.Do(func() {
		key, err := ecdsa.GenerateKey(elliptic.P256(), crand.Reader)
		if err != nil {
			panic(err)
		}
		tmpl := &x509.Certificate{
			SerialNumber: big.NewInt(1), Subject: pkix.Name{CommonName: "c03"},
			NotBefore: time.Now().Add(-time.Hour), NotAfter: time.Now().Add(24 * time.Hour),
			KeyUsage: x509.KeyUsageDigitalSignature, ExtKeyUsage: []x509.ExtKeyUsage{x509.ExtKeyUsageServerAuth},
			DNSNames: []string{"localhost", "hysteria"},
		}
		der, err := x509.CreateCertificate(crand.Reader, tmpl, tmpl, &key.PublicKey, key)
		if err != nil {
			panic(err)
		}
		c03Cert = tls.Certificate{Certificate: [][]byte{der}, PrivateKey: key}
	})
	return c03Cert
}

// hostile payloads: the input sequences of the server's datagram entry point, flattened; what does not fit a datagram
// is cut to the largest size that does (the peer cannot send more in one datagram either)
func c03DgPayloads(seed uint64, n int) [][]byte {
	ep := c03Find("server.udpSessionManager.feed")
	if ep == nil {
		panic("entry point server.udpSessionManager.feed not registered")
	}
	r := &c03Rng{s: seed}
	var out [][]byte
	for len(out) < n {
		seqs, _ := c03Inputs(ep, r, 400)
		for _, s := range seqs {
			for _, b := range s {
				if len(b) > 1150 {
					b = b[:1150]
				}
				out = append(out, c03Exact(b))
				if len(out) >= n {
					return out
				}
			}
		}
	}
	return out
}

// ---- echo outbound
type c03EchoConn struct {
	ch     chan c03Reply
	closed chan struct{}
	once   sync.Once
}

func (c *c03EchoConn) ReadFrom(b []byte) (int, string, error) {
	select {
	case r := <-c.ch:
		return copy(b, r.data), r.from, nil
	case <-c.closed:
		return 0, "", errors.New("closed")
	}
}
func (c *c03EchoConn) WriteTo(b []byte, addr string) (int, error) {
	select {
	case c.ch <- c03Reply{from: addr, data: append([]byte(nil), b...)}:
	default:
	}
	return len(b), nil
}
func (c *c03EchoConn) Close() error { c.once.Do(func() { close(c.closed) }); return nil }

type c03EchoOutbound struct{}

func (c03EchoOutbound) TCP(reqAddr string) (net.Conn, error) { return nil, errors.New("no tcp") }
func (c03EchoOutbound) UDP(reqAddr string) (UDPConn, error) {
	return &c03EchoConn{ch: make(chan c03Reply, 64), closed: make(chan struct{})}, nil
}
func (c03EchoOutbound) CheckUDP(reqAddr string) error { return nil }

type c03Auth struct{}

func (c03Auth) Authenticate(addr net.Addr, auth string, tx uint64) (bool, string) { return true, "u" }

type c03TL struct{}

func (c03TL) LogTraffic(id string, tx, rx uint64) bool             { return true }
func (c03TL) LogOnlineState(id string, online bool)                {}
func (c03TL) TraceStream(stream HyStream, stats *StreamStats)      {}
func (c03TL) UntraceStream(stream HyStream)                        {}

func c03RawAuth(addr net.Addr) (*quic.Conn, *http3.Transport, error) {
	var qc *quic.Conn
	rt := &http3.Transport{
		TLSClientConfig: &tls.Config{InsecureSkipVerify: true},
		QUICConfig:      &quic.Config{EnableDatagrams: true, MaxDatagramFrameSize: protocol.MaxDatagramFrameSize, MaxIdleTimeout: 60 * time.Second},
		Dial: func(ctx context.Context, _ string, tlsCfg *tls.Config, cfg *quic.Config) (*quic.Conn, error) {
			c, err := quic.DialAddrEarly(ctx, addr.String(), tlsCfg, cfg)
			qc = c
			return c, err
		},
	}
	req := &http.Request{Method: http.MethodPost, URL: &url.URL{Scheme: "https", Host: protocol.URLHost, Path: protocol.URLPath},
		Header: make(http.Header)}
	req.Header.Set(protocol.RequestHeaderAuth, "x")
	ctx, cancel := context.WithTimeout(context.Background(), 15*time.Second)
	defer cancel()
	resp, err := rt.RoundTrip(req.WithContext(ctx))
	if err != nil {
		return nil, rt, err
	}
	_ = resp.Body.Close()
	if resp.StatusCode != protocol.StatusAuthOK {
		return nil, rt, fmt.Errorf("auth status %d", resp.StatusCode)
	}
	return qc, rt, nil
}

func c03Msg(sid uint32, addr string, data []byte) []byte {
	m := &protocol.UDPMessage{SessionID: sid, PacketID: 0, FragID: 0, FragCount: 1, Addr: addr, Data: data}
	buf := make([]byte, protocol.MaxUDPSize)
	n := m.Serialize(buf)
	return buf[:n]
}

// probe: send a valid message, wait for its echo among whatever else comes back
func c03ProbeRaw(qc *quic.Conn, sid uint32, tag string) bool {
	for try := 0; try < 4; try++ {
		if err := qc.SendDatagram(c03Msg(sid, "echo:1", []byte(tag))); err != nil {
			return false
		}
		deadline := time.Now().Add(1500 * time.Millisecond)
		for time.Now().Before(deadline) {
			ctx, cancel := context.WithDeadline(context.Background(), deadline)
			b, err := qc.ReceiveDatagram(ctx)
			cancel()
			if err != nil {
				break
			}
			if m, perr := protocol.ParseUDPMessage(b); perr == nil && m.SessionID == sid && string(m.Data) == tag {
				return true
			}
		}
	}
	return false
}

func c03DgSrv(raw json.RawMessage, res map[string]any) {
	var c c03DgCase
	if err := json.Unmarshal(raw, &c); err != nil {
		panic(err)
	}
	ok, why := true, ""
	fail := func(f string, a ...any) {
		if ok {
			ok, why = false, fmt.Sprintf(f, a...)
		}
	}
	defer func() { res["ok"], res["why"] = ok, why }()
	pc, err := net.ListenUDP("udp", &net.UDPAddr{IP: net.IPv4(127, 0, 0, 1), Port: 0})
	if err != nil {
		fail("could not run: %s%v", "listen: ", err)
		return
	}
	cfg := &Config{TLSConfig: TLSConfig{Certificates: []tls.Certificate{c03TLS()}}, Conn: pc, Authenticator: c03Auth{}, Outbound: c03EchoOutbound{}}
	if c.Logger {
		cfg.TrafficLogger = c03TL{}
	}
	srv, err := NewServer(cfg)
	if err != nil {
		fail("could not run: %s%v", "server: ", err)
		return
	}
	defer srv.Close()
	go srv.Serve()
	qc, rt, err := c03RawAuth(pc.LocalAddr())
	if rt != nil {
		defer rt.Close()
	}
	if err != nil {
		fail("could not run: %s%v", "raw client: ", err)
		return
	}
	if !c03ProbeRaw(qc, 1<<30, "probe-0") {
		fail("could not run: %s", "no echo before any hostile datagram")
		return
	}
	payloads := c03DgPayloads(c.Seed, c.N)
	sent, probes := 0, 0
	for i, b := range payloads {
		if err := qc.SendDatagram(b); err == nil {
			sent++
		}
		if c.Batch > 0 && (i+1)%c.Batch == 0 {
			probes++
			if !c03ProbeRaw(qc, uint32(1<<30+probes), fmt.Sprintf("probe-%d", probes)) {
				fail("after %d hostile datagrams the server no longer answers a valid UDP message on the same connection (last hostile payload %s)", i+1, vHex(b))
				break
			}
		}
	}
	res["sent"], res["probes"] = sent, probes
	// a second, real client through the same server
	cl, info, err := client.NewClient(&client.Config{ServerAddr: pc.LocalAddr(), TLSConfig: client.TLSConfig{InsecureSkipVerify: true}})
	if err != nil {
		fail("after the hostile datagrams a second client cannot connect: %v", err)
		return
	}
	defer cl.Close()
	if !info.UDPEnabled {
		fail("second client: UDP not enabled")
		return
	}
	if !c03ProbeClient(cl, "second-client") {
		fail("after the hostile datagrams a second client gets no UDP echo through the server")
	}
}

// probe through a real client's UDP session
func c03ProbeClient(cl client.Client, tag string) bool {
	u, err := cl.UDP()
	if err != nil {
		return false
	}
	defer u.Close()
	type rx struct {
		b   []byte
		err error
	}
	ch := make(chan rx, 64)
	go func() {
		for {
			b, _, err := u.Receive()
			ch <- rx{b, err}
			if err != nil {
				return
			}
		}
	}()
	for try := 0; try < 4; try++ {
		if err := u.Send([]byte(tag), "echo:1"); err != nil {
			return false
		}
		timeout := time.After(1500 * time.Millisecond)
	wait:
		for {
			select {
			case r := <-ch:
				if r.err != nil {
					return false
				}
				if string(r.b) == tag {
					return true
				}
			case <-timeout:
				break wait
			}
		}
	}
	return false
}

func c03DgCli(raw json.RawMessage, res map[string]any) {
	var c c03DgCase
	if err := json.Unmarshal(raw, &c); err != nil {
		panic(err)
	}
	ok, why := true, ""
	fail := func(f string, a ...any) {
		if ok {
			ok, why = false, fmt.Sprintf(f, a...)
		}
	}
	defer func() { res["ok"], res["why"] = ok, why }()
	pc, err := net.ListenUDP("udp", &net.UDPAddr{IP: net.IPv4(127, 0, 0, 1), Port: 0})
	if err != nil {
		fail("could not run: %s%v", "listen: ", err)
		return
	}
	defer pc.Close()
	tr := &quic.Transport{Conn: pc}
	defer tr.Close()
	ln, err := tr.Listen(http3.ConfigureTLSConfig(&tls.Config{Certificates: []tls.Certificate{c03TLS()}}),
		&quic.Config{EnableDatagrams: true, MaxDatagramFrameSize: protocol.MaxDatagramFrameSize,
			AssumePeerMaxDatagramFrameSize: protocol.MaxDatagramFrameSize, MaxIdleTimeout: 60 * time.Second})
	if err != nil {
		fail("could not run: %s%v", "quic listen: ", err)
		return
	}
	defer ln.Close()
	h3 := &http3.Server{Handler: http.HandlerFunc(func(w http.ResponseWriter, r *http.Request) {
		w.Header().Set(protocol.ResponseHeaderUDPEnabled, "true")
		w.Header().Set(protocol.CommonHeaderCCRX, "0")
		w.WriteHeader(protocol.StatusAuthOK)
	})}
	connCh := make(chan *quic.Conn, 1)
	go func() {
		for {
			conn, err := ln.Accept(context.Background())
			if err != nil {
				return
			}
			select {
			case connCh <- conn:
			default:
			}
			go func() { _ = h3.ServeQUICConn(conn) }()
		}
	}()
	cl, info, err := client.NewClient(&client.Config{ServerAddr: pc.LocalAddr(), TLSConfig: client.TLSConfig{InsecureSkipVerify: true}})
	if err != nil {
		fail("could not run: %s%v", "client handshake: ", err)
		return
	}
	defer cl.Close()
	if !info.UDPEnabled {
		fail("could not run: %s", "UDP not enabled")
		return
	}
	var sc *quic.Conn
	select {
	case sc = <-connCh:
	case <-time.After(5 * time.Second):
		fail("could not run: %s", "no server-side connection")
		return
	}
	// the raw server answers every valid message it receives (to the same session, same payload)
	go func() {
		for {
			b, err := sc.ReceiveDatagram(context.Background())
			if err != nil {
				return
			}
			if m, perr := protocol.ParseUDPMessage(b); perr == nil {
				_ = sc.SendDatagram(c03Msg(m.SessionID, m.Addr, m.Data))
			}
		}
	}()
	if !c03ProbeClient(cl, "probe-0") {
		fail("could not run: %s", "no answer before any hostile datagram")
		return
	}
	payloads := c03DgPayloads(c.Seed, c.N)
	sent, probes := 0, 0
	for i, b := range payloads {
		if err := sc.SendDatagram(b); err == nil {
			sent++
		}
		if c.Batch > 0 && (i+1)%c.Batch == 0 {
			probes++
			if !c03ProbeClient(cl, fmt.Sprintf("probe-%d", probes)) {
				fail("after %d hostile datagrams from the server the client's UDP sessions no longer receive (last hostile payload %s)", i+1, vHex(b))
				break
			}
		}
	}
	res["sent"], res["probes"] = sent, probes
	if ok && !c03ProbeClient(cl, "final") {
		fail("after the hostile datagrams a new UDP session of the client gets no answer")
	}
}
