//go:build verif

package server

// C03 harness, core/server: the datagram receive path (udpIOImpl.ReceiveMessage's parse-or-skip
// loop is replicated here because its Conn is a concrete *quic.Conn; udpSessionManager.feed,
// udpSessionEntry.Feed, CloseWithErr, cleanup, receiveLoop and sendMessageAutoFrag are the real
// code) against an in-memory udpIO / UDPConn.

import (
	"encoding/binary"
	"encoding/json"
	"errors"
	"sync"
	"testing"
	"time"

	"github.com/apernet/quic-go"

	"github.com/apernet/hysteria/core/v2/internal/protocol"
)

type c03Reply struct {
	from string
	data []byte
}

type c03Conn struct {
	env    *c03Env
	sid    uint32
	rd     chan c03Reply
	closed chan struct{}
	once   sync.Once
}

func (c *c03Conn) ReadFrom(b []byte) (int, string, error) {
	c.env.idle <- c.sid
	select {
	case r := <-c.rd:
		return copy(b, r.data), r.from, nil
	case <-c.closed:
		return 0, "", errors.New("closed")
	}
}

func (c *c03Conn) WriteTo(b []byte, addr string) (int, error) {
	c.env.mu.Lock()
	c.env.writes = append(c.env.writes, c03Write{c.sid, addr, append([]byte(nil), b...)})
	c.env.mu.Unlock()
	return len(b), nil
}

func (c *c03Conn) Close() error { c.once.Do(func() { close(c.closed) }); return nil }

type c03Write struct {
	sid  uint32
	addr string
	data []byte
}

type c03Env struct {
	mu       sync.Mutex
	writes   []c03Write
	sent     []int
	conns    map[uint32]*c03Conn
	dialOK   bool
	dialed   bool
	curSid   uint32
	tooLarge *int64 // verdict on the next whole message
	idle     chan uint32
}

func newC03Env() *c03Env {
	return &c03Env{conns: map[uint32]*c03Conn{}, dialOK: true, idle: make(chan uint32, 4096)}
}

func (e *c03Env) ReceiveMessage() (*protocol.UDPMessage, error) { select {} }

// udpIOImpl.SendMessage with quic-go's SendDatagram replaced by the scripted verdict
func (e *c03Env) SendMessage(buf []byte, msg *protocol.UDPMessage) error {
	msgN := msg.Serialize(buf)
	if msgN < 0 {
		return nil
	}
	e.mu.Lock()
	defer e.mu.Unlock()
	if e.tooLarge != nil {
		mx := *e.tooLarge
		e.tooLarge = nil
		return &quic.DatagramTooLargeError{MaxDatagramPayloadSize: mx}
	}
	e.sent = append(e.sent, msgN)
	return nil
}

func (e *c03Env) Hook(data []byte, reqAddr *string) error { return nil }

func (e *c03Env) UDP(reqAddr string) (UDPConn, error) {
	e.mu.Lock()
	defer e.mu.Unlock()
	e.dialed = true
	if !e.dialOK {
		return nil, errors.New("dial refused")
	}
	c := &c03Conn{env: e, sid: e.curSid, rd: make(chan c03Reply), closed: make(chan struct{})}
	e.conns[e.curSid] = c
	return c, nil
}

func (e *c03Env) CheckUDP(reqAddr string) error { return nil }

type c03Logger struct{}

func (c03Logger) New(sessionID uint32, reqAddr string) {}
func (c03Logger) Close(sessionID uint32, err error)   {}

// wait until the session's receiveLoop is back in ReadFrom
func (e *c03Env) waitIdle(sid uint32) bool {
	deadline := time.After(5 * time.Second)
	for {
		select {
		case s := <-e.idle:
			if s == sid {
				return true
			}
		case <-deadline:
			return false
		}
	}
}

func c03SerS(m *protocol.UDPMessage) []byte {
	buf := make([]byte, m.Size())
	return buf[:m.Serialize(buf)]
}

// feed one datagram the way udpIOImpl.ReceiveMessage + Run do; returns an outcome word
func c03FeedDgram(m *udpSessionManager, env *c03Env, b []byte, dialOK bool) (string, *protocol.UDPMessage) {
	msg, err := protocol.ParseUDPMessage(b)
	if err != nil {
		return "dropped", nil
	}
	env.mu.Lock()
	env.dialOK, env.dialed, env.curSid = dialOK, false, msg.SessionID
	nw := len(env.writes)
	env.mu.Unlock()
	m.feed(msg)
	env.mu.Lock()
	defer env.mu.Unlock()
	switch {
	case len(env.writes) > nw:
		return "write", msg
	case env.dialed && !dialOK:
		return "dialfail", msg
	}
	return "pending", msg
}

func init() {
	c03Register(&c03EP{
		name:     "server.udpSessionManager.feed",
		stateful: true,
		hdr:      12,
		valid: func(r *c03Rng) [][]byte {
			al := r.pick([]int{1, 3, 63, 64})
			n := r.pick([]int{1, 1, 2, 3, 8, 40, 255})
			dl := n*4 - r.intn(4)
			sid := uint32(r.intn(4))
			pid := uint16(1 + r.intn(3))
			addr := string(r.bytes(al))
			data := r.bytes(dl)
			var out [][]byte
			if n == 1 {
				return [][]byte{c03SerS(&protocol.UDPMessage{SessionID: sid, FragCount: 1, Addr: addr, Data: data})}
			}
			for i := 0; i < n; i++ {
				lo, hi := i*4, i*4+4
				if hi > dl {
					hi = dl
				}
				if lo >= hi {
					lo = hi - 1
				}
				out = append(out, c03SerS(&protocol.UDPMessage{SessionID: sid, PacketID: pid, FragID: uint8(i), FragCount: uint8(n), Addr: addr, Data: data[lo:hi]}))
			}
			return out
		},
		run: func(seq [][]byte) string {
			env := newC03Env()
			m := newUDPSessionManager(env, c03Logger{}, time.Hour)
			writes := 0
			for i, b := range seq {
				// dial verdict and expiries are functions of the datagram so that sequences replay
				dialOK := len(b) == 0 || b[len(b)-1]%5 != 0
				oc, msg := c03FeedDgram(m, env, b, dialOK)
				if oc == "write" {
					writes++
				}
				if msg != nil && (i+int(msg.PacketID))%7 == 3 {
					m.mutex.RLock()
					e := m.m[msg.SessionID]
					m.mutex.RUnlock()
					if e != nil {
						e.CloseWithErr(nil)
					}
				}
			}
			m.cleanup(false)
			if m.Count() != 0 {
				panic("sessions left after cleanup")
			}
			if writes > 0 {
				return "wrote"
			}
			return "nothing"
		},
	})
	c03Register(&c03EP{
		name: "server.sendMessageAutoFrag",
		valid: func(r *c03Rng) [][]byte {
			b := make([]byte, 6)
			al := r.pick([]int{1, 63, 64, 255, 2048})
			binary.BigEndian.PutUint16(b[0:], uint16(10+al+1+r.intn(40)))
			binary.BigEndian.PutUint16(b[2:], uint16(al))
			binary.BigEndian.PutUint16(b[4:], uint16(1+r.intn(4095)))
			return [][]byte{b}
		},
		run: func(seq [][]byte) string {
			var x [6]byte
			copy(x[:], seq[0])
			mx := int64(int16(binary.BigEndian.Uint16(x[0:])))
			al := int(binary.BigEndian.Uint16(x[2:])) % 2100
			dl := int(binary.BigEndian.Uint16(x[4:])) % (protocol.MaxUDPSize + 2)
			env := newC03Env()
			env.tooLarge = &mx
			buf := make([]byte, protocol.MaxUDPSize)
			msg := &protocol.UDPMessage{SessionID: 1, FragCount: 1, Addr: string(make([]byte, al)), Data: make([]byte, dl)}
			if err := sendMessageAutoFrag(env, buf, msg); err != nil {
				return "err"
			}
			if len(env.sent) == 0 {
				return "discard"
			}
			return "sent"
		},
	})
}

// ---------------------------------------------------------------- model comparison (gap a)
type c03SrvAct struct {
	A    string `json:"a"`
	Hex  string `json:"hex"`
	Log  bool   `json:"log"`
	Dial bool   `json:"dial"`
	Sid  uint32 `json:"sid"`
	Al   int    `json:"al"`
	Dl   int    `json:"dl"`
	Max  *int64 `json:"max"`
}

type c03SrvCase struct {
	Acts []c03SrvAct `json:"acts"`
}

func c03Srv(raw json.RawMessage, res map[string]any) {
	var c c03SrvCase
	if err := json.Unmarshal(raw, &c); err != nil {
		panic(err)
	}
	env := newC03Env()
	m := newUDPSessionManager(env, c03Logger{}, time.Hour)
	stopped := false
	outs := [][]any{}
	p, msg := vCatch(func() {
		for _, a := range c.Acts {
			if stopped {
				outs = append(outs, []any{"none", m.Count()})
				continue
			}
			switch a.A {
			case "dgram":
				b := vUnhex(a.Hex)
				if _, err := protocol.ParseUDPMessage(append([]byte(nil), b...)); err == nil && !a.Log {
					// TrafficLogger refused: ReceiveMessage returns errDisconnect, Run returns
					m.cleanup(false)
					stopped = true
					outs = append(outs, []any{"stop", m.Count()})
					continue
				}
				oc, pm := c03FeedDgram(m, env, b, a.Dial)
				row := []any{oc}
				if pm != nil {
					row = append(row, pm.SessionID)
				}
				if oc == "write" {
					env.mu.Lock()
					w := env.writes[len(env.writes)-1]
					env.mu.Unlock()
					row = append(row, len(w.addr), vDigest([]byte(w.addr)), len(w.data), vDigest(w.data))
					if env.dialed {
						// first write of a session: its receive loop has just started
						if !env.waitIdle(w.sid) {
							panic("receive loop did not start")
						}
					}
				}
				outs = append(outs, append(row, m.Count()))
			case "expire":
				m.mutex.RLock()
				e := m.m[a.Sid]
				m.mutex.RUnlock()
				if e != nil {
					e.CloseWithErr(nil)
				}
				outs = append(outs, []any{"none", m.Count()})
			case "reply":
				m.mutex.RLock()
				e := m.m[a.Sid]
				m.mutex.RUnlock()
				conn := env.conns[a.Sid]
				if e == nil || conn == nil || e.conn != UDPConn(conn) {
					outs = append(outs, []any{"none", m.Count()})
					continue
				}
				env.mu.Lock()
				env.sent = nil
				env.tooLarge = a.Max
				env.mu.Unlock()
				conn.rd <- c03Reply{from: string(vGenData(3, 5, a.Al)), data: vGenData(7, 11, a.Dl)}
				if !env.waitIdle(a.Sid) {
					panic("receive loop did not come back")
				}
				env.mu.Lock()
				sent := append([]int{}, env.sent...)
				env.tooLarge = nil
				env.mu.Unlock()
				outs = append(outs, []any{"sent", sent, m.Count()})
			case "recverr":
				m.cleanup(false)
				stopped = true
				outs = append(outs, []any{"stop", m.Count()})
			}
		}
	})
	m.cleanup(false)
	res["outs"] = outs
	res["panic"] = p
	res["ok"] = !p
	res["why"] = ""
	if p {
		res["why"] = "panic in the server UDP receive path: " + msg
	}
}

func TestVerifC03(t *testing.T) {
	c03Main(t, func(kind string, raw json.RawMessage, res map[string]any) bool {
		switch kind {
		case "srv":
			c03Srv(raw, res)
			return true
		case "dgsrv":
			c03DgSrv(raw, res)
			return true
		case "dgcli":
			c03DgCli(raw, res)
			return true
		}
		return false
	})
}
