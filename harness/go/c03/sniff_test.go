//go:build verif

package sniff

// C03 harness, extras/sniff: Sniffer.TCP on scripted streams (every chunking, EOF / reset /
// timeout at the end), Sniffer.UDP on datagrams, Check on hostile addresses.

import (
	"bytes"
	"errors"
	"os"
	"testing"
	"time"

	quicgo "github.com/apernet/quic-go"

	quicInternal "github.com/apernet/hysteria/extras/v2/sniff/internal/quic"
)

type c03Stream struct {
	r       c03Reader
	dlFail  bool
	dlCalls int
}

func (s *c03Stream) StreamID() quicgo.StreamID          { return 0 }
func (s *c03Stream) Read(b []byte) (int, error)         { return s.r.Read(b) }
func (s *c03Stream) Write(p []byte) (int, error)        { return len(p), nil }
func (s *c03Stream) Close() error                       { return nil }
func (s *c03Stream) SetWriteDeadline(t time.Time) error { return nil }
func (s *c03Stream) SetDeadline(t time.Time) error      { return nil }
func (s *c03Stream) SetReadDeadline(t time.Time) error {
	s.dlCalls++
	if s.dlFail && s.dlCalls == 1 {
		return errors.New("deadline refused")
	}
	return nil
}

func c03TLSRecord(hello []byte, lenAdd int) []byte {
	l := len(hello) + lenAdd
	if l < 0 {
		l = 0
	}
	return c03Cat([]byte{0x16, 0x03, 0x01, byte(l >> 8), byte(l)}, hello)
}

func init() {
	addrs := []string{"1.2.3.4:443", "[::1]:80", "example.com:443", "noport", "", "@speedtest", "1.2.3.4:99999", "[::1", ":"}
	c03Register(&c03EP{
		name: "sniff.Sniffer.TCP",
		hdr:  64,
		valid: func(r *c03Rng) [][]byte {
			switch r.intn(4) {
			case 0:
				return [][]byte{[]byte("GET /x HTTP/1.1\r\nHost: h" + string('a'+byte(r.intn(26))) + ".example:8080\r\nX: y\r\n\r\nbody")}
			case 1:
				return [][]byte{[]byte("POST / HTTP/1.0\r\nContent-Length: 3\r\n\r\nabc")}
			case 2:
				return [][]byte{c03TLSRecord(c03ClientHello("tls.example"), r.pick([]int{0, 0, 0, -1, 1, -5, 300}))}
			}
			return [][]byte{c03Cat(c03TLSRecord(c03ClientHello("a.b"), 0), c03TLSRecord([]byte{1, 2, 3}, 0))}
		},
		boundary: func() [][][]byte {
			var out [][]byte
			// TLS record-length field at every interesting value with 0, 1, n-1, n, n+1 bytes following
			for _, first := range []byte{0x16, 0x17} {
				for _, l := range []int{0, 1, 2, 3, 4, 5, 255, 256, 16384, 65535} {
					for _, have := range []int{0, 1, l - 1, l, l + 1} {
						if have >= 0 && have <= 70000 {
							out = append(out, c03Cat([]byte{first, 3, 1, byte(l >> 8), byte(l)}, c03Fill(have, 1)))
						}
					}
				}
				out = append(out, []byte{first, 3, 9}, []byte{first, 3, 10}, []byte{first, 3, 1, 0}, []byte{first, 3})
			}
			// HTTP-looking prefixes
			for _, s := range []string{"GET", "GET ", "get / HTTP/1.1\r\n\r\n", "AAA", "zzz\r\n\r\n", "GET / HTTP/1.1\r\nHost: [::1]:1\r\n\r\n", "GET / HTTP/1.1\r\nHost: \r\n\r\n",
				"GET / HTTP/1.1\r\nHost: a:b:c\r\n\r\n", "GET http://u@h:1/ HTTP/1.1\r\n\r\n", "GET / HTTP/1.1\r\nHost: " + string(c03Fill(70000, 'a')) + "\r\n\r\n"} {
				out = append(out, []byte(s))
			}
			out = append(out, c03Cat([]byte("GET / HTTP/1.1\r\n"), bytes.Repeat([]byte("X: y\r\n"), 50000)))
			return c03One(out...)
		},
		run: func(seq [][]byte) string {
			cls := ""
			b := seq[0]
			for mode := 0; mode < 4; mode++ {
				for fi, fin := range []error{errors.New("reset"), os.ErrDeadlineExceeded} {
					for ai := 0; ai < 2; ai++ {
						addr := addrs[(len(b)+mode*2+fi+ai*5)%len(addrs)]
						st := &c03Stream{r: c03Reader{data: append([]byte(nil), b...), mode: mode, fin: fin, seed: uint64(len(b))}, dlFail: len(b)%17 == 5 && mode == 2}
						sn := &Sniffer{RewriteDomain: mode%2 == 0, Timeout: time.Duration(mode) * time.Second}
						a := addr
						pre, err := sn.TCP(st, &a)
						if err == nil && !st.dlFail && len(pre) > len(b) {
							panic("Sniffer.TCP returned more bytes than the stream carried")
						}
						if mode == 0 && fi == 0 && ai == 0 {
							switch {
							case err != nil:
								cls = "err"
							case a != addr:
								cls = "rewritten"
							default:
								cls = "kept"
							}
						}
					}
				}
			}
			return cls
		},
	})
	c03Register(&c03EP{
		name:  "sniff.Sniffer.UDP",
		hdr:   48,
		valid: func(r *c03Rng) [][]byte { return [][]byte{c03ValidInitial(r)} },
		boundary: func() [][][]byte {
			out := [][]byte{{0x40, 0, 0, 0, 1, 0, 0, 0, 1, 0xaa}}
			for _, l := range []int{1, 2, 4, 15, 16, 19, 20, 21} {
				for _, first := range []byte{0x40, 0x43, 0xc0, 0xc3} {
					for _, ver := range []uint32{1, 0x6b3343cf} {
						out = append(out, c03Cat([]byte{first, byte(ver >> 24), byte(ver >> 16), byte(ver >> 8), byte(ver), 0, 0, 0}, c03VarintW(uint64(l), 1), c03Fill(l, 0xaa)))
					}
				}
			}
			return c03One(out...)
		},
		run: func(seq [][]byte) string {
			orig := append([]byte(nil), seq[0]...)
			cls := "kept"
			for i, addr := range addrs {
				sn := &Sniffer{RewriteDomain: i%2 == 0}
				a := addr
				err := sn.UDP(seq[0], &a)
				if !bytes.Equal(orig, seq[0]) {
					panic("Sniffer.UDP modified the caller's datagram")
				}
				_ = sn.Check(true, a)
				_ = sn.Check(false, addr)
				if i == 0 {
					if err != nil {
						cls = "err"
					} else if a != addr {
						cls = "rewritten"
					}
				}
			}
			return cls
		},
		facts: func(seq [][]byte) map[string]any {
			pkt := seq[0]
			f := map[string]any{"len": len(pkt)}
			if hdr, off, err := quicInternal.ParseInitialHeader(append([]byte(nil), pkt...)); err == nil {
				f["offset"] = off
				f["length"] = hdr.Length
				f["long"] = len(pkt) > 0 && pkt[0]&0x80 != 0
				f["short_for_sample"] = off+hdr.Length < off+4+16
			}
			return f
		},
	})
}

func TestVerifC03(t *testing.T) {
	c03Main(t, nil)
}
