//go:build verif

package speedtest

// C03 harness, extras/outbounds/speedtest: server(conn) and the request / response / summary
// readers on scripted connections (any chunking, zero-length reads, errors, failing writes), and
// the client's Download / Upload against hostile replies.

import (
	"encoding/binary"
	"encoding/json"
	"errors"
	"io"
	"net"
	"strconv"
	"testing"
	"time"
)

// scripted net.Conn.  Read follows coq/lib/Reader.v read1: the head event hands over all its
// bytes (with its error, if any) when they fit, otherwise len(p) bytes without error.
type c03Ev struct {
	D string `json:"d"`
	E string `json:"e"` // "", "eof", "other"
	b []byte
}

var errC03Other = errors.New("c03: injected error")

type c03SConn struct {
	evs      []c03Ev
	wr       []bool
	writes   []int
	consumed int
	reads    int
	maxRead  int
}

func (c *c03SConn) Read(p []byte) (int, error) {
	c.reads++
	if len(p) > c.maxRead {
		c.maxRead = len(p)
	}
	if len(c.evs) == 0 {
		return 0, io.EOF
	}
	e := &c.evs[0]
	if len(e.b) <= len(p) {
		n := copy(p, e.b)
		c.consumed += n
		var err error
		switch e.E {
		case "eof":
			err = io.EOF
		case "other":
			err = errC03Other
		}
		c.evs = c.evs[1:]
		return n, err
	}
	n := copy(p, e.b[:len(p)])
	e.b = e.b[n:]
	c.consumed += n
	return n, nil
}

func (c *c03SConn) Write(p []byte) (int, error) {
	ok := true
	if len(c.wr) > 0 {
		ok = c.wr[0]
		c.wr = c.wr[1:]
	}
	if !ok {
		return 0, errC03Other
	}
	if len(c.writes) < 1<<17 {
		c.writes = append(c.writes, len(p))
	}
	return len(p), nil
}
func (c *c03SConn) Close() error                       { return nil }
func (c *c03SConn) LocalAddr() net.Addr                { return nil }
func (c *c03SConn) RemoteAddr() net.Addr               { return nil }
func (c *c03SConn) SetDeadline(t time.Time) error      { return nil }
func (c *c03SConn) SetReadDeadline(t time.Time) error  { return nil }
func (c *c03SConn) SetWriteDeadline(t time.Time) error { return nil }

func c03ErrClassS(err error) string {
	switch {
	case err == nil:
		return "ok"
	case err == io.EOF:
		return "eof"
	case err == io.ErrUnexpectedEOF:
		return "short"
	case err == errC03Other:
		return "other"
	}
	return "invalid"
}

// cut a byte string into events by mode (as c03Reader does)
func c03Events(b []byte, mode int, fin string) []c03Ev {
	var evs []c03Ev
	switch mode {
	case 0:
		evs = append(evs, c03Ev{b: b})
	case 1:
		for _, x := range b {
			evs = append(evs, c03Ev{b: []byte{x}})
		}
	default:
		seed := uint64(len(b))*2654435761 + 12345
		for len(b) > 0 {
			seed = seed*6364136223846793005 + 1442695040888963407
			k := int(seed>>33)%7 + 1
			if k > len(b) {
				k = len(b)
			}
			if seed>>60 == 0 {
				evs = append(evs, c03Ev{})
			}
			evs = append(evs, c03Ev{b: b[:k]})
			b = b[k:]
		}
	}
	if fin != "" {
		if mode == 3 && len(evs) > 0 {
			evs[len(evs)-1].E = fin
		} else {
			evs = append(evs, c03Ev{E: fin})
		}
	}
	return evs
}

type c03Combo struct {
	mode int
	fin  string
	wr   []bool
}

// every chunking x final error x write script for short inputs; the plain run plus two varied
// runs for long ones (one-byte chunking of a 70000-byte stream 48 times over is only slow)
func c03Combos(n int) []c03Combo {
	wrs := [][]bool{nil, {false}, {true, false}, {true, true, true, false}}
	fins := []string{"", "eof", "other"}
	if n <= 64 {
		var out []c03Combo
		for mode := 0; mode < 4; mode++ {
			for _, fin := range fins {
				for _, wr := range wrs {
					out = append(out, c03Combo{mode, fin, wr})
				}
			}
		}
		return out
	}
	m := 2 + n%2
	if n <= 3000 {
		m = 1 + n%3
	}
	return []c03Combo{{0, "", nil}, {m, fins[n%3], wrs[n%4]}, {3, fins[(n+1)%3], wrs[(n+2)%4]}}
}

func init() {
	c03Register(&c03EP{
		name: "speedtest.server",
		hdr:  8,
		valid: func(r *c03Rng) [][]byte {
			l := uint32(r.pick([]int{0, 1, chunkSize - 1, chunkSize, chunkSize + 1, 3 * chunkSize, 1 << 20}))
			b := []byte{byte(1 + r.intn(2))}
			b = binary.BigEndian.AppendUint32(b, l)
			if b[0] == typeUpload {
				b = append(b, make([]byte, int(l)%200000)...)
			}
			return [][]byte{b}
		},
		boundary: func() [][][]byte {
			var out [][]byte
			for _, typ := range []byte{0, 1, 2, 3, 0xff} {
				for _, l := range []uint32{0, 1, chunkSize - 1, chunkSize, chunkSize + 1, 2*chunkSize + 1, 1 << 31, 1<<32 - 1} {
					b := binary.BigEndian.AppendUint32([]byte{typ}, l)
					out = append(out, b, c03Cat(b, c03Fill(10, 1)), c03Cat(b, c03Fill(chunkSize+5, 1)))
				}
			}
			return c03One(out...)
		},
		run: func(seq [][]byte) string {
			cls := ""
			for i, cb := range c03Combos(len(seq[0])) {
				c := &c03SConn{evs: c03Events(append([]byte(nil), seq[0]...), cb.mode, cb.fin), wr: cb.wr}
				err := server(c)
				if c.maxRead > chunkSize {
					panic("server asked for more than chunkSize bytes in one Read")
				}
				if i == 0 {
					cls = c03ErrClassS(err)
				}
			}
			return cls
		},
	})
	c03Register(&c03EP{
		name: "speedtest.readers",
		valid: func(r *c03Rng) [][]byte {
			ml := r.pick([]int{0, 1, 2, 100, 65535})
			b := []byte{byte(r.intn(3))}
			b = binary.BigEndian.AppendUint16(b, uint16(ml))
			return [][]byte{append(b, r.bytes(ml)...)}
		},
		run: func(seq [][]byte) string {
			cls := ""
			for ci, cb := range c03Combos(len(seq[0])) {
				if cb.wr != nil {
					continue
				}
				{
					mode, fin := cb.mode, cb.fin
					_ = ci
					mk := func() *c03SConn { return &c03SConn{evs: c03Events(append([]byte(nil), seq[0]...), mode, fin)} }
					_, _, e1 := readDownloadResponse(mk())
					_, _, e2 := readUploadResponse(mk())
					d, _, e3 := readUploadSummary(mk())
					_, e4 := readDownloadRequest(mk())
					_, e5 := readUploadRequest(mk())
					if e3 == nil && d < 0 {
						panic("readUploadSummary returned a negative duration")
					}
					if mode == 0 && fin == "" {
						cls = c03ErrClassS(e1) + c03ErrClassS(e2)[:1] + c03ErrClassS(e3)[:1] + c03ErrClassS(e4)[:1] + c03ErrClassS(e5)[:1]
					}
				}
			}
			return cls
		},
	})
	c03Register(&c03EP{
		name: "speedtest.Client",
		valid: func(r *c03Rng) [][]byte {
			b := []byte{0, 0, 2, 'O', 'K'}
			return [][]byte{append(b, r.bytes(r.pick([]int{0, 8, 100, 70000}))...)}
		},
		run: func(seq [][]byte) string {
			cls := ""
			modes := []int{0, 1, 2}
			if len(seq[0]) > 3000 {
				modes = []int{0, 2}
			}
			for _, mode := range modes {
				for _, size := range []uint32{0, 1, 50, chunkSize + 1} {
					cb := func(time.Duration, uint64, bool) {}
					c1 := &Client{Conn: &c03SConn{evs: c03Events(append([]byte(nil), seq[0]...), mode, "")}}
					e1 := c1.Download(size, 0, cb)
					c2 := &Client{Conn: &c03SConn{evs: c03Events(append([]byte(nil), seq[0]...), mode, ""), wr: []bool{true, true, size%2 == 0}}}
					e2 := c2.Upload(size, 0, cb)
					if mode == 0 && size == 50 {
						cls = c03ErrClassS(e1) + "/" + c03ErrClassS(e2)
					}
				}
			}
			return cls
		},
	})
}

// ---------------------------------------------------------------- model comparison (gap b)
func c03ST(raw json.RawMessage, res map[string]any) {
	var c struct {
		F   string  `json:"f"` // server | response | summary | u32
		Evs []c03Ev `json:"evs"`
		Wr  []bool  `json:"wr"`
	}
	if err := json.Unmarshal(raw, &c); err != nil {
		panic(err)
	}
	for i := range c.Evs {
		c.Evs[i].b = vUnhex(c.Evs[i].D)
	}
	conn := &c03SConn{evs: c.Evs, wr: c.Wr}
	p, msg := vCatch(func() {
		switch c.F {
		case "server":
			err := server(conn)
			res["r"] = c03ErrClassS(err)
		case "response":
			ok, m, err := readDownloadResponse(conn)
			res["r"] = c03ErrClassS(err)
			res["okflag"] = ok
			res["ml"] = len(m)
			res["md"] = vDigest([]byte(m))
		case "summary":
			d, l, err := readUploadSummary(conn)
			res["r"] = c03ErrClassS(err)
			res["d"] = strconv.FormatInt(int64(d), 10)
			res["l"] = l
		case "u32":
			l, err := readUploadRequest(conn)
			res["r"] = c03ErrClassS(err)
			res["l"] = l
		}
	})
	res["writes"] = conn.writes
	res["consumed"] = conn.consumed
	res["reads"] = conn.reads
	res["panic"] = p
	res["ok"] = !p && conn.maxRead <= chunkSize
	res["why"] = ""
	if p {
		res["why"] = "panic in speedtest " + c.F + ": " + msg
	} else if conn.maxRead > chunkSize {
		res["why"] = "speedtest " + c.F + " asked for more than chunkSize bytes in one Read"
	}
}

func TestVerifC03(t *testing.T) {
	vParams(t, [][3]string{
		{"st_chunkSize", "N", strconv.Itoa(chunkSize)},
		{"st_typeDownload", "N", strconv.Itoa(typeDownload)},
		{"st_typeUpload", "N", strconv.Itoa(typeUpload)},
	})
	c03Main(t, func(kind string, raw json.RawMessage, res map[string]any) bool {
		if kind == "st" {
			c03ST(raw, res)
			return true
		}
		return false
	})
}
