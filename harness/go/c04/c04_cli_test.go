//go:build verif

package client

// C04 harness, client-side class: the REAL consumer of the TCPResponse frame - clientImpl.TCP (eager path:
// protocol.ReadTCPResponse right behind WriteTCPRequest) and tcpConn.Read (lazy FastOpen path: the response is
// parsed by the application's first Read) of /repo's working tree - on a real QUIC stream (loopback, one raw
// quic-go connection for the whole run), followed by the application's payload Reads with caller buffers of
// every small size.
//
// The peer of every stream is a scripted raw server: it takes the request off the stream (frame type +
// protocol.ReadTCPRequest), looks the address up in the script table and then writes the bytes of the case -
// a response frame with the status byte, the message length and the padding length on whatever legal varint
// width the case chose, followed by the payload - in the Writes the case prescribes, and CONTROLS COALESCING:
//
//   hold   the peer writes the first `hold` bytes of the stream and then stops.  If hold lies behind the frame
//          the application waits (quic.Stream.Peek, which consumes nothing) until exactly these bytes are queued
//          in its stream, then issues its first Read - response and the beginning of the payload coalesced, cut
//          at any position - and only after that Read has returned the peer writes the rest.  If hold lies
//          inside (or at the end of) the frame the peer pauses hold_ms: the response itself arrives in two parts.
//   queue  without a hold the application may still wait until `queue` bytes of the stream have arrived
//          (everything: response and the whole payload already queued when the first Read runs).
//
// Verdict, on the implementation alone ("exact consumption: not one byte beyond the frame is consumed", seen from
// the application):
//   success response   TCP() succeeds and the concatenation of what the application's Reads return is exactly
//                      the payload behind the frame, first byte included, nothing lost, nothing twice, whatever
//                      the buffer sizes; with FIN the Reads end with io.EOF after the last payload byte;
//   failure response   a DialError carrying exactly the message - from TCP() without fast open, from the first
//                      Read with it - and not one payload byte;
//   over-limit length  an error that is not a DialError, no payload byte.
// Every blocking call is bounded; "bytes never arrived" is only a verdict after one more stream with a canonical
// response, opened on the same connection afterwards, was served (probe); trouble of the peer is a skip.

import (
	"bytes"
	"context"
	"crypto/tls"
	"encoding/json"
	"errors"
	"fmt"
	"io"
	"net"
	"sort"
	"strconv"
	"sync"
	"testing"
	"time"

	coreErrs "github.com/apernet/hysteria/core/v2/errors"
	"github.com/apernet/hysteria/core/v2/internal/protocol"
	"github.com/apernet/quic-go"
	"github.com/apernet/quic-go/quicvarint"
)

type c04cSeg struct {
	T   string `json:"t"`
	Hex string `json:"hex"`
	A   uint64 `json:"a"`
	B   uint64 `json:"b"`
	N   int    `json:"n"`
	W   int    `json:"w"`
	V   string `json:"v"`
}

type c04cCase struct {
	K        string    `json:"k"`
	G        string    `json:"g"`
	FO       bool      `json:"fo"`
	Segs     []c04cSeg `json:"segs"`
	Expect   string    `json:"expect"`   // ok | dial | invalid
	MsgSeg   int       `json:"msg_seg"`  // index of the message segment (-1: empty message)
	Consumed int       `json:"consumed"` // end of the response frame = start of the payload
	WCuts    []int     `json:"wcuts"`    // stream offsets at which the peer starts a new Write
	SleepMs  int       `json:"sleep_ms"` // pause between two Writes
	Hold     int       `json:"hold"`     // -1: none; see above
	HoldMs   int       `json:"hold_ms"`
	Queue    int       `json:"queue"` // bytes of the stream that must have arrived before the first Read (0: read at once)
	Bufs     []int     `json:"bufs"`  // len(p) of the application's Reads, the last one repeats
	Fin      bool      `json:"fin"`   // the peer ends the stream behind the payload
}

const c04cProbeAddr = "c04c-probe.invalid:1"
const c04cProbePayload = "c04c-probe-payload"

func c04cEncW(w int, v uint64) []byte {
	out := make([]byte, w)
	for i := w - 1; i >= 0; i-- {
		out[i] = byte(v)
		v >>= 8
	}
	tag := map[int]byte{1: 0x00, 2: 0x40, 4: 0x80, 8: 0xc0}[w]
	out[0] = (out[0] & 0x3f) | tag
	return out
}

func (s c04cSeg) bytes() []byte {
	switch s.T {
	case "lit":
		return vUnhex(s.Hex)
	case "gen":
		return vGenData(s.A, s.B, s.N)
	case "vi":
		v, err := strconv.ParseUint(s.V, 10, 64)
		if err != nil {
			panic(err)
		}
		return c04cEncW(s.W, v)
	}
	panic("unknown segment type " + s.T)
}

// checksum of coq/corr/C04_Corr.v (cksum)
func c04cSum(b []byte) uint64 {
	var h uint32
	for _, c := range b {
		h = h*131 + uint32(c) + 1
	}
	return uint64(h)
}

// class of an error, as the model names them
func c04cClass(err error) (string, string) {
	var de coreErrs.DialError
	var pe coreErrs.ProtocolError
	var se *quic.StreamError
	var ne net.Error
	switch {
	case err == nil:
		return "nil", ""
	case errors.As(err, &de):
		return "dial", de.Message
	case errors.Is(err, io.ErrUnexpectedEOF):
		return "short", ""
	case errors.Is(err, io.EOF):
		return "eof", ""
	case errors.As(err, &pe):
		return "invalid", ""
	case errors.As(err, &se):
		return "reset", ""
	case errors.As(err, &ne) && ne.Timeout():
		return "timeout", ""
	}
	return "other", ""
}

type c04cPeerRes struct {
	err     string
	written int
}

type c04cScript struct {
	stream   []byte
	wcuts    []int
	sleep    time.Duration
	hold     int
	holdMs   int
	consumed int
	fin      bool
	gate     chan struct{} // closed by the application after its first Read (or when it gives up)
	finish   chan struct{} // closed by the application at the end of the case
	done     chan c04cPeerRes
	gateOnce sync.Once
}

func (s *c04cScript) openGate() { s.gateOnce.Do(func() { close(s.gate) }) }

type c04cPeer struct {
	mu      sync.Mutex
	scripts map[string]*c04cScript
}

func (p *c04cPeer) serve(sc *quic.Conn) {
	for {
		st, err := sc.AcceptStream(context.Background())
		if err != nil {
			return
		}
		go p.handle(st)
	}
}

func (p *c04cPeer) handle(st *quic.Stream) {
	_ = st.SetReadDeadline(time.Now().Add(20 * time.Second))
	ft, err := quicvarint.Read(quicvarint.NewReader(st))
	if err != nil || ft != protocol.FrameTypeTCPRequest {
		st.CancelRead(0)
		st.CancelWrite(0)
		return
	}
	addr, err := protocol.ReadTCPRequest(st)
	if err != nil {
		st.CancelRead(0)
		st.CancelWrite(0)
		return
	}
	if addr == c04cProbeAddr {
		_ = st.SetWriteDeadline(time.Now().Add(10 * time.Second))
		_ = protocol.WriteTCPResponse(st, true, "probe")
		_, _ = st.Write([]byte(c04cProbePayload))
		_ = st.Close()
		st.CancelRead(0)
		return
	}
	p.mu.Lock()
	s := p.scripts[addr]
	delete(p.scripts, addr)
	p.mu.Unlock()
	if s == nil {
		st.CancelRead(0)
		st.CancelWrite(0)
		return
	}
	var res c04cPeerRes
	defer func() {
		s.done <- res
		select {
		case <-s.finish:
		case <-time.After(60 * time.Second):
		}
		if s.fin && res.err == "" {
			// already closed
		} else {
			_ = st.Close()
		}
		st.CancelRead(0)
	}()
	T := len(s.stream)
	ps := map[int]bool{}
	for _, c := range s.wcuts {
		if c > 0 && c < T {
			ps[c] = true
		}
	}
	if s.hold > 0 && s.hold < T {
		ps[s.hold] = true
	}
	cuts := make([]int, 0, len(ps)+1)
	for c := range ps {
		cuts = append(cuts, c)
	}
	sort.Ints(cuts)
	cuts = append(cuts, T)
	prev := 0
	if s.hold == 0 {
		time.Sleep(time.Duration(s.holdMs) * time.Millisecond)
	}
	for _, c := range cuts {
		if c <= prev {
			continue
		}
		if prev > 0 {
			if prev == s.hold {
				if s.hold > s.consumed {
					select {
					case <-s.gate:
					case <-time.After(30 * time.Second):
						res.err = "the application never issued its first Read"
						return
					}
				} else {
					time.Sleep(time.Duration(s.holdMs) * time.Millisecond)
				}
			} else if s.sleep > 0 {
				time.Sleep(s.sleep)
			}
		}
		_ = st.SetWriteDeadline(time.Now().Add(20 * time.Second))
		if _, err := st.Write(s.stream[prev:c]); err != nil {
			res.err = "write: " + err.Error()
			return
		}
		prev = c
		res.written = c
	}
	if s.fin {
		if err := st.Close(); err != nil {
			res.err = "close: " + err.Error()
		}
	}
}

// one more stream, canonical response, read with a large buffer: served = the connection and the peer are alive
func c04cProbe(cc *quic.Conn) error {
	cl := &clientImpl{config: &Config{FastOpen: false}, conn: cc}
	type r struct {
		c   net.Conn
		err error
	}
	ch := make(chan r, 1)
	go func() {
		c, err := cl.TCP(c04cProbeAddr)
		ch <- r{c, err}
	}()
	var conn net.Conn
	select {
	case x := <-ch:
		if x.err != nil {
			return x.err
		}
		conn = x.c
	case <-time.After(15 * time.Second):
		return errors.New("probe: TCP() did not return")
	}
	defer conn.Close()
	_ = conn.SetReadDeadline(time.Now().Add(15 * time.Second))
	got, err := io.ReadAll(conn)
	if err != nil {
		return err
	}
	if string(got) != c04cProbePayload {
		return fmt.Errorf("probe payload %q", got)
	}
	return nil
}

func c04cStable(s string) string {
	out := make([]byte, 0, len(s))
	prev := false
	for i := 0; i < len(s); i++ {
		if s[i] >= '0' && s[i] <= '9' {
			if !prev {
				out = append(out, '#')
			}
			prev = true
			continue
		}
		prev = false
		out = append(out, s[i])
	}
	return string(out)
}

func c04cRun(idx int, c c04cCase, cc *quic.Conn, peer *c04cPeer, res map[string]any) {
	var stream []byte
	segBytes := make([][]byte, len(c.Segs))
	for i, sg := range c.Segs {
		segBytes[i] = sg.bytes()
		stream = append(stream, segBytes[i]...)
	}
	T := len(stream)
	var msg, payload []byte
	if c.MsgSeg >= 0 {
		msg = segBytes[c.MsgSeg]
	}
	if c.Expect != "invalid" {
		payload = stream[c.Consumed:]
	}
	bufs := c.Bufs
	if len(bufs) == 0 {
		bufs = []int{4096}
	}
	addr := fmt.Sprintf("c04c-%d-%d.invalid:1", idx, time.Now().UnixNano()%1000000)
	s := &c04cScript{stream: stream, wcuts: c.WCuts, sleep: time.Duration(c.SleepMs) * time.Millisecond, hold: c.Hold,
		holdMs: c.HoldMs, consumed: c.Consumed, fin: c.Fin, gate: make(chan struct{}), finish: make(chan struct{}),
		done: make(chan c04cPeerRes, 1)}
	peer.mu.Lock()
	peer.scripts[addr] = s
	peer.mu.Unlock()
	defer close(s.finish)
	defer s.openGate()

	ok, why := true, ""
	fail := func(f string, a ...any) {
		if ok {
			ok, why = false, fmt.Sprintf(f, a...)
		}
	}
	skip := func(f string, a ...any) {
		if res["skip"] == nil {
			res["skip"] = fmt.Sprintf(f, a...)
		}
	}
	mode := "TCP() without fast open"
	if c.FO {
		mode = "fast open"
	}
	how := fmt.Sprintf("%s; response frame of %d bytes followed by %d payload bytes, hold %d, queue %d, first read buffers %v",
		mode, c.Consumed, T-c.Consumed, c.Hold, c.Queue, bufs[:min(len(bufs), 3)])
	res["tcp"], res["final"], res["mlen"], res["mdg"], res["glen"], res["gdg"] = "hang", "none", 0, 0, 0, 0
	peerDone := func(wait time.Duration) *c04cPeerRes {
		select {
		case r := <-s.done:
			s.done <- r
			return &r
		case <-time.After(wait):
			return nil
		}
	}
	finish := func() {
		res["ok"], res["why"], res["detail"] = ok, c04cStable(why), why
		if !ok {
			res["detail"] = why + " [" + how + "]"
		}
	}
	defer finish()

	cl := &clientImpl{config: &Config{FastOpen: c.FO}, conn: cc}
	type tcpRes struct {
		c   net.Conn
		err error
	}
	tch := make(chan tcpRes, 1)
	go func() {
		conn, err := cl.TCP(addr)
		tch <- tcpRes{conn, err}
	}()
	var conn net.Conn
	var terr error
	select {
	case r := <-tch:
		conn, terr = r.c, r.err
	case <-time.After(25 * time.Second):
		s.openGate()
		pr := peerDone(20 * time.Second)
		if pr == nil || pr.err != "" || pr.written < c.Consumed {
			skip("TCP() did not return and the peer did not finish either (%v)", pr)
			return
		}
		if perr := c04cProbe(cc); perr != nil {
			skip("probe after a hanging TCP(): %v", perr)
			return
		}
		fail("TCP() did not return although the peer wrote the complete response frame and a later stream on the same connection was served")
		return
	}
	tcls, tmsg := c04cClass(terr)
	if terr == nil {
		tcls = "ok"
	}
	res["tcp"] = tcls
	var got []byte
	fcls, fmsg := "none", ""
	nreads := 0
	firstN := -1
	probed := false
	if terr == nil {
		defer conn.Close()
		tc, isTC := conn.(*tcpConn)
		// wait until the prescribed part of the stream has ARRIVED (Peek consumes nothing)
		queue := c.Queue
		if c.Hold > c.Consumed && c.Hold < T {
			queue = c.Hold
		}
		if queue > T {
			queue = T
		}
		need := queue
		if !c.FO {
			need = queue - c.Consumed // TCP() has taken the frame
		}
		if isTC && need > 0 && c.Expect == "ok" {
			_ = tc.Orig.Stream.SetReadDeadline(time.Now().Add(12 * time.Second))
			pb := make([]byte, need)
			pn, perr := tc.Orig.Stream.Peek(pb)
			res["peek"] = pn
			if perr != nil && !(perr == io.EOF && pn == need) {
				res["peek_err"] = perr.Error()
				if c.FO {
					// nothing has been consumed yet: the bytes did not arrive, not a matter of the code under test
					s.openGate()
					if pr := peerDone(20 * time.Second); pr != nil && pr.err != "" {
						skip("peer: %s", pr.err)
					} else {
						skip("the first %d bytes of the stream did not arrive (%v)", need, perr)
					}
					return
				}
				// without fast open TCP() has already been at the stream: go on and judge by what the Reads deliver
				s.openGate()
			}
		}
		// the first Read may have to parse the response: a deadline that expires in the middle of the frame cannot be
		// retried, so it is generous; the later ones are short, and a timeout is followed by a probe (a whole new stream
		// served on the same connection) and one more look before it counts
		_ = conn.SetReadDeadline(time.Now().Add(20 * time.Second))
		var buf []byte
		for i := 0; i == 0 || c.Fin || len(got) < len(payload); i++ {
			sz := bufs[min(i, len(bufs)-1)]
			if len(buf) != sz {
				buf = make([]byte, sz)
			}
			n, rerr := conn.Read(buf)
			nreads++
			if i == 0 {
				firstN = n
				s.openGate()
				_ = conn.SetReadDeadline(time.Now().Add(6 * time.Second))
			}
			got = append(got, buf[:n]...)
			if rerr != nil {
				cls, m := c04cClass(rerr)
				if cls == "timeout" && i > 0 && !probed && isTC && tc.Established {
					if perr := c04cProbe(cc); perr != nil {
						skip("probe after a timeout: %v", perr)
						fcls = "timeout"
						break
					}
					probed = true
					_ = conn.SetReadDeadline(time.Now().Add(2 * time.Second))
					continue
				}
				fcls, fmsg = cls, m
				break
			}
			if probed {
				_ = conn.SetReadDeadline(time.Now().Add(6 * time.Second))
			}
			if len(got) > len(payload) {
				fcls = "overrun"
				break
			}
			if nreads > 4*T+1000 {
				fcls = "stuck"
				break
			}
		}
	}
	s.openGate()
	res["final"] = fcls
	res["reads"], res["first_n"] = nreads, firstN
	res["glen"], res["gdg"] = len(got), c04cSum(got)
	dmsg := []byte(tmsg)
	if fcls == "dial" {
		dmsg = []byte(fmsg)
	}
	res["mlen"], res["mdg"] = len(dmsg), c04cSum(dmsg)
	pr := peerDone(20 * time.Second)
	// the client abandons the stream after a DialError / a rejected response (TCP() closes it): a Write of the peer that
	// fails behind the frame is then no trouble of the peer
	abandoned := tcls == "dial" || tcls == "invalid" || fcls == "dial" || fcls == "invalid"
	if pr == nil {
		skip("the peer did not finish")
	} else if pr.err != "" && !(abandoned && pr.written >= c.Consumed) {
		skip("peer: %s", pr.err)
	}
	if res["skip"] != nil {
		return
	}

	// ---- verdict, on the implementation alone
	switch c.Expect {
	case "invalid":
		if len(got) > 0 {
			fail("over-limit length in the response: the application read %d bytes", len(got))
		}
		if tcls == "dial" || fcls == "dial" {
			fail("over-limit length in the response was reported as a DialError")
		}
		if !c.FO && terr == nil {
			fail("TCP() succeeded on a response with an over-limit length")
		}
		if c.FO && (terr != nil || fcls == "none" || fcls == "eof" || fcls == "timeout") {
			fail("fast open: a response with an over-limit length ended as TCP() %s, Reads %s", tcls, fcls)
		}
	case "dial":
		if len(got) > 0 {
			fail("failure response: the application read %d bytes", len(got))
		}
		if c.FO {
			if terr != nil {
				fail("fast open: TCP() failed with %s before any Read", tcls)
			} else if fcls == "timeout" {
				if perr := c04cProbe(cc); perr != nil {
					skip("probe after a timeout: %v", perr)
					return
				}
				fail("fast open: the first Read timed out although the peer wrote the complete failure response and a later stream was served")
			} else if fcls != "dial" || !bytes.Equal([]byte(fmsg), msg) {
				fail("fast open: the first Read ended with %s and a message of %d bytes, the server's dial error message has %d bytes", fcls, len(fmsg), len(msg))
			}
		} else if tcls != "dial" || !bytes.Equal([]byte(tmsg), msg) {
			fail("TCP() ended with %s and a message of %d bytes, the server's dial error message has %d bytes", tcls, len(tmsg), len(msg))
		}
	default:
		if terr != nil {
			fail("TCP() failed with %s after a complete success response", tcls)
			break
		}
		if len(got) > len(payload) || !bytes.Equal(got, payload[:len(got)]) {
			k := 0
			for k < len(got) && k < len(payload) && got[k] == payload[k] {
				k++
			}
			at := bytes.Index(payload, got[k:min(len(got), k+16)])
			fail("the %d bytes the application read are not a prefix of the %d payload bytes behind the response frame: first difference at offset %d (what it got there is found at payload offset %d): payload bytes were swallowed or reordered", len(got), len(payload), k, at)
			break
		}
		if len(got) < len(payload) {
			if fcls == "timeout" || fcls == "eof" {
				if fcls == "timeout" && !probed {
					if perr := c04cProbe(cc); perr != nil {
						skip("probe after a timeout: %v", perr)
						return
					}
				}
				ctxt := "io.EOF (the peer wrote everything and closed the stream)"
				if fcls == "timeout" {
					ctxt = "a timeout although the peer wrote everything and a later stream on the same connection was served"
				}
				fail("the application received %d of the %d payload bytes behind the response frame (its first Read returned %d), then its Reads ended with %s: payload bytes behind the frame were consumed and not delivered", len(got), len(payload), firstN, ctxt)
			} else {
				fail("the application's Reads ended with %s after %d of %d payload bytes", fcls, len(got), len(payload))
			}
			break
		}
		if c.Fin && fcls != "eof" {
			fail("the stream ended with FIN behind the payload, the application's Reads ended with %s", fcls)
		}
		if !c.Fin && fcls != "none" {
			fail("the application's Reads ended with %s after the %d payload bytes", fcls, len(payload))
		}
	}
}

func TestVerifC04Cli(t *testing.T) {
	out := vOpenOut(t, "VERIF_OUT")
	defer out.Close()
	cases := vReadCases(t)
	cert, err := tls.LoadX509KeyPair("../internal/integration_tests/test.crt", "../internal/integration_tests/test.key")
	if err != nil {
		t.Fatal(err)
	}
	qconf := &quic.Config{MaxIdleTimeout: 120 * time.Second, MaxIncomingStreams: 1 << 20, KeepAlivePeriod: 5 * time.Second}
	ln, err := quic.ListenAddr("127.0.0.1:0", &tls.Config{Certificates: []tls.Certificate{cert}, NextProtos: []string{"verif-c04"}}, qconf)
	if err != nil {
		t.Fatal(err)
	}
	defer ln.Close()
	type acc struct {
		c   *quic.Conn
		err error
	}
	accCh := make(chan acc, 1)
	go func() {
		c, err := ln.Accept(context.Background())
		accCh <- acc{c, err}
	}()
	ctx, cancel := context.WithTimeout(context.Background(), 60*time.Second)
	defer cancel()
	cc, err := quic.DialAddr(ctx, ln.Addr().String(), &tls.Config{InsecureSkipVerify: true, NextProtos: []string{"verif-c04"}}, qconf)
	if err != nil {
		t.Fatal(err)
	}
	defer cc.CloseWithError(0, "")
	a := <-accCh
	if a.err != nil {
		t.Fatal(a.err)
	}
	peer := &c04cPeer{scripts: map[string]*c04cScript{}}
	go peer.serve(a.c)
	// the code under test: TCP() and the tcpConn it returns use nothing of clientImpl but conn and config.FastOpen
	failed := 0
	for i, raw := range cases {
		var c c04cCase
		if err := json.Unmarshal(raw, &c); err != nil {
			t.Fatal(err)
		}
		res := map[string]any{"i": i, "k": c.K}
		if failed >= 3 {
			// every failing session costs deadlines and a probe; three concrete ones are enough
			res["ok"], res["why"], res["skip"] = true, "", "not run: three sessions of this run have already failed"
			out.Emit(res)
			continue
		}
		panicked, msg := vCatch(func() { c04cRun(i, c, cc, peer, res) })
		if panicked {
			res["ok"], res["why"], res["panic"] = false, "panic: "+msg, true
		}
		if res["ok"] == false {
			failed++
		}
		out.Emit(res)
	}
}
