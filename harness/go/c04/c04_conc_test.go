//go:build verif

package protocol

// C04 concurrency class: K frames parsed at the same time by K goroutines (one per stream, as the
// server does with one goroutine per QUIC stream), each over its own scripted reader.  A reader PARKS
// at chosen chunk boundaries (gates: between length and value, inside the value, between value and
// padding, inside the padding) until the harness lets it go on, so a parser is suspended in the middle
// of its frame while other frames are parsed.
//
// mode "serial": the harness is the scheduler.  `sched` is the gating order: each entry names a stream
// that is started or released and then runs alone until its next gate or its end.  The interleaving is
// therefore fully determined by the case (K frames + gating order) and can be replayed.  One P and no GC
// during the case, so that per-P caches (sync.Pool) are handed from one parser to the next as they are
// on a busy server.
// mode "free": all parsers start together and only yield at their gates (for the race detector).
//
// Verdict (implementation alone): every stream returns what THAT stream carried - same predicate as
// the single-stream cases.  The parsers share no state, so the model stays sequential per stream.

import (
	"bytes"
	"encoding/json"
	"fmt"
	"runtime"
	"runtime/debug"
	"sync"

	"github.com/apernet/quic-go/quicvarint"
)

type c04Stream struct {
	Fn    string   `json:"fn"`
	Segs  []c04Seg `json:"segs"`
	Cuts  [][2]int `json:"cuts"`
	Gates []int    `json:"gates"` // event indices before which the reader parks (once each)
	Exp   c04Exp   `json:"exp"`
}

type c04ConcCase struct {
	K       string      `json:"k"`
	Mode    string      `json:"mode"`
	Streams []c04Stream `json:"streams"`
	Sched   []int       `json:"sched"`
}

// c04GReader is the scripted reader with gates.
type c04GReader struct {
	c04Reader
	gates  map[int]bool
	served int
	park   func()
}

func (r *c04GReader) Read(p []byte) (int, error) {
	if r.gates[r.served] {
		delete(r.gates, r.served)
		r.park()
	}
	before := len(r.evs)
	n, err := r.c04Reader.Read(p)
	r.served += before - len(r.evs)
	return n, err
}

func c04Parse(fn string, rd *c04GReader) (r c04Result) {
	var err error
	p, msg := vCatch(func() {
		switch fn {
		case "req":
			var s string
			s, err = ReadTCPRequest(rd)
			r.val = []byte(s)
		case "srv":
			if _, err = quicvarint.Read(quicvarint.NewReader(rd)); err == nil {
				var s string
				s, err = ReadTCPRequest(rd)
				r.val = []byte(s)
			}
		case "resp":
			var s string
			r.st, s, err = ReadTCPResponse(rd)
			r.val = []byte(s)
		default:
			panic("unknown fn " + fn)
		}
	})
	if p {
		r.cls, r.pmsg = "panic", msg
	} else {
		r.cls = c04Class(err)
	}
	if r.cls != "ok" {
		r.val, r.st = nil, false
	}
	r.left = rd.leftover()
	r.rd = &rd.c04Reader
	return r
}

func c04Conc(raw json.RawMessage, res map[string]any) {
	var c c04ConcCase
	if err := json.Unmarshal(raw, &c); err != nil {
		panic(err)
	}
	k := len(c.Streams)
	streams := make([][]byte, k)
	segBytes := make([][][]byte, k)
	readers := make([]*c04GReader, k)
	for i, s := range c.Streams {
		segBytes[i] = make([][]byte, len(s.Segs))
		for j, sg := range s.Segs {
			segBytes[i][j] = sg.bytes()
			streams[i] = append(streams[i], segBytes[i][j]...)
		}
		base := c04Script(streams[i], s.Cuts)
		readers[i] = &c04GReader{c04Reader: *base, gates: map[int]bool{}}
		for _, g := range s.Gates {
			readers[i].gates[g] = true
		}
	}
	results := make([]c04Result, k)

	if c.Mode == "free" {
		start := make(chan struct{})
		var wg sync.WaitGroup
		for i := range c.Streams {
			readers[i].park = func() { runtime.Gosched(); runtime.Gosched() }
			wg.Add(1)
			go func(i int) {
				defer wg.Done()
				<-start
				results[i] = c04Parse(c.Streams[i].Fn, readers[i])
			}(i)
		}
		close(start)
		wg.Wait()
	} else {
		defer runtime.GOMAXPROCS(runtime.GOMAXPROCS(1))
		defer debug.SetGCPercent(debug.SetGCPercent(-1))
		type ev struct {
			i    int
			done bool
		}
		yield := make(chan ev)
		resume := make([]chan struct{}, k)
		state := make([]int, k) // 0 not started, 1 parked, 2 done
		for i := range c.Streams {
			i := i
			resume[i] = make(chan struct{})
			readers[i].park = func() {
				yield <- ev{i, false}
				<-resume[i]
			}
			go func() {
				<-resume[i]
				results[i] = c04Parse(c.Streams[i].Fn, readers[i])
				yield <- ev{i, true}
			}()
		}
		turn := func(i int) {
			if i < 0 || i >= k || state[i] == 2 {
				return
			}
			resume[i] <- struct{}{}
			e := <-yield
			if e.i != i {
				panic("c04: scheduler out of sync")
			}
			if e.done {
				state[i] = 2
			} else {
				state[i] = 1
			}
		}
		for _, i := range c.Sched {
			turn(i)
		}
		for i := 0; i < k; i++ { // drain: let every stream run to its end, in index order
			for state[i] != 2 {
				turn(i)
			}
		}
	}

	// raw observations, per stream
	obs := make([]map[string]any, k)
	for i := range results {
		r := &results[i]
		obs[i] = map[string]any{
			"cls": r.cls, "st": r.st, "vlen": len(r.val), "vdg": c04Sum(r.val),
			"llen": len(r.left), "ldg": c04Sum(r.left), "req": r.rd.req, "max": r.rd.max, "calls": r.rd.calls,
		}
	}
	res["streams"] = obs

	// property verdict on the implementation alone: each stream against what it carried
	ok, why := true, ""
	fail := func(s string) {
		if ok {
			ok, why = false, s
		}
	}
	for i := range results {
		r := &results[i]
		s := &c.Streams[i]
		tag := fmt.Sprintf("stream %d (%s) of %d parsed concurrently: ", i, s.Fn, k)
		if r.cls == "panic" {
			fail(tag + "panic: " + r.pmsg)
		}
		limit := MaxAddressLength
		if s.Fn == "resp" {
			limit = MaxMessageLength
		}
		if r.cls == "ok" && len(r.val) > limit {
			fail(tag + "accepted a value longer than the protocol limit")
		}
		switch s.Exp.Cls {
		case "ok":
			var want []byte
			if s.Exp.ValSeg >= 0 {
				want = segBytes[i][s.Exp.ValSeg]
			}
			if r.cls != "ok" {
				fail(tag + "well-formed frame not read back (" + r.cls + ")")
			} else {
				if !bytes.Equal(r.val, want) {
					other := ""
					for j := range c.Streams {
						if j == i || c.Streams[j].Exp.ValSeg < 0 {
							continue
						}
						o := segBytes[j][c.Streams[j].Exp.ValSeg]
						n := len(o)
						if len(r.val) < n {
							n = len(r.val)
						}
						if n > 0 && bytes.Equal(r.val[:n], o[:n]) {
							other = fmt.Sprintf(" - its first %d bytes are the value carried by stream %d", n, j)
							break
						}
					}
					fail(tag + "value read back differs from the value this stream carried" + other)
				}
				if s.Fn == "resp" && r.st != s.Exp.St {
					fail(tag + "status read back differs")
				}
				if !bytes.Equal(r.left, streams[i][s.Exp.Consumed:]) {
					fail(tag + fmt.Sprintf("reader did not consume exactly the frame: %d bytes left, %d expected", len(r.left), len(streams[i])-s.Exp.Consumed))
				}
			}
		case "invalid":
			if r.cls != "invalid" {
				fail(tag + "over-limit / empty length not rejected as a protocol error (" + r.cls + ")")
			}
			if !bytes.Equal(r.left, streams[i][s.Exp.Consumed:]) {
				fail(tag + fmt.Sprintf("rejection consumed %d bytes, the length fields end after %d", len(streams[i])-len(r.left), s.Exp.Consumed))
			}
			if r.rd.max > s.Exp.MaxReq {
				fail(tag + fmt.Sprintf("a single Read asked for %d bytes before the rejection (allowed %d)", r.rd.max, s.Exp.MaxReq))
			}
		}
	}
	res["ok"] = ok
	res["why"] = why
}
