//go:build verif

package integration_tests

// C04 harness, end-to-end class: the REAL server path for a TCP request - http3's stream dispatcher
// (quicvarint.Peek on the new stream), h3sHandler.ProxyStreamHijacker (consumes the frame type),
// handleTCPRequest -> protocol.ReadTCPRequest, Outbound.TCP, protocol.WriteTCPResponse, the relay -
// driven over loopback QUIC by a hand-written, protocol-conforming client that chooses the varint
// width of EVERY field itself, the frame type in front of the request included (a peer may encode
// 0x401 on 2, 4 or 8 bytes; the dispatcher accepts all of them).
//
// One case = one authenticated connection and a list of streams, run one after the other.  A stream
// carries frame type | address length | address | padding length | padding | trailing payload, written
// in one Write or cut into several Writes with small pauses (the dispatcher has to peek on partial data).
// The server's Outbound is a fake that records the address it is asked to dial and either refuses with
// a recognisable message or hands out an in-memory connection that records and echoes what it gets.
//
// Verdict per stream, on the implementation alone:
//   well-formed request  the Outbound is asked for exactly the address bytes the client sent; a refused
//                        dial comes back as (false, that message) through protocol.ReadTCPResponse; an
//                        accepted one as (true, "Connected") and the target receives exactly the trailing
//                        payload, first byte included (and the client reads its echo);
//   over-limit / empty   the Outbound is NOT called and the server ends the stream, although fewer bytes
//   length               than declared follow the length field;
//   other frame type     the Outbound is not called.
// Every blocking call is bounded.  "The server never dialled" is only a verdict after one more stream with
// the canonical encoding, opened on the same connection afterwards, was served (liveness probe); trouble
// with the loopback / handshake is a "skip", never a verdict.

import (
	"bytes"
	"context"
	"crypto/tls"
	"encoding/json"
	"errors"
	"fmt"
	"io"
	"net"
	"net/http"
	"net/url"
	"regexp"
	"strconv"
	"sync"
	"testing"
	"time"

	"github.com/apernet/quic-go"
	"github.com/apernet/quic-go/http3"

	"github.com/apernet/hysteria/core/v2/internal/protocol"
	"github.com/apernet/hysteria/core/v2/server"
)

type c04eSeg struct {
	T   string `json:"t"`
	Hex string `json:"hex"`
	A   uint64 `json:"a"`
	B   uint64 `json:"b"`
	N   int    `json:"n"`
	W   int    `json:"w"`
	V   string `json:"v"`
}

type c04eStream struct {
	Segs     []c04eSeg `json:"segs"`
	Expect   string    `json:"expect"`   // dial | reject | other
	AddrSeg  int       `json:"addr_seg"` // index of the address segment (dial)
	Consumed int       `json:"consumed"` // end of the frame, frame type included = start of the trailing payload
	Mode     string    `json:"mode"`     // refuse | echo
	WCuts    []int     `json:"wcuts"`    // stream offsets at which the client starts a new Write
	SleepMs  int       `json:"sleep_ms"` // pause between two Writes
	Fin      bool      `json:"fin"`      // the client closes its send side right behind what it wrote
	FtW      int       `json:"ft_w"`     // informational: width of the frame type
}

type c04eCase struct {
	K       string       `json:"k"`
	G       string       `json:"g"`
	Streams []c04eStream `json:"streams"`
}

const c04eProbeAddr = "c04e-probe.invalid:1"

func c04eEncW(w int, v uint64) []byte {
	out := make([]byte, w)
	for i := w - 1; i >= 0; i-- {
		out[i] = byte(v)
		v >>= 8
	}
	tag := map[int]byte{1: 0x00, 2: 0x40, 4: 0x80, 8: 0xc0}[w]
	out[0] = (out[0] & 0x3f) | tag
	return out
}

func (s c04eSeg) bytes() []byte {
	switch s.T {
	case "lit":
		return vUnhex(s.Hex)
	case "gen":
		return vGenData(s.A, s.B, s.N)
	case "vi":
		v, err := strconv.ParseUint(s.V, 10, 64)
		if err != nil {
			panic(err)
		}
		return c04eEncW(s.W, v)
	}
	panic("unknown segment type " + s.T)
}

// checksum of coq/corr/C04_Corr.v (cksum)
func c04eSum(b []byte) uint64 {
	var h uint32
	for _, c := range b {
		h = h*131 + uint32(c) + 1
	}
	return uint64(h)
}

type c04eAuth struct{}

func (c04eAuth) Authenticate(addr net.Addr, auth string, tx uint64) (bool, string) {
	return true, "c04e"
}

// in-memory target: records what the relay writes to it and echoes it
type c04eEcho struct {
	mu     sync.Mutex
	cond   *sync.Cond
	got    []byte
	pend   []byte
	closed bool
}

func newC04eEcho() *c04eEcho {
	e := &c04eEcho{}
	e.cond = sync.NewCond(&e.mu)
	return e
}

func (e *c04eEcho) Read(p []byte) (int, error) {
	e.mu.Lock()
	defer e.mu.Unlock()
	for len(e.pend) == 0 && !e.closed {
		e.cond.Wait()
	}
	if len(e.pend) == 0 {
		return 0, io.EOF
	}
	n := copy(p, e.pend)
	e.pend = e.pend[n:]
	return n, nil
}

func (e *c04eEcho) Write(p []byte) (int, error) {
	e.mu.Lock()
	defer e.mu.Unlock()
	if e.closed {
		return 0, errors.New("target closed")
	}
	e.got = append(e.got, p...)
	e.pend = append(e.pend, p...)
	e.cond.Broadcast()
	return len(p), nil
}

func (e *c04eEcho) Close() error {
	e.mu.Lock()
	e.closed = true
	e.cond.Broadcast()
	e.mu.Unlock()
	return nil
}

func (e *c04eEcho) held() []byte {
	e.mu.Lock()
	defer e.mu.Unlock()
	return append([]byte(nil), e.got...)
}
func (e *c04eEcho) LocalAddr() net.Addr              { return &net.TCPAddr{} }
func (e *c04eEcho) RemoteAddr() net.Addr             { return &net.TCPAddr{} }
func (e *c04eEcho) SetDeadline(time.Time) error      { return nil }
func (e *c04eEcho) SetReadDeadline(time.Time) error  { return nil }
func (e *c04eEcho) SetWriteDeadline(time.Time) error { return nil }

type c04eOutbound struct {
	mu     sync.Mutex
	dials  chan string
	refuse string    // non-empty: refuse with this message
	target *c04eEcho // otherwise hand this out
}

func (o *c04eOutbound) TCP(reqAddr string) (net.Conn, error) {
	if reqAddr == c04eProbeAddr {
		return nil, errors.New("c04e-probe")
	}
	select {
	case o.dials <- reqAddr:
	default:
	}
	o.mu.Lock()
	defer o.mu.Unlock()
	if o.refuse != "" || o.target == nil {
		return nil, errors.New(o.refuse)
	}
	return o.target, nil
}
func (o *c04eOutbound) UDP(reqAddr string) (server.UDPConn, error) { return nil, errors.New("no udp") }
func (o *c04eOutbound) CheckUDP(reqAddr string) error              { return errors.New("no udp") }

func (o *c04eOutbound) arm(refuse string, target *c04eEcho) {
	o.mu.Lock()
	o.refuse, o.target = refuse, target
	o.mu.Unlock()
	for {
		select {
		case <-o.dials:
		default:
			return
		}
	}
}

func (o *c04eOutbound) dialled(wait time.Duration) (string, bool) {
	if wait <= 0 {
		select {
		case a := <-o.dials:
			return a, true
		default:
			return "", false
		}
	}
	select {
	case a := <-o.dials:
		return a, true
	case <-time.After(wait):
		return "", false
	}
}

func c04eTimeout(err error) bool {
	var ne net.Error
	return errors.As(err, &ne) && ne.Timeout()
}

// how the server ended a stream, as seen by the client: "eof" (FIN), "reset" (RESET_STREAM / STOP_SENDING),
// "timeout" (nothing happened), "" for anything else (connection-level trouble)
func c04eEnd(err error) string {
	var se *quic.StreamError
	switch {
	case err == io.EOF || err == io.ErrUnexpectedEOF:
		return "eof"
	case errors.As(err, &se):
		return "reset"
	case c04eTimeout(err):
		return "timeout"
	}
	return ""
}

var c04eHexRun = regexp.MustCompile(`[0-9a-f]{2,}(\.\.\.)? \(\d+ bytes\)`)

func c04eShort(b []byte) string {
	if len(b) > 24 {
		return fmt.Sprintf("%x... (%d bytes)", b[:24], len(b))
	}
	return fmt.Sprintf("%x (%d bytes)", b, len(b))
}

type c04eResp struct {
	ok  bool
	msg string
	err error
}

// c04eProbe: one more stream with the canonical (minimal-width) encoding of everything; served = the
// refusal of the probe address came back.
func c04eProbe(conn *quic.Conn) error {
	ctx, cancel := context.WithTimeout(context.Background(), 5*time.Second)
	defer cancel()
	str, err := conn.OpenStreamSync(ctx)
	if err != nil {
		return err
	}
	defer func() {
		str.CancelRead(0)
		_ = str.Close()
	}()
	var frame []byte
	frame = append(frame, c04eEncW(2, protocol.FrameTypeTCPRequest)...)
	frame = append(frame, c04eEncW(1, uint64(len(c04eProbeAddr)))...)
	frame = append(frame, c04eProbeAddr...)
	frame = append(frame, 0)
	_ = str.SetDeadline(time.Now().Add(6 * time.Second))
	if _, err := str.Write(frame); err != nil {
		return err
	}
	ok, msg, err := protocol.ReadTCPResponse(str)
	if err != nil {
		return err
	}
	if ok || msg != "c04e-probe" {
		return fmt.Errorf("probe answered (%v,%q)", ok, msg)
	}
	return nil
}

// one stream; returns the observation with ok/why (and "skip" for infrastructure trouble)
func c04eStreamRun(conn *quic.Conn, ob *c04eOutbound, idx int, s c04eStream) map[string]any {
	obs := map[string]any{"dialed": false, "alen": 0, "adg": 0, "ok": true, "why": ""}
	skip := func(what string, err error) map[string]any {
		obs["skip"] = fmt.Sprintf("%s: %v", what, err)
		return obs
	}
	fail := func(f string, a ...any) map[string]any {
		full := fmt.Sprintf("stream %d (frame type on %d bytes, %s): ", idx, s.FtW, s.Expect) + fmt.Sprintf(f, a...)
		obs["ok"] = false
		obs["why"] = c04eHexRun.ReplaceAllString(full, "<bytes>") // stable message class; the bytes are in "detail"
		obs["detail"] = full
		return obs
	}
	var stream []byte
	segBytes := make([][]byte, len(s.Segs))
	for i, sg := range s.Segs {
		segBytes[i] = sg.bytes()
		stream = append(stream, segBytes[i]...)
	}
	var addr, trail []byte
	if s.Expect == "dial" {
		addr = segBytes[s.AddrSeg]
		trail = stream[s.Consumed:]
	}
	refuseMsg := ""
	var target *c04eEcho
	if s.Mode == "echo" {
		target = newC04eEcho()
		defer target.Close()
	} else {
		refuseMsg = fmt.Sprintf("c04e-refused-%d", idx)
	}
	ob.arm(refuseMsg, target)

	ctx, cancel := context.WithTimeout(context.Background(), 5*time.Second)
	str, err := conn.OpenStreamSync(ctx)
	cancel()
	if err != nil {
		return skip("open stream", err)
	}
	defer func() {
		str.CancelRead(0)
		str.CancelWrite(0)
	}()
	// the client's Writes
	_ = str.SetWriteDeadline(time.Now().Add(8 * time.Second))
	prev := 0
	cuts := append(append([]int(nil), s.WCuts...), len(stream))
	for _, p := range cuts {
		if p <= prev || p > len(stream) {
			continue
		}
		if prev > 0 && s.SleepMs > 0 {
			time.Sleep(time.Duration(s.SleepMs) * time.Millisecond)
		}
		if _, err := str.Write(stream[prev:p]); err != nil {
			if c04eEnd(err) == "reset" {
				// STOP_SENDING: the server is done with this stream (a refused dial or a rejected frame closes it while
				// the client may still be writing the payload).  What it did with the request is judged below.
				obs["write_stopped_at"] = prev
				break
			}
			return skip("stream write", err)
		}
		prev = p
	}
	if s.Fin {
		_ = str.Close()
	}
	// the response reader runs beside the wait for the dial: a server that ends the stream without dialling is
	// seen at once
	respCh := make(chan c04eResp, 1)
	_ = str.SetReadDeadline(time.Now().Add(9 * time.Second))
	go func() {
		ok, msg, err := protocol.ReadTCPResponse(str)
		respCh <- c04eResp{ok, msg, err}
	}()
	var dial *string
	var resp *c04eResp
	wait := 4 * time.Second
	if s.Expect == "other" {
		wait = 400 * time.Millisecond
	}
	timer := time.After(wait)
wait:
	for dial == nil && resp == nil {
		select {
		case a := <-ob.dials:
			dial = &a
		case r := <-respCh:
			resp = &r
		case <-timer:
			break wait
		}
	}
	if dial == nil && resp != nil {
		// Outbound.TCP is called before the response is written, so a dial would be in the channel by now
		if a, ok := ob.dialled(0); ok {
			dial = &a
		}
	}
	if dial != nil {
		obs["dialed"] = true
		obs["alen"] = len(*dial)
		obs["adg"] = c04eSum([]byte(*dial))
	}
	awaitResp := func() *c04eResp {
		if resp != nil {
			return resp
		}
		select {
		case r := <-respCh:
			resp = &r
		case <-time.After(10 * time.Second):
			resp = &c04eResp{err: errors.New("c04e: response reader did not return")}
		}
		return resp
	}

	switch s.Expect {
	case "other":
		if dial != nil {
			return fail("the server dialled %s for a stream whose frame type is not TCPRequest", c04eShort([]byte(*dial)))
		}
		return obs
	case "reject":
		if dial != nil {
			return fail("the server dialled %s for a request whose length field must be rejected", c04eShort([]byte(*dial)))
		}
		if resp == nil || c04eEnd(resp.err) == "timeout" {
			if perr := c04eProbe(conn); perr != nil {
				return skip("probe after an unanswered rejected frame", perr)
			}
			if a, ok := ob.dialled(200 * time.Millisecond); ok {
				obs["dialed"], obs["alen"], obs["adg"] = true, len(a), c04eSum([]byte(a))
				return fail("the server dialled %s for a request whose length field must be rejected", c04eShort([]byte(a)))
			}
			return fail("the server neither rejected nor ended the stream of a request with an over-limit / empty length although a later canonical stream on the same connection was served: it waits for the declared amount (%d bytes follow the frame type)", len(stream)-s.FtW)
		}
		if resp.err == nil {
			return fail("the server answered (%v,%q) to a request whose length field must be rejected", resp.ok, resp.msg)
		}
		if c04eEnd(resp.err) == "" {
			return skip("rejected frame", resp.err)
		}
		obs["end"] = c04eEnd(resp.err)
		return obs
	}

	// ---- well-formed request
	if dial == nil {
		if resp != nil && resp.err == nil {
			return fail("the server answered (%v,%q) without dialling", resp.ok, resp.msg)
		}
		if resp != nil && (c04eEnd(resp.err) == "eof" || c04eEnd(resp.err) == "reset") {
			return fail("the server ended the stream (%s) without dialling the address of a well-formed request (address %s)", c04eEnd(resp.err), c04eShort(addr))
		}
		if resp != nil && c04eEnd(resp.err) == "" {
			return skip("well-formed request", resp.err)
		}
		if perr := c04eProbe(conn); perr != nil {
			return skip("probe after an unserved request", perr)
		}
		a, ok := ob.dialled(300 * time.Millisecond)
		if !ok {
			return fail("the server never dialled the address of a well-formed request (address %s) although a later canonical stream on the same connection was served: the request was not decoded", c04eShort(addr))
		}
		dial = &a
		obs["dialed"], obs["alen"], obs["adg"] = true, len(a), c04eSum([]byte(a))
	}
	if !bytes.Equal([]byte(*dial), addr) {
		return fail("the server dialled %s, the client sent the address %s", c04eShort([]byte(*dial)), c04eShort(addr))
	}
	r := awaitResp()
	if r.err != nil {
		switch c04eEnd(r.err) {
		case "eof", "reset":
			return fail("the address was dialled but the server's response frame was not read back by ReadTCPResponse (%v)", r.err)
		case "timeout":
			if perr := c04eProbe(conn); perr != nil {
				return skip("probe after a missing response", perr)
			}
			return fail("the address was dialled but no response frame arrived although a later stream was served")
		}
		return skip("response", r.err)
	}
	if s.Mode != "echo" {
		if r.ok || r.msg != refuseMsg {
			return fail("refused dial came back as (%v,%q), the Outbound's message was %q", r.ok, r.msg, refuseMsg)
		}
		return obs
	}
	if !r.ok || r.msg != "Connected" {
		return fail("accepted dial came back as (%v,%q)", r.ok, r.msg)
	}
	// the payload written right behind the frame reaches the target, first byte included
	deadline := time.Now().Add(5 * time.Second)
	var got []byte
	for {
		got = target.held()
		if len(got) >= len(trail) || time.Now().After(deadline) {
			break
		}
		time.Sleep(2 * time.Millisecond)
	}
	obs["tgot"] = len(got)
	if len(got) > len(trail) || !bytes.Equal(got, trail[:len(got)]) {
		k := bytes.Index(trail, got[:min(len(got), 16)])
		return fail("the target received %s, which is not a prefix of the %d-byte payload written behind the frame (it starts at offset %d of that payload)", c04eShort(got), len(trail), k)
	}
	if len(got) < len(trail) {
		if perr := c04eProbe(conn); perr != nil {
			return skip("probe after a short payload", perr)
		}
		got = target.held()
		if len(got) < len(trail) {
			return fail("the target received %d of the %d payload bytes written behind the frame although a later stream was served", len(got), len(trail))
		}
	}
	if !s.Fin && len(trail) > 0 {
		back := make([]byte, len(trail))
		_ = str.SetReadDeadline(time.Now().Add(6 * time.Second))
		n, err := io.ReadFull(str, back)
		if !bytes.Equal(back[:n], trail[:n]) {
			return fail("the echo of the payload read behind the response frame differs from the payload at the first %d bytes", n)
		}
		if err != nil {
			if c04eEnd(err) == "timeout" || c04eEnd(err) == "" {
				return skip("echo", err)
			}
			return fail("the stream ended (%v) after %d of %d echoed bytes", err, n, len(trail))
		}
	}
	return obs
}

func c04eRun(c c04eCase, res map[string]any) {
	skip := func(why string, err error) {
		res["skip"] = fmt.Sprintf("%s: %v", why, err)
		res["ok"] = true
		res["why"] = ""
	}
	udpConn, err := net.ListenUDP("udp", &net.UDPAddr{IP: net.IPv4(127, 0, 0, 1), Port: 0})
	if err != nil {
		skip("listen", err)
		return
	}
	ob := &c04eOutbound{dials: make(chan string, 64)}
	s, err := server.NewServer(&server.Config{TLSConfig: serverTLSConfig(), Conn: udpConn, Authenticator: c04eAuth{}, Outbound: ob})
	if err != nil {
		udpConn.Close()
		skip("server", err)
		return
	}
	defer s.Close()
	go s.Serve()

	pktConn, err := net.ListenUDP("udp", &net.UDPAddr{IP: net.IPv4(127, 0, 0, 1), Port: 0})
	if err != nil {
		skip("client listen", err)
		return
	}
	defer pktConn.Close()
	tr := &quic.Transport{Conn: pktConn}
	defer tr.Close()
	var conn *quic.Conn
	rt := &http3.Transport{
		TLSClientConfig: &tls.Config{InsecureSkipVerify: true},
		QUICConfig: &quic.Config{
			EnableDatagrams:      true,
			MaxDatagramFrameSize: protocol.MaxDatagramFrameSize,
			MaxIdleTimeout:       30 * time.Second,
		},
		Dial: func(ctx context.Context, _ string, tlsCfg *tls.Config, cfg *quic.Config) (*quic.Conn, error) {
			qc, err := tr.DialEarly(ctx, udpConn.LocalAddr(), tlsCfg, cfg)
			if err != nil {
				return nil, err
			}
			conn = qc
			return qc, nil
		},
	}
	defer rt.Close()
	actx, acancel := context.WithTimeout(context.Background(), 20*time.Second)
	defer acancel()
	req := (&http.Request{
		Method: http.MethodPost,
		URL:    &url.URL{Scheme: "https", Host: protocol.URLHost, Path: protocol.URLPath},
		Header: make(http.Header),
	}).WithContext(actx)
	protocol.AuthRequestToHeader(req.Header, protocol.AuthRequest{Auth: "x"})
	resp, err := rt.RoundTrip(req)
	if err != nil {
		skip("auth round trip", err)
		return
	}
	_ = resp.Body.Close()
	if resp.StatusCode != protocol.StatusAuthOK || conn == nil {
		skip("auth", fmt.Errorf("status %d", resp.StatusCode))
		return
	}
	defer conn.CloseWithError(0, "")

	obsAll := make([]map[string]any, 0, len(c.Streams))
	ok, why := true, ""
	failed, skipped := 0, 0
	for i, st := range c.Streams {
		if failed >= 2 {
			obsAll = append(obsAll, map[string]any{"skip": "not run: two streams of this connection have already failed", "ok": true, "why": ""})
			skipped++
			continue
		}
		o := c04eStreamRun(conn, ob, i, st)
		obsAll = append(obsAll, o)
		if o["skip"] != nil {
			skipped++
		}
		if o["ok"] == false {
			failed++
			if ok {
				ok, why = false, o["why"].(string)
				res["detail"] = o["detail"]
			}
		}
	}
	res["streams"] = obsAll
	res["ok"] = ok
	res["why"] = why
	res["nskip"] = skipped
	if len(c.Streams) > 0 && skipped == len(c.Streams) && ok {
		res["skip"] = fmt.Sprintf("every stream skipped: %v", obsAll[0]["skip"])
	}
}

func TestVerifC04E2E(t *testing.T) {
	out := vOpenOut(t, "VERIF_OUT")
	defer out.Close()
	for i, raw := range vReadCases(t) {
		var c c04eCase
		if err := json.Unmarshal(raw, &c); err != nil {
			t.Fatal(err)
		}
		res := map[string]any{"i": i, "k": c.K}
		panicked, msg := vCatch(func() { c04eRun(c, res) })
		if panicked {
			res["ok"] = false
			res["why"] = "panic: " + msg
			res["panic"] = true
		}
		out.Emit(res)
	}
}
