//go:build verif

package protocol

// C04 harness: runs ReadTCPRequest / ReadTCPResponse (and the server's "consume the frame type,
// then ReadTCPRequest" sequence) of /repo's working tree against a scripted io.Reader that counts
// what is requested from it, WriteTCPRequest / WriteTCPResponse against a recording writer, and
// varintPut on explicit buffers.  Raw outputs go to $VERIF_OUT for the comparison with the Coq
// model, together with the property verdict evaluated on the implementation alone (ok / why).

import (
	"bytes"
	"encoding/json"
	stderrors "errors"
	"fmt"
	"io"
	"math/rand"
	"os"
	"runtime"
	"strconv"
	"strings"
	"testing"

	coreErrs "github.com/apernet/hysteria/core/v2/errors"
	"github.com/apernet/quic-go/quicvarint"
)

var errC04Other = stderrors.New("c04: scripted transport error")

// set when a rejected frame is seen to have cost an allocation of the declared size
var c04AllocBeforeCheck bool

// ---- scripted reader -------------------------------------------------------------------------

type c04Ev struct {
	data []byte
	err  error
}

type c04Reader struct {
	evs              []c04Ev
	req, max, calls int
}

// Read hands out the current event's bytes: all of them (with the event's error) when they fit
// in p, otherwise the first len(p) of them. An exhausted script is a closed stream.
func (r *c04Reader) Read(p []byte) (int, error) {
	r.calls++
	r.req += len(p)
	if len(p) > r.max {
		r.max = len(p)
	}
	if len(r.evs) == 0 {
		return 0, io.EOF
	}
	e := &r.evs[0]
	if len(e.data) <= len(p) {
		n := copy(p, e.data)
		err := e.err
		r.evs = r.evs[1:]
		return n, err
	}
	n := copy(p, e.data[:len(p)])
	e.data = e.data[len(p):]
	return n, nil
}

func (r *c04Reader) leftover() []byte {
	var out []byte
	for _, e := range r.evs {
		out = append(out, e.data...)
	}
	return out
}

// c04Sum is the checksum of coq/corr/C04_Corr.v (cksum).
func c04Sum(b []byte) uint64 {
	var h uint32
	for _, c := range b {
		h = h*131 + uint32(c) + 1
	}
	return uint64(h)
}

func c04Err(code int) error {
	switch code {
	case 1:
		return io.EOF
	case 2:
		return io.ErrUnexpectedEOF
	case 3:
		return errC04Other
	}
	return nil
}

// cuts: [n, errcode] pairs; what the cuts do not cover becomes one last chunk
func c04Script(stream []byte, cuts [][2]int) *c04Reader {
	r := &c04Reader{}
	pos := 0
	for _, c := range cuts {
		n := c[0]
		if n > len(stream)-pos {
			n = len(stream) - pos
		}
		r.evs = append(r.evs, c04Ev{data: append([]byte(nil), stream[pos:pos+n]...), err: c04Err(c[1])})
		pos += n
	}
	if pos < len(stream) {
		r.evs = append(r.evs, c04Ev{data: append([]byte(nil), stream[pos:]...)})
	}
	return r
}

func c04Class(err error) string {
	var pe coreErrs.ProtocolError
	switch {
	case err == nil:
		return "ok"
	case stderrors.As(err, &pe):
		return "invalid"
	case err == io.EOF:
		return "eof"
	case err == io.ErrUnexpectedEOF:
		return "short"
	default:
		return "other"
	}
}

// ---- cases -----------------------------------------------------------------------------------

type c04Seg struct {
	T   string `json:"t"`
	Hex string `json:"hex"`
	A   uint64 `json:"a"`
	B   uint64 `json:"b"`
	N   int    `json:"n"`
	W   int    `json:"w"`
	V   string `json:"v"`
}

type c04Exp struct {
	Cls      string `json:"cls"` // ok | okerr | invalid | nopanic
	Err      string `json:"err"` // okerr: the class of the error the script delivers together with the frame's last byte(s)
	ValSeg   int    `json:"val_seg"`
	St       bool   `json:"st"`
	Consumed int    `json:"consumed"`
	MaxReq   int    `json:"maxreq"`
	Declared string `json:"declared"`
}

type c04Case struct {
	K    string   `json:"k"`
	Fn   string   `json:"fn"`
	Segs []c04Seg `json:"segs"`
	Cuts [][2]int `json:"cuts"`
	Exp  c04Exp   `json:"exp"`
	// writer cases
	Ok    bool   `json:"ok"`
	A     uint64 `json:"a"`
	B     uint64 `json:"b"`
	N     int    `json:"n"`
	Trail int    `json:"trail"`
	Cs    int    `json:"cs"`
	Zero  int    `json:"zero"`
	Fin   int    `json:"fin"` // 1: the last Read of the re-read carries data + io.EOF (FIN coalesced with the final bytes)
	// varintPut cases
	V  string `json:"v"`
	Bl int    `json:"bl"`
}

func c04EncW(w int, v uint64) []byte {
	out := make([]byte, w)
	for i := w - 1; i >= 0; i-- {
		out[i] = byte(v)
		v >>= 8
	}
	tag := map[int]byte{1: 0x00, 2: 0x40, 4: 0x80, 8: 0xc0}[w]
	out[0] = (out[0] & 0x3f) | tag
	return out
}

func (s c04Seg) bytes() []byte {
	switch s.T {
	case "lit":
		return vUnhex(s.Hex)
	case "gen":
		return vGenData(s.A, s.B, s.N)
	case "vi":
		v, err := strconv.ParseUint(s.V, 10, 64)
		if err != nil {
			panic(err)
		}
		return c04EncW(s.W, v)
	}
	panic("unknown segment type " + s.T)
}

func TestVerifC04(t *testing.T) {
	chars := make([]string, 0, len(paddingChars))
	for i := 0; i < len(paddingChars); i++ {
		chars = append(chars, strconv.Itoa(int(paddingChars[i])))
	}
	vParams(t, [][3]string{
		{"MaxAddressLength", "N", strconv.Itoa(MaxAddressLength)},
		{"MaxMessageLength", "N", strconv.Itoa(MaxMessageLength)},
		{"MaxPaddingLength", "N", strconv.Itoa(MaxPaddingLength)},
		{"FrameTypeTCPRequest", "N", strconv.Itoa(FrameTypeTCPRequest)},
		{"tcpRequestPaddingMin", "Z", strconv.Itoa(tcpRequestPadding.Min)},
		{"tcpRequestPaddingMax", "Z", strconv.Itoa(tcpRequestPadding.Max)},
		{"tcpResponsePaddingMin", "Z", strconv.Itoa(tcpResponsePadding.Min)},
		{"tcpResponsePaddingMax", "Z", strconv.Itoa(tcpResponsePadding.Max)},
		{"paddingChars", "raw", "[" + strings.Join(chars, ";") + "]%N"},
	})
	if s, err := strconv.ParseInt(os.Getenv("VERIF_SEED"), 10, 64); err == nil {
		rand.Seed(s) //nolint:staticcheck // best effort; the drawn padding is read back from the output anyway
	}
	out := vOpenOut(t, "VERIF_OUT")
	defer out.Close()
	for i, raw := range vReadCases(t) {
		var c c04Case
		if err := json.Unmarshal(raw, &c); err != nil {
			t.Fatal(err)
		}
		res := map[string]any{"i": i, "k": c.K}
		switch c.K {
		case "rd":
			c04Read(c, res)
		case "wr":
			c04Write(c, res)
		case "vp":
			c04Put(c, res)
		case "conc":
			c04Conc(raw, res) // c04_conc_test.go: K frames parsed concurrently over gated readers
		default:
			t.Fatalf("unknown case kind %q", c.K)
		}
		out.Emit(res)
	}
}

// ---- readers ---------------------------------------------------------------------------------

type c04Result struct {
	cls   string
	st    bool
	val   []byte
	left  []byte
	rd    *c04Reader
	alloc uint64
	pmsg  string
}

func c04RunReader(fn string, stream []byte, cuts [][2]int) c04Result {
	rd := c04Script(stream, cuts)
	var r c04Result
	r.rd = rd
	var err error
	var ms0, ms1 runtime.MemStats
	runtime.ReadMemStats(&ms0)
	p, msg := vCatch(func() {
		switch fn {
		case "req":
			var s string
			s, err = ReadTCPRequest(rd)
			r.val = []byte(s)
		case "srv":
			// core/server/server.go ProxyStreamHijacker: consume the frame type, then parse
			if _, err = quicvarint.Read(quicvarint.NewReader(rd)); err == nil {
				var s string
				s, err = ReadTCPRequest(rd)
				r.val = []byte(s)
			}
		case "resp":
			var s string
			r.st, s, err = ReadTCPResponse(rd)
			r.val = []byte(s)
		default:
			panic("unknown fn " + fn)
		}
	})
	runtime.ReadMemStats(&ms1)
	r.alloc = ms1.TotalAlloc - ms0.TotalAlloc
	if p {
		r.cls, r.pmsg = "panic", msg
	} else {
		r.cls = c04Class(err)
	}
	if r.cls != "ok" {
		r.val, r.st = nil, false
	}
	r.left = rd.leftover()
	return r
}

func c04Read(c c04Case, res map[string]any) {
	var stream []byte
	segBytes := make([][]byte, len(c.Segs))
	for i, s := range c.Segs {
		segBytes[i] = s.bytes()
		stream = append(stream, segBytes[i]...)
	}
	declared, derr := strconv.ParseUint(c.Exp.Declared, 10, 64)
	if c.Exp.Cls == "invalid" && derr == nil && declared >= 1<<28 && c04AllocBeforeCheck {
		// An earlier case showed that this implementation allocates a declared length before checking
		// it; running the same defect with a terabyte-sized length would kill the process (fatal out of
		// memory is not recoverable) and lose the concrete replay of the earlier case.
		res["cls"] = "skipped"
		res["st"], res["vlen"], res["vdg"], res["llen"], res["ldg"] = false, 0, 0, 0, 0
		res["req"], res["max"], res["calls"], res["alloc"] = 0, 0, 0, 0
		res["ok"] = false
		res["why"] = "not run: the implementation allocates peer-declared lengths before checking them (see the earlier failing case)"
		return
	}
	r := c04RunReader(c.Fn, stream, c.Cuts)
	res["cls"] = r.cls
	res["st"] = r.st
	res["vlen"] = len(r.val)
	res["vdg"] = c04Sum(r.val)
	res["llen"] = len(r.left)
	res["ldg"] = c04Sum(r.left)
	res["req"] = r.rd.req
	res["max"] = r.rd.max
	res["calls"] = r.rd.calls
	res["alloc"] = r.alloc

	// property verdict on the implementation alone
	ok, why := true, ""
	fail := func(s string) {
		if ok {
			ok, why = false, s
		}
	}
	if r.cls == "panic" {
		fail("panic: " + r.pmsg)
	}
	limit := MaxAddressLength
	if c.Fn == "resp" {
		limit = MaxMessageLength
	}
	if r.cls == "ok" && len(r.val) > limit {
		fail("accepted a value longer than the protocol limit")
	}
	switch c.Exp.Cls {
	case "ok":
		var want []byte
		if c.Exp.ValSeg >= 0 {
			want = segBytes[c.Exp.ValSeg]
		}
		if r.cls != "ok" {
			fail("well-formed frame not read back (" + r.cls + ")")
		} else {
			if !bytes.Equal(r.val, want) {
				fail("value read back differs from the value written")
			}
			if c.Fn == "resp" && r.st != c.Exp.St {
				fail("status read back differs")
			}
			if !bytes.Equal(r.left, stream[c.Exp.Consumed:]) {
				fail(fmt.Sprintf("reader did not consume exactly the frame: %d bytes left, %d expected", len(r.left), len(stream)-c.Exp.Consumed))
			}
		}
	case "okerr":
		// The script delivers every byte of a well-formed frame and reports a (non-EOF) error in the very Read that
		// hands over the last of them.  Either the frame is read back identical, exactly as for "ok", or exactly
		// that error is reported; in both cases exactly the frame has been consumed.
		var want []byte
		if c.Exp.ValSeg >= 0 {
			want = segBytes[c.Exp.ValSeg]
		}
		switch {
		case r.cls == "ok":
			if !bytes.Equal(r.val, want) {
				fail("value read back differs from the value written")
			}
			if c.Fn == "resp" && r.st != c.Exp.St {
				fail("status read back differs")
			}
		case r.cls == c.Exp.Err && c.Exp.Err != "":
		default:
			fail("complete frame delivered together with a transport error (" + c.Exp.Err + "): neither read back nor that error reported (" + r.cls + ")")
		}
		if !bytes.Equal(r.left, stream[c.Exp.Consumed:]) {
			fail(fmt.Sprintf("reader did not consume exactly the frame: %d bytes left, %d expected", len(r.left), len(stream)-c.Exp.Consumed))
		}
	case "invalid":
		if r.cls != "invalid" {
			fail("over-limit / empty length not rejected as a protocol error (" + r.cls + ")")
		}
		if !bytes.Equal(r.left, stream[c.Exp.Consumed:]) {
			fail(fmt.Sprintf("rejection consumed %d bytes, the length fields end after %d", len(stream)-len(r.left), c.Exp.Consumed))
		}
		if r.rd.max > c.Exp.MaxReq {
			fail(fmt.Sprintf("a single Read asked for %d bytes before the rejection (allowed %d)", r.rd.max, c.Exp.MaxReq))
		}
		if derr == nil && declared >= 1<<16 && r.alloc >= declared {
			c04AllocBeforeCheck = true
			fail(fmt.Sprintf("%d bytes allocated before rejecting a declared length of %d", r.alloc, declared))
		}
	}
	res["ok"] = ok
	res["why"] = why
}

// ---- writers ---------------------------------------------------------------------------------

type c04Writer struct {
	buf    []byte
	writes int
}

func (w *c04Writer) Write(p []byte) (int, error) {
	w.writes++
	w.buf = append(w.buf, p...)
	return len(p), nil
}

// independent minimal-width varint reader for the verdict on written frames
func c04ParseVarint(b []byte) (v uint64, n int, minimal bool, ok bool) {
	if len(b) == 0 {
		return 0, 0, false, false
	}
	n = 1 << (b[0] >> 6)
	if len(b) < n {
		return 0, 0, false, false
	}
	v = uint64(b[0] & 0x3f)
	for i := 1; i < n; i++ {
		v = v<<8 | uint64(b[i])
	}
	want := 1
	switch {
	case v > 1073741823:
		want = 8
	case v > 16383:
		want = 4
	case v > 63:
		want = 2
	}
	return v, n, n == want, true
}

func c04Write(c c04Case, res map[string]any) {
	val := vGenData(c.A, c.B, c.N)
	w := &c04Writer{}
	var err error
	p, msg := vCatch(func() {
		if c.Fn == "req" {
			err = WriteTCPRequest(w, string(val))
		} else {
			err = WriteTCPResponse(w, c.Ok, string(val))
		}
	})
	res["panic"] = p
	if p {
		res["ok"] = false
		res["why"] = "panic in writer: " + msg
		return
	}
	res["len"] = len(w.buf)
	res["dg"] = c04Sum(w.buf)
	res["nw"] = w.writes
	ok, why := true, ""
	fail := func(s string) {
		if ok {
			ok, why = false, s
		}
	}
	if err != nil {
		fail("writer returned an error on a writer that accepts everything")
	}
	if w.writes != 1 {
		fail("frame not written with exactly one Write call")
	}
	// decode the frame independently and read the drawn padding back
	b := w.buf
	pmin, pmax := tcpRequestPadding.Min, tcpRequestPadding.Max
	bad := false
	if c.Fn == "req" {
		if len(b) < 2 || b[0] != 0x44 || b[1] != 0x01 {
			fail("request does not start with frame type 0x401")
			bad = true
		} else {
			b = b[2:]
		}
	} else {
		pmin, pmax = tcpResponsePadding.Min, tcpResponsePadding.Max
		want := byte(1)
		if c.Ok {
			want = 0
		}
		if len(b) < 1 || b[0] != want {
			fail("response status byte wrong")
			bad = true
		} else {
			b = b[1:]
		}
	}
	var pad []byte
	if !bad {
		l, n, minimal, pok := c04ParseVarint(b)
		if !pok || !minimal || l != uint64(len(val)) || len(b) < n+len(val) || !bytes.Equal(b[n:n+len(val)], val) {
			fail("length/value field of the written frame is wrong")
			bad = true
		} else {
			b = b[n+len(val):]
			pl, n2, minimal2, pok2 := c04ParseVarint(b)
			if !pok2 || !minimal2 || uint64(len(b)-n2) != pl {
				fail("padding length field does not match the bytes that follow it")
				bad = true
			} else {
				pad = b[n2:]
			}
		}
	}
	if !bad {
		res["pad"] = vHex(pad)
		if len(pad) < pmin || len(pad) >= pmax {
			fail(fmt.Sprintf("padding length %d outside [%d,%d)", len(pad), pmin, pmax))
		}
		if len(pad) > MaxPaddingLength {
			fail("writer drew more padding than the reader accepts")
		}
		for _, ch := range pad {
			if !strings.ContainsRune(paddingChars, rune(ch)) {
				fail("padding byte outside the padding alphabet")
				break
			}
		}
		// round trip through the real reader, chunked, with a trailing payload
		inRange := len(val) <= MaxMessageLength
		if c.Fn == "req" {
			inRange = len(val) >= 1 && len(val) <= MaxAddressLength
		}
		if inRange {
			trailing := vGenData(7, 3, c.Trail)
			stream := append(append([]byte(nil), w.buf...), trailing...)
			var cuts [][2]int
			if c.Cs > 0 {
				for pos, k := 0, 0; pos < len(stream); pos, k = pos+c.Cs, k+1 {
					if c.Zero > 0 && k%c.Zero == 0 {
						cuts = append(cuts, [2]int{0, 0})
					}
					cuts = append(cuts, [2]int{c.Cs, 0})
				}
			}
			fn := "resp"
			if c.Fn == "req" {
				fn = "srv"
			}
			fin := ""
			if c.Fin == 1 {
				// the peer closes its send side right behind what it wrote: the last Read carries data + io.EOF
				if len(cuts) == 0 {
					cuts = [][2]int{{len(stream), 1}}
				} else {
					cuts[len(cuts)-1][1] = 1
				}
				fin = ", the last Read carrying data + io.EOF"
			}
			r := c04RunReader(fn, stream, cuts)
			switch {
			case r.cls != "ok":
				fail("written frame is not read back (" + r.cls + " " + r.pmsg + fin + ")")
			case !bytes.Equal(r.val, val):
				fail("written value is not read back identical")
			case c.Fn == "resp" && r.st != c.Ok:
				fail("written status is not read back identical")
			case !bytes.Equal(r.left, trailing):
				fail(fmt.Sprintf("reading the written frame left %d bytes, the trailing payload has %d", len(r.left), len(trailing)))
			}
		}
	}
	res["ok"] = ok
	res["why"] = why
}

// ---- varintPut -------------------------------------------------------------------------------

func c04Put(c c04Case, res map[string]any) {
	v, err := strconv.ParseUint(c.V, 10, 64)
	if err != nil {
		panic(err)
	}
	buf := bytes.Repeat([]byte{0xaa}, c.Bl)
	buf = buf[:c.Bl:c.Bl]
	var n int
	p, msg := vCatch(func() { n = varintPut(buf, v) })
	res["panic"] = p
	ok, why := true, ""
	need := 0
	switch {
	case v <= 63:
		need = 1
	case v <= 16383:
		need = 2
	case v <= 1073741823:
		need = 4
	case v <= 4611686018427387903:
		need = 8
	}
	if p {
		// as used by the writers (value below 2^62, buffer sized with quicvarint.Len) it must not panic
		if need > 0 && c.Bl >= need {
			ok, why = false, "varintPut panicked on a value that fits the buffer: "+msg
		}
	} else {
		res["n"] = n
		res["hex"] = vHex(buf)
		if need == 0 || c.Bl < need {
			ok, why = false, "varintPut returned although the value cannot be stored"
		} else {
			got, k, _, pok := c04ParseVarint(buf[:n])
			if n != need || !pok || k != n || got != v {
				ok, why = false, "varintPut did not store the minimal encoding of the value"
			}
			for _, x := range buf[n:] {
				if x != 0xaa {
					ok, why = false, "varintPut wrote past the bytes it reports"
				}
			}
		}
	}
	res["ok"] = ok
	res["why"] = why
}
