//go:build verif

package client

// C05 send path, client side: udpConn.Send of a session created by the real udpSessionManager.NewUDP
// (so SendFunc / SendBuf are wired as in the code) over the fake datagram channel of
// c05_send_common_test.go.tmpl.

import (
	"encoding/json"
	"strconv"
	"testing"

	"github.com/apernet/hysteria/core/v2/internal/frag"
	"github.com/apernet/hysteria/core/v2/internal/protocol"
)

func TestVerifC05SendClient(t *testing.T) {
	vParams(t, [][3]string{
		{"MaxUDPSize", "N", strconv.Itoa(protocol.MaxUDPSize)},
	})
	out := vOpenOut(t, "VERIF_OUT")
	defer out.Close()
	for i, raw := range vReadCases(t) {
		res := map[string]any{"i": i, "k": "send"}
		var c c05sCase
		if err := json.Unmarshal(raw, &c); err != nil {
			t.Fatal(err)
		}
		if c.K == "sess" {
			// reassembly through the real udpSessionManager and udpConn.Receive (c05_sess_client_test.go)
			var mc c05mCase
			if err := json.Unmarshal(raw, &mc); err != nil {
				t.Fatal(err)
			}
			res["k"] = "sess"
			out.Emit(c05mGuarded(t, res, func(res map[string]any) { c05mClientBubble(&mc, res) }))
			continue
		}
		io := &c05sIO{far: &frag.Defragger{}, block: make(chan struct{})}
		sm := newUDPSessionManager(io)
		sm.mutex.Lock()
		sm.nextID = c.Sid
		sm.mutex.Unlock()
		hc, err := sm.NewUDP()
		if err != nil {
			t.Fatal(err)
		}
		run := c05sRun
		if c.K == "sendlong" {
			run = c05sRunLong // one history of > 65536 fragmented sends on this one session
		}
		run(raw, io, func(_ int, data []byte, addr string) error { return hc.Send(data, addr) }, res)
		_ = hc.Close()
		close(io.block)
		out.Emit(res)
	}
}
