//go:build verif

package server

// C05 send path, server side: the real udpSessionEntry.receiveLoop (remote datagram -> UDPMessage ->
// sendMessageAutoFrag) over the fake datagram channel of c05_send_common_test.go.tmpl.  The remote UDP
// socket is scripted: ReadFrom hands out the history's datagrams one by one, ONE session entry and one
// loop for the whole history (so anything the send path remembers between messages is exercised).
// When the loop exits because a send failed (the code closes the session), the rest of the history
// runs on a new session entry with the same id over the same channel.

import (
	"encoding/json"
	"errors"
	"reflect"
	"strconv"
	"testing"

	"github.com/apernet/hysteria/core/v2/internal/frag"
	"github.com/apernet/hysteria/core/v2/internal/protocol"
)

func (io *c05sIO) Hook(data []byte, reqAddr *string) error { return nil }
func (io *c05sIO) UDP(reqAddr string) (UDPConn, error)      { return nil, errors.New("unused") }
func (io *c05sIO) CheckUDP(reqAddr string) error            { return nil }

type c05sDgram struct {
	data []byte
	addr string
}

// c05sRemote is the scripted remote socket. ReadFrom first tells the harness that the loop is idle
// (the previous send returned nil), then waits for the next datagram of the history.
type c05sRemote struct {
	idle chan struct{}
	in   chan c05sDgram
}

var errC05sEnd = errors.New("c05: end of script")

func (r *c05sRemote) ReadFrom(b []byte) (int, string, error) {
	r.idle <- struct{}{}
	d, ok := <-r.in
	if !ok {
		return 0, "", errC05sEnd
	}
	return copy(b, d.data), d.addr, nil
}
func (r *c05sRemote) WriteTo(b []byte, addr string) (int, error) { return len(b), nil }
func (r *c05sRemote) Close() error                                { return nil }

type c05sLoop struct {
	remote *c05sRemote
	exited chan error
}

// c05sNewEntry calls newUDPSessionEntry whatever its parameter list is (by type: the session id, the IO, the exit
// function; a pointer parameter - e.g. a reassembler handed in by the caller - gets a fresh zero value, anything
// else, like the dial function this harness never uses, its zero value), so that the harness keeps building, and
// keeps judging behaviour, when the constructor's signature changes.
func c05sNewEntry(sid uint32, io udpIO, exit func(error)) *udpSessionEntry {
	f := reflect.ValueOf(newUDPSessionEntry)
	ft := f.Type()
	ioT := reflect.TypeOf((*udpIO)(nil)).Elem()
	args := make([]reflect.Value, ft.NumIn())
	for i := range args {
		pt := ft.In(i)
		switch {
		case pt.Kind() == reflect.Uint32:
			args[i] = reflect.ValueOf(sid).Convert(pt)
		case pt == ioT:
			args[i] = reflect.ValueOf(&io).Elem()
		case pt == reflect.TypeOf(exit):
			args[i] = reflect.ValueOf(exit)
		case pt.Kind() == reflect.Ptr:
			args[i] = reflect.New(pt.Elem())
		default:
			args[i] = reflect.Zero(pt)
		}
	}
	return f.Call(args)[0].Interface().(*udpSessionEntry)
}

func c05sStart(sid uint32, io *c05sIO) *c05sLoop {
	l := &c05sLoop{remote: &c05sRemote{idle: make(chan struct{}), in: make(chan c05sDgram)}, exited: make(chan error, 1)}
	var exitErr error
	e := c05sNewEntry(sid, io, func(err error) { exitErr = err })
	e.conn = l.remote
	go func() {
		defer func() {
			if r := recover(); r != nil {
				l.exited <- errors.New("panic in receiveLoop")
				return
			}
			l.exited <- exitErr
		}()
		e.receiveLoop()
	}()
	<-l.remote.idle
	return l
}

func TestVerifC05SendServer(t *testing.T) {
	vParams(t, [][3]string{
		{"MaxUDPSize", "N", strconv.Itoa(protocol.MaxUDPSize)},
	})
	out := vOpenOut(t, "VERIF_OUT")
	defer out.Close()
	for i, raw := range vReadCases(t) {
		res := map[string]any{"i": i, "k": "send"}
		var c c05sCase
		if err := json.Unmarshal(raw, &c); err != nil {
			t.Fatal(err)
		}
		if c.K == "sess" {
			// reassembly through the real udpSessionManager (c05_sess_server_test.go)
			var mc c05mCase
			if err := json.Unmarshal(raw, &mc); err != nil {
				t.Fatal(err)
			}
			res["k"] = "sess"
			out.Emit(c05mGuarded(t, res, func(res map[string]any) { c05mServerBubble(&mc, res) }))
			continue
		}
		io := &c05sIO{far: &frag.Defragger{}, block: make(chan struct{})}
		var loop *c05sLoop
		run := c05sRun
		if c.K == "sendlong" {
			run = c05sRunLong // one history of > 65536 fragmented sends through one receiveLoop
		}
		run(raw, io, func(_ int, data []byte, addr string) error {
			if loop == nil {
				loop = c05sStart(c.Sid, io)
			}
			loop.remote.in <- c05sDgram{data, addr}
			select {
			case <-loop.remote.idle:
				return nil // the loop is back at ReadFrom: sendMessageAutoFrag returned nil
			case err := <-loop.exited:
				loop = nil // session closed by the code
				if err != nil && err.Error() == "panic in receiveLoop" {
					panic("receiveLoop panicked")
				}
				return err
			}
		}, res)
		if loop != nil {
			close(loop.remote.in)
			<-loop.exited
		}
		close(io.block)
		out.Emit(res)
	}
}
