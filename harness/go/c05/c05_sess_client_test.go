//go:build verif

package client

// C05 "sess" cases, client side: the real udpSessionManager (run, feed, NewUDP, close) and the real
// udpConn.Receive of every open session over a fake udpIO, inside a testing/synctest bubble.  One goroutine
// per session sits in Receive() and records what it returns with the position of the operation in progress.

import (
	"errors"
	"fmt"
	"sync"
	"testing/synctest"
	"time"

	"github.com/apernet/hysteria/core/v2/internal/protocol"
)

type c05mCliIO struct {
	in chan *protocol.UDPMessage

	mu     sync.Mutex
	pos    int
	delivs []c05mDeliv
	panics []string
}

var errC05mClosed = errors.New("c05m: connection closed")

func (io *c05mCliIO) ReceiveMessage() (*protocol.UDPMessage, error) {
	m, ok := <-io.in
	if !ok || m == nil {
		return nil, errC05mClosed
	}
	return m, nil
}
func (io *c05mCliIO) SendMessage([]byte, *protocol.UDPMessage) error { return nil }

// runs inside a synctest bubble
func c05mClientBubble(c *c05mCase, res map[string]any) {
	origs, frags := c05mBuild(c)
	io := &c05mCliIO{in: make(chan *protocol.UDPMessage)}
	sm := newUDPSessionManager(io) // starts the receive loop
	synctest.Wait()
	conns := map[uint32]HyUDPConn{}
	receiver := func(id uint32, hc HyUDPConn) {
		defer func() {
			if r := recover(); r != nil {
				io.mu.Lock()
				io.panics = append(io.panics, fmt.Sprint(r))
				io.mu.Unlock()
			}
		}()
		for {
			data, addr, err := hc.Receive()
			if err != nil {
				return
			}
			io.mu.Lock()
			io.delivs = append(io.delivs, c05mDeliv{pos: io.pos, sid: id, addr: addr, data: append([]byte(nil), data...)})
			io.mu.Unlock()
		}
	}
	cnts := make([]int, 0, len(c.Ops))
	for pos, op := range c.Ops {
		io.mu.Lock()
		io.pos = pos
		io.mu.Unlock()
		if len(op) > 0 {
			switch op[0] {
			case 0:
				if f := c05mArrival(frags, op); f != nil {
					io.in <- f
				}
			case 1:
				if len(op) >= 2 && op[1] > 0 {
					time.Sleep(time.Duration(op[1]) * time.Millisecond)
				}
			case 2:
				if len(op) >= 2 {
					if hc := conns[uint32(op[1])]; hc != nil {
						_ = hc.Close()
						delete(conns, uint32(op[1]))
					}
				}
			case 3:
				if hc, err := sm.NewUDP(); err == nil {
					id := hc.(*udpConn).ID
					conns[id] = hc
					go receiver(id, hc)
				}
			}
		}
		synctest.Wait()
		cnts = append(cnts, sm.Count())
	}
	close(io.in) // the receive loop ends, closeCleanup closes every session, the receivers see EOF
	synctest.Wait()
	io.mu.Lock()
	delivs := append([]c05mDeliv(nil), io.delivs...)
	panics := append([]string(nil), io.panics...)
	io.mu.Unlock()
	c05mJudge(c, false, 1000, origs, frags, delivs, cnts, res)
	if len(panics) > 0 {
		res["panic"] = true
		res["ok"] = false
		res["why"] = "panic in udpConn.Receive: " + panics[0]
	}
}
