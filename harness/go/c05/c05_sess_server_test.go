//go:build verif

package server

// C05 "sess" cases, server side: the real udpSessionManager (Run, feed, the idle sweeper) and its real
// udpSessionEntry.Feed over a fake udpIO, inside a testing/synctest bubble (fake clock).  The fake outbound
// socket records every WriteTo with the session it was dialled for (the session id of the message the receive
// loop is feeding when UDP() is called - the dial happens synchronously inside feed).

import (
	"errors"
	"fmt"
	"sync"
	"testing/synctest"
	"time"

	"github.com/apernet/hysteria/core/v2/internal/protocol"
)

type c05mSrvIO struct {
	in chan *protocol.UDPMessage

	mu     sync.Mutex
	pos    int
	curSid uint32
	delivs []c05mDeliv
}

var errC05mClosed = errors.New("c05m: connection closed")

func (io *c05mSrvIO) ReceiveMessage() (*protocol.UDPMessage, error) {
	m, ok := <-io.in
	if !ok || m == nil {
		return nil, errC05mClosed
	}
	io.mu.Lock()
	io.curSid = m.SessionID
	io.mu.Unlock()
	return m, nil
}
func (io *c05mSrvIO) SendMessage([]byte, *protocol.UDPMessage) error { return nil }
func (io *c05mSrvIO) Hook(data []byte, reqAddr *string) error         { return nil }
func (io *c05mSrvIO) CheckUDP(reqAddr string) error                   { return nil }
func (io *c05mSrvIO) UDP(reqAddr string) (UDPConn, error) {
	io.mu.Lock()
	defer io.mu.Unlock()
	return &c05mConn{io: io, sid: io.curSid, closeCh: make(chan struct{})}, nil
}

type c05mConn struct {
	io      *c05mSrvIO
	sid     uint32
	closeCh chan struct{}
	once    sync.Once
}

func (c *c05mConn) ReadFrom(b []byte) (int, string, error) {
	<-c.closeCh
	return 0, "", errC05mClosed
}

func (c *c05mConn) WriteTo(b []byte, addr string) (int, error) {
	c.io.mu.Lock()
	defer c.io.mu.Unlock()
	c.io.delivs = append(c.io.delivs, c05mDeliv{pos: c.io.pos, sid: c.sid, addr: addr, data: append([]byte(nil), b...)})
	return len(b), nil
}

func (c *c05mConn) Close() error {
	c.once.Do(func() { close(c.closeCh) })
	return nil
}

type c05mLogger struct{}

func (c05mLogger) New(sessionID uint32, reqAddr string) {}
func (c05mLogger) Close(sessionID uint32, err error)     {}

// runs inside a synctest bubble
func c05mServerBubble(c *c05mCase, res map[string]any) {
	origs, frags := c05mBuild(c)
	io := &c05mSrvIO{in: make(chan *protocol.UDPMessage)}
	sm := newUDPSessionManager(io, c05mLogger{}, time.Duration(c.Timeout)*time.Millisecond)
	done := make(chan struct{})
	var runPanic string
	go func() {
		defer close(done)
		defer func() {
			if r := recover(); r != nil {
				runPanic = fmt.Sprint(r)
				for range io.in { // keep the driver going; the verdict is "panic"
				}
			}
		}()
		_ = sm.Run()
	}()
	synctest.Wait()
	time.Sleep(time.Duration(c.Off) * time.Millisecond)
	synctest.Wait()
	cnts := make([]int, 0, len(c.Ops))
	for pos, op := range c.Ops {
		io.mu.Lock()
		io.pos = pos
		io.mu.Unlock()
		if len(op) > 0 {
			switch op[0] {
			case 0:
				if f := c05mArrival(frags, op); f != nil {
					io.in <- f
				}
			case 1:
				if len(op) >= 2 && op[1] > 0 {
					time.Sleep(time.Duration(op[1]) * time.Millisecond)
				}
			}
		}
		synctest.Wait()
		cnts = append(cnts, sm.Count())
	}
	close(io.in)
	<-done
	synctest.Wait()
	io.mu.Lock()
	delivs := append([]c05mDeliv(nil), io.delivs...)
	io.mu.Unlock()
	c05mJudge(c, true, int64(idleCleanupInterval/time.Millisecond), origs, frags, delivs, cnts, res)
	if runPanic != "" {
		res["panic"] = true
		res["ok"] = false
		res["why"] = "panic in the session manager: " + runPanic
	}
}
