//go:build verif

package frag

// C05 harness: runs FragUDPMessage, Defragger.Feed, UDPMessage.Serialize and ParseUDPMessage of
// /repo's working tree on the cases in $VERIF_IN, writes raw outputs (for the comparison with the
// Coq model) and the property verdict evaluated on the implementation alone to $VERIF_OUT.

import (
	"bytes"
	"encoding/json"
	"errors"
	"io"
	"strconv"
	"testing"

	"github.com/apernet/hysteria/core/v2/internal/protocol"
)

type c05Msg struct {
	Sid uint32 `json:"sid"`
	Pid uint16 `json:"pid"`
	Fid uint8  `json:"fid"`
	Fc  uint8  `json:"fc"`
	Al  int    `json:"al"`
	Aa  uint64 `json:"aa"`
	Ab  uint64 `json:"ab"`
	Dl  int    `json:"dl"`
	Da  uint64 `json:"da"`
	Db  uint64 `json:"db"`
	Max int    `json:"max"`
}

func (c c05Msg) build() *protocol.UDPMessage {
	return &protocol.UDPMessage{
		SessionID: c.Sid, PacketID: c.Pid, FragID: c.Fid, FragCount: c.Fc,
		Addr: string(vGenData(c.Aa, c.Ab, c.Al)), Data: vGenData(c.Da, c.Db, c.Dl),
	}
}

type c05Case struct {
	K     string   `json:"k"`
	M     c05Msg   `json:"m"`
	Msgs  []c05Msg `json:"msgs"`
	Order [][2]int `json:"order"`
	Buf   int      `json:"buf"`
	Hex   string   `json:"hex"`
}

// summary of a message: sid pid fid fcount alen adigest dlen ddigest
func c05Sum(m *protocol.UDPMessage) []uint64 {
	return []uint64{
		uint64(m.SessionID), uint64(m.PacketID), uint64(m.FragID), uint64(m.FragCount),
		uint64(len(m.Addr)), vDigest([]byte(m.Addr)), uint64(len(m.Data)), vDigest(m.Data),
	}
}

func TestVerifC05(t *testing.T) {
	vParams(t, [][3]string{
		{"MaxAddressLength", "N", strconv.Itoa(protocol.MaxAddressLength)},
		{"MaxMessageLength", "N", strconv.Itoa(protocol.MaxMessageLength)},
		{"MaxPaddingLength", "N", strconv.Itoa(protocol.MaxPaddingLength)},
		{"MaxDatagramFrameSize", "N", strconv.Itoa(protocol.MaxDatagramFrameSize)},
		{"MaxUDPSize", "N", strconv.Itoa(protocol.MaxUDPSize)},
	})
	out := vOpenOut(t, "VERIF_OUT")
	defer out.Close()
	for i, raw := range vReadCases(t) {
		var c c05Case
		if err := json.Unmarshal(raw, &c); err != nil {
			t.Fatal(err)
		}
		res := map[string]any{"i": i, "k": c.K}
		switch c.K {
		case "frag":
			c05Frag(c, res)
		case "seq":
			c05Seq(c, res)
		case "wire":
			c05Wire(c, res)
		case "parse":
			c05Parse(c, res)
		default:
			t.Fatalf("unknown case kind %q", c.K)
		}
		out.Emit(res)
	}
}

func c05Frag(c c05Case, res map[string]any) {
	m := c.M.build()
	var frags []protocol.UDPMessage
	p, msg := vCatch(func() { frags = FragUDPMessage(m, c.M.Max) })
	res["panic"] = p
	if p {
		res["ok"] = false
		res["why"] = "panic: " + msg
		return
	}
	sums := make([][]uint64, 0, len(frags))
	for i := range frags {
		sums = append(sums, c05Sum(&frags[i]))
	}
	res["frags"] = sums
	// property verdict on the implementation alone
	orig := c.M.build()
	ok, why := true, ""
	fail := func(s string) {
		if ok {
			ok, why = false, s
		}
	}
	if orig.Size() <= c.M.Max {
		if len(frags) != 1 || !c05Same(&frags[0], orig) || frags[0].FragID != orig.FragID || frags[0].FragCount != orig.FragCount {
			fail("message that fits is not sent whole and unchanged")
		}
	} else {
		if len(frags) > 255 {
			fail("more than 255 fragments")
		}
		var cat []byte
		for i := range frags {
			f := &frags[i]
			if f.Size() > c.M.Max {
				fail("fragment larger than the limit")
			}
			if f.SessionID != orig.SessionID || f.PacketID != orig.PacketID || f.Addr != orig.Addr {
				fail("fragment header differs from the message")
			}
			if int(f.FragID) != i || int(f.FragCount) != len(frags) {
				fail("fragment id/count wrong")
			}
			if len(f.Data) == 0 {
				fail("empty fragment")
			}
			cat = append(cat, f.Data...)
		}
		if len(frags) > 0 && !bytes.Equal(cat, orig.Data) {
			fail("fragments do not concatenate to the payload")
		}
		// a message that could be sent in <= 255 fitting fragments must not be dropped
		budget := c.M.Max - orig.HeaderSize()
		if len(frags) == 0 && budget > 0 && len(orig.Data) <= 255*budget {
			fail("message discarded although it fits in 255 fragments")
		}
	}
	res["ok"] = ok
	res["why"] = why
}

func c05Same(a, b *protocol.UDPMessage) bool {
	return a.SessionID == b.SessionID && a.PacketID == b.PacketID && a.Addr == b.Addr && bytes.Equal(a.Data, b.Data)
}

func c05Seq(c c05Case, res map[string]any) {
	var all [][]protocol.UDPMessage
	origs := make([]*protocol.UDPMessage, len(c.Msgs))
	pf, pmsg := vCatch(func() {
		for i, mc := range c.Msgs {
			origs[i] = mc.build()
			all = append(all, FragUDPMessage(mc.build(), mc.Max))
		}
	})
	if pf {
		res["panic"] = true
		res["ok"] = false
		res["why"] = "panic in FragUDPMessage: " + pmsg
		return
	}
	d := &Defragger{}
	emits := [][]uint64{}
	ok, why := true, ""
	distinct := true
	seen := map[uint16]bool{}
	for _, mc := range c.Msgs {
		if seen[mc.Pid] {
			distinct = false
		}
		seen[mc.Pid] = true
	}
	p, msg := vCatch(func() {
		for pos, o := range c.Order {
			fs := all[o[0]]
			if len(fs) == 0 {
				continue
			}
			f := fs[o[1]%len(fs)] // a fresh copy per arrival, as if parsed from the wire
			f.Data = append([]byte(nil), f.Data...)
			r := d.Feed(&f)
			if r != nil {
				s := append([]uint64{uint64(pos)}, c05Sum(r)...)
				emits = append(emits, s)
				if distinct {
					found := false
					for _, og := range origs {
						if c05Same(r, og) && r.FragID == 0 && r.FragCount == 1 {
							found = true
						}
					}
					if !found && ok {
						ok, why = false, "reassembler emitted a message that was not sent (position "+strconv.Itoa(pos)+")"
					}
				}
			}
		}
	})
	res["panic"] = p
	if p {
		ok, why = false, "panic in Feed: "+msg
	}
	res["emits"] = emits
	// completeness: when the order consists of fragments of ONE split message, each at least once,
	// exactly one message must come out (checked by the generator flag "single")
	res["ok"] = ok
	res["why"] = why
}

func c05Wire(c c05Case, res map[string]any) {
	m := c.M.build()
	buf := make([]byte, c.Buf)
	var n int
	p, msg := vCatch(func() { n = m.Serialize(buf) })
	res["panic"] = p
	if p {
		res["ok"] = false
		res["why"] = "panic in Serialize: " + msg
		return
	}
	res["n"] = n
	res["hsz"] = m.HeaderSize()
	ok, why := true, ""
	if n >= 0 {
		res["dg"] = vDigest(buf[:n])
		wire := append([]byte(nil), buf[:n]...)
		var pm *protocol.UDPMessage
		var err error
		p2, msg2 := vCatch(func() { pm, err = protocol.ParseUDPMessage(wire[:n:n]) })
		if p2 {
			res["panic"] = true
			ok, why = false, "panic in ParseUDPMessage: "+msg2
		} else if err != nil {
			res["perr"] = c05ErrClass(err)
			if len(m.Addr) >= 1 && len(m.Addr) <= protocol.MaxMessageLength && len(m.Data) >= 1 {
				ok, why = false, "serialized message does not parse back: "+err.Error()
			}
		} else {
			res["pm"] = c05Sum(pm)
			if !c05Same(pm, m) || pm.FragID != m.FragID || pm.FragCount != m.FragCount {
				ok, why = false, "parse(serialize(m)) != m"
			}
		}
	}
	res["ok"] = ok
	res["why"] = why
}

func c05ErrClass(err error) string {
	if errors.Is(err, io.EOF) || errors.Is(err, io.ErrUnexpectedEOF) {
		return "eof"
	}
	return "invalid"
}

func c05Parse(c c05Case, res map[string]any) {
	b := vUnhex(c.Hex)
	var pm *protocol.UDPMessage
	var err error
	p, msg := vCatch(func() { pm, err = protocol.ParseUDPMessage(b) })
	res["panic"] = p
	res["ok"] = !p
	res["why"] = ""
	if p {
		res["why"] = "panic in ParseUDPMessage: " + msg
		return
	}
	if err != nil {
		res["perr"] = c05ErrClass(err)
	} else {
		res["pm"] = c05Sum(pm)
	}
}
