//go:build verif

package client

// C06 harness, client half of the end-to-end class: the REAL clientImpl.TCP and tcpConn.Read of /repo's working tree
// on a real QUIC stream (loopback, one raw quic-go connection for the whole run).  The peer of the stream is a raw
// quic-go listener that plays the server's end of one proxied connection: it takes the request off the stream with
// quicvarint.Read + protocol.ReadTCPRequest and then writes exactly the bytes the server half of the same case
// (level (a), package server, c06_test.go) put on its fake stream - the response frame the real WriteTCPResponse
// produced there, then the Down sink - in the scripted write sizes, optionally only a prefix of them, and ends the
// stream with FIN or with a reset.  The application reads until the first error.
//
// Reported per case: how TCP() ended (ok / DialError msg / error class), the bytes the application got (length,
// digest), how its Reads ended, the address the peer parsed; and the verdict of the property on the implementation
// alone: after a complete success response the application gets a prefix of the bytes behind the frame (all of them
// and then EOF when the stream ended with FIN), after a complete failure response a DialError carrying the message -
// from TCP() without fast open, from the first Read with it - and no byte; while the response is incomplete, no byte.

import (
	"context"
	"crypto/tls"
	"encoding/json"
	"errors"
	"fmt"
	"io"
	"net"
	"strconv"
	"testing"
	"time"

	coreErrs "github.com/apernet/hysteria/core/v2/errors"
	"github.com/apernet/hysteria/core/v2/internal/protocol"
	"github.com/apernet/quic-go"
	"github.com/apernet/quic-go/quicvarint"
)

type c06cCase struct {
	K      string `json:"k"`
	FO     bool   `json:"fo"`
	Addr   string `json:"addr"`
	Frame  string `json:"frame"` // hex: the response frame the server half wrote
	OK     bool   `json:"ok"`    // what that frame says (as the server half called WriteTCPResponse)
	Msg    string `json:"msg"`
	A      uint64 `json:"a"` // the bytes behind the frame: byte i = a*i+b mod 256, n of them
	B      uint64 `json:"b"`
	N      int    `json:"n"`
	Cut    int    `json:"cut"`    // only the first cut bytes of frame ++ data are served (-1: all)
	Chunks []int  `json:"chunks"` // sizes of the peer's Writes (cycled)
	End    string `json:"end"`    // "fin" | "reset"
	Bsz    int    `json:"bsz"`    // len of the buffer the application reads with
	// read-deadline histories: the peer stops before byte offset Pauses[i] of what it serves (0 = before the response,
	// len(frame) = response complete and no data yet, larger = inside the data; an offset inside the response frame =
	// the response arrives in two parts) and goes on only after a Read of the application has failed with a deadline
	// error; the application reads with SetReadDeadline(now + To ms), retries after a timeout (the usual poll pattern)
	// and stops at the first error that is not a timeout
	Pauses []int `json:"pauses"`
	To     int   `json:"to"`  // deadline (ms) of the polls at a pause before anything was served (nothing is in flight then)
	To2    int   `json:"to2"` // deadline (ms) of the polls at the later pauses (what was served before must have arrived by then)
}

func c06cDigest(b []byte) uint64 {
	var h uint64
	for _, c := range b {
		h = (h*131 + uint64(c) + 1) & 0xffffffff
	}
	return h
}

// class of an error as the model names them: eof, short, invalid, reset (a stream reset), timeout, other:...
func c06cClass(err error) (string, string) {
	var de coreErrs.DialError
	var pe coreErrs.ProtocolError
	var se *quic.StreamError
	var ne net.Error
	switch {
	case err == nil:
		return "nil", ""
	case errors.As(err, &de):
		return "dial", de.Message
	case errors.Is(err, io.ErrUnexpectedEOF):
		return "short", ""
	case errors.Is(err, io.EOF):
		return "eof", ""
	case errors.As(err, &pe):
		return "invalid", pe.Message
	case errors.As(err, &se):
		return "reset", ""
	case errors.As(err, &ne) && ne.Timeout():
		return "timeout", ""
	}
	return "other:" + err.Error(), ""
}

type c06cPeer struct {
	addr string
	ft   uint64
	err  string
}

func TestVerifC06Client(t *testing.T) {
	out := vOpenOut(t, "VERIF_OUT")
	defer out.Close()
	cases := vReadCases(t)
	cert, err := tls.LoadX509KeyPair("../internal/integration_tests/test.crt", "../internal/integration_tests/test.key")
	if err != nil {
		t.Fatal(err)
	}
	qconf := &quic.Config{MaxIdleTimeout: 60 * time.Second, MaxIncomingStreams: 1 << 16}
	ln, err := quic.ListenAddr("127.0.0.1:0", &tls.Config{Certificates: []tls.Certificate{cert}, NextProtos: []string{"verif-c06"}}, qconf)
	if err != nil {
		t.Fatal(err)
	}
	defer ln.Close()
	type acc struct {
		c   *quic.Conn
		err error
	}
	accCh := make(chan acc, 1)
	go func() {
		c, err := ln.Accept(context.Background())
		accCh <- acc{c, err}
	}()
	ctx, cancel := context.WithTimeout(context.Background(), 20*time.Second)
	defer cancel()
	cc, err := quic.DialAddr(ctx, ln.Addr().String(), &tls.Config{InsecureSkipVerify: true, NextProtos: []string{"verif-c06"}}, qconf)
	if err != nil {
		t.Fatal(err)
	}
	defer cc.CloseWithError(0, "")
	a := <-accCh
	if a.err != nil {
		t.Fatal(a.err)
	}
	sc := a.c
	// the code under test: TCP() and the tcpConn it returns use nothing of clientImpl but conn and config.FastOpen
	for i, raw := range cases {
		var c c06cCase
		if err := json.Unmarshal(raw, &c); err != nil {
			t.Fatal(err)
		}
		res := map[string]any{"i": i, "k": c.K}
		panicked, msg := vCatch(func() { c06cRun(c, cc, sc, res) })
		if panicked {
			res["ok"], res["why"], res["panic"] = false, "panic: "+msg, true
		}
		out.Emit(res)
	}
}

func c06cRun(c c06cCase, cc, sc *quic.Conn, res map[string]any) {
	frame := vUnhex(c.Frame)
	data := vGenData(c.A, c.B, c.N)
	all := append(append([]byte(nil), frame...), data...)
	served := all
	if c.Cut >= 0 && c.Cut < len(all) {
		served = all[:c.Cut]
	}
	// pauses the peer makes (sorted, within what is served; without fast open TCP() itself waits for the whole response,
	// with no deadline, so only pauses behind the frame make sense there)
	var pauses []int
	for _, x := range c.Pauses {
		if x >= 0 && x <= len(served) && (c.FO || x >= len(frame)) && (len(pauses) == 0 || x > pauses[len(pauses)-1]) {
			pauses = append(pauses, x)
		}
	}
	cont := make([]chan struct{}, len(pauses))
	for i := range cont {
		cont[i] = make(chan struct{})
	}
	peerCh := make(chan c06cPeer, 1)
	go func() {
		var p c06cPeer
		defer func() { peerCh <- p }()
		actx, cancel := context.WithTimeout(context.Background(), 10*time.Second)
		defer cancel()
		st, err := sc.AcceptStream(actx)
		if err != nil {
			p.err = "accept: " + err.Error()
			return
		}
		ft, err := quicvarint.Read(quicvarint.NewReader(st))
		if err != nil {
			p.err = "frame type: " + err.Error()
			return
		}
		p.ft = ft
		addr, err := protocol.ReadTCPRequest(st)
		if err != nil {
			p.err = "request: " + err.Error()
			return
		}
		p.addr = addr
		rest := served
		off, pi := 0, 0
		for k := 0; ; k++ {
			for pi < len(pauses) && pauses[pi] <= off {
				if pauses[pi] == off {
					select {
					case <-cont[pi]:
					case <-time.After(20 * time.Second):
						p.err = "the application never reported a timeout"
						return
					}
				}
				pi++
			}
			if len(rest) == 0 {
				break
			}
			n := len(rest)
			if len(c.Chunks) > 0 {
				if w := c.Chunks[k%len(c.Chunks)]; w > 0 && w < n {
					n = w
				}
			}
			if pi < len(pauses) && pauses[pi] < off+n {
				n = pauses[pi] - off
			}
			if _, err := st.Write(rest[:n]); err != nil {
				p.err = "write: " + err.Error()
				return
			}
			rest = rest[n:]
			off += n
		}
		if c.End == "reset" {
			st.CancelWrite(7)
		} else {
			_ = st.Close()
		}
		st.CancelRead(0)
	}()

	cl := &clientImpl{config: &Config{FastOpen: c.FO}, conn: cc}
	conn, terr := cl.TCP(c.Addr)
	tcls, tmsg := c06cClass(terr)
	res["tcp"], res["tcp_msg"] = tcls, tmsg
	var got []byte
	fcls, fmsg := "", ""
	nreads := 0
	timeouts := 0
	if terr == nil {
		bsz := c.Bsz
		if bsz <= 0 {
			bsz = 4096
		}
		buf := make([]byte, bsz)
		to0 := time.Duration(c.To) * time.Millisecond
		if to0 <= 0 {
			to0 = 20 * time.Millisecond
		}
		to2 := time.Duration(c.To2) * time.Millisecond
		if to2 <= 0 {
			to2 = 150 * time.Millisecond
		}
		// one pause of the peer after the other: poll with a short deadline until a Read times out, then let the peer go on
	poll:
		for i := range pauses {
			to := to2
			if pauses[i] == 0 {
				to = to0
			}
			for {
				_ = conn.SetReadDeadline(time.Now().Add(to))
				n, rerr := conn.Read(buf)
				nreads++
				got = append(got, buf[:n]...)
				if rerr != nil {
					if cls, _ := c06cClass(rerr); cls == "timeout" {
						timeouts++
						close(cont[i])
						break
					}
					fcls, fmsg = c06cClass(rerr)
					for j := i; j < len(pauses); j++ {
						close(cont[j])
					}
					break poll
				}
				if len(got) > len(all)+16 {
					fcls = "overrun"
					for j := i; j < len(pauses); j++ {
						close(cont[j])
					}
					break poll
				}
			}
		}
		_ = conn.SetReadDeadline(time.Now().Add(10 * time.Second))
		for fcls == "" {
			n, rerr := conn.Read(buf)
			nreads++
			got = append(got, buf[:n]...)
			if rerr != nil {
				fcls, fmsg = c06cClass(rerr)
				break
			}
			if len(got) > len(all)+16 {
				fcls = "overrun"
				break
			}
		}
		_ = conn.Close()
	} else {
		for i := range cont {
			close(cont[i])
		}
	}
	p := <-peerCh
	res["final"], res["final_msg"] = fcls, fmsg
	res["got"] = []uint64{uint64(len(got)), c06cDigest(got)}
	res["reads"] = nreads
	res["timeouts"] = timeouts
	res["pauses"] = pauses
	res["peer_err"], res["peer_addr_ok"] = p.err, p.addr == c.Addr && p.ft == protocol.FrameTypeTCPRequest
	res["served"] = len(served)

	// ---- verdict, on the implementation alone
	ok, why := true, ""
	fail := func(f string, a ...any) {
		if ok {
			ok, why = false, fmt.Sprintf(f, a...)
		}
	}
	if p.err != "" {
		res["skip"] = "peer: " + p.err
	}
	if p.err == "" && (p.addr != c.Addr || p.ft != protocol.FrameTypeTCPRequest) {
		fail("the request TCP() wrote was parsed as frame type %d address %q, the application asked for %q", p.ft, p.addr, c.Addr)
	}
	// a reset may overtake bytes the peer has already written (RESET_STREAM discards what was not delivered): with a
	// reset at the end, failing with the reset at an earlier point than the bytes served would allow is no violation
	early := c.End == "reset" && (tcls == "reset" || fcls == "reset")
	complete := len(served) >= len(frame)
	behind := []byte{}
	if complete {
		behind = served[len(frame):]
	}
	switch {
	case !complete:
		// the response has not arrived whole: no byte may reach the application, and no DialError
		if len(got) > 0 {
			fail("only %d of the %d bytes of the response frame arrived, yet the application read %d bytes", len(served), len(frame), len(got))
		}
		if tcls == "dial" || fcls == "dial" {
			fail("a DialError was reported although the response frame was incomplete (%d of %d bytes)", len(served), len(frame))
		}
		if terr == nil && !c.FO {
			fail("TCP() without fast open succeeded on an incomplete response frame")
		}
	case !c.OK:
		if len(got) > 0 {
			fail("failure response: the application read %d bytes", len(got))
		}
		if early {
			break
		}
		if c.FO {
			if terr != nil {
				fail("fast open: TCP() failed with %s before any Read", tcls)
			} else if fcls != "dial" || fmsg != c.Msg {
				fail("fast open: the first Read ended with %s %q, the server's dial error was %q", fcls, fmsg, c.Msg)
			}
		} else if tcls != "dial" || tmsg != c.Msg {
			fail("TCP() ended with %s %q, the server's dial error was %q", tcls, tmsg, c.Msg)
		}
	default:
		if terr != nil && !early {
			fail("TCP() failed with %s after a complete success response", tcls)
		}
		if len(got) > len(behind) || string(got) != string(behind[:len(got)]) {
			k := 0
			for k < len(got) && k < len(behind) && got[k] == behind[k] {
				k++
			}
			fail("the %d bytes the application read are not a prefix of the %d bytes behind the response frame (first difference at offset %d)", len(got), len(behind), k)
		}
		if c.End == "fin" && terr == nil {
			if len(got) != len(behind) {
				fail("the stream ended with FIN after %d bytes behind the response, the application read %d", len(behind), len(got))
			}
			if fcls != "eof" {
				fail("the stream ended with FIN, the application's Reads ended with %s", fcls)
			}
		}
	}
	res["ok"], res["why"], res["detail"] = ok, c06cStable(why), why
}

func c06cStable(s string) string {
	out := make([]byte, 0, len(s))
	prev := false
	for i := 0; i < len(s); i++ {
		if s[i] >= '0' && s[i] <= '9' {
			if !prev {
				out = append(out, '#')
			}
			prev = true
			continue
		}
		prev = false
		out = append(out, s[i])
	}
	return string(out)
}

var _ = strconv.Itoa
