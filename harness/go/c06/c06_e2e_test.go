//go:build verif

package integration_tests

// C06 harness, level (b): a real server.NewServer and a real client.NewClient over loopback QUIC, the
// real handleTCPRequest (request parse, dial, response, two-way copy, teardown, CloseWithError on a
// veto) and the real client.TCP / tcpConn.Read (fast open on and off), against a scripted target
// (server Outbound) and a scripted traffic logger.  The verdict of the property is computed on what the
// endpoints saw: bytes delivered vs bytes sent, LogTraffic totals vs bytes delivered, the dial error
// message, and whether the client's QUIC connection is gone after a veto.
// The client writes its first chunk in the same goroutine, immediately after TCP() returns: with fast open
// that is before the server can have parsed the request, so the early payload reaches the server's stream
// buffer together with / right behind the request (the situation a read-ahead in the request phase loses
// bytes in).  Payloads are aperiodic, so a missing head cannot pass for a prefix.  If the target has not
// received everything a few seconds after the client finished writing, the client closes its side (FIN behind
// the data; the target has not sent anything and is not going to end, so the client is the side that finishes
// first) and the run is judged on what the target holds once the server has torn the relay down: bytes that are
// not a prefix of what was sent, or - the Up direction having ended on the client's EOF - fewer bytes than the
// client wrote, are a verdict; a relay that is merely slow on an overloaded machine still delivers everything
// ahead of the FIN.
// Infrastructure trouble (no loopback, handshake timeout on an overloaded machine) is reported as
// "skip", never as a verdict.

import (
	"bytes"
	"encoding/json"
	"errors"
	"fmt"
	"io"
	"net"
	"sync"
	"testing"
	"time"

	"github.com/apernet/hysteria/core/v2/client"
	coreErrs "github.com/apernet/hysteria/core/v2/errors"
	"github.com/apernet/hysteria/core/v2/server"
)

type c06eCase struct {
	K        string `json:"k"`
	FastOpen bool   `json:"fastopen"`
	Logger   bool   `json:"logger"`
	DialErr  string `json:"dial_err"` // non-empty: Outbound.TCP fails with this message
	UpN      int    `json:"up_n"`     // bytes the client sends
	UpChunk  int    `json:"up_chunk"`
	DownN    int    `json:"down_n"` // bytes the target sends
	DownChk  int    `json:"down_chunk"`
	VetoAt   int    `json:"veto_at"` // index of the LogTraffic call that returns false; -1: never
	// "" = index over all LogTraffic calls; "up" / "down" = index over the calls of that direction only (tx > 0 / rx > 0),
	// so that the veto hits the Up loop / the Down loop whatever the chunking of the relay's reads is
	VetoDir string `json:"veto_dir"`
	// configuration dimension: an EventLogger is configured on the server next to the TrafficLogger (server.go calls it
	// between the return of the copy and the teardown: TCPError(addr, id, reqAddr, err))
	EvLog bool `json:"evlog"`
	Ua       uint64 `json:"ua"`
	Ub       uint64 `json:"ub"`
	Da       uint64 `json:"da"`
	Db       uint64 `json:"db"`
	// one-way upload histories: TCP(); Write(payload) in chunks; Close() - the client never calls Read
	NoRead     bool `json:"no_read"`
	DialDelay  int  `json:"dial_delay"`  // milliseconds Outbound.TCP takes to connect to the target
	CloseDelay int  `json:"close_delay"` // milliseconds between the last Write and Close
	// hooked requests: a RequestHook intercepts the request (server.go:282-299): the server answers "ok" BEFORE it
	// dials, hands the stream to the hook, which may read the head of the client's payload (returned as putback and
	// written to the target ahead of the relay), rewrite the address, or abort
	Hook *c06eHookCase `json:"hook"`
}

type c06eHookCase struct {
	Putback int    `json:"putback"` // bytes the hook reads off the stream and returns as putback (0: it reads nothing)
	Rewrite string `json:"rewrite"` // non-empty: the hook replaces the request address with this one
	Err     bool   `json:"err"`     // hook.TCP returns an error (the server closes the stream without dialing)
}

// c06eHook: a scripted server.RequestHook
type c06eHook struct {
	mu    sync.Mutex
	h     c06eHookCase
	calls int
	read  []byte // what it took off the stream
	seen  string // the address it was shown
}

func (k *c06eHook) Check(isUDP bool, reqAddr string) bool { return !isUDP && reqAddr != c06eProbeAddr }
func (k *c06eHook) TCP(stream server.HyStream, reqAddr *string) ([]byte, error) {
	var buf []byte
	if k.h.Putback > 0 {
		buf = make([]byte, k.h.Putback)
		_ = stream.SetReadDeadline(time.Now().Add(6 * time.Second))
		n, _ := io.ReadFull(stream, buf)
		_ = stream.SetReadDeadline(time.Time{})
		buf = buf[:n]
	}
	k.mu.Lock()
	k.calls++
	k.read = append([]byte(nil), buf...)
	k.seen = *reqAddr
	k.mu.Unlock()
	if k.h.Rewrite != "" {
		*reqAddr = k.h.Rewrite
	}
	if k.h.Err {
		return nil, errors.New("hook says no")
	}
	return buf, nil
}
func (k *c06eHook) UDP(data []byte, reqAddr *string) error { return nil }

const c06eProbeAddr = "probe.example:80"

type c06eAuth struct{}

func (c06eAuth) Authenticate(addr net.Addr, auth string, tx uint64) (bool, string) { return true, "u1" }

// c06eEvents: a recording server.EventLogger
type c06eEvents struct {
	mu         sync.Mutex
	connect    int
	disconnect int
	tcpReq     []string
	tcpErr     []bool // per TCPError call (probes excluded): err != nil
	discCh     chan struct{}
	discOne    sync.Once
}

func (e *c06eEvents) Connect(addr net.Addr, id string, tx uint64) {
	e.mu.Lock()
	e.connect++
	e.mu.Unlock()
}
func (e *c06eEvents) Disconnect(addr net.Addr, id string, err error) {
	e.mu.Lock()
	e.disconnect++
	e.mu.Unlock()
	e.discOne.Do(func() { close(e.discCh) })
}
func (e *c06eEvents) TCPRequest(addr net.Addr, id, reqAddr string) {
	if reqAddr == c06eProbeAddr {
		return
	}
	e.mu.Lock()
	e.tcpReq = append(e.tcpReq, reqAddr)
	e.mu.Unlock()
}
func (e *c06eEvents) TCPError(addr net.Addr, id, reqAddr string, err error) {
	if reqAddr == c06eProbeAddr {
		return
	}
	e.mu.Lock()
	e.tcpErr = append(e.tcpErr, err != nil)
	e.mu.Unlock()
}
func (e *c06eEvents) UDPRequest(addr net.Addr, id string, sessionID uint32, reqAddr string) {}
func (e *c06eEvents) UDPError(addr net.Addr, id string, sessionID uint32, err error)      {}

type c06eLogger struct {
	mu      sync.Mutex
	vetoAt  int
	vetoDir string
	dcalls  [2]int // calls per direction: 0 = up (tx > 0), 1 = down
	vetoUp  bool   // direction of the vetoed chunk
	calls   int
	tx, rx  uint64 // approved totals
	vetoed  bool
	vetoTx  uint64
	vetoRx  uint64
	badArgs string
}

func (l *c06eLogger) LogTraffic(id string, tx, rx uint64) bool {
	l.mu.Lock()
	defer l.mu.Unlock()
	if id != "u1" || (tx > 0) == (rx > 0) {
		l.badArgs = fmt.Sprintf("LogTraffic(%q,%d,%d)", id, tx, rx)
	}
	i := l.calls
	l.calls++
	d := 0
	if rx > 0 {
		d = 1
	}
	di := l.dcalls[d]
	l.dcalls[d]++
	hit := l.vetoAt >= 0 && i >= l.vetoAt
	switch l.vetoDir {
	case "up":
		hit = l.vetoAt >= 0 && (l.vetoed || (d == 0 && di >= l.vetoAt))
	case "down":
		hit = l.vetoAt >= 0 && (l.vetoed || (d == 1 && di >= l.vetoAt))
	}
	if hit {
		if !l.vetoed {
			l.vetoed = true
			l.vetoTx, l.vetoRx = tx, rx
			l.vetoUp = d == 0
		}
		return false
	}
	l.tx += tx
	l.rx += rx
	return true
}
func (l *c06eLogger) LogOnlineState(id string, online bool)                      {}
func (l *c06eLogger) TraceStream(stream server.HyStream, stats *server.StreamStats) {}
func (l *c06eLogger) UntraceStream(stream server.HyStream)                       {}

// scripted target: collects what the relay writes to it; once it has received want bytes (or at once if
// want == 0) it sends its own bytes in chunks and then reports EOF.
type c06eTarget struct {
	mu       sync.Mutex
	got      bytes.Buffer
	want     int
	ready    chan struct{}
	readyOne sync.Once
	send     []byte
	chunk    int
	closed   chan struct{}
	closeOne sync.Once
}

func (t *c06eTarget) Read(p []byte) (int, error) {
	select {
	case <-t.ready:
	case <-t.closed:
		return 0, errors.New("target closed")
	}
	t.mu.Lock()
	defer t.mu.Unlock()
	if len(t.send) == 0 {
		return 0, io.EOF
	}
	k := t.chunk
	if k > len(t.send) {
		k = len(t.send)
	}
	if k > len(p) {
		k = len(p)
	}
	copy(p, t.send[:k])
	t.send = t.send[k:]
	return k, nil
}

func (t *c06eTarget) Write(p []byte) (int, error) {
	select {
	case <-t.closed:
		return 0, errors.New("target closed")
	default:
	}
	t.mu.Lock()
	t.got.Write(p)
	n := t.got.Len()
	t.mu.Unlock()
	if n >= t.want {
		t.readyOne.Do(func() { close(t.ready) })
	}
	return len(p), nil
}
func (t *c06eTarget) Close() error                       { t.closeOne.Do(func() { close(t.closed) }); return nil }
func (t *c06eTarget) LocalAddr() net.Addr                { return &net.TCPAddr{} }
func (t *c06eTarget) RemoteAddr() net.Addr               { return &net.TCPAddr{} }
func (t *c06eTarget) SetDeadline(time.Time) error        { return nil }
func (t *c06eTarget) SetReadDeadline(time.Time) error    { return nil }
func (t *c06eTarget) SetWriteDeadline(time.Time) error   { return nil }

type c06eOutbound struct {
	mu      sync.Mutex
	dialErr string
	target  *c06eTarget
	dials   int
	delay   time.Duration
	addrs   []string // the addresses it was asked to dial (probes excluded)
}

func (o *c06eOutbound) TCP(reqAddr string) (net.Conn, error) {
	if reqAddr == c06eProbeAddr {
		// liveness probe of the harness: a target that has nothing to say and ends at once
		t := &c06eTarget{ready: make(chan struct{}), closed: make(chan struct{})}
		close(t.ready)
		return t, nil
	}
	if o.delay > 0 {
		time.Sleep(o.delay) // a target that takes a while to connect to
	}
	o.mu.Lock()
	defer o.mu.Unlock()
	o.dials++
	o.addrs = append(o.addrs, reqAddr)
	if o.dialErr != "" {
		return nil, errors.New(o.dialErr)
	}
	return o.target, nil
}

func (o *c06eOutbound) dialed() int {
	o.mu.Lock()
	defer o.mu.Unlock()
	return o.dials
}
func (o *c06eOutbound) UDP(reqAddr string) (server.UDPConn, error) { return nil, errors.New("no udp") }
func (o *c06eOutbound) CheckUDP(reqAddr string) error              { return nil }

// aperiodic deterministic payload (an xorshift stream seeded by a, b)
func c06ePayload(a, b uint64, n int) []byte {
	x := a*0x9e3779b97f4a7c15 + b*0xbf58476d1ce4e5b9 + 0x94d049bb133111eb
	out := make([]byte, n)
	for i := range out {
		x ^= x << 13
		x ^= x >> 7
		x ^= x << 17
		out[i] = byte(x >> 32)
	}
	return out
}

func c06eRun(c c06eCase, res map[string]any) {
	skip := func(why string, err error) {
		res["skip"] = fmt.Sprintf("%s: %v", why, err)
		res["ok"] = true
		res["why"] = ""
	}
	fail := func(f string, a ...any) {
		res["ok"] = false
		res["detail"] = fmt.Sprintf(f, a...)
		res["why"] = c06eStable(fmt.Sprintf(f, a...))
	}
	udpConn, err := net.ListenUDP("udp", &net.UDPAddr{IP: net.IPv4(127, 0, 0, 1), Port: 0})
	if err != nil {
		skip("listen", err)
		return
	}
	up := c06ePayload(c.Ua, c.Ub, c.UpN)
	down := c06ePayload(c.Da, c.Db, c.DownN)
	target := &c06eTarget{want: c.UpN, ready: make(chan struct{}), send: append([]byte(nil), down...), chunk: c.DownChk, closed: make(chan struct{})}
	if c.UpN == 0 {
		target.readyOne.Do(func() { close(target.ready) })
	}
	ob := &c06eOutbound{dialErr: c.DialErr, target: target, delay: time.Duration(c.DialDelay) * time.Millisecond}
	logger := &c06eLogger{vetoAt: c.VetoAt, vetoDir: c.VetoDir}
	cfg := &server.Config{TLSConfig: serverTLSConfig(), Conn: udpConn, Outbound: ob, Authenticator: c06eAuth{}}
	if c.Logger {
		cfg.TrafficLogger = logger
	}
	var events *c06eEvents
	if c.EvLog {
		events = &c06eEvents{discCh: make(chan struct{})}
		cfg.EventLogger = events
	}
	res["evlog"] = c.EvLog
	var hook *c06eHook
	if c.Hook != nil {
		hook = &c06eHook{h: *c.Hook}
		cfg.RequestHook = hook
	}
	s, err := server.NewServer(cfg)
	if err != nil {
		skip("server", err)
		return
	}
	defer s.Close()
	go s.Serve()
	cl, _, err := client.NewClient(&client.Config{ServerAddr: udpConn.LocalAddr(), TLSConfig: client.TLSConfig{InsecureSkipVerify: true}, FastOpen: c.FastOpen})
	if err != nil {
		skip("client", err)
		return
	}
	defer cl.Close()

	// bounded: a server that never answers (a request parser waiting for more than the request) must not hang the run
	type tcpRes struct {
		conn net.Conn
		err  error
	}
	tch := make(chan tcpRes, 1)
	go func() {
		cn, e := cl.TCP("target.example:80")
		tch <- tcpRes{cn, e}
	}()
	var conn net.Conn
	select {
	case r := <-tch:
		conn, err = r.conn, r.err
	case <-time.After(20*time.Second + ob.delay):
		// (no verdict: the property has no liveness clause; level (a) judges what the request phase consumes)
		skip("TCP()", errors.New("no response within 20 s"))
		return
	}
	if c.NoRead && c.DialErr == "" {
		if err != nil {
			skip("TCP()", err)
			return
		}
		c06eNoRead(c, cl, conn, ob, target, logger, up, res, skip, fail)
		return
	}
	if hook != nil && (c.DialErr != "" || c.Hook.Err) {
		c06eHookedFailure(c, conn, err, hook, ob, target, logger, up, res, skip, fail)
		return
	}
	if c.DialErr != "" {
		// dial error: from TCP() without fast open, from the first Read with fast open
		if c.FastOpen {
			if err != nil {
				fail("fast open: TCP() returned %v before the response was needed", err)
				return
			}
			buf := make([]byte, 16)
			conn.SetReadDeadline(time.Now().Add(20 * time.Second))
			_, err = conn.Read(buf)
			conn.Close()
		}
		var de coreErrs.DialError
		if !errors.As(err, &de) {
			if err != nil && isTimeout(err) {
				skip("dial error read", err)
				return
			}
			fail("dial failure reached the client as %T %v, not as DialError", err, err)
			return
		}
		res["dial_msg"] = de.Message
		if de.Message != c.DialErr {
			fail("DialError carries %q, the server's message was %q", de.Message, c.DialErr)
			return
		}
		logger.mu.Lock()
		calls := logger.calls
		logger.mu.Unlock()
		if calls != 0 || target.got.Len() != 0 {
			fail("dial error but %d LogTraffic calls and %d bytes relayed", calls, target.got.Len())
			return
		}
		res["ok"] = true
		res["why"] = ""
		return
	}
	if err != nil {
		skip("TCP()", err)
		return
	}
	// the client writes its first chunk at once (fast open: the server has not answered, possibly not even parsed
	// the request yet), the rest from a goroutine, and reads until the stream ends
	first := c.UpChunk
	if first > len(up) {
		first = len(up)
	}
	var werr error
	if first > 0 {
		_, werr = conn.Write(up[:first])
	}
	wroteAll := werr == nil
	var wg sync.WaitGroup
	wg.Add(1)
	wdone := make(chan struct{})
	go func() {
		defer wg.Done()
		defer close(wdone)
		if werr != nil {
			return
		}
		for off := first; off < len(up); off += c.UpChunk {
			end := off + c.UpChunk
			if end > len(up) {
				end = len(up)
			}
			if _, err := conn.Write(up[off:end]); err != nil {
				wroteAll = false
				return
			}
		}
	}()
	// once the client has written everything the target should soon hold it; if it does not, the client finishes
	// (closes its side) so that the run ends and can be judged on what did arrive
	stalled := make(chan bool, 1)
	go func() {
		<-wdone
		deadline := time.Now().Add(4 * time.Second)
		for time.Now().Before(deadline) {
			target.mu.Lock()
			n := target.got.Len()
			target.mu.Unlock()
			if n >= len(up) {
				stalled <- false
				return
			}
			select {
			case <-target.closed:
				stalled <- false
				return
			case <-time.After(10 * time.Millisecond):
			}
		}
		conn.Close()
		stalled <- true
	}()
	var recv bytes.Buffer
	conn.SetReadDeadline(time.Now().Add(30 * time.Second))
	buf := make([]byte, 4096)
	var rerr error
	for {
		n, err := conn.Read(buf)
		recv.Write(buf[:n])
		if err != nil {
			rerr = err
			break
		}
	}
	wg.Wait()
	conn.Close()
	wasStalled := <-stalled
	tornDown := false
	if wasStalled {
		select {
		case <-target.closed:
			tornDown = true
		case <-time.After(8 * time.Second):
		}
	}
	// let the server side finish its teardown
	time.Sleep(300 * time.Millisecond)
	target.mu.Lock()
	got := append([]byte(nil), target.got.Bytes()...)
	target.mu.Unlock()
	res["stalled"] = wasStalled
	// prefix clauses first: they hold at every moment of every run, whatever else went wrong
	if len(got) > len(up) || !bytes.Equal(got, up[:len(got)]) {
		res["got"] = len(got)
		k := bytes.Index(up, got[:min(len(got), 32)])
		fail("target received %d bytes that are not a prefix of the %d sent (fast open %v; what arrived starts at offset %d of what the client sent)", len(got), len(up), c.FastOpen, k)
		return
	}
	if recv.Len() > len(down) || !bytes.Equal(recv.Bytes(), down[:recv.Len()]) {
		fail("client received %d bytes that are not a prefix of the %d sent", recv.Len(), len(down))
		return
	}
	if wasStalled {
		logger.mu.Lock()
		v := logger.vetoed
		logger.mu.Unlock()
		res["got"] = len(got)
		if tornDown && wroteAll && !v && len(got) < len(up) {
			fail("target received %d of the %d bytes the client wrote before it closed its side, the target never having ended (fast open %v): the relay ended on the client's EOF without delivering the whole stream", len(got), len(up), c.FastOpen)
			return
		}
		skip("target", fmt.Errorf("held %d of %d bytes 4 s after the client had written everything", len(got), len(up)))
		return
	}
	if rerr != nil && isTimeout(rerr) {
		skip("client read", rerr)
		return
	}
	logger.mu.Lock()
	ltx, lrx, vetoed, vtx, vrx, bad := logger.tx, logger.rx, logger.vetoed, logger.vetoTx, logger.vetoRx, logger.badArgs
	logger.mu.Unlock()
	res["recv"] = recv.Len()
	res["got"] = len(got)
	res["ltx"], res["lrx"], res["vetoed"] = ltx, lrx, vetoed
	res["rerr"] = fmt.Sprint(rerr)
	if bad != "" {
		fail("bad logger arguments: %s", bad)
		return
	}
	if len(got) > len(up) || !bytes.Equal(got, up[:len(got)]) {
		fail("target received %d bytes that are not a prefix of the %d sent", len(got), len(up))
		return
	}
	if recv.Len() > len(down) || !bytes.Equal(recv.Bytes(), down[:recv.Len()]) {
		fail("client received %d bytes that are not a prefix of the %d sent", recv.Len(), len(down))
		return
	}
	if !vetoed {
		// the target waits for all client bytes, then sends everything and finishes: both directions complete
		if len(got) != len(up) {
			fail("target received %d of %d bytes although it finished only after the client had sent everything", len(got), len(up))
			return
		}
		if recv.Len() != len(down) {
			fail("client received %d of %d bytes although the target finished writing before anything closed", recv.Len(), len(down))
			return
		}
		if rerr != io.EOF {
			fail("client stream ended with %v, not EOF", rerr)
			return
		}
	}
	pb := 0
	if hook != nil {
		// the hook saw the address the client asked for, the server dialed the address the hook left
		hook.mu.Lock()
		hcalls, hseen := hook.calls, hook.seen
		pb = len(hook.read)
		hook.mu.Unlock()
		want := "target.example:80"
		if c.Hook.Rewrite != "" {
			want = c.Hook.Rewrite
		}
		ob.mu.Lock()
		addrs := append([]string(nil), ob.addrs...)
		ob.mu.Unlock()
		res["hook_read"] = pb
		if hcalls != 1 || hseen != "target.example:80" {
			fail("the request hook was called %d times, last with address %q, for one request for target.example:#", hcalls, hseen)
			return
		}
		if len(addrs) == 0 || addrs[0] != want {
			fail("hooked request: the server dialed %q, the hook left the address %q", addrs, want)
			return
		}
	}
	if c.Logger {
		// (bytes a hook took off the stream and put back are written to the target ahead of the relay, not through the logger;
		// the accounting clause of the property is about connections no hook intercepts)
		if ltx > uint64(len(got)) || ltx+uint64(pb) < uint64(len(got)) {
			fail("logger approved tx=%d, target received %d (of which %d put back by the request hook)", ltx, len(got), pb)
			return
		}
		// what the relay wrote to the stream reaches the client unless the connection was killed by the veto
		if !vetoed && lrx != uint64(recv.Len()) {
			fail("logger approved rx=%d, client received %d", lrx, recv.Len())
			return
		}
		if vetoed && uint64(recv.Len()) > lrx {
			fail("client received %d bytes, only rx=%d approved (vetoed chunk tx=%d rx=%d forwarded)", recv.Len(), lrx, vtx, vrx)
			return
		}
	}
	res["veto_up"] = logger.vetoUp
	if events != nil {
		// what the EventLogger was told about this request (coverage and the comparison with model/C06_Events.v)
		time.Sleep(50 * time.Millisecond)
		events.mu.Lock()
		res["ev_tcp_req"], res["ev_tcp_err"], res["ev_connect"] = len(events.tcpReq), append([]bool{}, events.tcpErr...), events.connect
		events.mu.Unlock()
	}
	if !vetoed {
		// teardown of a relay that ended without a veto (server.go:337-343): target closed, stream ended (the client read
		// EOF above), and the user's QUIC connection is NOT closed: a fresh request on it is served from request to EOF
		select {
		case <-target.closed:
		case <-time.After(5 * time.Second):
			fail("the relay ended (client read to the end of the stream) but the server did not close the target connection within 5 s")
			return
		}
		perr := c06eProbe(cl)
		res["alive_after"] = perr == nil
		var ce coreErrs.ClosedError
		if perr != nil && errors.As(perr, &ce) {
			fail("no veto, yet the user's QUIC connection was closed after the relay ended (event logger %v): %v", c.EvLog, perr)
			return
		}
	}
	if vetoed {
		// the user's QUIC connection must be gone - whatever else is configured on the server (EventLogger present or
		// absent), whichever direction the vetoed chunk belonged to
		deadline := time.Now().Add(10 * time.Second)
		closed := false
		for time.Now().Before(deadline) {
			c2, err := cl.TCP("target.example:80")
			if err != nil {
				var ce coreErrs.ClosedError
				closed = errors.As(err, &ce)
				if closed {
					break
				}
			} else if c.FastOpen {
				c2.SetReadDeadline(time.Now().Add(2 * time.Second))
				// (an EOF means the request was SERVED - the scripted target has ended - so the connection is alive)
				if _, err := c2.Read(make([]byte, 1)); err != nil && err != io.EOF && !isTimeout(err) {
					var de coreErrs.DialError
					if !errors.As(err, &de) {
						closed = true
					}
				}
				c2.Close()
				if closed {
					break
				}
			} else {
				c2.Close()
			}
			time.Sleep(100 * time.Millisecond)
		}
		res["conn_closed"] = closed
		if !closed {
			dir := "Down"
			if logger.vetoUp {
				dir = "Up"
			}
			fail("veto-ignored: the logger vetoed a chunk of the %s direction (event logger configured: %v, fast open %v) but 10 s later the client's QUIC connection is still usable: new Client.TCP calls on it are served", dir, c.EvLog, c.FastOpen)
			return
		}
		if events != nil {
			// server side of the same fact: the connection's handler returned and reported the disconnect
			select {
			case <-events.discCh:
				res["ev_disconnect"] = true
			case <-time.After(5 * time.Second):
				res["ev_disconnect"] = false
				fail("veto: the client saw its connection closed but the server reported no Disconnect event within 5 s")
				return
			}
		}
	}
	res["ok"] = true
	res["why"] = ""
}

// c06eHookedFailure: a request a RequestHook intercepted, and then either the hook aborted or the dial of the target
// failed.  The server answered "ok" before it dialed (server.go:291), so TCP() has succeeded with fast open on and off
// and for the client everything that follows on the stream is payload.  No target was ever connected: the application
// must not read a single byte, its Reads end with an error or EOF (a DialError, should one arrive, must carry the
// server's message), nothing reaches a target or the logger.
func c06eHookedFailure(c c06eCase, conn net.Conn, terr error, hook *c06eHook, ob *c06eOutbound, target *c06eTarget, logger *c06eLogger,
	up []byte, res map[string]any, skip func(string, error), fail func(string, ...any)) {
	if terr != nil {
		var de coreErrs.DialError
		if errors.As(terr, &de) {
			if c.DialErr == "" || de.Message != c.DialErr {
				fail("hooked request: TCP() returned DialError %q, the dial error of the server was %q", de.Message, c.DialErr)
				return
			}
			res["ok"], res["why"] = true, ""
			return
		}
		skip("TCP() of a hooked request", terr)
		return
	}
	// the application sends (the hook may be waiting for the head of the payload); the server closes the stream at some
	// point, after which writes fail: that is not a verdict
	wdone := make(chan struct{})
	go func() {
		defer close(wdone)
		for off := 0; off < len(up); off += c.UpChunk {
			end := min(off+c.UpChunk, len(up))
			if _, err := conn.Write(up[off:end]); err != nil {
				return
			}
		}
	}()
	var recv bytes.Buffer
	conn.SetReadDeadline(time.Now().Add(20 * time.Second))
	buf := make([]byte, 4096)
	var rerr error
	for recv.Len() < 1<<20 {
		n, err := conn.Read(buf)
		recv.Write(buf[:n])
		if err != nil {
			rerr = err
			break
		}
	}
	conn.Close()
	<-wdone
	res["recv"] = recv.Len()
	res["rerr"] = fmt.Sprint(rerr)
	what := "the dial of the target failed"
	if c.Hook.Err {
		what = "the request hook aborted the request"
	}
	if recv.Len() > 0 {
		fail("hooked request, %s (no target was ever connected), fast open %v: the application read %d payload bytes", what, c.FastOpen, recv.Len())
		res["detail"] = fmt.Sprintf("%s, starting with %q", res["detail"], recv.Bytes()[:min(recv.Len(), 40)])
		return
	}
	var de coreErrs.DialError
	if errors.As(rerr, &de) && (c.DialErr == "" || de.Message != c.DialErr) {
		fail("hooked request, %s: Read returned DialError %q, the dial error of the server was %q", what, de.Message, c.DialErr)
		return
	}
	if rerr != nil && isTimeout(rerr) {
		skip("read after a hooked failure", rerr)
		return
	}
	time.Sleep(100 * time.Millisecond)
	logger.mu.Lock()
	calls := logger.calls
	logger.mu.Unlock()
	target.mu.Lock()
	tgot := target.got.Len()
	target.mu.Unlock()
	if calls != 0 || tgot != 0 {
		fail("hooked request, %s, but %d LogTraffic calls and %d bytes relayed to a target", what, calls, tgot)
		return
	}
	ob.mu.Lock()
	addrs := append([]string(nil), ob.addrs...)
	ob.mu.Unlock()
	want := "target.example:80"
	if c.Hook.Rewrite != "" {
		want = c.Hook.Rewrite
	}
	if c.Hook.Err && len(addrs) != 0 {
		fail("the request hook aborted the request, yet the server dialed %q", addrs)
		return
	}
	if !c.Hook.Err && (len(addrs) != 1 || addrs[0] != want) {
		fail("hooked request: the server dialed %q, the hook left the address %q", addrs, want)
		return
	}
	res["ok"], res["why"] = true, ""
}

// c06eNoRead: the one-way upload.  The sender opens the connection, writes its whole payload and closes, without
// ever calling Read (with fast open the connection is then closed before the client has seen the server's response);
// the target never ends by itself and the server's connect to it may take a while.  The sender finished writing before
// either side closed, so the target must receive every byte, and then the end of the stream (the server closes the
// target connection once the Up direction has read the client's FIN).
// Judged when the server has closed the target connection: what the target holds must be the whole payload.  If the
// server has not even connected to the target a few seconds after the Close, a second connection opened on the same
// client after that is served from request to EOF (so server and QUIC connection are alive and have had time), and
// the first request has still not been dialled, the request and its payload were dropped: a verdict; anything less
// conclusive is a skip.
func c06eNoRead(c c06eCase, cl client.Client, conn net.Conn, ob *c06eOutbound, target *c06eTarget, logger *c06eLogger, up []byte,
	res map[string]any, skip func(string, error), fail func(string, ...any)) {
	for off := 0; off < len(up); off += c.UpChunk {
		end := off + c.UpChunk
		if end > len(up) {
			end = len(up)
		}
		if n, err := conn.Write(up[off:end]); err != nil || n != end-off {
			conn.Close()
			skip("client write", fmt.Errorf("n=%d of %d: %v", n, end-off, err))
			return
		}
	}
	if c.CloseDelay > 0 {
		time.Sleep(time.Duration(c.CloseDelay) * time.Millisecond)
	}
	cerr := conn.Close()
	res["close_err"] = fmt.Sprint(cerr)
	held := func() []byte {
		target.mu.Lock()
		defer target.mu.Unlock()
		return append([]byte(nil), target.got.Bytes()...)
	}
	closedWithin := func(d time.Duration) bool {
		select {
		case <-target.closed:
			return true
		case <-time.After(d):
			return false
		}
	}
	closed := closedWithin(ob.delay + 3*time.Second)
	if !closed && ob.dialed() == 0 {
		// is anybody there?  a fresh connection on the same client, served from request to EOF
		pch := make(chan error, 1)
		go func() {
			pc, err := cl.TCP(c06eProbeAddr)
			if err != nil {
				pch <- err
				return
			}
			defer pc.Close()
			pc.SetReadDeadline(time.Now().Add(8 * time.Second))
			_, err = pc.Read(make([]byte, 1))
			if err == io.EOF {
				err = nil
			}
			pch <- err
		}()
		var perr error
		select {
		case perr = <-pch:
		case <-time.After(10 * time.Second):
			perr = errors.New("no answer within 10 s")
		}
		if perr != nil {
			skip("probe after an unserved upload", perr)
			return
		}
		closed = closedWithin(ob.delay + time.Second)
		if !closed && ob.dialed() == 0 {
			res["got"] = 0
			fail("one-way upload (fast open %v): the client wrote %d bytes and closed without reading; the server never connected to the target although a later connection of the same client was served from request to EOF: the request and its payload were dropped", c.FastOpen, len(up))
			return
		}
	}
	got := held()
	res["got"] = len(got)
	res["target_closed"] = closed
	if len(got) > len(up) || !bytes.Equal(got, up[:len(got)]) {
		fail("target received %d bytes that are not a prefix of the %d sent (one-way upload, fast open %v)", len(got), len(up), c.FastOpen)
		return
	}
	if !closed {
		if !closedWithin(10 * time.Second) {
			skip("one-way upload", fmt.Errorf("target connection still open 13 s after the client closed, holding %d of %d bytes", len(got), len(up)))
			return
		}
		got = held()
		res["got"] = len(got)
	}
	if !bytes.Equal(got, up) {
		fail("one-way upload (fast open %v): the client wrote %d bytes and closed without reading, the target never having ended; the server closed the target connection after delivering %d bytes: the sender finished writing before either side closed, yet the receiver did not get the whole stream", c.FastOpen, len(up), len(got))
		return
	}
	if c.Logger {
		logger.mu.Lock()
		ltx, bad := logger.tx, logger.badArgs
		logger.mu.Unlock()
		res["ltx"] = ltx
		if bad != "" {
			fail("bad logger arguments: %s", bad)
			return
		}
		if ltx != uint64(len(got)) {
			fail("logger approved tx=%d, target received %d (one-way upload)", ltx, len(got))
			return
		}
	}
	res["ok"] = true
	res["why"] = ""
}

// c06eProbe: a fresh request on the same client, served from request to EOF by a target that has nothing to say
func c06eProbe(cl client.Client) error {
	pch := make(chan error, 1)
	go func() {
		pc, err := cl.TCP(c06eProbeAddr)
		if err != nil {
			pch <- err
			return
		}
		defer pc.Close()
		pc.SetReadDeadline(time.Now().Add(8 * time.Second))
		_, err = pc.Read(make([]byte, 1))
		if err == io.EOF {
			err = nil
		}
		pch <- err
	}()
	select {
	case err := <-pch:
		return err
	case <-time.After(10 * time.Second):
		return errors.New("no answer within 10 s")
	}
}

func isTimeout(err error) bool {
	var ne net.Error
	return errors.As(err, &ne) && ne.Timeout()
}

func c06eStable(s string) string {
	out := make([]byte, 0, len(s))
	prev := false
	for i := 0; i < len(s); i++ {
		if s[i] >= '0' && s[i] <= '9' {
			if !prev {
				out = append(out, '#')
			}
			prev = true
			continue
		}
		prev = false
		out = append(out, s[i])
	}
	return string(out)
}

func TestVerifC06E2E(t *testing.T) {
	out := vOpenOut(t, "VERIF_OUT")
	defer out.Close()
	for i, raw := range vReadCases(t) {
		var c c06eCase
		if err := json.Unmarshal(raw, &c); err != nil {
			t.Fatal(err)
		}
		res := map[string]any{"i": i, "k": c.K}
		panicked, msg := vCatch(func() { c06eRun(c, res) })
		if panicked {
			res["ok"] = false
			res["why"] = "panic: " + msg
			res["panic"] = true
		}
		out.Emit(res)
	}
}
